#!/usr/bin/env python3
"""Development-time helper (never run by a check): finds, for every OPEN finding in known_findings.json, up to two
cases (seed, tier, index) that run into it, and stores them as "pins" in that file. Every run of a property re-runs the
pinned cases of its open findings (fw runner), so each listed finding is demonstrated on every run.
usage: pin_findings.py [PROP…]   (default: all properties with open findings)"""
import json, os, subprocess, sys, tempfile, collections
V = '/verif'
kf = json.load(open(f'{V}/known_findings.json'))
props = sorted({f['property'] for f in kf['findings'] if f['status'] == 'open'})
if len(sys.argv) > 1:
    props = [p for p in props if p in sys.argv[1:]]
subprocess.run(['scripts/build.sh', 'race'], cwd=V, check=True, stdout=subprocess.DEVNULL, stderr=subprocess.DEVNULL)
for prop in props:
    open_ids = [f['id'] for f in kf['findings'] if f['status'] == 'open' and f['property'] == prop]
    for f in kf['findings']:
        if f['id'] in open_ids:
            f.pop('pins', None)
    json.dump(kf, open(f'{V}/known_findings.json', 'w'), indent=1, ensure_ascii=False)
    pins = collections.defaultdict(list)
    vd = tempfile.mkdtemp(prefix='pin-')
    os.makedirs(f'{vd}/evidence'); os.makedirs(f'{vd}/replays'); os.symlink(f'{V}/known_findings.json', f'{vd}/known_findings.json')
    lst = f'{vd}/known.txt'
    def run(seed, tier):
        env = dict(os.environ, VERIF_DIR=vd, VERIF_SEED=str(seed), VERIF_LIST_KNOWN=lst)
        subprocess.run([f'{V}/bin/vcheck', 'run', prop, '--tier', tier], env=env, stdout=subprocess.DEVNULL, stderr=subprocess.DEVNULL)
        if os.path.exists(lst):
            for l in open(lst):
                fid, _, s, t, i = l.split()
                if len(pins[fid]) < 2 and (int(s), t, int(i)) not in [(p['seed'], p['tier'], p['index']) for p in pins[fid]]:
                    pins[fid].append({'seed': int(s), 'tier': t, 'index': int(i)})
            os.remove(lst)
    for seed in (1, 2, 3, 4, 5, 6):
        if all(len(pins[i]) >= 1 for i in open_ids):
            break
        run(seed, 'quick')
    if not all(len(pins[i]) >= 1 for i in open_ids) and os.environ.get('PIN_THOROUGH'):
        run(1, 'thorough')
    for f in kf['findings']:
        if f['id'] in open_ids and pins[f['id']]:
            f['pins'] = pins[f['id']]
    json.dump(kf, open(f'{V}/known_findings.json', 'w'), indent=1, ensure_ascii=False)
    print(prop, {i: pins[i] for i in open_ids})
    subprocess.run(['rm', '-rf', vd])
