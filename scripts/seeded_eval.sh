#!/bin/bash
# seeded_eval.sh <patch.diff> <name> <PROP[,PROP…]> [tier] [tests]
# Evaluates a seeded break WITHOUT touching /repo: scratch worktree of /repo HEAD + patch, harness
# built against it, checks run with a scratch VERIF_DIR (so evidence/ and replays/ of /verif are
# not overwritten). With "tests" as 5th arg also runs the repository's own test suite (v2 and
# execution modules) on the patched worktree. Prints one line per property: CAUGHT / MISSED / BROKEN.
# BASE=<commit> evaluates against that commit of /repo instead of HEAD (for a stored break whose patch no longer
# applies because a later fix: commit rewrote the code it touches).
# (Equivalent to: git -C /repo apply <patch>; scripts/check.sh <PROP>; git -C /repo checkout -- .)
set -u
PATCH=$(readlink -f "$1"); NAME=$2; PROPS=$3; TIER=${4:-quick}; TESTS=${5:-}
. /verif/scripts/env.sh
WT=/tmp/sbe-$NAME; VD=/tmp/sbe-$NAME-verif; OUT=/tmp/sbe-$NAME-bin
cleanup() { find /root/.cache/go-build -type f -amin +120 -delete 2>/dev/null; git -C /repo worktree remove --force "$WT" 2>/dev/null; rm -rf "$WT" "$VD" "$OUT"; git -C /repo worktree prune; }
trap cleanup EXIT
cleanup
git -C /repo worktree add --detach -q "$WT" "${BASE:-HEAD}" || exit 3
git -C "$WT" apply "$PATCH" || { echo "PATCH-DOES-NOT-APPLY $NAME"; exit 3; }
mkdir -p "$VD/evidence" "$VD/replays"
ln -s /verif/harness "$VD/harness"; ln -s /verif/known_findings.json "$VD/known_findings.json"; ln -s /verif/scripts "$VD/scripts"; ln -s /verif/properties.jsonl "$VD/properties.jsonl"
if [ -n "$TESTS" ]; then
  for m in v2 execution; do
    (cd "$WT/$m" && unset GOWORK && GOFLAGS= $GO test -count=1 -vet=off -timeout 25m ./... 2>&1 | grep -v "^ok\|no test files" | tail -40) > "$VD/tests-$m.log" 2>&1
    if grep -q "^FAIL\|^--- FAIL\|panic:" "$VD/tests-$m.log"; then
      # timing-sensitive packages flake on a loaded box (also on the clean tree): re-run the failed packages alone, twice
      pk=$(grep "^FAIL[[:space:]]" "$VD/tests-$m.log" | awk '{print $2}' | sort -u | sed "s#github.com/wundergraph/graphql-go-tools/$m#.#;s#github.com/wundergraph/graphql-go-tools/v2#.#" | tr '\n' ' ')
      ok=1
      for rep in 1 2; do
        (cd "$WT/$m" && unset GOWORK && GOFLAGS= $GO test -count=1 -vet=off -p 2 -timeout 25m $pk 2>&1 | tail -30) > "$VD/tests-$m-rerun$rep.log" 2>&1
        if grep -q "^FAIL\|^--- FAIL\|panic:" "$VD/tests-$m-rerun$rep.log"; then ok=0; fi
      done
      if [ $ok = 1 ] && [ -n "$pk" ]; then echo "TESTS-PASS $NAME module=$m (packages $pk failed once in the full parallel run on the loaded box and passed twice when re-run alone)";
      else echo "TESTS-FAIL $NAME module=$m"; head -20 "$VD/tests-$m.log"; fi
    else echo "TESTS-PASS $NAME module=$m"; fi
  done
fi
for P in ${PROPS//,/ }; do
  # per-property binary (the all-in-one vcheck links every property package, and other packages may be mid-edit)
  CMD=vcheck-$(echo $P | tr A-Z a-z); [ "$CMD" = vcheck-c13 ] && CMD=vcheck-c12
  REPO_DIR=$WT OUT_DIR=$OUT /verif/scripts/build.sh race $CMD >"$VD/build.log" 2>&1 || { echo "BUILD-FAIL $NAME ($CMD)"; tail -5 "$VD/build.log"; continue; }
  VERIF_DIR=$VD "$OUT/$CMD" run "$P" --tier "$TIER" > "$VD/$P.out" 2>&1; rc=$?
  nv=$(grep -c "^VIOLATION" "$VD/$P.out")
  kinds=$(grep "^ *[0-9]* × " "$VD/$P.out" | sed 's/^ *//' | cut -c1-160 | head -4 | tr '\n' ';')
  case $rc in
    0) echo "MISSED $NAME by $P (exit 0)";;
    1) echo "CAUGHT $NAME by $P violations=$nv :: $kinds";;
    *) echo "BROKEN $NAME by $P rc=$rc :: $(grep BROKEN "$VD/$P.out" | head -2 | cut -c1-200)";;
  esac
done
