#!/bin/bash
# build.sh [race]  — (re)build bin/vcheck (and bin/vcheck-race) from /repo's current working tree.
# The harness module replaces the repository modules with /repo/v2 and /repo/execution, so every
# build recompiles whatever changed there. Hooks are enabled with the build tag `verif`.
set -e
. "$(dirname "$0")/env.sh"
cd "$VERIF_DIR/harness"
cat /repo/v2/go.sum /repo/execution/go.sum /repo/go.work.sum 2>/dev/null | sort -u > go.sum
mkdir -p "$VERIF_DIR/bin"
$GO build -tags verif -o "$VERIF_DIR/bin/vcheck" ./cmd/vcheck
if [ "$1" = "race" ]; then
  $GO build -race -tags verif -o "$VERIF_DIR/bin/vcheck-race" ./cmd/vcheck
fi
