#!/bin/bash
# build.sh [race] [cmdname]  — (re)build bin/<cmdname> (default vcheck) and, with "race", bin/<cmdname>-race
# from /repo's current working tree. The harness module replaces the repository modules with
# /repo/v2 and /repo/execution, so every build recompiles whatever changed there. Hooks are enabled
# with the build tag `verif`.
# REPO_DIR=<dir> builds against another checkout of the repository instead (scratch worktrees used
# for seeded-break self tests); OUT_DIR=<dir> puts the binaries elsewhere.
set -e
. "$(dirname "$0")/env.sh"
cd "$VERIF_DIR/harness"
REPO_DIR=${REPO_DIR:-/repo}
OUT_DIR=${OUT_DIR:-$VERIF_DIR/bin}
CMD=${2:-vcheck}
mkdir -p "$OUT_DIR"
MODFLAG=""
if [ "$REPO_DIR" != "/repo" ]; then
  tmpmod=$(mktemp -d /tmp/vmod.XXXXXX)
  sed "s#=> /repo/#=> $REPO_DIR/#" go.mod > "$tmpmod/go.mod"
  cat "$REPO_DIR/v2/go.sum" "$REPO_DIR/execution/go.sum" "$REPO_DIR/go.work.sum" 2>/dev/null | sort -u > "$tmpmod/go.sum"
  MODFLAG="-modfile=$tmpmod/go.mod"
  trap 'rm -rf "$tmpmod"' EXIT
else
  cat /repo/v2/go.sum /repo/execution/go.sum /repo/go.work.sum 2>/dev/null | sort -u > go.sum.new
  cmp -s go.sum.new go.sum && rm go.sum.new || mv go.sum.new go.sum
fi
$GO build $MODFLAG -tags verif -o "$OUT_DIR/$CMD" ./cmd/$CMD
if [ "$1" = "race" ]; then
  $GO build $MODFLAG -race -tags verif -o "$OUT_DIR/$CMD-race" ./cmd/$CMD
fi
