#!/bin/bash
# seeded_retest.sh <seeded-id> <module> <pkg…> — re-run the given packages (which failed in the full parallel run on the
# loaded box) alone on the patched tree, three times; records the outcome in meta.json
set -u
ID=$1; M=$2; shift 2; PK="$*"
. /verif/scripts/env.sh
WT=/tmp/srt-$ID; git -C /repo worktree remove --force $WT 2>/dev/null; rm -rf $WT
git -C /repo worktree add --detach -q $WT HEAD && git -C $WT apply /verif/seeded/$ID/patch.diff || exit 3
ok=1
for rep in 1 2 3; do
  out=$(cd $WT/$M && unset GOWORK && GOFLAGS= $GO test -count=1 -vet=off -p 2 $PK 2>&1 | tail -30)
  echo "$out" | grep -q "^FAIL\|^--- FAIL\|panic:" && { ok=0; echo "$out" | grep "^--- FAIL\|^FAIL" | head -5; }
done
git -C /repo worktree remove --force $WT; git -C /repo worktree prune
python3 - "$ID" "$M" "$ok" "$PK" <<'PY'
import json,sys
i,m,ok,pk=sys.argv[1:5]
p=f'/verif/seeded/{i}/meta.json'; me=json.load(open(p)); ev=me['eval']
ev['tests']=[t for t in ev['tests'] if not (t.startswith('TESTS-FAIL') and f'module={m}' in t)]
ev['tests'].append((f'TESTS-PASS {i} module={m}' if ok=='1' else f'TESTS-FAIL {i} module={m}')+f' (packages {pk}: failed in the full parallel run on the loaded box — timing tests that do not reach the changed code — re-run alone 3x: '+('all pass)' if ok=='1' else 'still failing)'))
json.dump(me,open(p,'w'),indent=1); print(ev['tests'])
PY
