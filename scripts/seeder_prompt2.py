#!/usr/bin/env python3
"""Round-2 prompt: like seeder_prompt.py, plus the titles of the changes earlier seeders produced (to avoid duplicates)."""
import json, sys, glob, os, subprocess
pid = sys.argv[1]
base = subprocess.run(['python3', '/verif/scripts/seeder_prompt.py', pid], capture_output=True, text=True).stdout
wt = f"/tmp/seed-{pid.lower()}"
base = base.replace(wt + "-out", wt + "r2-out").replace(wt, wt + "r2").replace(wt + "r2r2", wt + "r2")
taken = []
for d in sorted(glob.glob(f'/verif/seeded/{pid.lower()}-*/meta.json')):
    m = json.load(open(d))
    taken.append(f"- {m.get('title','?')} ({', '.join(m.get('files', [])[:2])})")
extra = "\nNEVER use `git stash` (the stash is shared by all worktrees of this repository; use `git diff > file` and `git apply -R`). run.sh must exit non-zero when the demonstration fails (no `|| true`) and must copy the demo test file into place itself.\n"
if taken:
    extra += "\nOther developers already produced these changes for this property; yours must use DIFFERENT mechanisms and different code locations (aim at another clause of the statement, another component among the anchored files, another trigger kind: input shape / history / schedule / fault / option combination):\n" + "\n".join(taken) + "\n"
print(base.replace("Keep each patch small (a few lines).", "Keep each patch small (a few lines)." + extra))
