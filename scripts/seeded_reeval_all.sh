#!/bin/bash
# seeded_reeval_all.sh <k> <n> — re-evaluates every stored seeded break whose position in the sorted list is ≡ k (mod n)
# against the quick tier of the check of its own property (plus every other check recorded as catching it).
k=$1; n=$2; i=0
for d in $(ls /verif/seeded | sort); do
  i=$((i+1)); [ $((i % n)) -eq $k ] || continue
  [ "$d" = c13-d ] && continue   # deadlock break: a full quick run takes hours (evaluated case by case, see its meta.json)
  props=$(python3 - $d <<'PY'
import json,sys
m=json.load(open(f'/verif/seeded/{sys.argv[1]}/meta.json'))
ps=[m['property']]+[p for p in m.get('eval',{}).get('caught_by',[]) if p!=m['property']]
print(','.join(dict.fromkeys(ps)))
PY
)
  /verif/scripts/seeded_reeval.sh $d $props > /tmp/rea-$d.log 2>&1
done
echo done > /tmp/rea-$k.done
