#!/bin/bash
# seeded_confirm.sh <seeder-worktree> <seeder-outdir(a|b dir)> <seeded-id> <PROP[,PROP…]> [tier]
# 1. confirms the seeded break myself: demo passes on the clean tree (at /repo HEAD), fails with the patch;
# 2. stores it under /verif/seeded/<id>/; 3. runs the repository test suite on the patched tree and the
# named checks (scripts/seeded_eval.sh) and records the outcome in meta.json ("eval").
set -u
WT=$1; OUT=$2; ID=$3; PROPS=$4; TIER=${5:-quick}
HEAD=$(git -C /repo rev-parse HEAD)
git -C "$WT" checkout -q -- . ; git -C "$WT" clean -fdq; git -C "$WT" checkout -q --detach "$HEAD" || exit 3
[ -f "$OUT/demo/run.sh" ] || { echo "NO-DEMO $ID"; exit 3; }
bash "$OUT/demo/run.sh" > /tmp/sc-$ID-clean.txt 2>&1; rc_clean=$?
git -C "$WT" apply "$OUT/patch.diff" || { echo "PATCH-DOES-NOT-APPLY $ID"; exit 3; }
bash "$OUT/demo/run.sh" > /tmp/sc-$ID-broken.txt 2>&1; rc_broken=$?
git -C "$WT" checkout -q -- . ; git -C "$WT" clean -fdq
# some demonstrations end with `|| true`: also decide by what they print
grep -q "^--- FAIL\|^FAIL\|VIOLATION" /tmp/sc-$ID-clean.txt && rc_clean=1
grep -q "^--- FAIL\|^FAIL\|VIOLATION" /tmp/sc-$ID-broken.txt && rc_broken=1
echo "DEMO $ID clean_rc=$rc_clean broken_rc=$rc_broken"
if [ $rc_clean -ne 0 ] || [ $rc_broken -eq 0 ]; then echo "DEMO-NOT-CONFIRMED $ID"; tail -n 5 /tmp/sc-$ID-clean.txt; tail -n 5 /tmp/sc-$ID-broken.txt; rm -f /tmp/sc-$ID-*.txt; exit 4; fi
D=/verif/seeded/$ID; mkdir -p "$D"; cp "$OUT/patch.diff" "$D/"; rm -rf "$D/demo"; cp -r "$OUT/demo" "$D/demo"; cp "$OUT/meta.json" "$D/meta.json"
tail -c 3000 /tmp/sc-$ID-broken.txt > "$D/demo/confirmed_broken_tail.txt"; rm -f /tmp/sc-$ID-*.txt
/verif/scripts/seeded_eval.sh "$D/patch.diff" "$ID" "$PROPS" "$TIER" ${TESTS:-} > "$D/eval.log" 2>&1
cat "$D/eval.log" | cut -c1-400
python3 - "$D" "$TIER" <<'PY'
import json,sys,re
d,tier=sys.argv[1],sys.argv[2]
me=json.load(open(d+'/meta.json'))
log=open(d+'/eval.log').read()
ev={'tier':tier,'caught_by':[],'missed_by':[],'broken':[],'tests':[],'demo_confirmed':True}
for l in log.splitlines():
    m=re.match(r'(CAUGHT|MISSED|BROKEN) \S+ by (C\d+)(.*)',l)
    if m:
        {'CAUGHT':ev['caught_by'],'MISSED':ev['missed_by'],'BROKEN':ev['broken']}[m.group(1)].append(m.group(2))
        if m.group(1)=='CAUGHT': ev.setdefault('kinds',{})[m.group(2)]=m.group(3)[:400]
    if l.startswith('TESTS-'): ev['tests'].append(l)
me['eval']=ev
json.dump(me,open(d+'/meta.json','w'),indent=1)
PY
