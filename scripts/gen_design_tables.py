#!/usr/bin/env python3
"""Regenerates the generated tables of DESIGN.md Part II (between BEGIN/END markers)."""
import json, os, re, glob
V = '/verif'
m = json.load(open(f'{V}/MANIFEST.json'))
kf = json.load(open(f'{V}/known_findings.json'))['findings']

def esc(s):
    return str(s).replace('|', '\\|').replace('\n', ' ')

def checks():
    out = []
    for c in m['checks']:
        pid = c['property_id']
        ev = {}
        p = f'{V}/evidence/{pid}.json'
        if os.path.exists(p):
            ev = json.load(open(p))
        out.append(f"### {pid} — {c['level_claimed']['category']}\n")
        out.append(f"*Technique:* {c['technique']}\n")
        out.append(f"*What is decided:* {c['level_claimed']['text']}\n")
        if c.get('level_note'):
            out.append(f"*Trusted / not covered:* {c['level_note']}\n")
        if ev:
            cov = ev.get('coverage') or {}
            line = f"*Last committed evidence ({ev.get('tier', cov.get('tier', '?'))}):* evaluations={ev.get('evaluations')} distinct_nontrivial={ev.get('distinct_nontrivial')}"
            out.append(line + "\n")
    for n in m.get('not_applicable', []):
        out.append(f"### {n['property_id']} — not claimed\n\n{n['reason']}\n")
    return '\n'.join(out)

def findings():
    rows = ["| id | property | status | commit | what |", "|---|---|---|---|---|"]
    for f in kf:
        what = f.get('what', '')
        what = re.sub(r'^fixed: property=\S+ \S+ ', '', what)
        rows.append(f"| {f['id']} | {f['property']} | {f['status']} | {f.get('commit') or ''} | {esc(what)[:700]} |")
    no = sum(1 for f in kf if f['status'] == 'open'); nf = sum(1 for f in kf if f['status'] == 'fixed')
    return f"{nf} fixed, {no} open.\n\n" + '\n'.join(rows)

def seeded():
    rows = ["| id | property | change | trigger | caught by (quick tier) | own check misses it? | other checks tried, silent | history |", "|---|---|---|---|---|---|---|---|"]
    n = own_caught = 0
    for d in sorted(glob.glob(f'{V}/seeded/*/meta.json')):
        me = json.load(open(d))
        sid = os.path.basename(os.path.dirname(d))
        r = me.get('eval', {})
        prop = me.get('property')
        caught = r.get('caught_by', [])
        missed = r.get('missed_by', [])
        own = 'no' if prop in caught else ('YES' if prop in missed else ('n/a (caught by ' + ', '.join(caught) + ')' if caught else 'not evaluated'))
        if prop in caught:
            own_caught += 1
        others = [x for x in missed if x != prop]
        tests = '; '.join(t.split(' module=')[0].replace('TESTS-', '') + ' ' + t.split('module=')[1].split(' ')[0] for t in r.get('tests', []) if 'module=' in t)
        rows.append(f"| {sid} | {prop} | {esc(me.get('title',''))[:160]} | {esc(me.get('what_triggers',''))[:220]} | {esc(', '.join(caught))} | {own} | {esc(', '.join(others))} | {esc(r.get('note',''))[:400]} {('(repository tests on the patched tree: ' + tests + ')') if tests else ''} |")
        n += 1
    return f"{n} confirmed seeded breaks; {own_caught} are caught by the quick tier of the check of the property they were written against.\n\n" + '\n'.join(rows)

s = open(f'{V}/DESIGN.md').read()
for name, fn in (('CHECKS', checks), ('FINDINGS', findings), ('SEEDED', seeded)):
    b, e = f'<!-- BEGIN {name} -->', f'<!-- END {name} -->'
    if b in s:
        i, j = s.index(b) + len(b), s.index(e)
        s = s[:i] + '\n' + fn() + '\n' + s[j:]
open(f'{V}/DESIGN.md', 'w').write(s)
print('DESIGN.md tables regenerated')
