#!/bin/bash
# check.sh <ID> [quick|thorough]   |   check.sh <ID> --replay <file>
# Rebuilds the harness against /repo's working tree (hooks on) and runs the property's check.
# exit 0: held on everything explored (KNOWN-FINDING lines possible); exit 1: VIOLATION lines;
# exit 2: broken machinery / nothing observed.
. "$(dirname "$0")/env.sh"
ID=$1; shift
cd "$VERIF_DIR"
need_race=""
case "$ID" in C07|C08|C09|C10|C11|C12|C13|C16|C18|C19|C20) need_race=race;; esac
if ! out=$(scripts/build.sh $need_race 2>&1); then
  echo "$out" | tail -40
  echo "BROKEN: harness does not build against /repo"
  exit 2
fi
if [ "$1" = "--replay" ]; then
  exec bin/vcheck replay "$2"
fi
TIER=${1:-${VERIF_TIER:-quick}}
exec bin/vcheck run "$ID" --tier "$TIER"
