#!/bin/bash
# setup.sh — run once after a fresh restore: builds both harness binaries (warms the build cache).
set -e
. "$(dirname "$0")/env.sh"
cd "$VERIF_DIR"
scripts/build.sh race
echo "setup ok: $(ls -la bin | wc -l) files in bin"
