# sourced by every script: offline Go toolchain able to build /repo (go 1.25.0 modules)
export GOFLAGS=-mod=mod GOPROXY=off GOSUMDB=off GOTOOLCHAIN=local GOWORK=off
GO=/root/go/pkg/mod/golang.org/toolchain@v0.0.1-go1.25.0.linux-amd64/bin/go
if [ ! -x "$GO" ]; then
  if command -v go1.26.8 >/dev/null 2>&1; then GO=$(command -v go1.26.8); else GO=$(command -v go); fi
fi
export GO
VERIF_DIR=${VERIF_DIR:-/verif}
export VERIF_DIR
