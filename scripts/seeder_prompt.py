#!/usr/bin/env python3
"""Print the prompt for a fresh seeded-break sub-agent: ONLY the property text + its scratch worktree."""
import json, sys
pid = sys.argv[1]
wt = f"/tmp/seed-{pid.lower()}"
for l in open('/verif/properties.jsonl'):
    p = json.loads(l)
    if p['id'] == pid:
        break
else:
    sys.exit("no such property")
text = json.dumps({k: p[k] for k in ('id', 'title', 'statement', 'quantifier', 'why_tests_cant', 'anchors')}, indent=1)
print(f"""You work on a scratch git worktree of the Go repository wundergraph/graphql-go-tools at {wt} (modules: {wt}/v2 = the library, {wt}/execution = the execution engine on top of it). Work ONLY inside {wt} and your output directory {wt}-out (create it). Do not look at or touch anything else on this machine (in particular nothing under /verif, /repo or other /tmp directories). No network.

Go environment for every shell call (env does not persist):
  export PATH=/root/go/pkg/mod/golang.org/toolchain@v0.0.1-go1.25.0.linux-amd64/bin:$PATH GOTOOLCHAIN=local GOPROXY=off GOSUMDB=off GOFLAGS=
  cd {wt}/v2 && go test -count=1 ./pkg/<package>/...      (and: cd {wt}/execution && go test -count=1 ./...)

The library is supposed to guarantee this semantic property (this is all you are given):

{text}

Your task: play the role of a developer who introduces a REALISTIC bug — the kind that slips in with a refactor, an optimisation, a "simplification", a partial bug fix or a merge — into the NON-test source code, such that
  1. the repository still compiles (go build ./... and go vet-free test compile in both modules),
  2. the EXISTING test suite still passes, unedited (run at least: all tests of every package you touched, plus `cd {wt}/v2 && go test -count=1 ./pkg/...` limited to packages that import what you touched, plus `cd {wt}/execution && go test -count=1 ./...`; paste the final ok lines into meta.json),
  3. the property above is BROKEN, but only when something specific happens (a particular input shape, schedule/interleaving, fault, history, option combination) — NOT on every input; a bug that an ordinary smoke test would catch immediately is not interesting,
  4. you can DEMONSTRATE the violation: a small self-contained Go test file (put it next to the code as `zz_seeded_demo_test.go`, it is not part of the patch) or program that passes/prints OK on the unmodified code and fails/prints the violation with your change; include the command and both outputs.
Produce TWO different such changes if you can (different mechanisms / different files; independent of each other — each applies alone to the clean tree), in {wt}-out/a/ and {wt}-out/b/ — each directory with: patch.diff (output of `git diff` for the source change only, applies with `git apply` to the clean tree at HEAD), demo/ (the demonstration file(s), a run.sh with the exact command, and out_clean.txt / out_broken.txt), meta.json {{"property": "{pid}", "title": short title, "files": [...], "description": what the change does and why it is realistic, "what_triggers": the specific condition needed to see the violation, "tests_run": [commands + ok summary], "demonstration": how to run it}}. After producing a/ reset the worktree (`git -C {wt} checkout -- . && git -C {wt} clean -fd`) before starting b/. Leave the worktree clean at the end. Keep each patch small (a few lines). Final message: a 10-line summary of a/ and b/.""")
