#!/usr/bin/env python3
"""Regenerates /verif/MANIFEST.json from the table below (single source of truth)."""
import json, os

RACE = {"C07","C08","C09","C10","C11","C12","C13","C16","C18","C19"}

# id -> dict(level, text, note, technique, design_ref)   (only properties whose check is built and registered)
CHECKS = {
 "C05": dict(level="exploration",
   text="Runtime monitoring of the real lexer/parser/printer on generated hostile inputs: every input runs under recover + per-case watchdog in a child process (journal written before the case), accepted documents are scanned by reflection for byte references/positions outside the input, printed (compact and indented), re-parsed and compared through an independent reflection-based tree dump, and ParseWithLimits is probed with limits around the independently computed real depth / field count. Exhaustive for byte strings of length <= 3 over a 24-symbol alphabet; seeded exploration elsewhere. Held-on-what-was-observed, not a proof.",
   note="Trusted: the harness's shape dump and BlockStringValue implementation; reflection over ast.Document field layout; Go runtime panics/fatal errors are the crash signal. Over-counting by the limit tokenizer is not judged.",
   technique="runtime monitors on generated inputs: totality (recover/watchdog), bounds scanner, print-parse round-trip differential with independent shape dump, limit under-count probe",
   design_ref="DESIGN.md §6 C05"),
}

CHECKS["C03"] = dict(level="exploration",
   text="Runtime monitoring of the real normaliser through ExecutionEngine.Execute (the engine's own two-pass admission sequence, observed at the request-option boundary through the verif engine accessor) and through Request.Normalize's default options, on generated schemas x valid-by-construction operations x coercible variables. Oracles on every case: an independent reference executor (gqlparser AST, own input coercion) run on the original and on the normalised operation with the rewritten variables for two hash-defined universes whose values depend on the coerced arguments; validity of the normalised operation for gqlparser and for the repository validator; second normalisation is a no-op; construction-equivalent variants reach the same canonical print and variables. Held on the executions observed.",
   note="Trusted: gqlparser's parser/validator for the documents judged (cross-checked by construction: a self-check failure is broken machinery, never a violation), the harness's reference coercer/executor and generators. Admission refusals are left undecided here (C04/C06 decide acceptance).",
   technique="differential runtime monitor: reference executor on original vs normalised operation, idempotence and metamorphic variant equality over generated cases",
   design_ref="DESIGN.md §6 C03")

CHECKS["C02"] = dict(level="exploration",
   text="Runtime monitoring of the real Resolvable / Resolver / ExecutionEngine rendering: generated response plan trees (mirroring the planner's construction rules and cross-checked against the real planner on an engine slice) x payloads built FROM the tree and spoiled at recorded positions (null, missing key, wrong kinds, bad/missing __typename, invalid enum, array<->object). Every render is judged by an independent reference CompleteValue: one valid JSON document, exact projection for well-typed payloads, spec null propagation for null/missing-only payloads, type-safety + coverage of every replacement by an error at an offending position, and every error path denotes a real response position. A panic on any payload refutes the property (child-process isolation attributes crashes to the case).",
   note="Trusted: encoding/json as syntax referee, the harness's reference CompleteValue and its reading of the plan tree annotations, the repository's merge_fields post-processor when building synthetic trees (checked against the real planner on the engine slice). Kind-level conformance only; Apollo-compatibility options at defaults.",
   technique="generator-driven differential runtime monitor with reference value completion, offences known by construction",
   design_ref="DESIGN.md §6 C02, Appendix F2")

CHECKS["C04"] = dict(level="exploration",
   text="Runtime monitoring of the real admission sequence (ExecutionEngine.Execute, observed at the request-option boundary through the verif engine accessor: admitted iff the request options are reached) on generated schemas x operations with ground truth by construction: valid-by-construction documents must be admitted, documents carrying exactly one rule-targeted mutation (35 operators, one per spec rule, rotated so every operator is exercised at root / nested / fragment sites) must be refused. A case is judged only when gqlparser's validator (independent graphql-js port) agrees with the construction; disagreements are counted per operator as inconclusive. A crash of the admission code is attributed to the input through the case context. Held on the executions observed.",
   note="Trusted: the generators' construction invariants, gqlparser's validator where it agrees, the reference coercer for the variables self-check. The README tutorial sequence is only observed (counters). Refusals whose message is a variables-validation message are counted here and judged by C06.",
   technique="runtime monitor with ground truth by construction and rule-targeted mutation, cross-checked by an independent validator",
   design_ref="DESIGN.md §6 C04")

CHECKS["C11"] = dict(level="exploration",
   text="All 14 scripted single-flight interleavings (inbound and subgraph layer, both release orders, 2-4 participants) are executed deterministically through the verif yield points of the resolver, plus 2000 (quick) / 30000 (thorough) seeded stress rounds of 8-64 goroutines on 1-3 hot keys with random cancellations and micro-delay perturbation, all under the Go race detector. Every participant's outcome is compared with its solo outcome (separate resolver, both de-dup layers off) and classified into the statement's three allowed outcomes; upstream calls are accounted per participant (sharing happened; mutations and different variables/headers never share); follower buffers are re-hashed after delivery; panics and wedges are attributed to the case. Schedules outside the six yield points and the perturbed stress are not enumerated.",
   note="Trusted: the fake datasource / rate limiter / header builder (context-aware, pure per key), the verif yield hooks, the solo reference run, the Go race detector, the framework watchdog and hang protocol.",
   technique="scripted yield-point interleavings + seeded stress under -race, solo-equivalence oracle, call conservation",
   design_ref="DESIGN.md §6 C11, notes/scenarios.md")

CHECKS["C06"] = dict(level="exploration",
   text="Runtime monitoring of the real variables admission (ExecutionEngine.Execute: normalisation with extraction / list coercion / default injection, VariablesMapper, ValidateWithRemap; refused iff the request options are not reached) and of the standalone VariablesValidator with DisableExposingVariablesContent, on generated schemas x operations whose arguments are mostly variables x JSON assignments built FROM the variable types (coercible by construction) and copies carrying exactly one coercion-targeted mutation (16 kinds). Ground truth by construction cross-checked by the harness's reference coercer; judged only when both agree. Oracles: coercible => admitted; mutated => refused, naming the client's variable and every field on the path, never echoing a sentinel placed in the offending value when exposure is disabled. Held on the executions observed.",
   note="Trusted: the value generator's construction invariant, the reference coercer (spec input coercion for JSON transport). List indexes in rejection paths are counted, not judged. Operations refused for reasons unrelated to variables are left to C04.",
   technique="runtime monitor with ground truth by construction and coercion-targeted mutation, cross-checked by a reference coercer",
   design_ref="DESIGN.md §6 C06")

CHECKS["C14"] = dict(level="exploration",
   text="Generated federation layouts x protected-coordinate sets P x valid operations (queries, mutations, @defer) x decision functions d: EVERY function over the protected coordinate families the operation touches when there are <=4 of them, seeded ones beyond (all-allow, all-deny, single family, halves, exactly the entity-fetched fields, exactly the hidden @requires/@key inputs, only non-null / root / leaf / composite / key fields), each run in per-field, up-front (pre-fetch) and combined authorizer modes through the real ExecutionEngine over semantic subgraphs (~69k executions per quick run). Every response position (initial response and every deferred payload, merged by the incremental-delivery rules) is judged against provenance from an independent reference executor: no non-null value at a position whose coordinate was denied, the denial reported as an error at that position or swallowed by a reported denial above it, null propagation as for any other null, sentinel tags of denied String/ID values never in the response bytes. Every recorded subgraph request is parsed and judged by the request rule (not sent when all of its root fields are denied; mutation not sent when any is); the loader rule is additionally ENUMERATED on hand-built plans (1-3 root fields x every protected subset x every decision x nullable/non-null x mode).",
   note="Trusted: ref executor/coercer/universe (gqlparser), the fed layout generator, semantic subgraphs and recording transport, the frame-merge rules and request-text parser in props/c14. Decisions are data-independent; P and d are closed over interface families wherever a field can be selected through an interface; fields computed by @requires from a denied input are outside the statement (counted). Subscription updates are not driven (the fed rig has no subscriptions); sentinels cover String and ID fields only.",
   technique="runtime monitoring with a reference-model oracle over response positions and recorded subgraph requests, sentinel data, exhaustive decision functions on small coordinate sets, enumerated loader-rule sub-space",
   design_ref="DESIGN.md §6 C14")

CHECKS["C16"] = dict(level="exploration",
   text="Differential runtime monitor over generated request HISTORIES (about 350 per quick run; 10-16 requests each: base operations plus derived ones - exact repeats, other lookup ids from a small entity pool, other variable values, one leaf added or dropped, roots reordered or extended, a nullable variable flipped between omitted and explicit null) on two real ExecutionEngines over the same static hash-defined universe: one with a recording, fault-injecting implementation of the repository's cache interface attached, one without. Every response with the cache must equal the cache-less response (4000+ compared after a served full hit, 1000+ under injected Get/Set errors, partial answers and evictions per quick run). Every SetMany item is attributed to the subgraph response it came from and judged by an independent RFC 9111 reference on the Cache-Control header that response carried (generated header grammar: order, case, whitespace, quoted arguments, duplicates, unknown directives, malformed numbers, several header lines) and on its status / errors (faults: 201-599 statuses with the body kept, data with errors, errors only, null entity): stored => 2xx, error-free, explicitly public, no no-store/no-cache/private, ttl <= s-maxage/max-age else default. The storability unit caching.TTL is additionally driven directly with ~200k generated headers plus an exhaustive small directive space. Concurrent histories (3-6 goroutines sharing one cache) run under the race detector.",
   note="Trusted: the fed rig (layout generator, semantic subgraphs, ref.Universe), gqlparser, the reference Cache-Control tokeniser (props/c16/ccref.go), the recording cache, the cache-less engine as reference for response content. Malformed headers are judged in the safe direction only (a refusal word outside a closed quoted-string must prevent storing); TTL expiry is recorded, not simulated; @defer, subscriptions, mutations not covered.",
   technique="differential execution (engine with cache vs without) over generated histories + boundary monitor on Cache.GetMany/SetMany with a reference Cache-Control parser, cache/subgraph fault injection, -race",
   design_ref="DESIGN.md §6 C16")
CHECKS["C17"] = dict(level="exploration",
   text="For every generated full-feature schema (gen.GenSchema enriched with list nesting up to 4, regenerated default values of every input kind incl. nested objects/lists/enums/null/block strings/escapes, custom directives defined and applied on every location, repeatable directives, deprecations with every reason spelling, @specifiedBy, interfaces implementing interfaces, custom and keyword-spelled root names, extensions) three observation points are compared with an independent reference built from gqlparser's view of the same SDL: (1) introspection.Generator's data lists exactly the types, fields, arguments, default values (compared as parsed values), enum values, interfaces, possible types, directives and deprecations; (2) about 35 introspection queries per schema (the two standard full queries, __type for every named type and unknown names, generated partial __schema/__type queries with aliases, fragments, includeDeprecated literal/variable, ofType depth, root __typename) executed through the real ExecutionEngine equal a reference introspection resolver's answers, order-insensitively; (3) converting the introspection JSON back with JsonConverter and printing it yields SDL that gqlparser loads to an equivalent type system. 640 schemas quick, 10000 thorough.",
   note="Trusted: gqlparser v2.5.30 (schema/query loading, value parsing), the reference executor and the reference introspection resolver (props/c17/refintro.go), gen.GenSchema, astprinter for the round-trip print. Not judged: descriptions, isOneOf, the __* meta types in types/__type(name:) (the repository omits them), null vs [] for empty lists. No user data source next to the introspection one.",
   technique="differential runtime monitoring against a reference introspection (gqlparser) + round-trip check",
   design_ref="DESIGN.md §6 C17")

CHECKS["C18"] = dict(level="exploration",
   text="The real subscriptionclient runs under the race detector against an in-process scripted GraphQL-over-WebSocket (both subprotocols) / SSE upstream: 520 (quick) / 20800 (thorough) seed-determined scenarios cover cancels in every dial, init and subscribe window (windows opened from the server side by withholding the upgrade or connection_ack, and at the ws.subscribe.beforeWrite verif yield point), per-id terminals, interleaved delivery for 3-20 ids, option-tuple variants differing in exactly one component, idle close, abrupt drop and ping silence, plus a 2-64-subscriber stress tier. Every delivered message (origin-tagged payload) is checked against the upstream's own send record; every non-cancelling subscriber is compared with a no-cancel control run; sharing legality comes from the upstream's per-connection record; connection counts return to zero at quiescence (bounded progress, watchdog => inconclusive).",
   note="Trusted: the harness upstream and recorders, coder/websocket on the server side, httptest loopback TCP, the Go race detector, the ws.subscribe.beforeWrite hook, stack-based observation of goroutines parked in getOrDial. Cleanup/stall verdicts are bounded-progress only.",
   technique="scripted-window concurrency scenarios + stress under -race, differential control-vs-cancel oracle, origin-tagged payloads, upstream ground truth",
   design_ref="DESIGN.md §6 C18, notes/scenarios.md")

CHECKS["C19"] = dict(level="exploration",
   text="The real WebSocket subscription server (execution/subscription: protocol handlers for graphql-transport-ws and legacy graphql-ws, ExecutorEngine, and in wire runs the real websocket.Client over an in-memory net.Conn) runs under the race detector against a scripted transport client and gated scripted executors. Quick enumerates EVERY graphql-transport-ws client word of length <=3 over the protocol alphabet (init, subscribe query/subscription for 2 ids, complete, ping/pong, unknown type, malformed JSON, duplicate id, abrupt close ...) against EVERY engine-event schedule, all length-4 words against a fixed six-schedule family, the legacy protocol one length less, plus seeded racy sequences up to length 12, init time-out cases and wire runs; thorough one length more and 20x the sampled kinds. Every server output trace (messages, close codes, frames on the wire) is judged online by an independent reference protocol state machine that rejects at the first offending event: no operation before a successful init, prescribed 44xx close codes, data then exactly one terminal per started id, nothing for an id after its terminal, no write after / inside the close frame; crashes and wedges are violations.",
   note="Trusted: the two reference state machines and their stated tolerances (wrong-shape JSON may be ignored, answered with error(id) or closed with 4400), the scripted TransportClient / ExecutorPool / in-memory net.Conn (messages linearised at hand-over, one Write call atomic), gobwas frame encoding on the client side, the Go race detector. Executors are scripted (no real engine behind the server); transport read errors are not injected; legacy protocol not run in wire mode.",
   technique="exhaustive bounded enumeration of client words x event schedules + seeded racy runs under -race, online trace checking against a reference protocol state machine",
   design_ref="DESIGN.md §6 C19, Appendix B")

CHECKS["C12"] = dict(level="exploration",
   text="The real resolver's subscription machinery runs under the race detector with a fake source, recording writers (one atomic logical clock, overlap detection) and the verif yield/event hooks: enumerated scripted racing pairs at the yield points (source Complete/Error vs unsubscribe, update in flight vs removal, heartbeat vs removal, flush failure, join vs hook failure, every variant x every injected shutdown position) plus 4000 (quick) / 60000 (thorough) seeded random histories of subscribe / update / complete / error / done / unsubscribe / removeClient / heartbeat / writer faults with perturbation. Every history is judged offline: per subscriber delivered is a subsequence of may(s) in source order, contains must(s), no duplicates, each message equals the solo rendering, no writer call after the sub.done event, no overlapping writer calls, at most one terminal call, exactly one sub.done.",
   note="Trusted: the verif yield/event hooks, the recording writer and its single logical clock, the fake source, the reference filter semantics and projections expected by construction (cross-checked against a private Resolvable), updater.Subscriptions() for attachment.",
   technique="scripted schedule control at yield points + seeded history generation under -race, offline history checker",
   design_ref="DESIGN.md §6 C12, Appendix F4")
CHECKS["C13"] = dict(level="exploration",
   text="Same rig as C12 plus fault sequences: enumerated start-up fault and race scenarios (Source.Start failing immediately or after context cancel, start-up hook failure, each start-up park point, re-subscribe with the same key while the previous instance is starting, stale Done, shutdown at every step) plus 3000 (quick) / 50000 (thorough) random fault histories. Judged by: equal (input, headers) share one Start instance within a live period and unequal never do; Start once per live trigger; at quiescence registry sizes (0,0,0) through the verif accessor, every recorded Start context cancelled, reporter Inc == Dec for both counters, every subscriber completed with a cause; and a porcupine check of the subscribe/unsubscribe history against a nondeterministic reference-count model (timeout => inconclusive).",
   note="Trusted: the C12 rig, VerifRegistrySizes, the recording Reporter, Start context observation, porcupine v1.3.0. Leak verdicts need the logical clock idle (bounded progress).",
   technique="fault enumeration at yield points, conservation/quiescence oracle, linearizability check of recorded histories (porcupine)",
   design_ref="DESIGN.md §6 C13, Appendix F5")

CHECKS["C20"] = dict(level="exploration",
   text="3000 (quick) / 45000 (thorough) seed-determined cases: each generates an operation from the products schema (all root fields the mock service implements, field resolvers, @requires entity lookups, nested lists, unions/interfaces) and four reformulations (alias, subset, duplicate, reorder, fragments), and executes them against the real gRPC datasource the way production does - through the planner's own normalisation and DataSource.Load, and for a third of the cases through ExecutionEngine - over the repository's mock service behind a memoising transport (bufconn). Every Load result is judged by a shape oracle (response keys, nesting, list-ness, nullability, scalar kinds, __typename), a metamorphic oracle (every field position common to q and q' carries the same value; q' succeeds iff q succeeds) and a projection oracle against the recorded protobuf answers.",
   note="Trusted: gqlparser (schema model, validity guard), the harness's CollectFields/shape walker and protobuf cursor, the memoising transport, grpctest.MockService + default mapping + product.proto as the service, the repository's normaliser/validator as the production front end. Raw named-fragment spreads / literals are outside the datasource's contract and never reach it un-normalised.",
   technique="schema-driven operation generation, metamorphic reformulation testing, shape + projection oracles at the DataSource.Load boundary",
   design_ref="DESIGN.md §6 C20")

CHECKS["C01"] = dict(level="exploration",
   text="Runtime monitoring of the real ExecutionEngine over generated federated configurations that are correct by construction (2-3 subgraphs; keys, single-owner and @shareable fields, value types, @requires, @provides, interfaces and unions over entities, lookup/list/abstract root fields, mutations; features individually switchable). Subgraphs are in-process semantic GraphQL servers (independent parser/validator/executor) over one hash-defined universe, so every value identifies the field and entity that produced it. On every generated valid operation: gateway data == monolithic reference execution of the supergraph, errors empty on both sides, planning never fails, every subgraph request is valid for that subgraph's schema with coercible variables and selects only fields the subgraph owns (or keys / provided / required inputs; @requires values are computed only from what the representation carries). Held on the executions observed.",
   note="Trusted: the layout generator's composition conventions (taken from the repository's composed config and federation fixtures), gqlparser, the reference executor / coercer / universe. Not generated: @interfaceObject, @override, @inaccessible, non-resolvable or compound keys. Clean universes only.",
   technique="differential runtime monitor: real gateway vs reference executor over semantic subgraphs, request validation and ownership monitor at the RoundTripper boundary",
   design_ref="DESIGN.md §6 C01, Appendix A")

CHECKS["C08"] = dict(level="exploration",
   text="Exploration with an exhaustive core. Every dependency DAG on <=4 fetches (thorough <=5) x every fetch-id assignment x every raw order goes through the real post-processor under all 10 scheduling option sets (waves / scheduler / serial, +-multi-fetch, +-de-duplication) and the resulting fetch tree is checked against the generated ground truth (every planned fetch exactly once or accounted for by a documented merge; every dependency completes before its dependant under Sequence/Parallel semantics). The same plans, plus seeded plans up to 14 fetches with nested response paths, entity / batch / multi fetches, duplicates and failing fetches, are executed by the real Resolver/Loader with gated fake data sources under controller-chosen completion orders (every order for <=4 fetches, every permutation of each parallel group up to 4 members, seeded orders, bursts, free runs): request content must carry the unique tokens its dependencies delivered, no request arrives before its dependencies were merged (logical clock), responses are identical across completion orders; race detector on.",
   note="Trusted: the Sequence/Parallel reading of FetchTreeNode and MergedFetchIDs as the account of a merged request, LoaderHooks.OnFinished firing inside the merge phase, the fake data sources and controller, the plan generator's ground truth, the Go race detector. Engine-level layer 3 (federated operations under gated transport) is covered by C07/C09's runs, not here.",
   technique="structural fetch-tree monitor (exhaustive small DAGs) + gated-datasource schedule exploration under -race with content/arrival-order/response-equality oracles",
   design_ref="DESIGN.md §6 C08, Appendix F7")

CHECKS["C07"] = dict(level="fault_enumeration",
   text="Fault enumeration over the real ExecutionEngine (race detector on) on C01's federated configurations: for each case the fault space of the fault-free run is enumerated completely - every single subgraph request x 9 fault kinds (7 for non-entity requests), plus every pair of requests when there are <=4 - with faults addressed by (subgraph, operation text) so that arrival order does not matter. Oracles: the gateway returns (watchdog; nil = violation after the framework's isolated re-run), one valid JSON response, >=1 error when a faulted request was sent; every request sent under faults equals a fault-free request with representations a subset (no fabricated downstream request); data under faults is a null-refinement of the fault-free data; every position that became null has a failed/skipped provider at or below it (independent data never lost); every position that stays non-null was resolved by a successful request of the faulted run; all total-loss kinds on one request give identical data. Provenance is observed, not inferred: each semantic subgraph records the (type, object, field, arguments) keys it resolved.",
   note="Trusted: C01's layout generator and semantic subgraphs, the reference executor's provenance map, the recording/fault-injecting RoundTripper. A position whose key has both a dead and a live provider is ambiguous and only checked for value equality. All nine kinds are treated as total loss.",
   technique="exhaustive single/double fault injection at the RoundTripper with observed-provenance sandwich oracle and cross-kind metamorphic equality, under -race",
   design_ref="DESIGN.md §6 C07, Appendix F3")

NOT_YET = {
}

def main():
    props = [json.loads(l) for l in open("/verif/properties.jsonl")]
    checks, na = [], []
    for p in props:
        pid = p["id"]
        if pid in CHECKS:
            c = CHECKS[pid]
            checks.append({
                "property_id": pid,
                "quick_cmd": f"scripts/check.sh {pid} quick",
                "thorough_cmd": f"scripts/check.sh {pid} thorough",
                "evidence_file": f"/verif/evidence/{pid}.json",
                "replay_cmd_template": f"scripts/check.sh {pid} --replay {{path}}",
                "engine": "vcheck-race" if pid in RACE else "vcheck",
                "level_claimed": {"category": c["level"], "text": c["text"], "design_ref": c["design_ref"]},
                "level_note": c["note"],
                "technique": c["technique"],
            })
        else:
            na.append({"property_id": pid, "reason": NOT_YET.get(pid, "check not built yet in this session (runtime monitoring applies; see DESIGN.md §6) — not claimed until its monitor is registered")})
    hooks_commits = []
    hp = "/verif/HOOK_COMMITS"
    if os.path.exists(hp):
        hooks_commits = [l.strip() for l in open(hp) if l.strip()]
    m = {
        "version": 1,
        "setup_cmd": "scripts/setup.sh",
        "hooks": {
            "guard": "verif",
            "enable": "go build -tags verif (the harness module replaces the repository modules with /repo/v2 and /repo/execution, see scripts/build.sh)",
            "baseline_off_cmd": "for m in . ./execution ./v2; do (cd /repo/$m && go test -json -vet=off -count=1 -timeout 25m ./...); done",
            "source_commits": hooks_commits,
            "add_only": True,
        },
        "engines": [
            {"name": "vcheck", "path": "/verif/bin/vcheck", "serves_properties": [c["property_id"] for c in checks if c["engine"] == "vcheck"], "kind_free_text": "Go harness (parent + child-process workers) built with -tags verif against /repo's working tree"},
            {"name": "vcheck-race", "path": "/verif/bin/vcheck-race", "serves_properties": [c["property_id"] for c in checks if c["engine"] == "vcheck-race"], "kind_free_text": "same harness built with -race (Go race detector; reports with a repository frame are violations)"},
        ],
        "checks": checks,
        "not_applicable": na,
        "notes": "All checks are runtime monitors over executions of the real code (technique family: runtime monitoring and sanitizers). known_findings.json lists genuine defects (open = reported as KNOWN-FINDING, fixed = repaired by a fix: commit in /repo).",
    }
    json.dump(m, open("/verif/MANIFEST.json", "w"), indent=1)
    print("checks:", [c["property_id"] for c in checks], "not_applicable:", len(na))

main()
