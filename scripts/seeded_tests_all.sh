#!/bin/bash
# seeded_tests_all.sh [id…] — for every stored seeded break (or the given ones) whose meta.json does not yet record a
# passing run of both modules: patched scratch worktree, full `go test ./...` of v2 and execution (failed packages are
# re-run alone twice), outcome merged into meta.json. Run this when the box is quiet: the repository has timing tests.
set -u
. /verif/scripts/env.sh
IDS=${*:-$(ls /verif/seeded)}
for ID in $IDS; do
  D=/verif/seeded/$ID; [ -f $D/meta.json ] || continue
  need=$(python3 - $D <<'PY'
import json,sys
ev=json.load(open(sys.argv[1]+'/meta.json')).get('eval',{})
t=ev.get('tests',[])
print(' '.join(m for m in ('v2','execution') if not any(x.startswith('TESTS-PASS') and f'module={m}' in x for x in t)))
PY
)
  [ -z "$need" ] && continue
  WT=/tmp/sta-$ID; git -C /repo worktree remove --force $WT 2>/dev/null; rm -rf $WT
  BASE=$(python3 -c "import json;print(json.load(open('$D/meta.json')).get('base_commit','HEAD'))"); git -C /repo worktree add --detach -q $WT $BASE && git -C $WT apply $D/patch.diff || { echo "PATCH-DOES-NOT-APPLY $ID"; continue; }
  for m in $need; do
    log=/tmp/sta-$ID-$m.log
    (cd $WT/$m && unset GOWORK && GOFLAGS= $GO test -count=1 -vet=off -timeout 25m ./... 2>&1 | grep -v "^ok\|no test files" | tail -40) > $log 2>&1
    res="TESTS-PASS $ID module=$m"
    if grep -q "^FAIL\|^--- FAIL\|panic:" $log; then
      pk=$(grep "^FAIL[[:space:]]" $log | awk '{print $2}' | sort -u | sed "s#github.com/wundergraph/graphql-go-tools/$m#.#;s#github.com/wundergraph/graphql-go-tools/v2#.#" | tr '\n' ' ')
      ok=1; [ -z "$pk" ] && ok=0
      for rep in 1 2; do
        [ $ok = 1 ] && (cd $WT/$m && unset GOWORK && GOFLAGS= $GO test -count=1 -vet=off -p 1 $pk 2>&1 | tail -30) > $log.rerun 2>&1 && grep -q "^FAIL\|^--- FAIL\|panic:" $log.rerun && ok=0
      done
      if [ $ok = 1 ]; then res="TESTS-PASS $ID module=$m (timing-test packages $pk failed once in the full parallel run and passed twice when re-run alone)"; else res="TESTS-FAIL $ID module=$m :: $(grep '^--- FAIL' $log | head -3 | tr '\n' ';')"; fi
    fi
    echo "$res"
    python3 - $D "$m" "$res" <<'PY'
import json,sys
d,m,res=sys.argv[1:4]
p=d+'/meta.json'; me=json.load(open(p)); ev=me.setdefault('eval',{}); t=ev.setdefault('tests',[])
ev['tests']=[x for x in t if f'module={m}' not in x]+[res]
json.dump(me,open(p,'w'),indent=1)
PY
    rm -f $log $log.rerun
  done
  git -C /repo worktree remove --force $WT; git -C /repo worktree prune
done
