#!/bin/bash
# sweep.sh <tier> "<seeds>" <ID…> — runs the checks with a scratch VERIF_DIR (so /verif/evidence is untouched),
# one summary line per (ID, seed) appended to notes/sweeps/<tier>.log; replays of anything that fires stay in the scratch dir.
TIER=$1; SEEDS=$2; shift 2
cd /verif; mkdir -p notes/sweeps; VD=/tmp/sweep-$TIER; mkdir -p $VD/evidence $VD/replays; ln -sf /verif/known_findings.json $VD/known_findings.json
scripts/build.sh race >/dev/null 2>&1 || { echo "build failed"; exit 2; }
for ID in "$@"; do for s in $SEEDS; do
  out=$(VERIF_DIR=$VD VERIF_SEED=$s nice -n 5 bin/vcheck run $ID --tier $TIER 2>&1); rc=$?
  echo "$(date -u +%H:%M) repo=$(git -C /repo rev-parse --short HEAD) verif=$(git rev-parse --short HEAD) rc=$rc $(echo "$out" | grep "tier=" | cut -c1-200) $(echo "$out" | grep "^ *[0-9]* × \|BROKEN" | head -3 | cut -c1-200 | tr '\n' ';')" >> notes/sweeps/$TIER.log
done; done
