#!/bin/bash
# seeded_reeval.sh <seeded-id> <PROP[,PROP…]> [tier] — re-run checks against a stored seeded break and merge the outcome into its meta.json
set -u
ID=$1; PROPS=$2; TIER=${3:-quick}; D=/verif/seeded/$ID
BASE=$(python3 -c "import json;print(json.load(open('$D/meta.json')).get('base_commit','HEAD'))") /verif/scripts/seeded_eval.sh "$D/patch.diff" "$ID" "$PROPS" "$TIER" > "$D/reeval.log" 2>&1
cut -c1-300 "$D/reeval.log"
python3 - "$D" <<'PY'
import json,sys,re
d=sys.argv[1]
me=json.load(open(d+'/meta.json')); ev=me.setdefault('eval',{'caught_by':[],'missed_by':[],'broken':[],'tests':[]})
for l in open(d+'/reeval.log').read().splitlines():
    m=re.match(r'(CAUGHT|MISSED|BROKEN) \S+ by (C\d+)(.*)',l)
    if not m: continue
    p=m.group(2)
    for k in ('caught_by','missed_by','broken'):
        if p in ev.get(k,[]): ev[k].remove(p)
    {'CAUGHT':'caught_by','MISSED':'missed_by','BROKEN':'broken'}[m.group(1)]
    ev.setdefault({'CAUGHT':'caught_by','MISSED':'missed_by','BROKEN':'broken'}[m.group(1)],[]).append(p)
    if m.group(1)=='CAUGHT': ev.setdefault('kinds',{})[p]=m.group(3)[:400]
    if m.group(1)=='MISSED' and p not in ev.setdefault('missed_before_strengthening',[]): pass
json.dump(me,open(d+'/meta.json','w'),indent=1)
PY
cat "$D/reeval.log" >> "$D/eval.log"; rm -f "$D/reeval.log"
