#!/usr/bin/env python3
"""show.py <PROP> <substring of kind/match> [n] [maxlen] — print the first n replay records matching."""
import sys, json, glob
prop, pat = sys.argv[1], sys.argv[2]
n = int(sys.argv[3]) if len(sys.argv) > 3 else 1
maxlen = int(sys.argv[4]) if len(sys.argv) > 4 else 700
shown = 0
for f in sorted(glob.glob(f"/verif/replays/{prop}/*.json")):
    r = json.load(open(f))
    v = r["violation"]
    key = v["kind"] + " " + json.dumps(v.get("match"), sort_keys=True)
    if pat not in key:
        continue
    print("=====", f, "idx", r["index"])
    print("KIND:", key)
    print("MSG:", v["msg"][:maxlen])
    d = v.get("detail") or {}
    if isinstance(d, dict):
        for k, x in d.items():
            s = x if isinstance(x, str) else json.dumps(x)
            print(f"--- {k}:\n{s[:maxlen]}")
    shown += 1
    if shown >= n:
        break
