// Package fed generates federated configurations that are correct by construction (supergraph
// split over subgraphs with keys, @requires, @provides, shareable fields, value types, interfaces
// and unions), implements each subgraph as an in-process semantic GraphQL server over the shared
// hash-defined universe, and wires them into a real ExecutionEngine through a recording transport.
package fed

import (
	"fmt"
	"math/rand/v2"
	"sort"
	"strings"

	"github.com/wundergraph/graphql-go-tools/v2/pkg/engine/plan"

	"verifharness/internal/gen"
)

// Profile switches individual federation features (each can be turned off for minimisation).
type Profile struct {
	Subgraphs   int
	Entities    int
	ValueTypes  int
	Interface   bool
	Union       bool
	Requires    bool
	IfaceRel    bool // the interface Node (and every implementer) has a field relOwner returning one entity type: the same entity field under an interface and under its concrete types
	Requires2   bool // stacked @requires: a second derived field computed from the first one, owned by another subgraph (chains of 3 dependent fetches on one entity)
	Provides    bool
	Shareable   bool
	Mutation    bool
	Args        bool
	ListFields  bool
	// Single: one subgraph owns everything (no federation metadata needed to resolve anything)
	Single bool
}

func RandomProfile(r *rand.Rand) Profile {
	return Profile{Subgraphs: 2 + r.IntN(2), Entities: 2 + r.IntN(3), ValueTypes: r.IntN(3), Interface: r.IntN(2) == 0, Union: r.IntN(2) == 0,
		Requires: r.IntN(2) == 0, Provides: r.IntN(3) == 0, Shareable: r.IntN(3) == 0, Mutation: r.IntN(2) == 0, Args: true, ListFields: true}
}

// FieldInfo is the federation side-table entry of one supergraph field.
type FieldInfo struct {
	Owners   []int  // subgraphs that resolve the field themselves
	Requires string // name of a sibling field (owned elsewhere) this field is computed from
	Provides string // for entity-returning fields: a field of the returned entity that the owner provides on this path
	IsKey    bool
}

type Subgraph struct {
	Index int
	Name  string
	SDL   string
	Meta  *plan.DataSourceMetadata
	// Present: types declared in this subgraph
	Present map[string]bool
	// Owned / External coordinates ("Type.field")
	Owned    map[string]bool
	External map[string]bool
	// ProvidedOn["Type.field"] = field of the returned entity provided on this path
	ProvidedOn map[string]string
	// RequiresIn["Type.field"] = required sibling field
	RequiresIn map[string]string
}

type Layout struct {
	Profile   Profile
	Super     *gen.Schema
	SuperSDL  string
	Subgraphs []*Subgraph
	Entities  map[string][]int // entity type → home subgraphs
	Fields    map[string]*FieldInfo
	// LookupFields: root fields whose `id` argument is the identity of the returned entity
	LookupFields map[string]bool
	FieldConfigs plan.FieldConfigurations
	Describe     string
}

func coord(t, f string) string { return t + "." + f }

type lgen struct {
	r *rand.Rand
	p Profile
	l *Layout
	s *gen.Schema
}

var leafPool = []string{"Int", "Float", "String", "Boolean", "ID", "Kind"}
var fieldPool = []string{"name", "title", "count", "price", "active", "score", "rank", "code", "note", "level", "size", "flag", "weight", "label2", "stamp"}

func (g *lgen) leafType() *gen.TypeRef {
	n := leafPool[g.r.IntN(len(leafPool))]
	t := gen.Named(n, g.r.IntN(3) == 0)
	if g.p.ListFields && g.r.IntN(6) == 0 {
		t = gen.ListOf(gen.Named(n, g.r.IntN(2) == 0), g.r.IntN(3) == 0)
	}
	return t
}

func (g *lgen) maybeArgs() []*gen.Arg {
	if !g.p.Args || g.r.IntN(4) != 0 {
		return nil
	}
	switch g.r.IntN(4) {
	case 0:
		return []*gen.Arg{{Name: "n", Type: gen.Named("Int", false), Default: gen.IntV(3)}}
	case 1:
		return []*gen.Arg{{Name: "s", Type: gen.Named("String", true)}}
	case 2:
		return []*gen.Arg{{Name: "k", Type: gen.Named("Kind", false)}}
	default:
		return []*gen.Arg{{Name: "n", Type: gen.Named("Int", true)}, {Name: "flag", Type: gen.Named("Boolean", false), Default: gen.BoolV(false)}}
	}
}

func pick(r *rand.Rand, xs []int) int { return xs[r.IntN(len(xs))] }

// GenLayout builds a federated configuration.
func GenLayout(r *rand.Rand, p Profile) *Layout {
	if p.Single {
		p.Subgraphs = 1
		p.Requires, p.Provides, p.Shareable = false, false, false
	}
	g := &lgen{r: r, p: p, l: &Layout{Profile: p, Entities: map[string][]int{}, Fields: map[string]*FieldInfo{}, LookupFields: map[string]bool{}}, s: &gen.Schema{Query: "Query"}}
	s := g.s
	m := p.Subgraphs
	all := make([]int, m)
	for i := range all {
		all[i] = i
	}
	s.Add(&gen.TypeDef{Name: "Kind", Kind: gen.Enum, EnumValues: []gen.EnumVal{{Name: "ALPHA"}, {Name: "BETA"}, {Name: "GAMMA"}}})

	entNames := []string{"User", "Product", "Review", "Order", "Shop"}[:p.Entities]
	valNames := []string{"Address", "Money", "Stats"}[:p.ValueTypes]
	// ---- entities: homes and leaf fields
	for _, en := range entNames {
		perm := r.Perm(m)
		k := 1 + r.IntN(min(m, 3))
		homes := append([]int(nil), perm[:k]...)
		sort.Ints(homes)
		g.l.Entities[en] = homes
		td := &gen.TypeDef{Name: en, Kind: gen.Object}
		td.Fields = append(td.Fields, &gen.Field{Name: "id", Type: gen.Named("ID", true)})
		g.l.Fields[coord(en, "id")] = &FieldInfo{Owners: append([]int(nil), homes...), IsKey: true}
		used := map[string]bool{"id": true}
		nf := 2 + r.IntN(4)
		for i := 0; i < nf; i++ {
			fn := fieldPool[r.IntN(len(fieldPool))]
			if used[fn] {
				continue
			}
			used[fn] = true
			f := &gen.Field{Name: fn, Type: g.leafType(), Args: g.maybeArgs()}
			td.Fields = append(td.Fields, f)
			fi := &FieldInfo{Owners: []int{pick(r, homes)}}
			if p.Shareable && len(homes) > 1 && r.IntN(5) == 0 {
				for _, h := range homes {
					if h != fi.Owners[0] {
						fi.Owners = append(fi.Owners, h)
						break
					}
				}
			}
			g.l.Fields[coord(en, fn)] = fi
		}
		s.Add(td)
	}
	// ---- value types
	for _, vn := range valNames {
		td := &gen.TypeDef{Name: vn, Kind: gen.Object}
		used := map[string]bool{}
		nf := 2 + r.IntN(2)
		for i := 0; i < nf; i++ {
			fn := fieldPool[r.IntN(len(fieldPool))]
			if used[fn] {
				continue
			}
			used[fn] = true
			td.Fields = append(td.Fields, &gen.Field{Name: fn, Type: g.leafType()})
		}
		if r.IntN(3) == 0 {
			en := entNames[r.IntN(len(entNames))]
			td.Fields = append(td.Fields, &gen.Field{Name: "ref" + en, Type: gen.Named(en, false)})
		}
		s.Add(td)
	}
	// ---- abstract types over entities
	relOwnerHome := -1
	relOwnerTarget := ""
	var ifaceImpl []string
	if p.Interface && len(entNames) >= 2 {
		n := 2 + r.IntN(len(entNames)-1)
		perm := r.Perm(len(entNames))
		for _, k := range perm[:n] {
			ifaceImpl = append(ifaceImpl, entNames[k])
		}
		sort.Strings(ifaceImpl)
		it := &gen.TypeDef{Name: "Node", Kind: gen.Interface, Fields: []*gen.Field{{Name: "id", Type: gen.Named("ID", true)}, {Name: "label", Type: gen.Named("String", false)}}}
		s.Add(it)
		relOwner := ""
		var relOwnerType *gen.TypeRef
		relOwnerHome = -1
		if p.IfaceRel {
			relOwner = entNames[r.IntN(len(entNames))]
			relOwnerTarget = relOwner
			relOwnerType = gen.Named(relOwner, false)
			if r.IntN(2) == 0 {
				// a list of entities directly on the interface (batch entity fetch below an abstract parent)
				relOwnerType = gen.ListOf(gen.Named(relOwner, r.IntN(2) == 0), false)
			}
			it.Fields = append(it.Fields, &gen.Field{Name: "relOwner", Type: relOwnerType})
			// preferably one subgraph resolves relOwner for every implementer (then that subgraph's
			// interface lists the field and the planner can select it on the interface itself)
			count := map[int]int{}
			for _, en := range ifaceImpl {
				for _, h := range g.l.Entities[en] {
					count[h]++
				}
			}
			var common []int
			for h, n := range count {
				if n == len(ifaceImpl) {
					common = append(common, h)
				}
			}
			sort.Ints(common)
			if len(common) > 0 && r.IntN(4) != 0 {
				relOwnerHome = common[r.IntN(len(common))]
			}
		}
		// a second interface over some of the same types (IfaceRel only): `... on Owned` is a type
		// condition that applies to a concrete type next to `... on Node` and `... on T`
		owned := map[string]bool{}
		if relOwner != "" && r.IntN(2) == 0 {
			ot := &gen.TypeDef{Name: "Owned", Kind: gen.Interface, Fields: []*gen.Field{{Name: "id", Type: gen.Named("ID", true)}, {Name: "relOwner", Type: relOwnerType}}}
			s.Add(ot)
			for i, en := range ifaceImpl {
				if i == 0 || r.IntN(2) == 0 {
					owned[en] = true
				}
			}
		}
		// and sometimes a third one, so that three different type conditions apply to one concrete type
		tagged := map[string]bool{}
		if len(owned) > 0 && r.IntN(2) == 0 {
			tt := &gen.TypeDef{Name: "Tagged", Kind: gen.Interface, Fields: []*gen.Field{{Name: "id", Type: gen.Named("ID", true)}, {Name: "relOwner", Type: relOwnerType}}}
			s.Add(tt)
			for i, en := range ifaceImpl {
				if i == 0 || r.IntN(2) == 0 {
					tagged[en] = true
				}
			}
		}
		for _, en := range ifaceImpl {
			td := s.Type(en)
			td.Interfaces = append(td.Interfaces, "Node")
			if owned[en] {
				td.Interfaces = append(td.Interfaces, "Owned")
			}
			if tagged[en] {
				td.Interfaces = append(td.Interfaces, "Tagged")
			}
			if relOwner != "" {
				td.Fields = append(td.Fields, &gen.Field{Name: "relOwner", Type: relOwnerType})
				o := relOwnerHome
				if o < 0 {
					o = pick(r, g.l.Entities[en])
				}
				g.l.Fields[coord(en, "relOwner")] = &FieldInfo{Owners: []int{o}}
			}
			// same type as the interface field: a non-null strengthened implementer field runs into the
			// normaliser's nullability re-binding (known finding C03-F8), which is not what C01 is about
			lt := gen.Named("String", false)
			td.Fields = append(td.Fields, &gen.Field{Name: "label", Type: lt})
			g.l.Fields[coord(en, "label")] = &FieldInfo{Owners: []int{pick(r, g.l.Entities[en])}}
		}
	}
	var unionMembers []string
	if p.Union && len(entNames) >= 2 {
		n := 2 + r.IntN(len(entNames)-1)
		perm := r.Perm(len(entNames))
		for _, k := range perm[:n] {
			unionMembers = append(unionMembers, entNames[k])
		}
		sort.Strings(unionMembers)
		s.Add(&gen.TypeDef{Name: "SearchResult", Kind: gen.Union, Members: unionMembers})
	}
	// ---- relations between entities / to value types
	wrapRel := func(name string) *gen.TypeRef {
		switch r.IntN(5) {
		case 0:
			return gen.Named(name, true)
		case 1:
			return gen.ListOf(gen.Named(name, true), true)
		case 2:
			return gen.ListOf(gen.Named(name, false), false)
		case 3:
			return gen.ListOf(gen.Named(name, true), false)
		}
		return gen.Named(name, false)
	}
	for _, en := range entNames {
		td := s.Type(en)
		homes := g.l.Entities[en]
		nrel := r.IntN(3)
		for i := 0; i < nrel; i++ {
			target := entNames[r.IntN(len(entNames))]
			fn := fmt.Sprintf("rel%s%d", target, i)
			f := &gen.Field{Name: fn, Type: wrapRel(target)}
			if p.Args && r.IntN(4) == 0 {
				f.Args = []*gen.Arg{{Name: "first", Type: gen.Named("Int", false), Default: gen.IntV(2)}}
			}
			td.Fields = append(td.Fields, f)
			g.l.Fields[coord(en, fn)] = &FieldInfo{Owners: []int{pick(r, homes)}}
		}
		if len(valNames) > 0 && r.IntN(2) == 0 {
			vn := valNames[r.IntN(len(valNames))]
			fn := "val" + vn
			vt := gen.Named(vn, r.IntN(3) == 0)
			if r.IntN(4) == 0 {
				vt = gen.ListOf(gen.Named(vn, true), false)
			}
			td.Fields = append(td.Fields, &gen.Field{Name: fn, Type: vt})
			g.l.Fields[coord(en, fn)] = &FieldInfo{Owners: []int{pick(r, homes)}}
		}
		if len(ifaceImpl) > 0 && (r.IntN(4) == 0 || (p.IfaceRel && en == relOwnerTarget)) {
			// (with IfaceRel the target of relOwner always leads on to an abstract position)
			td.Fields = append(td.Fields, &gen.Field{Name: "relNode", Type: gen.Named("Node", false)})
			g.l.Fields[coord(en, "relNode")] = &FieldInfo{Owners: []int{pick(r, homes)}}
		}
	}
	// ---- requires / provides
	if p.Requires {
		for _, en := range entNames {
			homes := g.l.Entities[en]
			if len(homes) < 2 || r.IntN(2) == 0 {
				continue
			}
			td := s.Type(en)
			// x: a leaf, argument-free, non-list field owned by t; f: a new String field owned by s != t
			var xs []*gen.Field
			for _, f := range td.Fields {
				fi := g.l.Fields[coord(en, f.Name)]
				if f.Name != "id" && len(f.Args) == 0 && !f.Type.IsList() && s.IsLeaf(f.Type.NamedType()) && len(fi.Owners) == 1 && fi.Requires == "" {
					xs = append(xs, f)
				}
			}
			if len(xs) == 0 {
				continue
			}
			x := xs[r.IntN(len(xs))]
			t := g.l.Fields[coord(en, x.Name)].Owners[0]
			var others []int
			for _, h := range homes {
				if h != t {
					others = append(others, h)
				}
			}
			if len(others) == 0 {
				continue
			}
			fn := "derived" + strings.Title(x.Name)
			td.Fields = append(td.Fields, &gen.Field{Name: fn, Type: gen.Named("String", r.IntN(2) == 0)})
			o := pick(r, others)
			g.l.Fields[coord(en, fn)] = &FieldInfo{Owners: []int{o}, Requires: x.Name}
			if p.Requires2 && r.IntN(2) == 0 {
				var others2 []int
				for _, h := range homes {
					if h != o {
						others2 = append(others2, h)
					}
				}
				if len(others2) > 0 {
					fn2 := "derived2" + strings.Title(x.Name)
					td.Fields = append(td.Fields, &gen.Field{Name: fn2, Type: gen.Named("String", r.IntN(2) == 0)})
					g.l.Fields[coord(en, fn2)] = &FieldInfo{Owners: []int{pick(r, others2)}, Requires: fn}
				}
			}
		}
	}
	if p.Provides {
		for _, en := range entNames {
			td := s.Type(en)
			for _, f := range td.Fields {
				target := f.Type.NamedType()
				if _, isEnt := g.l.Entities[target]; !isEnt || r.IntN(2) == 0 {
					continue
				}
				fi := g.l.Fields[coord(en, f.Name)]
				sOwner := fi.Owners[0]
				ttd := s.Type(target)
				var xs []*gen.Field
				for _, x := range ttd.Fields {
					xi := g.l.Fields[coord(target, x.Name)]
					if x.Name == "id" || len(x.Args) > 0 || !s.IsLeaf(x.Type.NamedType()) || xi.Requires != "" {
						continue
					}
					ownsHere := false
					for _, o := range xi.Owners {
						if o == sOwner {
							ownsHere = true
						}
					}
					if !ownsHere {
						xs = append(xs, x)
					}
				}
				if len(xs) == 0 || len(fi.Owners) != 1 {
					continue
				}
				fi.Provides = xs[r.IntN(len(xs))].Name
				break
			}
		}
	}
	// ---- roots
	q := &gen.TypeDef{Name: "Query", Kind: gen.Object}
	addRoot := func(root *gen.TypeDef, f *gen.Field, owner int, lookup bool) {
		root.Fields = append(root.Fields, f)
		g.l.Fields[coord(root.Name, f.Name)] = &FieldInfo{Owners: []int{owner}}
		if lookup {
			g.l.LookupFields[coord(root.Name, f.Name)] = true
		}
	}
	for _, en := range entNames {
		low := strings.ToLower(en)
		addRoot(q, &gen.Field{Name: low, Type: gen.Named(en, false), Args: []*gen.Arg{{Name: "id", Type: gen.Named("ID", true)}}}, pick(r, all), true)
		if r.IntN(2) == 0 {
			lt := gen.ListOf(gen.Named(en, true), true)
			if r.IntN(3) == 0 {
				lt = gen.ListOf(gen.Named(en, false), false)
			}
			addRoot(q, &gen.Field{Name: low + "s", Type: lt}, pick(r, all), false)
		}
	}
	if len(ifaceImpl) > 0 {
		// (with a common relOwner home, often the same subgraph also serves the abstract root fields:
		// then nothing forces the planner to flatten `... on I { relOwner }` into per-type fragments)
		abstractRootHome := func() int {
			o := pick(r, all)
			if relOwnerHome >= 0 && r.IntN(3) != 0 {
				o = relOwnerHome
			}
			return o
		}
		addRoot(q, &gen.Field{Name: "nodes", Type: gen.ListOf(gen.Named("Node", r.IntN(2) == 0), false)}, abstractRootHome(), false)
		addRoot(q, &gen.Field{Name: "someNode", Type: gen.Named("Node", false)}, abstractRootHome(), false)
	}
	if len(unionMembers) > 0 {
		so := pick(r, all)
		if relOwnerHome >= 0 && r.IntN(3) != 0 {
			so = relOwnerHome
		}
		addRoot(q, &gen.Field{Name: "search", Type: gen.ListOf(gen.Named("SearchResult", false), false), Args: []*gen.Arg{{Name: "term", Type: gen.Named("String", false), Default: gen.StrV("x")}}}, so, false)
	}
	addRoot(q, &gen.Field{Name: "version", Type: gen.Named("String", true)}, pick(r, all), false)
	// no subgraph may be empty
	for si := 0; si < m; si++ {
		owns := false
		for _, homes := range g.l.Entities {
			for _, h := range homes {
				if h == si {
					owns = true
				}
			}
		}
		for _, fi := range g.l.Fields {
			for _, o := range fi.Owners {
				if o == si {
					owns = true
				}
			}
		}
		if !owns {
			addRoot(q, &gen.Field{Name: fmt.Sprintf("ping%d", si), Type: gen.Named("String", false)}, si, false)
		}
	}
	s.Add(q)
	if p.Mutation {
		s.Mutation = "Mutation"
		mt := &gen.TypeDef{Name: "Mutation", Kind: gen.Object}
		for i, en := range entNames {
			if i > 1 {
				break
			}
			addRoot(mt, &gen.Field{Name: "touch" + en, Type: gen.Named(en, false), Args: []*gen.Arg{{Name: "id", Type: gen.Named("ID", true)}, {Name: "n", Type: gen.Named("Int", false)}}}, pick(r, g.l.Entities[en]), true)
		}
		s.Add(mt)
	}
	g.l.Super = s
	g.l.SuperSDL = s.SDL()
	g.emit()
	return g.l
}

// typesReturnedBy lists the named types of the fields (of type tn) that subgraph si resolves.
func (g *lgen) ownedHere(tn string, f *gen.Field, si int) bool {
	fi := g.l.Fields[coord(tn, f.Name)]
	if fi == nil {
		return false
	}
	for _, o := range fi.Owners {
		if o == si {
			return true
		}
	}
	return false
}

func (g *lgen) emit() {
	s := g.l.Super
	m := g.p.Subgraphs
	isEntity := func(n string) bool { _, ok := g.l.Entities[n]; return ok }
	for si := 0; si < m; si++ {
		sg := &Subgraph{Index: si, Name: fmt.Sprintf("sub%d", si), Present: map[string]bool{}, Owned: map[string]bool{}, External: map[string]bool{}, ProvidedOn: map[string]string{}, RequiresIn: map[string]string{}}
		// 1. which types are needed: fixpoint over "types returned by fields resolved here"
		need := map[string]bool{}
		full := map[string]bool{} // value types: whole type lives here
		var visitType func(tn string)
		visitReturn := func(named string) {
			if isEntity(named) {
				need[named] = true
				return
			}
			td := s.Type(named)
			if td == nil {
				return
			}
			switch td.Kind {
			case gen.Object:
				if !full[named] {
					full[named] = true
					need[named] = true
					visitType(named)
				}
			case gen.Interface:
				need[named] = true
				for _, impl := range s.PossibleTypes(named) {
					need[impl] = true
				}
			case gen.Union:
				need[named] = true
				for _, mem := range td.Members {
					need[mem] = true
				}
			}
		}
		visitType = func(tn string) {
			td := s.Type(tn)
			for _, f := range td.Fields {
				// value types live here as a whole: every field of them is resolved here
				visitReturn(f.Type.NamedType())
			}
		}
		for en, homes := range g.l.Entities {
			for _, h := range homes {
				if h == si {
					need[en] = true
				}
			}
		}
		changed := true
		for changed {
			before := len(need) + len(full)
			for _, td := range s.Types {
				if td.Kind != gen.Object || full[td.Name] && !isEntity(td.Name) {
					continue
				}
				if !(isEntity(td.Name) || td.Name == s.Query || td.Name == s.Mutation) {
					continue
				}
				for _, f := range td.Fields {
					if g.ownedHere(td.Name, f, si) {
						visitReturn(f.Type.NamedType())
					}
				}
			}
			changed = len(need)+len(full) != before
		}
		// the additional interfaces (Owned, Tagged) are returned by no field: a subgraph that knows Node
		// and one of their implementers declares them too (so that `... on Owned` can be sent to it)
		if need["Node"] {
			for _, extra := range []string{"Owned", "Tagged"} {
				if s.Type(extra) == nil {
					continue
				}
				for _, impl := range s.PossibleTypes(extra) {
					if need[impl] {
						need[extra] = true
					}
				}
			}
		}
		// value types used in several subgraphs are shareable: computed after all subgraphs → mark always shareable
		// 2. SDL + metadata
		var sb strings.Builder
		meta := &plan.DataSourceMetadata{}
		usesKind := false
		typeUsesKind := func(f *gen.Field) {
			if f.Type.NamedType() == "Kind" {
				usesKind = true
			}
			for _, a := range f.Args {
				if a.Type.NamedType() == "Kind" {
					usesKind = true
				}
			}
		}
		fieldSDL := func(f *gen.Field, dirs string) string {
			var args []string
			for _, a := range f.Args {
				x := a.Name + ": " + a.Type.String()
				if a.Default != nil {
					x += " = " + a.Default.Literal()
				}
				args = append(args, x)
			}
			as := ""
			if len(args) > 0 {
				as = "(" + strings.Join(args, ", ") + ")"
			}
			return "  " + f.Name + as + ": " + f.Type.String() + dirs + "\n"
		}
		var names []string
		for n := range need {
			names = append(names, n)
		}
		sort.Strings(names)
		localIfaceFields := map[string][]*gen.Field{}
		for _, tn := range names {
			td := s.Type(tn)
			if td.Kind != gen.Interface {
				continue
			}
			// the local interface lists the key plus the fields every implementer resolves here
			var fs []*gen.Field
			for _, f := range td.Fields {
				if f.Name == "id" {
					fs = append(fs, f)
					continue
				}
				allLocal := true
				for _, impl := range s.PossibleTypes(tn) {
					itd := s.Type(impl)
					if jf := itd.Field(f.Name); jf == nil || !g.ownedHere(impl, jf, si) {
						allLocal = false
					}
				}
				if allLocal {
					fs = append(fs, f)
				}
			}
			localIfaceFields[tn] = fs
		}
		for _, tn := range names {
			td := s.Type(tn)
			sg.Present[tn] = true
			switch td.Kind {
			case gen.Interface:
				sb.WriteString("interface " + tn + " {\n")
				tf := plan.TypeField{TypeName: tn}
				for _, f := range localIfaceFields[tn] {
					sb.WriteString(fieldSDL(f, ""))
					tf.FieldNames = append(tf.FieldNames, f.Name)
				}
				sb.WriteString("}\n")
				meta.ChildNodes = append(meta.ChildNodes, tf)
			case gen.Union:
				sb.WriteString("union " + tn + " = " + strings.Join(td.Members, " | ") + "\n")
			case gen.Object:
				if isEntity(tn) {
					var impls []string
					for _, in := range td.Interfaces {
						if need[in] {
							impls = append(impls, in)
						}
					}
					sb.WriteString("type " + tn)
					if len(impls) > 0 {
						sb.WriteString(" implements " + strings.Join(impls, " & "))
					}
					sb.WriteString(" @key(fields: \"id\") {\n")
					tf := plan.TypeField{TypeName: tn}
					declared := map[string]bool{}
					// externals needed here: requires inputs of fields owned here; provided fields (as target of a provides owned here)
					ext := map[string]bool{}
					for _, f := range td.Fields {
						fi := g.l.Fields[coord(tn, f.Name)]
						if g.ownedHere(tn, f, si) && fi.Requires != "" {
							ext[fi.Requires] = true
						}
					}
					for _, otd := range s.Types {
						if otd.Kind != gen.Object {
							continue
						}
						for _, of := range otd.Fields {
							ofi := g.l.Fields[coord(otd.Name, of.Name)]
							if ofi != nil && ofi.Provides != "" && of.Type.NamedType() == tn && g.ownedHere(otd.Name, of, si) {
								ext[ofi.Provides] = true
							}
						}
					}
					for _, f := range td.Fields {
						fi := g.l.Fields[coord(tn, f.Name)]
						switch {
						case f.Name == "id":
							sb.WriteString(fieldSDL(f, ""))
							tf.FieldNames = append(tf.FieldNames, "id")
							declared["id"] = true
							sg.Owned[coord(tn, "id")] = true
						case g.ownedHere(tn, f, si):
							dirs := ""
							if len(fi.Owners) > 1 {
								dirs += " @shareable"
							}
							if fi.Requires != "" {
								dirs += fmt.Sprintf(" @requires(fields: %q)", fi.Requires)
								meta.Requires = append(meta.Requires, plan.FederationFieldConfiguration{TypeName: tn, FieldName: f.Name, SelectionSet: fi.Requires})
								sg.RequiresIn[coord(tn, f.Name)] = fi.Requires
							}
							if fi.Provides != "" {
								dirs += fmt.Sprintf(" @provides(fields: %q)", fi.Provides)
								meta.Provides = append(meta.Provides, plan.FederationFieldConfiguration{TypeName: tn, FieldName: f.Name, SelectionSet: fi.Provides})
								sg.ProvidedOn[coord(tn, f.Name)] = fi.Provides
							}
							sb.WriteString(fieldSDL(f, dirs))
							typeUsesKind(f)
							tf.FieldNames = append(tf.FieldNames, f.Name)
							declared[f.Name] = true
							sg.Owned[coord(tn, f.Name)] = true
						case ext[f.Name]:
							sb.WriteString(fieldSDL(f, " @external"))
							typeUsesKind(f)
							tf.ExternalFieldNames = append(tf.ExternalFieldNames, f.Name)
							declared[f.Name] = true
							sg.External[coord(tn, f.Name)] = true
						}
					}
					// interface fields the local interface lists must exist on the implementer (they do: owned here by construction)
					sb.WriteString("}\n")
					meta.RootNodes = append(meta.RootNodes, tf)
					meta.Keys = append(meta.Keys, plan.FederationFieldConfiguration{TypeName: tn, SelectionSet: "id"})
				} else {
					sb.WriteString("type " + tn + " @shareable {\n")
					tf := plan.TypeField{TypeName: tn}
					for _, f := range td.Fields {
						sb.WriteString(fieldSDL(f, ""))
						typeUsesKind(f)
						tf.FieldNames = append(tf.FieldNames, f.Name)
						sg.Owned[coord(tn, f.Name)] = true
					}
					sb.WriteString("}\n")
					meta.ChildNodes = append(meta.ChildNodes, tf)
				}
			}
		}
		for _, rootName := range []string{s.Query, s.Mutation} {
			if rootName == "" {
				continue
			}
			td := s.Type(rootName)
			tf := plan.TypeField{TypeName: rootName}
			var body strings.Builder
			for _, f := range td.Fields {
				if g.ownedHere(rootName, f, si) {
					fi := g.l.Fields[coord(rootName, f.Name)]
					dirs := ""
					if fi.Provides != "" {
						dirs = fmt.Sprintf(" @provides(fields: %q)", fi.Provides)
					}
					body.WriteString(fieldSDL(f, dirs))
					typeUsesKind(f)
					tf.FieldNames = append(tf.FieldNames, f.Name)
					sg.Owned[coord(rootName, f.Name)] = true
				}
			}
			if len(tf.FieldNames) > 0 {
				sb.WriteString("type " + rootName + " {\n" + body.String() + "}\n")
				meta.RootNodes = append(meta.RootNodes, tf)
				sg.Present[rootName] = true
			}
		}
		if usesKind {
			sb.WriteString("enum Kind {\n  ALPHA\n  BETA\n  GAMMA\n}\n")
		}
		sg.SDL = sb.String()
		sg.Meta = meta
		g.l.Subgraphs = append(g.l.Subgraphs, sg)
	}
	// field configurations: every supergraph field with arguments
	for _, td := range s.Types {
		if td.Kind != gen.Object && td.Kind != gen.Interface {
			continue
		}
		for _, f := range td.Fields {
			if len(f.Args) == 0 {
				continue
			}
			fc := plan.FieldConfiguration{TypeName: td.Name, FieldName: f.Name}
			for _, a := range f.Args {
				fc.Arguments = append(fc.Arguments, plan.ArgumentConfiguration{Name: a.Name, SourceType: plan.FieldArgumentSource})
			}
			g.l.FieldConfigs = append(g.l.FieldConfigs, fc)
		}
	}
	var d strings.Builder
	fmt.Fprintf(&d, "subgraphs=%d entities=%d", m, len(g.l.Entities))
	for c, fi := range g.l.Fields {
		if fi.Requires != "" {
			fmt.Fprintf(&d, " requires(%s<-%s)", c, fi.Requires)
		}
		if fi.Provides != "" {
			fmt.Fprintf(&d, " provides(%s->%s)", c, fi.Provides)
		}
		if len(fi.Owners) > 1 && !fi.IsKey {
			fmt.Fprintf(&d, " shareable(%s)", c)
		}
	}
	g.l.Describe = d.String()
}
