package fed

import (
	"bytes"
	"context"
	"encoding/json"
	"fmt"
	"io"
	"net/http"
	"sync"
	"sync/atomic"

	"github.com/jensneuse/abstractlogger"
	gast "github.com/vektah/gqlparser/v2/ast"

	"github.com/wundergraph/graphql-go-tools/execution/engine"
	"github.com/wundergraph/graphql-go-tools/execution/graphql"
	"github.com/wundergraph/graphql-go-tools/v2/pkg/engine/datasource/graphql_datasource"
	"github.com/wundergraph/graphql-go-tools/v2/pkg/engine/plan"
	"github.com/wundergraph/graphql-go-tools/v2/pkg/engine/resolve"

	"verifharness/internal/ref"
)

// Fault describes what the transport does instead of (or with) the semantic answer.
type Fault struct {
	Kind string // transport-error | status-500-empty | status-503-nonjson | ok-empty | ok-nonjson | errors-no-data | data-null-errors | fewer-entities | more-entities
	// Status: HTTP status of the opt-in kind "status-keep-body" (C16; not listed in FaultKinds)
	Status int
}

// FaultKinds lists the kinds in a fixed order.
var FaultKinds = []string{"transport-error", "status-500-empty", "status-503-nonjson", "ok-empty", "ok-nonjson", "errors-no-data", "data-null-errors", "fewer-entities", "more-entities"}

// Transport is the recording / gating / fault-injecting RoundTripper shared by all subgraphs of a
// gateway. All state is guarded by mu; the semantic handlers are called without holding it.
type Transport struct {
	servers map[string]*Server
	clock   atomic.Int64

	mu   sync.Mutex
	log  []*Request
	seq  int
	// FaultFor decides, for the n-th request (0-based arrival index) to a subgraph with the given
	// query, whether to inject a fault. Called under mu; must not block.
	FaultFor func(arrival int, subgraph, query string) *Fault
	// Gate, when set, is called (without mu) after the answer is computed and before it is returned;
	// it may block until the scheduler releases this request.
	Gate func(rec *Request)
	// Headers per subgraph response (e.g. Cache-Control)
	HeadersFor func(rec *Request) http.Header
}

func (t *Transport) Tick() int64 { return t.clock.Add(1) }

func (t *Transport) Log() []*Request {
	t.mu.Lock()
	defer t.mu.Unlock()
	return append([]*Request(nil), t.log...)
}

func (t *Transport) Reset() {
	t.mu.Lock()
	t.log = nil
	t.seq = 0
	t.mu.Unlock()
}

func (t *Transport) RoundTrip(req *http.Request) (*http.Response, error) {
	body, _ := io.ReadAll(req.Body)
	req.Body.Close()
	srv := t.servers[req.URL.Host]
	if srv == nil {
		return nil, fmt.Errorf("no such subgraph %q", req.URL.Host)
	}
	resp, rec := srv.Handle(body)
	r := &rec
	r.Arrival = t.Tick()
	t.mu.Lock()
	r.Seq = t.seq
	t.seq++
	t.log = append(t.log, r)
	var fault *Fault
	if t.FaultFor != nil {
		fault = t.FaultFor(r.Seq, r.Subgraph, r.Query)
	}
	t.mu.Unlock()
	status := 200
	var terr error
	if fault != nil {
		r.Faulted = fault.Kind
		switch fault.Kind {
		case "transport-error":
			terr = fmt.Errorf("injected transport error")
		case "status-500-empty":
			status, resp = 500, []byte{}
		case "status-503-nonjson":
			status, resp = 503, []byte("<html>service unavailable</html>")
		case "ok-empty":
			resp = []byte{}
		case "ok-nonjson":
			resp = []byte("<html>not json</html>")
		case "errors-no-data":
			resp = []byte(`{"errors":[{"message":"injected failure"}]}`)
		case "data-null-errors":
			resp = []byte(`{"data":null,"errors":[{"message":"injected failure"}]}`)
		case "fewer-entities", "more-entities":
			resp = resizeEntities(resp, fault.Kind == "more-entities")
		case "status-keep-body": // opt-in (C16): the semantic answer under another HTTP status
			status = fault.Status
		case "ok-truncated": // opt-in (C16): 200 with the semantic answer cut in the middle (unparsable JSON)
			resp = append([]byte{}, resp[:len(resp)/2]...)
		case "data-null": // opt-in (C16): 200 {"data":null} without errors
			resp = []byte(`{"data":null}`)
		case "data-empty": // opt-in (C16): 200 {"data":{}} (no _entities / no root fields), no errors
			resp = []byte(`{"data":{}}`)
		case "null-entity": // opt-in (C16): the first entity of an _entities answer is null (entity not found), no errors
			resp = nullFirstEntity(resp)
		case "data-and-errors": // opt-in (C16): the semantic answer (data kept) plus a non-empty errors array
			if len(resp) > 1 && resp[len(resp)-1] == '}' && !bytes.Contains(resp, []byte(`"errors":`)) {
				resp = append(append([]byte{}, resp[:len(resp)-1]...), `,"errors":[{"message":"injected partial failure"}]}`...)
			}
		}
	}
	if t.Gate != nil {
		t.Gate(r)
	}
	r.Release = t.Tick()
	t.mu.Lock()
	r.Response = string(resp)
	r.Status = status
	t.mu.Unlock()
	if terr != nil {
		return nil, terr
	}
	h := http.Header{"Content-Type": []string{"application/json"}}
	if t.HeadersFor != nil {
		for k, v := range t.HeadersFor(r) {
			h[k] = v
		}
	}
	return &http.Response{StatusCode: status, Status: fmt.Sprintf("%d", status), Body: io.NopCloser(bytes.NewReader(resp)), Header: h, ContentLength: int64(len(resp)), Request: req}, nil
}

// nullFirstEntity (opt-in fault "null-entity"): numbers are kept textually.
func nullFirstEntity(resp []byte) []byte {
	dec := json.NewDecoder(bytes.NewReader(resp))
	dec.UseNumber()
	var m map[string]any
	if dec.Decode(&m) != nil {
		return resp
	}
	data, _ := m["data"].(map[string]any)
	ents, ok := data["_entities"].([]any)
	if !ok || len(ents) == 0 {
		return resp
	}
	ents[0] = nil
	b, err := json.Marshal(m)
	if err != nil {
		return resp
	}
	return b
}

func resizeEntities(resp []byte, more bool) []byte {
	var m map[string]any
	if json.Unmarshal(resp, &m) != nil {
		return resp
	}
	data, _ := m["data"].(map[string]any)
	if data == nil {
		return resp
	}
	ents, ok := data["_entities"].([]any)
	if !ok {
		return resp
	}
	if more {
		if len(ents) > 0 {
			ents = append(ents, ents[0])
		} else {
			ents = append(ents, map[string]any{"__typename": "Unknown"})
		}
	} else if len(ents) > 0 {
		ents = ents[:len(ents)-1]
	}
	data["_entities"] = ents
	b, _ := json.Marshal(m)
	return b
}

// Gateway is a real ExecutionEngine over the layout's subgraphs.
type Gateway struct {
	L         *Layout
	Engine    *engine.ExecutionEngine
	Transport *Transport
	Universe  *ref.Universe
	SuperGql  *gast.Schema
	Servers   map[string]*Server
	cancel    context.CancelFunc
}

type GatewayOptions struct {
	MultiFetch     bool
	ScheduleFetch  bool
	Configure      func(conf *engine.Configuration)
	ResolverOpts   func(o *resolve.ResolverOptions)
}

// NewGateway loads every schema (self-checks: an error is a generator bug) and builds the engine.
func NewGateway(l *Layout, superGql *gast.Schema, u *ref.Universe, o GatewayOptions) (*Gateway, error) {
	t := &Transport{servers: map[string]*Server{}}
	servers := map[string]*Server{}
	for _, sg := range l.Subgraphs {
		sch, err := LoadSubgraphSchema(l, sg)
		if err != nil {
			return nil, err
		}
		srv := &Server{L: l, Sub: sg, Schema: sch, U: u}
		t.servers[sg.Name] = srv
		servers[sg.Name] = srv
	}
	ctx, cancel := context.WithCancel(context.Background())
	client := &http.Client{Transport: t}
	factory, err := graphql_datasource.NewFactory(ctx, client, graphql_datasource.NewGraphQLSubscriptionClient(ctx, graphql_datasource.WithUpgradeClient(client), graphql_datasource.WithStreamingClient(client)))
	if err != nil {
		cancel()
		return nil, err
	}
	var dss []plan.DataSource
	for _, sg := range l.Subgraphs {
		var fedCfg *graphql_datasource.FederationConfiguration
		if !l.Profile.Single {
			fedCfg = &graphql_datasource.FederationConfiguration{Enabled: true, ServiceSDL: sg.SDL}
		}
		sc, err := graphql_datasource.NewSchemaConfiguration(sg.SDL, fedCfg)
		if err != nil {
			cancel()
			return nil, fmt.Errorf("schema configuration of %s: %v\n%s", sg.Name, err, sg.SDL)
		}
		cfg, err := graphql_datasource.NewConfiguration(graphql_datasource.ConfigurationInput{
			Fetch:               &graphql_datasource.FetchConfiguration{URL: "http://" + sg.Name + "/", Method: "POST"},
			SchemaConfiguration: sc,
		})
		if err != nil {
			cancel()
			return nil, err
		}
		meta := *sg.Meta
		d, err := plan.NewDataSourceConfigurationWithName[graphql_datasource.Configuration](sg.Name, sg.Name, factory, &meta, cfg)
		if err != nil {
			cancel()
			return nil, fmt.Errorf("datasource %s: %v", sg.Name, err)
		}
		dss = append(dss, d)
	}
	schema, err := graphql.NewSchemaFromString(l.SuperSDL)
	if err != nil {
		cancel()
		return nil, fmt.Errorf("supergraph rejected by the repository: %v", err)
	}
	conf := engine.NewConfiguration(schema)
	conf.SetDataSources(dss)
	conf.SetFieldConfigurations(l.FieldConfigs)
	if o.MultiFetch {
		conf.EnableMultiFetch()
	}
	if o.ScheduleFetch {
		conf.EnableScheduleFetches()
	}
	if o.Configure != nil {
		o.Configure(&conf)
	}
	ro := resolve.ResolverOptions{MaxConcurrency: 64}
	if o.ResolverOpts != nil {
		o.ResolverOpts(&ro)
	}
	eng, err := engine.NewExecutionEngine(ctx, abstractlogger.NoopLogger, conf, ro)
	if err != nil {
		cancel()
		return nil, fmt.Errorf("engine: %v", err)
	}
	return &Gateway{L: l, Engine: eng, Transport: t, Universe: u, SuperGql: superGql, Servers: servers, cancel: cancel}, nil
}

func (g *Gateway) Close() { g.cancel() }

// Result of one gateway execution.
type Result struct {
	Raw      string
	Err      error
	Data     any
	HasData  bool
	Errors   []any
	Requests []*Request
	Frames   []string
}

// Execute runs one request through the engine (requests log is reset first).
func (g *Gateway) Execute(ctx context.Context, query, opName string, vars []byte, opts ...engine.ExecutionOptions) *Result {
	g.Transport.Reset()
	w := graphql.NewEngineResultWriter()
	res := &Result{}
	var fmu sync.Mutex
	w.SetFlushCallback(func(data []byte) {
		fmu.Lock()
		res.Frames = append(res.Frames, string(data))
		fmu.Unlock()
	})
	req := &graphql.Request{Query: query, OperationName: opName, Variables: vars}
	res.Err = g.Engine.Execute(ctx, req, &w, opts...)
	res.Raw = w.String()
	res.Requests = g.Transport.Log()
	if res.Err == nil && len(res.Frames) == 0 {
		v, err := ref.DecodeJSON([]byte(res.Raw))
		if err != nil {
			res.Err = fmt.Errorf("response is not valid JSON: %v", err)
			return res
		}
		if m, ok := v.(map[string]any); ok {
			res.Data, res.HasData = m["data"]
			res.Errors, _ = m["errors"].([]any)
		}
	}
	return res
}
