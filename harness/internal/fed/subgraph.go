package fed

import (
	"encoding/json"
	"fmt"
	"sort"
	"strings"
	"sync"

	"github.com/vektah/gqlparser/v2"
	gast "github.com/vektah/gqlparser/v2/ast"

	"verifharness/internal/ref"
)

const fedPrelude = `
scalar _Any
scalar _FieldSet
directive @key(fields: _FieldSet!, resolvable: Boolean = true) repeatable on OBJECT | INTERFACE
directive @external on FIELD_DEFINITION | OBJECT
directive @requires(fields: _FieldSet!) on FIELD_DEFINITION
directive @provides(fields: _FieldSet!) on FIELD_DEFINITION
directive @shareable on FIELD_DEFINITION | OBJECT
`

// Server is the semantic implementation of one subgraph.
type Server struct {
	L      *Layout
	Sub    *Subgraph
	Schema *gast.Schema
	U      *ref.Universe
}

// Request is one recorded subgraph request.
type Request struct {
	Seq        int
	Subgraph   string
	Query      string
	Variables  map[string]any
	RawBody    string
	Reps       []map[string]any
	Response   string
	Status     int
	Problems   []string // validity / ownership problems found by the semantic server
	Faulted    string   // fault kind injected ("" = none)
	Arrival    int64    // logical clock
	Release    int64
	Selected   []string // coordinates "Type.field" selected by the request (resolved positions)
	// Resolved: keys (ProvKey) of every field position this request resolved (type, object id, field, arguments)
	Resolved map[string]bool
}

// ProvKey identifies one resolved field position independently of where it is resolved.
func ProvKey(typeName, objID, field string, args map[string]any) string {
	a := ""
	if len(args) > 0 {
		a = ref.Canon(args)
	}
	return typeName + "|" + objID + "|" + field + "|" + a
}

// LoadSubgraphSchema loads the subgraph SDL with the federation prelude and _entities.
func LoadSubgraphSchema(l *Layout, sg *Subgraph) (*gast.Schema, error) {
	var ents []string
	for en := range l.Entities {
		if sg.Present[en] {
			ents = append(ents, en)
		}
	}
	sort.Strings(ents)
	sdl := sg.SDL + fedPrelude
	if len(ents) > 0 {
		sdl += "union _Entity = " + strings.Join(ents, " | ") + "\n"
		if sg.Present["Query"] {
			sdl += "extend type Query { _entities(representations: [_Any!]!): [_Entity]! }\n"
		} else {
			sdl += "type Query { _entities(representations: [_Any!]!): [_Entity]! }\n"
		}
	} else if !sg.Present["Query"] {
		sdl += "type Query { _noop: Boolean }\n"
	}
	s, err := gqlparser.LoadSchema(&gast.Source{Name: sg.Name, Input: sdl})
	if err != nil {
		return nil, fmt.Errorf("subgraph %s SDL rejected by gqlparser: %v\n%s", sg.Name, err, sdl)
	}
	return s, nil
}

// resolver implements ref.FieldResolver for one subgraph (sub != nil) or for the monolithic
// reference run on the supergraph (sub == nil).
type resolver struct {
	l        *Layout
	sub      *Subgraph
	u        *ref.Universe
	mu       sync.Mutex
	problems []string
	selected map[string]bool
	resolved map[string]bool
	// provided: object identity → set of externally owned fields that may be answered on this path
	provided map[*ref.Obj]map[string]bool
}

func (r *resolver) problem(format string, a ...any) {
	r.mu.Lock()
	if len(r.problems) < 20 {
		r.problems = append(r.problems, fmt.Sprintf(format, a...))
	}
	r.mu.Unlock()
}

// RequiresValue is how a @requires field is computed from its input (both in the owning subgraph,
// from the representation, and in the reference run, from the universe).
func RequiresValue(typeName, field, id string, input any) string {
	return fmt.Sprintf("req:%s.%s#%s(%s)", typeName, field, id, ref.Canon(input))
}

func (r *resolver) Resolve(obj *ref.Obj, parentDef *gast.Definition, fd *gast.FieldDefinition, args map[string]any, path []any) (any, error) {
	c := coord(obj.Type, fd.Name)
	if r.selected != nil {
		r.mu.Lock()
		r.selected[c] = true
		if r.resolved != nil {
			r.resolved[ProvKey(obj.Type, obj.ID, fd.Name, args)] = true
		}
		r.mu.Unlock()
	}
	_, isEntity := r.l.Entities[obj.Type]
	fi := r.l.Fields[c]
	// ---- ownership (subgraph runs only)
	if r.sub != nil && fd.Name != "_entities" {
		switch {
		case r.sub.Owned[c]:
		case isEntity && fd.Name == "id":
		case r.sub.External[c]:
			// allowed only when provided on this path
			if !r.provided[obj][fd.Name] {
				r.problem("external field %s selected outside a @provides path", c)
			}
		default:
			r.problem("field %s is not owned by subgraph %s", c, r.sub.Name)
		}
	}
	if isEntity && fd.Name == "id" {
		return obj.ID, nil
	}
	// lookup fields: the id argument is the identity of the returned entity
	if r.l.LookupFields[c] {
		id, _ := args["id"].(string)
		if id == "" {
			if n, ok := args["id"].(int64); ok {
				id = fmt.Sprint(n)
			}
		}
		o := &ref.Obj{Type: fd.Type.Name(), ID: id}
		r.markProvided(c, o)
		return o, nil
	}
	if fi != nil && fi.Requires != "" {
		var input any
		if r.sub != nil {
			// computed only from what the representation carries
			v, ok := obj.Rep[fi.Requires]
			switch {
			case ok:
				input = ref.NormalizeJSON(v)
			case r.provided[obj][fi.Requires]:
				// the subgraph provides the external field on this path, so it knows its value here
				xfd := parentDef.Fields.ForName(fi.Requires)
				pv, _ := r.u.Resolve(obj, parentDef, xfd, map[string]any{}, nil)
				input = ref.NormalizeJSON(pv)
			default:
				r.problem("representation of %s lacks the @requires input %q for %s", obj.Type, fi.Requires, fd.Name)
				return "MISSING-REQUIRES-INPUT", nil
			}
		} else {
			input = r.referenceValue(obj, parentDef, fi.Requires)
		}
		return RequiresValue(obj.Type, fd.Name, obj.ID, input), nil
	}
	v, err := r.u.Resolve(obj, parentDef, fd, args, path)
	if err == nil && fi != nil && fi.Provides != "" && r.sub != nil {
		r.markProvidedDeep(c, v)
	}
	return v, err
}

// referenceValue is the monolithic value of an argument-free leaf field (used as @requires input):
// the universe's value, or - for a field that is itself computed by @requires - the computed one.
func (r *resolver) referenceValue(obj *ref.Obj, parentDef *gast.Definition, name string) any {
	xfd := parentDef.Fields.ForName(name)
	if xi := r.l.Fields[coord(obj.Type, name)]; xi != nil && xi.Requires != "" {
		return RequiresValue(obj.Type, name, obj.ID, r.referenceValue(obj, parentDef, xi.Requires))
	}
	v, _ := r.u.Resolve(obj, parentDef, xfd, map[string]any{}, nil)
	return ref.NormalizeJSON(v)
}

func (r *resolver) markProvided(c string, o *ref.Obj) {
	if r.sub == nil {
		return
	}
	if p := r.sub.ProvidedOn[c]; p != "" {
		r.mu.Lock()
		if r.provided[o] == nil {
			r.provided[o] = map[string]bool{}
		}
		r.provided[o][p] = true
		r.mu.Unlock()
	}
}

func (r *resolver) markProvidedDeep(c string, v any) {
	switch x := v.(type) {
	case *ref.Obj:
		r.markProvided(c, x)
	case []any:
		for _, it := range x {
			r.markProvidedDeep(c, it)
		}
	}
}

// NewReferenceResolver returns the resolver of the monolithic reference run.
func NewReferenceResolver(l *Layout, u *ref.Universe) ref.FieldResolver {
	return &resolver{l: l, u: u}
}

// Handle executes one subgraph request semantically. It never fails: problems are recorded.
func (s *Server) Handle(body []byte) (response []byte, rec Request) {
	rec.Subgraph = s.Sub.Name
	rec.RawBody = string(body)
	rec.Status = 200
	var in struct {
		Query     string         `json:"query"`
		Variables map[string]any `json:"variables"`
	}
	dec := json.NewDecoder(strings.NewReader(string(body)))
	dec.UseNumber()
	if err := dec.Decode(&in); err != nil {
		rec.Problems = append(rec.Problems, "request body is not valid JSON: "+err.Error())
		return []byte(`{"errors":[{"message":"bad request"}]}`), rec
	}
	rec.Query = in.Query
	rec.Variables = in.Variables
	doc, gerrs := gqlparser.LoadQuery(s.Schema, in.Query)
	if gerrs != nil {
		rec.Problems = append(rec.Problems, "operation is not valid for the subgraph schema: "+gerrs.Error())
		return []byte(`{"errors":[{"message":"invalid operation"}]}`), rec
	}
	if len(doc.Operations) != 1 {
		rec.Problems = append(rec.Problems, fmt.Sprintf("%d operations in one subgraph request", len(doc.Operations)))
	}
	op := doc.Operations[0]
	co := ref.Coercer{Schema: s.Schema}
	vars, cerr := co.CoerceVariableValues(op, in.Variables)
	if cerr != nil {
		rec.Problems = append(rec.Problems, "variables are not coercible for the subgraph operation: "+cerr.Error())
		return []byte(`{"errors":[{"message":"invalid variables"}]}`), rec
	}
	rs := &resolver{l: s.L, sub: s.Sub, u: s.U, selected: map[string]bool{}, resolved: map[string]bool{}, provided: map[*ref.Obj]map[string]bool{}}
	ex := &ref.Executor{Schema: s.Schema, Resolver: rs, Vars: vars}
	data := map[string]any{}
	rootName := "Query"
	if op.Operation == gast.Mutation {
		rootName = "Mutation"
	}
	// _entities is answered from the representations; everything else by the executor
	var plain gast.SelectionSet
	for _, sel := range op.SelectionSet {
		f, ok := sel.(*gast.Field)
		if !ok || f.Name != "_entities" {
			plain = append(plain, sel)
			continue
		}
		repsArg := f.Arguments.ForName("representations")
		var reps []any
		if repsArg != nil {
			if v, err := repsArg.Value.Value(in.Variables); err == nil {
				reps, _ = v.([]any)
			}
		}
		out := make([]any, 0, len(reps))
		for i, rp := range reps {
			rep, _ := rp.(map[string]any)
			rec.Reps = append(rec.Reps, rep)
			tn, _ := rep["__typename"].(string)
			id := ""
			switch x := rep["id"].(type) {
			case string:
				id = x
			case json.Number:
				id = string(x)
			}
			if _, isEnt := s.L.Entities[tn]; !isEnt || !s.Sub.Present[tn] {
				rs.problem("representation %d has typename %q which is not an entity of subgraph %s", i, tn, s.Sub.Name)
				out = append(out, nil)
				continue
			}
			if _, hasID := rep["id"]; !hasID {
				rs.problem("representation %d of %s lacks the key field id", i, tn)
				out = append(out, nil)
				continue
			}
			obj := &ref.Obj{Type: tn, ID: id, Rep: rep}
			res, ok := ex.ExecuteSelection(obj, f.SelectionSet, []any{f.Alias, i})
			if !ok {
				out = append(out, nil)
				continue
			}
			out = append(out, res)
		}
		key := f.Alias
		if key == "" {
			key = f.Name
		}
		data[key] = out
	}
	var dataOut any = data
	if len(plain) > 0 {
		res, ok := ex.ExecuteSelection(&ref.Obj{Type: rootName, ID: "root"}, plain, nil)
		if !ok {
			dataOut = nil
		} else {
			for k, v := range res {
				data[k] = v
			}
		}
	}
	rec.Problems = append(rec.Problems, rs.problems...)
	for c := range rs.selected {
		rec.Selected = append(rec.Selected, c)
	}
	sort.Strings(rec.Selected)
	rec.Resolved = rs.resolved
	out := map[string]any{"data": dataOut}
	if len(ex.Errors) > 0 {
		var es []map[string]any
		for _, e := range ex.Errors {
			es = append(es, map[string]any{"message": e.Message, "path": e.Path})
		}
		out["errors"] = es
	}
	b, err := json.Marshal(out)
	if err != nil {
		rec.Problems = append(rec.Problems, "response not serialisable: "+err.Error())
		return []byte(`{"errors":[{"message":"internal"}]}`), rec
	}
	return b, rec
}
