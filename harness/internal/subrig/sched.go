package subrig

import (
	"math/rand/v2"
	"runtime"
	"strings"
	"sync"
	"time"
)

// Controller decides what happens when a goroutine of the code under test reaches a verif yield
// point: nothing, a seeded micro-delay (perturb mode), or parking until the script releases it.
type Controller struct {
	mu     sync.Mutex
	hits   map[string]int64
	parks  []*Park
	trace  []string
	parked int

	perturbP float64
	rng      *rand.Rand
	delays   int64
}

// Park is one armed parking request: the first goroutine that reaches Point with ids accepted by
// Match is held until Release.
type Park struct {
	Point   string
	Match   func(a, b int64) bool
	A, B    int64 // ids of the goroutine that was parked
	taken   bool
	arrived chan struct{}
	release chan struct{}
	once    sync.Once
	c       *Controller
}

func NewController() *Controller {
	return &Controller{hits: map[string]int64{}}
}

// Perturb switches seeded micro-delays on: with probability p a goroutine reaching any yield point
// yields the processor or sleeps 0–200 µs. The delays only make likely what the scheduler could do
// anyway.
func (c *Controller) Perturb(p float64, rng *rand.Rand) {
	c.mu.Lock()
	c.perturbP = p
	c.rng = rng
	c.mu.Unlock()
}

func (c *Controller) Arm(point string, match func(a, b int64) bool) *Park {
	p := &Park{Point: point, Match: match, arrived: make(chan struct{}), release: make(chan struct{}), c: c}
	c.mu.Lock()
	c.parks = append(c.parks, p)
	c.mu.Unlock()
	return p
}

// Yield is the hook callback.
func (c *Controller) Yield(point string, a, b int64) {
	c.mu.Lock()
	c.hits[point]++
	for _, p := range c.parks {
		if p.taken || p.Point != point {
			continue
		}
		if p.Match != nil && !p.Match(a, b) {
			continue
		}
		p.taken = true
		p.A, p.B = a, b
		c.parked++
		c.trace = append(c.trace, "park:"+short(point))
		c.mu.Unlock()
		close(p.arrived)
		<-p.release
		c.mu.Lock()
		c.trace = append(c.trace, "go:"+short(point))
		c.mu.Unlock()
		return
	}
	var d time.Duration = -1
	gosched := false
	if c.rng != nil && c.perturbP > 0 && c.rng.Float64() < c.perturbP {
		c.delays++
		if c.rng.IntN(3) == 0 {
			gosched = true
		} else {
			d = time.Duration(c.rng.IntN(200)) * time.Microsecond
		}
	}
	c.mu.Unlock()
	if gosched {
		runtime.Gosched()
	} else if d >= 0 {
		time.Sleep(d)
	}
}

func short(point string) string {
	point = strings.TrimPrefix(point, "sub.")
	return point
}

// Arrived waits (bounded) until a goroutine has been parked.
func (p *Park) Arrived(d time.Duration) bool {
	select {
	case <-p.arrived:
		return true
	case <-time.After(d):
		return false
	}
}

func (p *Park) IsParked() bool {
	select {
	case <-p.arrived:
		return true
	default:
		return false
	}
}

// Release lets the parked goroutine continue (idempotent; also disarms a park nobody reached).
func (p *Park) Release() {
	p.once.Do(func() {
		p.c.mu.Lock()
		if !p.taken {
			p.taken = true // disarm
		}
		p.c.mu.Unlock()
		close(p.release)
	})
}

// ReleaseAll opens every gate (end of scenario).
func (c *Controller) ReleaseAll() {
	c.mu.Lock()
	ps := append([]*Park(nil), c.parks...)
	c.mu.Unlock()
	for _, p := range ps {
		p.Release()
	}
}

// Note appends a script step to the interleaving signature.
func (c *Controller) Note(s string) {
	c.mu.Lock()
	c.trace = append(c.trace, s)
	c.mu.Unlock()
}

func (c *Controller) Signature() string {
	c.mu.Lock()
	defer c.mu.Unlock()
	return strings.Join(c.trace, " ")
}

func (c *Controller) Hits() map[string]int64 {
	c.mu.Lock()
	defer c.mu.Unlock()
	out := make(map[string]int64, len(c.hits))
	for k, v := range c.hits {
		out[k] = v
	}
	return out
}

func (c *Controller) Parked() int {
	c.mu.Lock()
	defer c.mu.Unlock()
	return c.parked
}

func (c *Controller) Delays() int64 {
	c.mu.Lock()
	defer c.mu.Unlock()
	return c.delays
}
