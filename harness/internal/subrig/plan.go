package subrig

import (
	"bytes"
	"fmt"
	"regexp"
	"strconv"

	"github.com/wundergraph/graphql-go-tools/v2/pkg/engine/resolve"
)

// The upstream event is {"data":{"ev":{"id":N,"k":"<key>","g":G,"x":"xN","s":"sG","meta":{…}}}} (the
// fields after x only feed the filters); the response of every
// subscriber is a plain projection of it, so the solo rendering of an event for a subscriber is
// known by construction (and cross-checked against a private Resolvable, see SoloRender).

const NumVariants = 4

func EventPayload(id int, key string, g int) string {
	return fmt.Sprintf(`{"data":{"ev":{"id":%d,"k":"%s","g":%d,"x":"x%d","s":"s%d","meta":{"m":%d,"t":"t.%d","deep":{"q":"q%d"}}}}}`, id, key, g, id, g, g*10+1, g, g)
}

func variantObject(v int) *resolve.Object {
	id := &resolve.Field{Name: []byte("id"), Value: &resolve.Integer{Path: []string{"id"}}}
	k := &resolve.Field{Name: []byte("k"), Value: &resolve.String{Path: []string{"k"}}}
	key := &resolve.Field{Name: []byte("key"), Value: &resolve.String{Path: []string{"k"}}}
	g := &resolve.Field{Name: []byte("g"), Value: &resolve.Integer{Path: []string{"g"}}}
	x := &resolve.Field{Name: []byte("x"), Value: &resolve.String{Path: []string{"x"}}}
	var fs []*resolve.Field
	switch v % NumVariants {
	case 0:
		fs = []*resolve.Field{id, k}
	case 1:
		fs = []*resolve.Field{id, k, g}
	case 2:
		fs = []*resolve.Field{id, key}
	default:
		fs = []*resolve.Field{x, id, k, g}
	}
	return &resolve.Object{Fields: []*resolve.Field{{Name: []byte("ev"), Value: &resolve.Object{Path: []string{"ev"}, Fields: fs}}}}
}

// Expected is the solo rendering by construction.
func Expected(variant, id int, key string, g int) string {
	switch variant % NumVariants {
	case 0:
		return fmt.Sprintf(`{"data":{"ev":{"id":%d,"k":"%s"}}}`, id, key)
	case 1:
		return fmt.Sprintf(`{"data":{"ev":{"id":%d,"k":"%s","g":%d}}}`, id, key, g)
	case 2:
		return fmt.Sprintf(`{"data":{"ev":{"id":%d,"key":"%s"}}}`, id, key)
	default:
		return fmt.Sprintf(`{"data":{"ev":{"x":"x%d","id":%d,"k":"%s","g":%d}}}`, id, id, key, g)
	}
}

// SoloRender renders the event for the subscriber's plan on a private Resolvable (no resolver,
// no other subscriber).
func SoloRender(s *Subscriber, payload string) (string, error) {
	res := resolve.NewResolvable(nil, resolve.ResolvableOptions{})
	if err := res.InitSubscription(s.RCtx, []byte(payload), s.Plan.Trigger.PostProcessing); err != nil {
		return "", err
	}
	var buf bytes.Buffer
	if err := res.Resolve(s.Ctx, s.Plan.Response.Data, s.Plan.Response.Fetches, &buf); err != nil {
		return "", err
	}
	return buf.String(), nil
}

var idRe = regexp.MustCompile(`"id":(\d+)`)
var keyRe = regexp.MustCompile(`"k(?:ey)?":"([^"]*)"`)

// ParseDelivered extracts the event id and the key embedded in a delivered message.
func ParseDelivered(msg string) (id int, key string, ok bool) {
	m := idRe.FindStringSubmatch(msg)
	if m == nil {
		return 0, "", false
	}
	id, err := strconv.Atoi(m[1])
	if err != nil {
		return 0, "", false
	}
	if k := keyRe.FindStringSubmatch(msg); k != nil {
		key = k[1]
	}
	return id, key, true
}
