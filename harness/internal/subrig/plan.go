package subrig

import (
	"bytes"
	"fmt"
	"regexp"
	"strconv"
	"strings"

	"github.com/wundergraph/graphql-go-tools/v2/pkg/engine/resolve"
)

// The upstream event is {"data":{"ev":{"id":N,"k":"<key>","g":G,"x":"xN"}}}; the response of every
// subscriber is a plain projection of it, so the solo rendering of an event for a subscriber is
// known by construction (and cross-checked against a private Resolvable, see SoloRender).

const NumVariants = 4

func EventPayload(id int, key string, g int) string {
	return fmt.Sprintf(`{"data":{"ev":{"id":%d,"k":"%s","g":%d,"x":"x%d"}}}`, id, key, g, id)
}

func variantObject(v int) *resolve.Object {
	id := &resolve.Field{Name: []byte("id"), Value: &resolve.Integer{Path: []string{"id"}}}
	k := &resolve.Field{Name: []byte("k"), Value: &resolve.String{Path: []string{"k"}}}
	key := &resolve.Field{Name: []byte("key"), Value: &resolve.String{Path: []string{"k"}}}
	g := &resolve.Field{Name: []byte("g"), Value: &resolve.Integer{Path: []string{"g"}}}
	x := &resolve.Field{Name: []byte("x"), Value: &resolve.String{Path: []string{"x"}}}
	var fs []*resolve.Field
	switch v % NumVariants {
	case 0:
		fs = []*resolve.Field{id, k}
	case 1:
		fs = []*resolve.Field{id, k, g}
	case 2:
		fs = []*resolve.Field{id, key}
	default:
		fs = []*resolve.Field{x, id, k, g}
	}
	return &resolve.Object{Fields: []*resolve.Field{{Name: []byte("ev"), Value: &resolve.Object{Path: []string{"ev"}, Fields: fs}}}}
}

// Expected is the solo rendering by construction.
func Expected(variant, id int, key string, g int) string {
	switch variant % NumVariants {
	case 0:
		return fmt.Sprintf(`{"data":{"ev":{"id":%d,"k":"%s"}}}`, id, key)
	case 1:
		return fmt.Sprintf(`{"data":{"ev":{"id":%d,"k":"%s","g":%d}}}`, id, key, g)
	case 2:
		return fmt.Sprintf(`{"data":{"ev":{"id":%d,"key":"%s"}}}`, id, key)
	default:
		return fmt.Sprintf(`{"data":{"ev":{"x":"x%d","id":%d,"k":"%s","g":%d}}}`, id, id, key, g)
	}
}

// SoloRender renders the event for the subscriber's plan on a private Resolvable (no resolver,
// no other subscriber).
func SoloRender(s *Subscriber, payload string) (string, error) {
	res := resolve.NewResolvable(nil, resolve.ResolvableOptions{})
	if err := res.InitSubscription(s.RCtx, []byte(payload), s.Plan.Trigger.PostProcessing); err != nil {
		return "", err
	}
	var buf bytes.Buffer
	if err := res.Resolve(s.Ctx, s.Plan.Response.Data, s.Plan.Response.Fetches, &buf); err != nil {
		return "", err
	}
	return buf.String(), nil
}

var idRe = regexp.MustCompile(`"id":(\d+)`)
var keyRe = regexp.MustCompile(`"k(?:ey)?":"([^"]*)"`)

// ParseDelivered extracts the event id and the key embedded in a delivered message.
func ParseDelivered(msg string) (id int, key string, ok bool) {
	m := idRe.FindStringSubmatch(msg)
	if m == nil {
		return 0, "", false
	}
	id, err := strconv.Atoi(m[1])
	if err != nil {
		return 0, "", false
	}
	if k := keyRe.FindStringSubmatch(msg); k != nil {
		key = k[1]
	}
	return id, key, true
}

// FilterSpec is a subscription filter over the event group g ∈ 0..3, rendered from variables.
type FilterSpec struct {
	Kind int   // 0 none, 1 In(single), 2 In(array), 3 Not(In(array)), 4 Or(In(single a), In(single b)), 5 And(In(array), Not(In(single)))
	A    []int // variable "fa"
	B    []int // variable "fb"
}

func (f FilterSpec) String() string {
	switch f.Kind {
	case 0:
		return "none"
	case 1:
		return fmt.Sprintf("g=%d", f.A[0])
	case 2:
		return fmt.Sprintf("g in %v", f.A)
	case 3:
		return fmt.Sprintf("g not in %v", f.A)
	case 4:
		return fmt.Sprintf("g=%d or g=%d", f.A[0], f.B[0])
	default:
		return fmt.Sprintf("g in %v and g!=%d", f.A, f.B[0])
	}
}

func in(xs []int, g int) bool {
	for _, x := range xs {
		if x == g {
			return true
		}
	}
	return false
}

// Pass is the reference semantics: does an event of group g pass the filter?
func (f FilterSpec) Pass(g int) bool {
	switch f.Kind {
	case 0:
		return true
	case 1:
		return g == f.A[0]
	case 2:
		return in(f.A, g)
	case 3:
		return !in(f.A, g)
	case 4:
		return g == f.A[0] || g == f.B[0]
	default:
		return in(f.A, g) && g != f.B[0]
	}
}

func jsonInts(xs []int, single bool) string {
	if single {
		return strconv.Itoa(xs[0])
	}
	p := make([]string, len(xs))
	for i, x := range xs {
		p[i] = strconv.Itoa(x)
	}
	return "[" + strings.Join(p, ",") + "]"
}

// Vars renders the request variables the filter templates read.
func (f FilterSpec) Vars() string {
	switch f.Kind {
	case 0:
		return `{}`
	case 1:
		return `{"fa":` + jsonInts(f.A, true) + `}`
	case 2, 3:
		return `{"fa":` + jsonInts(f.A, false) + `}`
	case 4:
		return `{"fa":` + jsonInts(f.A, true) + `,"fb":` + jsonInts(f.B, true) + `}`
	default:
		return `{"fa":` + jsonInts(f.A, false) + `,"fb":` + jsonInts(f.B, true) + `}`
	}
}

func inVar(name string) *resolve.SubscriptionFieldFilter {
	return &resolve.SubscriptionFieldFilter{
		FieldPath: []string{"data", "ev", "g"},
		Values: []resolve.InputTemplate{{Segments: []resolve.TemplateSegment{{
			SegmentType:        resolve.VariableSegmentType,
			VariableKind:       resolve.ContextVariableKind,
			VariableSourcePath: []string{name},
			Renderer:           resolve.NewPlainVariableRenderer(),
		}}}},
	}
}

func (f FilterSpec) Build() *resolve.SubscriptionFilter {
	switch f.Kind {
	case 0:
		return nil
	case 1, 2:
		return &resolve.SubscriptionFilter{In: inVar("fa")}
	case 3:
		return &resolve.SubscriptionFilter{Not: &resolve.SubscriptionFilter{In: inVar("fa")}}
	case 4:
		return &resolve.SubscriptionFilter{Or: []resolve.SubscriptionFilter{{In: inVar("fa")}, {In: inVar("fb")}}}
	default:
		return &resolve.SubscriptionFilter{And: []resolve.SubscriptionFilter{{In: inVar("fa")}, {Not: &resolve.SubscriptionFilter{In: inVar("fb")}}}}
	}
}
