// Package subrig is the shared rig of the subscription properties (C12, C13): recording
// writers, a fake subscription source, a recording reporter, the yield controller, the actors
// and the history they leave behind. The oracles live in the property packages.
package subrig

import (
	"errors"
	"sync"
	"sync/atomic"
)

// Clock is the single logical clock of a rig: every recorded observation takes one tick.
type Clock struct{ n atomic.Int64 }

func (c *Clock) Tick() int64 { return c.n.Add(1) }
func (c *Clock) Now() int64  { return c.n.Load() }

// CallKind names a method of resolve.SubscriptionResponseWriter (plus the error payload written
// through the AsyncErrorWriter, which is a Write on the same writer).
type CallKind uint8

const (
	CWrite CallKind = iota
	CFlush
	CComplete
	CError
	CHeartbeat
	CErrWrite
)

func (k CallKind) String() string {
	switch k {
	case CWrite:
		return "Write"
	case CFlush:
		return "Flush"
	case CComplete:
		return "Complete"
	case CError:
		return "Error"
	case CHeartbeat:
		return "Heartbeat"
	case CErrWrite:
		return "WriteError"
	}
	return "?"
}

// WCall is one recorded writer call; Ts is taken on entry.
type WCall struct {
	Ts     int64
	Kind   CallKind
	Failed bool // the call returned an injected error
}

// Msg is one flushed message.
type Msg struct {
	Ts   int64 // timestamp of the Flush that delivered it
	Data string
}

var ErrInjectedFlush = errors.New("injected flush failure")
var ErrInjectedHeartbeat = errors.New("injected heartbeat failure")

// RecWriter implements resolve.SubscriptionResponseWriter. Every call is logged with a timestamp
// from the rig clock; overlapping calls are detected with an atomic in-flight counter and,
// independently, by the race detector through the deliberately unsynchronised field probe
// (two calls that are not ordered by the code under test race on it).
type RecWriter struct {
	clock *Clock

	inflight atomic.Int32
	overlaps atomic.Int32
	probe    int // written without synchronisation on purpose (see above)

	failNextFlush atomic.Bool
	failHeartbeat atomic.Bool

	mu       sync.Mutex
	calls    []WCall
	buf      []byte
	msgs     []Msg
	errs     []Msg // payloads written through the AsyncErrorWriter
	termData []string
	failTs   []int64 // timestamps of calls that returned an injected error
	overlapT []int64
}

func NewRecWriter(c *Clock) *RecWriter { return &RecWriter{clock: c} }

func (w *RecWriter) enter(kind CallKind) (int64, func()) {
	n := w.inflight.Add(1)
	w.probe++
	ts := w.clock.Tick()
	if n > 1 {
		w.overlaps.Add(1)
		w.mu.Lock()
		if len(w.overlapT) < 8 {
			w.overlapT = append(w.overlapT, ts)
		}
		w.mu.Unlock()
	}
	return ts, func() { w.inflight.Add(-1) }
}

func (w *RecWriter) Write(p []byte) (int, error) {
	ts, leave := w.enter(CWrite)
	defer leave()
	w.mu.Lock()
	w.calls = append(w.calls, WCall{Ts: ts, Kind: CWrite})
	w.buf = append(w.buf, p...)
	w.mu.Unlock()
	return len(p), nil
}

// WriteErr is used by the rig's AsyncErrorWriter: same accounting as Write, separate payload list.
func (w *RecWriter) WriteErr(msg string) {
	ts, leave := w.enter(CErrWrite)
	defer leave()
	w.mu.Lock()
	w.calls = append(w.calls, WCall{Ts: ts, Kind: CErrWrite})
	w.errs = append(w.errs, Msg{Ts: ts, Data: msg})
	w.mu.Unlock()
}

func (w *RecWriter) Flush() error {
	ts, leave := w.enter(CFlush)
	defer leave()
	fail := w.failNextFlush.CompareAndSwap(true, false)
	w.mu.Lock()
	w.calls = append(w.calls, WCall{Ts: ts, Kind: CFlush, Failed: fail})
	if fail {
		w.failTs = append(w.failTs, ts)
		w.buf = w.buf[:0]
	} else {
		w.msgs = append(w.msgs, Msg{Ts: ts, Data: string(w.buf)})
		w.buf = w.buf[:0]
	}
	w.mu.Unlock()
	if fail {
		return ErrInjectedFlush
	}
	return nil
}

func (w *RecWriter) Complete() {
	ts, leave := w.enter(CComplete)
	defer leave()
	w.mu.Lock()
	w.calls = append(w.calls, WCall{Ts: ts, Kind: CComplete})
	w.mu.Unlock()
}

func (w *RecWriter) Error(data []byte) {
	ts, leave := w.enter(CError)
	defer leave()
	w.mu.Lock()
	w.calls = append(w.calls, WCall{Ts: ts, Kind: CError})
	w.termData = append(w.termData, string(data))
	w.mu.Unlock()
}

func (w *RecWriter) Heartbeat() error {
	ts, leave := w.enter(CHeartbeat)
	defer leave()
	fail := w.failHeartbeat.Load()
	w.mu.Lock()
	w.calls = append(w.calls, WCall{Ts: ts, Kind: CHeartbeat, Failed: fail})
	if fail {
		w.failTs = append(w.failTs, ts)
	}
	w.mu.Unlock()
	if fail {
		return ErrInjectedHeartbeat
	}
	return nil
}

// FailNextFlush arms one Flush failure; FailHeartbeats makes every later Heartbeat fail.
func (w *RecWriter) FailNextFlush()  { w.failNextFlush.Store(true) }
func (w *RecWriter) FailHeartbeats() { w.failHeartbeat.Store(true) }

// Snapshot of the log (copy).
type WriterLog struct {
	Calls    []WCall
	Msgs     []Msg
	Errs     []Msg
	TermData []string
	FailTs   []int64
	Overlaps int
	OverlapT []int64
	Pending  int // bytes written but never flushed
}

func (w *RecWriter) Log() WriterLog {
	w.mu.Lock()
	defer w.mu.Unlock()
	return WriterLog{
		Calls:    append([]WCall(nil), w.calls...),
		Msgs:     append([]Msg(nil), w.msgs...),
		Errs:     append([]Msg(nil), w.errs...),
		TermData: append([]string(nil), w.termData...),
		FailTs:   append([]int64(nil), w.failTs...),
		Overlaps: int(w.overlaps.Load()),
		OverlapT: append([]int64(nil), w.overlapT...),
		Pending:  len(w.buf),
	}
}
