package subrig

import (
	"fmt"
	"math/rand/v2"
	"strings"
	"sync"
	"time"
)

// Action is one step of a random program. Lane decides which actor goroutine performs it: client
// lanes (one per connection, actions of one connection are sequential), one source lane per key,
// and a control lane (heartbeat ticks, faults, shutdown).
type Action struct {
	Kind   string
	Lane   int
	Sub    int // index into Program.Specs
	Key    int
	G      int
	Back   int  // which Start instance of the key: 0 latest, 1 the one before …
	Wait   bool // the driver waits for this action before dispatching the next
	IsErr  bool
	Client int
}

// Program is a deterministic function of the seed; only goroutine scheduling varies between runs.
type Program struct {
	Keys         int
	Clients      int
	Specs        []SubSpec
	Actions      []Action
	ClientDriven bool // end of history: unsubscribe everybody and finish the sources before shutting down
	Faults       bool
}

func (p *Program) String() string {
	var b strings.Builder
	fmt.Fprintf(&b, "keys=%d clients=%d subs=%d actions=%d:", p.Keys, p.Clients, len(p.Specs), len(p.Actions))
	for i, a := range p.Actions {
		if i >= 60 {
			b.WriteString(" …")
			break
		}
		switch a.Kind {
		case "sub", "unsub", "cancel", "closesub", "evsub", "failflush", "failhb":
			fmt.Fprintf(&b, " %s(s%d)", a.Kind, a.Sub)
		case "rmclient":
			fmt.Fprintf(&b, " rmclient(c%d)", a.Client)
		case "ev":
			fmt.Fprintf(&b, " ev(k%d,g%d)", a.Key, a.G)
		case "barrier", "shutdown":
			fmt.Fprintf(&b, " %s", a.Kind)
		default:
			fmt.Fprintf(&b, " %s(k%d)", a.Kind, a.Key)
		}
		if a.Wait {
			b.WriteString("!")
		}
	}
	return b.String()
}

// GenProgram builds a random program of 20–200 actions over 1–3 keys and 2–16 clients.
// faults adds the C13 fault sequences (failing Start, failing start-up hooks, stale updater use).
func GenProgram(rng *rand.Rand, faults bool, hookable bool) *Program {
	p := &Program{Keys: 1 + rng.IntN(3), Clients: 2 + rng.IntN(15), Faults: faults}
	if rng.IntN(3) == 0 {
		p.Keys = 1 // the most hostile layout: everything on one trigger id
	}
	n := 20 + rng.IntN(181)
	if rng.IntN(2) == 0 {
		n = 20 + rng.IntN(50)
	}
	p.ClientDriven = rng.IntN(3) != 0
	shutdownAt := -1
	if rng.IntN(4) == 0 {
		shutdownAt = rng.IntN(n)
	}
	syncP := 0.15
	if rng.IntN(5) == 0 {
		syncP = 0.5
	}
	live := map[int][]int{} // client -> live subscriber spec indices (planned)
	liveAll := func() []int {
		var out []int
		for c := 0; c < p.Clients; c++ {
			out = append(out, live[c]...)
		}
		return out
	}
	srcLane := func(k int) int { return p.Clients + k }
	ctlLane := p.Clients + p.Keys
	pendingDone := map[int]int{} // key -> steps until the source calls Done after a terminal
	dropKey := func(k int) {     // the source finished: the planned-live subscribers of the key are completed
		for c := 0; c < p.Clients; c++ {
			var keep []int
			for _, s := range live[c] {
				if p.Specs[s].Key != k {
					keep = append(keep, s)
				}
			}
			live[c] = keep
		}
	}
	add := func(a Action) {
		if !a.Wait {
			a.Wait = rng.IntN(4) == 0
		}
		p.Actions = append(p.Actions, a)
	}
	for step := 0; step < n; step++ {
		if step == shutdownAt {
			add(Action{Kind: "shutdown", Lane: ctlLane, Wait: rng.IntN(2) == 0})
			continue
		}
		for k := 0; k < p.Keys; k++ {
			left, ok := pendingDone[k]
			if !ok {
				continue
			}
			if left <= 0 {
				add(Action{Kind: "done", Lane: srcLane(k), Key: k})
				delete(pendingDone, k)
				dropKey(k)
			} else {
				pendingDone[k] = left - 1
			}
		}
		la := liveAll()
		w := rng.IntN(100)
		switch {
		case w < 22 || len(la) == 0:
			if len(la) >= 24 {
				continue
			}
			c := rng.IntN(p.Clients)
			key := 0
			if p.Keys > 1 && rng.IntN(3) != 0 {
				key = rng.IntN(p.Keys)
			}
			sp := SubSpec{Key: key, Lane: c, Sync: rng.Float64() < syncP, Variant: rng.IntN(NumVariants), Filter: randFilter(rng), HB: rng.IntN(3) == 0}
			if hookable {
				switch r := rng.IntN(12); {
				case r == 0 && faults:
					sp.HookPlan = HookFail
				case r <= 2:
					sp.HookPlan = HookEmit
				}
			}
			if faults {
				switch rng.IntN(12) {
				case 0:
					sp.StartPlan = StartErrNow
				case 1:
					sp.StartPlan = StartErrAfterCancel
				}
			}
			p.Specs = append(p.Specs, sp)
			idx := len(p.Specs) - 1
			live[c] = append(live[c], idx)
			add(Action{Kind: "sub", Lane: c, Sub: idx})
		case w < 36:
			s := la[rng.IntN(len(la))]
			c := p.Specs[s].Lane
			live[c] = remove(live[c], s)
			add(Action{Kind: "unsub", Lane: c, Sub: s})
		case w < 39:
			s := la[rng.IntN(len(la))]
			add(Action{Kind: "cancel", Lane: p.Specs[s].Lane, Sub: s})
			if p.Specs[s].Sync {
				live[p.Specs[s].Lane] = remove(live[p.Specs[s].Lane], s)
			}
		case w < 42:
			c := rng.IntN(p.Clients)
			var keep []int
			for _, s := range live[c] {
				if p.Specs[s].Sync {
					keep = append(keep, s)
				}
			}
			live[c] = keep
			add(Action{Kind: "rmclient", Lane: c, Client: c})
		case w < 70:
			k := rng.IntN(p.Keys)
			lane := srcLane(k)
			if rng.IntN(4) == 0 {
				lane = ctlLane // a second goroutine of the same source: Update calls may overlap
			}
			add(Action{Kind: "ev", Lane: lane, Key: k, G: rng.IntN(NumGroups)})
		case w < 74:
			s := la[rng.IntN(len(la))]
			k := p.Specs[s].Key
			add(Action{Kind: "evsub", Lane: srcLane(k), Key: k, Sub: s, G: rng.IntN(NumGroups)})
		case w < 79:
			k := rng.IntN(p.Keys)
			add(Action{Kind: "hb", Lane: ctlLane, Key: k})
		case w < 82:
			k := rng.IntN(p.Keys)
			if _, busy := pendingDone[k]; !busy {
				add(Action{Kind: "terminal", Lane: srcLane(k), Key: k, IsErr: rng.IntN(2) == 0})
				pendingDone[k] = rng.IntN(4)
			}
		case w < 84:
			k := rng.IntN(p.Keys)
			add(Action{Kind: "done", Lane: srcLane(k), Key: k})
			dropKey(k)
		case w < 87:
			s := la[rng.IntN(len(la))]
			k := p.Specs[s].Key
			add(Action{Kind: "closesub", Lane: srcLane(k), Key: k, Sub: s})
		case w < 90:
			s := la[rng.IntN(len(la))]
			kind := "failflush"
			if p.Specs[s].HB && rng.IntN(2) == 0 {
				kind = "failhb"
			}
			add(Action{Kind: kind, Lane: ctlLane, Sub: s})
		case w < 93:
			// use of an older Start instance of the key (its updater is stale once the trigger is gone)
			k := rng.IntN(p.Keys)
			kind := "ev"
			if (faults && rng.IntN(2) == 0) || (!faults && rng.IntN(3) == 0) {
				kind = "done" // the source of an earlier trigger of the key finishes late
			}
			back := 1 + rng.IntN(2)
			if kind == "ev" && rng.IntN(2) == 0 {
				back = 0 // a second goroutine of the source emitting next to the key's own lane
			}
			add(Action{Kind: kind, Lane: ctlLane, Key: k, Back: back, G: rng.IntN(NumGroups)})
		default:
			add(Action{Kind: "barrier", Wait: true})
		}
	}
	return p
}

func remove(xs []int, x int) []int {
	out := xs[:0:0]
	for _, y := range xs {
		if y != x {
			out = append(out, y)
		}
	}
	return out
}

// RunProgram executes the program on the rig and returns the subscribers it created.
func RunProgram(r *Rig, p *Program) []*Subscriber {
	subs := make([]*Subscriber, len(p.Specs))
	var smu sync.Mutex
	getSub := func(i int) *Subscriber {
		smu.Lock()
		defer smu.Unlock()
		if subs[i] == nil {
			subs[i] = r.NewSubscriber(p.Specs[i])
		}
		return subs[i]
	}
	nl := p.Clients + p.Keys + 1
	type job struct {
		fn   func()
		done chan struct{}
	}
	lanes := make([]chan job, nl)
	var wg sync.WaitGroup
	var inflight sync.WaitGroup
	for i := range lanes {
		lanes[i] = make(chan job, len(p.Actions)+4)
		wg.Add(1)
		go func(ch chan job) {
			defer wg.Done()
			for j := range ch {
				j.fn()
				close(j.done)
				inflight.Done()
			}
		}(lanes[i])
	}
	barrier := func() {
		c := make(chan struct{})
		go func() { inflight.Wait(); close(c) }()
		select {
		case <-c:
		case <-time.After(30 * time.Second):
		}
	}
	for _, a := range p.Actions {
		a := a
		if a.Kind == "barrier" {
			barrier()
			continue
		}
		var fn func()
		switch a.Kind {
		case "sub":
			s := getSub(a.Sub)
			fn = func() { r.Subscribe(s) }
		case "unsub":
			s := getSub(a.Sub)
			fn = func() { r.Unsubscribe(s) }
		case "cancel":
			s := getSub(a.Sub)
			fn = func() { r.CancelCtx(s) }
		case "rmclient":
			fn = func() { r.RemoveClient(a.Client) }
		case "ev":
			fn = func() { r.Emit(r.Latest(a.Key, a.Back), a.G, nil, a.Back > 0) }
		case "evsub":
			s := getSub(a.Sub)
			fn = func() { r.Emit(r.Latest(a.Key, 0), a.G, s, false) }
		case "hb":
			fn = func() { r.SourceHeartbeat(r.Latest(a.Key, 0)) }
		case "terminal":
			fn = func() { r.SourceTerminal(r.Latest(a.Key, 0), a.IsErr) }
		case "done":
			fn = func() {
				if i := r.Latest(a.Key, a.Back); i != nil {
					r.SourceDone(i, "source")
				}
			}
		case "closesub":
			s := getSub(a.Sub)
			fn = func() { r.SourceClose(r.Latest(a.Key, 0), s) }
		case "failflush":
			s := getSub(a.Sub)
			fn = func() { s.W.FailNextFlush() }
		case "failhb":
			s := getSub(a.Sub)
			fn = func() { s.W.FailHeartbeats() }
		case "shutdown":
			fn = func() { r.Shutdown() }
		default:
			continue
		}
		j := job{fn: fn, done: make(chan struct{})}
		inflight.Add(1)
		lanes[a.Lane%nl] <- j
		if a.Wait {
			select {
			case <-j.done:
			case <-time.After(30 * time.Second):
			}
		}
	}
	barrier()
	for _, ch := range lanes {
		close(ch)
	}
	wg.Wait()
	var out []*Subscriber
	for _, s := range subs {
		if s != nil {
			out = append(out, s)
		}
	}
	return out
}
