package subrig

import (
	"context"
	"encoding/binary"
	"fmt"
	"math/rand/v2"
	"os"
	"runtime"
	"sync"
	"sync/atomic"
	"time"

	"github.com/cespare/xxhash/v2"
	"github.com/wundergraph/astjson"

	"github.com/wundergraph/graphql-go-tools/v2/pkg/ast"
	"github.com/wundergraph/graphql-go-tools/v2/pkg/engine/resolve"
)

type subCtxKey struct{}

// Opts configures one rig (= one resolver, one case).
type Opts struct {
	Keys      int           // 1..3 trigger keys
	Hookable  bool          // source implements HookableSubscriptionDataSource
	AutoDone  bool          // source calls updater.Done() when its Start context ends (like the real GraphQL source)
	Heartbeat time.Duration // resolver heartbeat interval
	PerturbP  float64       // probability of a micro-delay at a yield point (0 = none)
	Rng       *rand.Rand    // randomness of the perturbation
}

// KeyDef is one trigger key: upstream input plus forwarded header.
type KeyDef struct {
	Name   string
	Input  string
	Header string
	TrigID uint64
}

// KeyRemoval is an action that may remove every subscriber of a trigger of the key: source Done,
// a failed Start, a failed start-up hook of the creating subscriber.
type KeyRemoval struct {
	Call    int64
	Ret     atomic.Int64 // 0 while open
	Inst    *Instance
	Creator *Subscriber
	HookOf  *Subscriber
	What    string
}

// Event is one upstream event handed to an updater.
type Event struct {
	ID            int
	Key           int
	Inst          *Instance // nil when emitted through a start-up hook
	G             int
	Target        *Subscriber // nil = broadcast (Update); else UpdateSubscription
	Payload       string
	Call, Ret     int64
	ViaHook       bool
	StaleUse      bool
	MembersBefore map[int]bool // subscribers seen attached to Inst right before Call (nil = unknown)
	// After: events of the same Start instance that were known to be inside their fan-out (holding
	// the updater's event gate) when this event was issued, although they had not returned yet: the
	// source emitted them earlier, every subscriber must see them earlier.
	After []*Event
}

type DoneEv struct {
	Conn, Sub int64
	Ts        int64
}

// Op is one action at the client / source boundary (for the C13 linearizability check).
type Op struct {
	Kind string // sub | unsub | maybe-unsub | removeall | shutdown | terminal | heartbeat | cancel
	Key  int
	Sub  *Subscriber
	Inst *Instance
	Call int64
	Ret  int64 // 0 = open until the end of the history
	Note string
}

// Removal is one cause that may remove a single subscriber.
type Removal struct {
	Ts   int64
	What string
}

type Subscriber struct {
	rig       *Rig
	Idx       int
	Key       int
	Lane      int
	Sync      bool
	Variant   int
	Filter    FilterSpec
	HB        bool
	HookPlan  int
	StartPlan int
	W         *RecWriter
	RCtx      *resolve.Context
	Ctx       context.Context
	Cancel    context.CancelFunc
	Plan      *resolve.GraphQLSubscription

	SubInv, SubRet, SyncRet, FirstSeen atomic.Int64
	joined                             atomic.Bool
	syncDone                           chan struct{}

	mu       sync.Mutex
	id       resolve.SubscriptionIdentifier
	idKnown  bool
	subErr   string
	syncErr  string
	removals []Removal
}

func (s *Subscriber) ID() (resolve.SubscriptionIdentifier, bool) {
	s.mu.Lock()
	defer s.mu.Unlock()
	return s.id, s.idKnown
}

func (s *Subscriber) SubErr() string {
	s.mu.Lock()
	defer s.mu.Unlock()
	return s.subErr
}

func (s *Subscriber) SyncErr() string {
	s.mu.Lock()
	defer s.mu.Unlock()
	return s.syncErr
}

func (s *Subscriber) Joined() bool { return s.joined.Load() }

func (s *Subscriber) markRemoval(ts int64, what string) {
	s.mu.Lock()
	s.removals = append(s.removals, Removal{Ts: ts, What: what})
	s.mu.Unlock()
}

func (s *Subscriber) Removals() []Removal {
	s.mu.Lock()
	defer s.mu.Unlock()
	return append([]Removal(nil), s.removals...)
}

// Registered: the subscribe call was made and did not fail.
func (s *Subscriber) Registered() bool {
	if s.SubInv.Load() == 0 {
		return false
	}
	if s.Sync {
		// the synchronous call registers unless it returned an error other than the shutdown error
		// after registration; an early error means it never registered
		return true
	}
	return s.SubErr() == ""
}

// Rig is one resolver with its instruments.
type Rig struct {
	Opts     Opts
	Clock    *Clock
	Ctl      *Controller
	Rep      *Reporter
	Resolver *resolve.Resolver
	cancel   context.CancelFunc
	Keys     []KeyDef
	src      resolve.SubscriptionDataSource
	nonce    string
	connBase int64

	mu          sync.Mutex
	subs        []*Subscriber
	byID        map[resolve.SubscriptionIdentifier]*Subscriber
	byCtx       map[context.Context]*Subscriber
	instances   []*Instance
	events      []*Event
	dones       []DoneEv
	ops         []*Op
	keyRemovals [][]*KeyRemoval
	hookCalls   []*HookCall
	startups    []*Startup
	startupByG  map[int64]*Startup
	anomalies   []string
	laneConn    map[int]resolve.ConnectionID
	nextSubID   int64
	shutdownInv atomic.Int64
	shutdownRet atomic.Int64
	skipped     map[string]int64
	autoPending atomic.Int64
	autoGate    chan struct{}
	// calls of the code under test into the fake source (Start, SubscriptionOnStart) that have not returned
	hooksInFlight atomic.Int64
	// goroutines the resolver spawned for admitted subscriptions (one each: the start-up goroutine of a
	// new trigger or the join goroutine) that have reached their first yield point, and start-up hook
	// calls begun; both are compared with the number of admitted subscriptions for quiescence
	spawned   atomic.Int64
	hookBegun atomic.Int64
}

// HoldAutoDone makes the source's reaction to the end of its Start context (updater.Done()) wait
// until ReleaseAutoDone: the reaction runs on its own goroutine in the real source too, so it can
// be arbitrarily late.
func (r *Rig) HoldAutoDone() {
	r.mu.Lock()
	if r.autoGate == nil {
		r.autoGate = make(chan struct{})
	}
	r.mu.Unlock()
}

func (r *Rig) ReleaseAutoDone() {
	r.mu.Lock()
	if r.autoGate != nil {
		close(r.autoGate)
		r.autoGate = nil
	}
	r.mu.Unlock()
}

func (r *Rig) waitAutoGate() {
	r.mu.Lock()
	g := r.autoGate
	r.mu.Unlock()
	if g != nil {
		<-g
	}
}

func (r *Rig) AutoPending() int64 { return r.autoPending.Load() }

var (
	current   atomic.Pointer[Rig]
	hooksOnce sync.Once
	caseSeq   atomic.Int64
)

func installHooks() {
	hooksOnce.Do(func() {
		resolve.SetVerifHooks(&resolve.VerifHookSet{
			Yield: func(point string, a, b int64) {
				if r := current.Load(); r != nil {
					r.yield(point, a, b)
				}
			},
			Event: func(name string, a, b int64) {
				if r := current.Load(); r != nil {
					r.event(name, a, b)
				}
			},
		})
	})
}

func New(o Opts) *Rig {
	installHooks()
	if o.Keys < 1 {
		o.Keys = 1
	}
	if o.Keys > 3 {
		o.Keys = 3
	}
	if o.Heartbeat <= 0 {
		o.Heartbeat = time.Hour
	}
	r := &Rig{
		Opts:       o,
		Clock:      &Clock{},
		Ctl:        NewController(),
		byID:       map[resolve.SubscriptionIdentifier]*Subscriber{},
		byCtx:      map[context.Context]*Subscriber{},
		laneConn:   map[int]resolve.ConnectionID{},
		skipped:    map[string]int64{},
		startupByG: map[int64]*Startup{},
		nonce:      fmt.Sprintf("%d.%d", os.Getpid(), caseSeq.Add(1)),
	}
	r.Rep = &Reporter{clock: r.Clock}
	base := &Source{rig: r}
	if o.Hookable {
		r.src = &HookSource{Source: base}
	} else {
		r.src = base
	}
	defs := []KeyDef{
		{Name: "K0", Input: `{"n":"` + r.nonce + `","t":"a"}`, Header: "h1"},
		{Name: "K1", Input: `{"n":"` + r.nonce + `","t":"a"}`, Header: "h2"}, // differs from K0 only in the forwarded header
		{Name: "K2", Input: `{"n":"` + r.nonce + `","t":"b"}`, Header: "h1"}, // differs from K0 only in the input
	}
	for i := 0; i < o.Keys; i++ {
		d := defs[i]
		x := xxhash.New()
		_, _ = x.Write([]byte(d.Input))
		_, hh := headersBuilder{d.Header}.HeadersForSubgraph("")
		if hh != 0 {
			var b [8]byte
			binary.LittleEndian.PutUint64(b[:], hh)
			_, _ = x.Write(b[:])
		}
		d.TrigID = x.Sum64()
		r.Keys = append(r.Keys, d)
	}
	r.keyRemovals = make([][]*KeyRemoval, len(r.Keys))
	if o.PerturbP > 0 && o.Rng != nil {
		r.Ctl.Perturb(o.PerturbP, o.Rng)
	}
	r.connBase = int64(resolve.NewConnectionID())
	ctx, cancel := context.WithCancel(context.Background())
	r.cancel = cancel
	current.Store(r)
	r.Resolver = resolve.New(ctx, resolve.ResolverOptions{
		MaxConcurrency:                64,
		Reporter:                      r.Rep,
		AsyncErrorWriter:              errWriter{},
		SubscriptionHeartbeatInterval: o.Heartbeat,
	})
	return r
}

// Close detaches the rig from the process-global hooks.
func (r *Rig) Close() {
	r.Ctl.ReleaseAll()
	r.cancel()
	current.CompareAndSwap(r, nil)
}

func (r *Rig) keyOf(input, header string) int {
	for i, k := range r.Keys {
		if k.Input == input && k.Header == header {
			return i
		}
	}
	return -1
}

func (r *Rig) keyRemoval(key int, call int64, inst *Instance, creator, hookOf *Subscriber, what string) *KeyRemoval {
	if key < 0 || key >= len(r.Keys) {
		return nil
	}
	p := &KeyRemoval{Call: call, Inst: inst, Creator: creator, HookOf: hookOf, What: what}
	r.mu.Lock()
	r.keyRemovals[key] = append(r.keyRemovals[key], p)
	r.mu.Unlock()
	return p
}

func (r *Rig) addOp(o *Op) {
	r.mu.Lock()
	r.ops = append(r.ops, o)
	r.mu.Unlock()
}

func (r *Rig) skip(what string) {
	r.mu.Lock()
	r.skipped[what]++
	r.mu.Unlock()
}

// OwnsTrigger / OwnsSub are used by park matchers so that goroutines left over from an earlier
// case in the same worker process are never parked.
func (r *Rig) OwnsTrigger(id int64) bool {
	for _, k := range r.Keys {
		if int64(k.TrigID) == id {
			return true
		}
	}
	return false
}

func (r *Rig) OwnsSub(conn, sub int64) bool {
	r.mu.Lock()
	_, ok := r.byID[resolve.SubscriptionIdentifier{ConnectionID: resolve.ConnectionID(conn), SubscriptionID: sub}]
	r.mu.Unlock()
	return ok || (sub == 0 && conn > r.connBase)
}

// Startup is the start-up goroutine of one trigger (from trigger.beforeStart to the return of the
// yield at trigger.afterStart / trigger.startFailed, right before its final registry action).
type Startup struct {
	Gid     int64
	Begin   int64
	Creator atomic.Pointer[Subscriber]
	End     atomic.Int64
	Failed  atomic.Bool
	owned   atomic.Bool
}

func goid() int64 {
	var buf [64]byte
	n := runtime.Stack(buf[:], false)
	// "goroutine 123 [running]:"
	var id int64
	for _, c := range buf[len("goroutine "):n] {
		if c < '0' || c > '9' {
			break
		}
		id = id*10 + int64(c-'0')
	}
	return id
}

func (r *Rig) startupOfCurrentGoroutine() *Startup {
	g := goid()
	r.mu.Lock()
	defer r.mu.Unlock()
	return r.startupByG[g]
}

func (r *Rig) yield(point string, a, b int64) {
	switch point {
	case "trigger.beforeStart":
		// Recorded for every goroutine (the trigger id is not used to decide whose it is: a goroutine
		// left over from an earlier case never calls into this rig's source and stays un-owned).
		st := &Startup{Gid: goid(), Begin: r.Clock.Tick()}
		r.mu.Lock()
		r.startupByG[st.Gid] = st
		r.mu.Unlock()
	case "trigger.afterStart", "trigger.startFailed":
		st := r.startupOfCurrentGoroutine()
		r.Ctl.Yield(point, a, b)
		if st != nil {
			st.Failed.Store(point == "trigger.startFailed")
			st.End.Store(r.Clock.Tick())
		}
		return
	}
	if point == "sub.join.beforeStartupHook" {
		if r.OwnsSub(a, b) {
			r.spawned.Add(1)
		}
		r.mu.Lock()
		s := r.byID[resolve.SubscriptionIdentifier{ConnectionID: resolve.ConnectionID(a), SubscriptionID: b}]
		r.mu.Unlock()
		if s != nil {
			s.joined.Store(true)
		}
	}
	r.Ctl.Yield(point, a, b)
}

// ownStartup is called when the current goroutine calls into this rig's source on behalf of one of
// this rig's subscribers: if it is a start-up goroutine, it now counts as seen, with its creator.
func (r *Rig) ownStartup(creator *Subscriber) {
	st := r.startupOfCurrentGoroutine()
	if st == nil {
		return
	}
	if st.owned.CompareAndSwap(false, true) {
		r.spawned.Add(1)
		r.mu.Lock()
		r.startups = append(r.startups, st)
		r.mu.Unlock()
	}
	if creator != nil {
		st.Creator.Store(creator)
	}
}

func (r *Rig) event(name string, a, b int64) {
	if name != "sub.done" {
		return
	}
	ts := r.Clock.Tick()
	r.mu.Lock()
	r.dones = append(r.dones, DoneEv{Conn: a, Sub: b, Ts: ts})
	r.mu.Unlock()
}

// ---------------------------------------------------------------------------------------------
// subscribers

// SubSpec describes a subscriber to create.
type SubSpec struct {
	Key       int
	Lane      int
	Sync      bool
	Variant   int
	Filter    FilterSpec
	HB        bool
	HookPlan  int
	StartPlan int
}

func (r *Rig) NewSubscriber(sp SubSpec) *Subscriber {
	s := &Subscriber{
		rig: r, Key: sp.Key % len(r.Keys), Lane: sp.Lane, Sync: sp.Sync, Variant: sp.Variant % NumVariants, Filter: sp.Filter,
		HB: sp.HB, HookPlan: sp.HookPlan, StartPlan: sp.StartPlan,
		W: NewRecWriter(r.Clock),
	}
	base := context.WithValue(context.Background(), subCtxKey{}, s)
	s.Ctx, s.Cancel = context.WithCancel(base)
	s.RCtx = resolve.NewContext(s.Ctx)
	s.RCtx.Variables = astjson.MustParseBytes([]byte(s.Filter.Vars()))
	s.RCtx.ExecutionOptions.SendHeartbeat = s.HB
	s.RCtx.SubgraphHeadersBuilder = headersBuilder{r.Keys[s.Key].Header}
	s.Plan = r.plan(s.Key, s.Variant, s.Filter)
	r.mu.Lock()
	s.Idx = len(r.subs)
	r.subs = append(r.subs, s)
	r.byCtx[s.Ctx] = s
	if !s.Sync {
		conn, ok := r.laneConn[s.Lane]
		if !ok {
			conn = resolve.NewConnectionID()
			r.laneConn[s.Lane] = conn
		}
		r.nextSubID++
		s.id = resolve.SubscriptionIdentifier{ConnectionID: conn, SubscriptionID: r.nextSubID}
		s.idKnown = true
		r.byID[s.id] = s
	}
	r.mu.Unlock()
	return s
}

func (r *Rig) plan(key, variant int, f FilterSpec) *resolve.GraphQLSubscription {
	k := r.Keys[key]
	return &resolve.GraphQLSubscription{
		Trigger: resolve.GraphQLSubscriptionTrigger{
			Source: r.src,
			InputTemplate: resolve.InputTemplate{Segments: []resolve.TemplateSegment{
				{SegmentType: resolve.StaticSegmentType, Data: []byte(k.Input)},
			}},
			PostProcessing: resolve.PostProcessingConfiguration{SelectResponseDataPath: []string{"data"}},
			SourceName:     "src-" + k.Name,
		},
		Filter: f.Build(),
		Response: &resolve.GraphQLResponse{
			Info: &resolve.GraphQLResponseInfo{OperationType: ast.OperationTypeSubscription},
			Data: variantObject(variant),
		},
	}
}

// Subscribe performs the subscribe call of s (asynchronous API, or the synchronous API on its own
// goroutine, in which case the call returns once the registration has been observed, the API call
// has returned, or a bounded number of polls has passed).
func (r *Rig) Subscribe(s *Subscriber) {
	if s.SubInv.Load() != 0 {
		return
	}
	if s.Sync {
		r.subscribeSync(s)
		return
	}
	id, _ := s.ID()
	s.SubInv.Store(r.Clock.Tick())
	err := r.Resolver.AsyncResolveGraphQLSubscription(s.RCtx, s.Plan, s.W, id)
	if err != nil {
		s.mu.Lock()
		s.subErr = err.Error()
		s.mu.Unlock()
	}
	s.SubRet.Store(r.Clock.Tick())
}

func (r *Rig) subscribeSync(s *Subscriber) {
	s.syncDone = make(chan struct{})
	s.SubInv.Store(r.Clock.Tick())
	go func() {
		err := r.Resolver.ResolveGraphQLSubscription(s.RCtx, s.Plan, s.W)
		if err != nil {
			s.mu.Lock()
			s.syncErr = err.Error()
			s.mu.Unlock()
		}
		s.SyncRet.Store(r.Clock.Tick())
		close(s.syncDone)
	}()
	for i := 0; i < 300; i++ {
		if _, ok := s.ID(); ok {
			break
		}
		select {
		case <-s.syncDone:
			i = 1 << 30
			continue
		default:
		}
		r.SnapshotKey(s.Key)
		if i < 40 {
			runtime.Gosched()
		} else {
			time.Sleep(20 * time.Microsecond)
		}
	}
	s.SubRet.Store(r.Clock.Tick())
}

// snapshot reads the subscribers attached to the trigger of inst through the updater handed to
// Start, learns the identifiers of synchronous subscribers, and records the membership.
func (r *Rig) snapshot(inst *Instance) map[int]bool {
	if inst == nil || inst.Updater == nil {
		return nil
	}
	m := inst.Updater.Subscriptions()
	after := r.Clock.Tick()
	out := make(map[int]bool, len(m))
	r.mu.Lock()
	for ctx, id := range m {
		s := r.byCtx[ctx]
		if s == nil {
			continue
		}
		s.mu.Lock()
		if !s.idKnown {
			s.id, s.idKnown = id, true
			r.byID[id] = s
		} else if s.id != id {
			r.anomalies = append(r.anomalies, fmt.Sprintf("subscriber %d registered under %v, expected %v", s.Idx, id, s.id))
		}
		s.mu.Unlock()
		s.FirstSeen.CompareAndSwap(0, after)
		out[s.Idx] = true
		inst.mu.Lock()
		if _, seen := inst.members[s.Idx]; !seen {
			inst.members[s.Idx] = after
		}
		if s.Key != inst.Key {
			inst.foreignMemberships = append(inst.foreignMemberships, fmt.Sprintf("subscriber %d of key %d attached to Start instance %d of key %d", s.Idx, s.Key, inst.ID, inst.Key))
		}
		inst.mu.Unlock()
	}
	r.mu.Unlock()
	return out
}

// SnapshotKey snapshots every instance of the key whose context has not been seen cancelled.
func (r *Rig) SnapshotKey(key int) {
	r.mu.Lock()
	var is []*Instance
	for _, i := range r.instances {
		if i.Key == key && i.CancelTs.Load() == 0 {
			is = append(is, i)
		}
	}
	r.mu.Unlock()
	for _, i := range is {
		r.snapshot(i)
	}
}

// Unsubscribe: UnsubscribeSubscription for an asynchronous subscriber, context cancellation (and
// waiting for the call to return) for a synchronous one.
func (r *Rig) Unsubscribe(s *Subscriber) {
	if s.SubInv.Load() == 0 {
		return
	}
	inv := r.Clock.Tick()
	if s.Sync {
		s.markRemoval(inv, "ctx-cancel")
		s.Cancel()
		select {
		case <-s.syncDone:
		case <-time.After(5 * time.Second):
		}
		r.addOp(&Op{Kind: "unsub", Key: s.Key, Sub: s, Call: inv, Ret: r.Clock.Tick(), Note: "sync-cancel"})
		return
	}
	if s.SubErr() != "" {
		return
	}
	s.markRemoval(inv, "unsubscribe")
	id, _ := s.ID()
	_ = r.Resolver.UnsubscribeSubscription(id)
	r.addOp(&Op{Kind: "unsub", Key: s.Key, Sub: s, Call: inv, Ret: r.Clock.Tick(), Note: "unsubscribe"})
}

// CancelCtx cancels the subscriber's request context without waiting.
func (r *Rig) CancelCtx(s *Subscriber) {
	if s.SubInv.Load() == 0 {
		return
	}
	inv := r.Clock.Tick()
	s.markRemoval(inv, "ctx-cancel")
	s.Cancel()
	if s.Sync {
		r.addOp(&Op{Kind: "unsub", Key: s.Key, Sub: s, Call: inv, Ret: 0, Note: "sync-cancel-nowait"})
	}
}

// RemoveClient calls UnsubscribeClient for the connection of the lane.
func (r *Rig) RemoveClient(lane int) {
	r.mu.Lock()
	conn, ok := r.laneConn[lane]
	var affected []*Subscriber
	for _, s := range r.subs {
		if !s.Sync && s.Lane == lane && s.SubInv.Load() != 0 {
			affected = append(affected, s)
		}
	}
	r.mu.Unlock()
	if !ok {
		return
	}
	inv := r.Clock.Tick()
	for _, s := range affected {
		if s.SubErr() == "" {
			s.markRemoval(inv, "remove-client")
		}
	}
	_ = r.Resolver.UnsubscribeClient(conn)
	ret := r.Clock.Tick()
	for _, s := range affected {
		if s.SubErr() == "" {
			r.addOp(&Op{Kind: "unsub", Key: s.Key, Sub: s, Call: inv, Ret: ret, Note: "remove-client"})
		}
	}
}

// ---------------------------------------------------------------------------------------------
// source side

func (r *Rig) Instances() []*Instance {
	r.mu.Lock()
	defer r.mu.Unlock()
	return append([]*Instance(nil), r.instances...)
}

// Latest returns the n-th latest Start instance of the key (0 = latest), or nil.
func (r *Rig) Latest(key, back int) *Instance {
	r.mu.Lock()
	defer r.mu.Unlock()
	for i := len(r.instances) - 1; i >= 0; i-- {
		if r.instances[i].Key == key {
			if back == 0 {
				return r.instances[i]
			}
			back--
		}
	}
	return nil
}

// WaitInstance waits (bounded) until the key has at least n Start instances.
func (r *Rig) WaitInstance(key, n int, d time.Duration) *Instance {
	deadline := time.Now().Add(d)
	for {
		r.mu.Lock()
		c := 0
		var last *Instance
		for _, i := range r.instances {
			if i.Key == key {
				c++
				last = i
			}
		}
		r.mu.Unlock()
		if c >= n {
			return last
		}
		if time.Now().After(deadline) {
			return nil
		}
		time.Sleep(50 * time.Microsecond)
	}
}

func (r *Rig) newEvent(key int, inst *Instance, g int, target *Subscriber) *Event {
	r.mu.Lock()
	id := len(r.events) + 1
	e := &Event{ID: id, Key: key, Inst: inst, G: g, Target: target}
	e.Payload = EventPayload(id, r.Keys[key].Name, g)
	r.events = append(r.events, e)
	r.mu.Unlock()
	return e
}

// Emit sends one event through the instance: Update (target nil) or UpdateSubscription.
func (r *Rig) Emit(inst *Instance, g int, target *Subscriber, staleUse bool) *Event {
	return r.EmitOrdered(inst, g, target, staleUse, nil, nil)
}

// EmitOrdered is Emit for sources that emit from several goroutines: after lists the events of the
// same instance that are known to have been admitted before this one is issued; created (if not
// nil) receives the event record before the updater is called.
func (r *Rig) EmitOrdered(inst *Instance, g int, target *Subscriber, staleUse bool, after []*Event, created func(*Event)) *Event {
	if inst == nil || inst.Key < 0 {
		r.skip("emit:no-instance")
		return nil
	}
	if inst.TerminalSent() {
		r.skip("emit:after-terminal")
		return nil
	}
	var tid resolve.SubscriptionIdentifier
	if target != nil {
		var ok bool
		if tid, ok = target.ID(); !ok {
			r.skip("emit:target-id-unknown")
			return nil
		}
	}
	e := r.newEvent(inst.Key, inst, g, target)
	e.StaleUse = staleUse
	e.After = after
	e.MembersBefore = r.snapshot(inst)
	if created != nil {
		created(e)
	}
	e.Call = r.Clock.Tick()
	if target != nil {
		inst.Updater.UpdateSubscription(tid, []byte(e.Payload))
	} else {
		inst.Updater.Update([]byte(e.Payload))
	}
	e.Ret = r.Clock.Tick()
	return e
}

// SourceTerminal sends Complete (errData == "") or Error through the instance, once per instance.
func (r *Rig) SourceTerminal(inst *Instance, isError bool) bool {
	if inst == nil {
		r.skip("terminal:no-instance")
		return false
	}
	inst.mu.Lock()
	if inst.terminalSent {
		inst.mu.Unlock()
		r.skip("terminal:already-sent")
		return false
	}
	inst.terminalSent = true
	inst.mu.Unlock()
	op := &Op{Kind: "terminal", Key: inst.Key, Inst: inst, Call: r.Clock.Tick(), Note: "complete"}
	if isError {
		op.Note = "error"
		inst.Updater.Error([]byte(`{"errors":[{"message":"upstream error"}]}`))
	} else {
		inst.Updater.Complete()
	}
	op.Ret = r.Clock.Tick()
	r.addOp(op)
	return true
}

// SourceDone calls updater.Done() of the instance.
func (r *Rig) SourceDone(inst *Instance, how string) {
	if inst == nil {
		r.skip("done:no-instance")
		return
	}
	inv := r.Clock.Tick()
	kr := r.keyRemoval(inst.Key, inv, inst, inst.Creator, nil, "done:"+how)
	inst.Updater.Done()
	ret := r.Clock.Tick()
	if kr != nil {
		kr.Ret.Store(ret)
	}
	inst.mu.Lock()
	inst.doneReturned = true
	inst.mu.Unlock()
	r.addOp(&Op{Kind: "removeall", Key: inst.Key, Inst: inst, Call: inv, Ret: ret, Note: "done:" + how})
}

// SourceClose calls updater.CloseSubscription for s.
func (r *Rig) SourceClose(inst *Instance, s *Subscriber) {
	if inst == nil {
		r.skip("close:no-instance")
		return
	}
	id, ok := s.ID()
	if !ok || s.SubInv.Load() == 0 {
		r.skip("close:id-unknown")
		return
	}
	inv := r.Clock.Tick()
	s.markRemoval(inv, "close-subscription")
	inst.Updater.CloseSubscription(id)
	// CloseSubscription does nothing when the updater is already done or its context has ended
	r.addOp(&Op{Kind: "maybe-unsub", Key: s.Key, Sub: s, Call: inv, Ret: r.Clock.Tick(), Note: "close-subscription"})
}

// SourceHeartbeat calls the updater's Heartbeat (exported method of the concrete updater).
func (r *Rig) SourceHeartbeat(inst *Instance) {
	if inst == nil {
		r.skip("heartbeat:no-instance")
		return
	}
	if h, ok := inst.Updater.(interface{ Heartbeat() }); ok {
		op := &Op{Kind: "heartbeat", Key: inst.Key, Inst: inst, Call: r.Clock.Tick()}
		h.Heartbeat()
		op.Ret = r.Clock.Tick()
		r.addOp(op)
	}
}

// Shutdown cancels the resolver context and waits (bounded) until the resolver refuses calls.
func (r *Rig) Shutdown() {
	if !r.shutdownInv.CompareAndSwap(0, r.Clock.Tick()) {
		return
	}
	r.cancel()
	deadline := time.Now().Add(5 * time.Second)
	for time.Now().Before(deadline) {
		if r.Resolver.UnsubscribeSubscription(resolve.SubscriptionIdentifier{ConnectionID: -1, SubscriptionID: -1}) != nil {
			break
		}
		time.Sleep(20 * time.Microsecond)
	}
	r.shutdownRet.Store(r.Clock.Tick())
	r.addOp(&Op{Kind: "shutdown", Key: -1, Call: r.shutdownInv.Load(), Ret: r.shutdownRet.Load()})
}

func (r *Rig) ShutdownInvoked() bool { return r.shutdownInv.Load() != 0 }

// ---------------------------------------------------------------------------------------------
// quiescence and the recorded history

// Quiet is the result of waiting for quiescence.
type Quiet struct {
	Settled    bool   // every quiescence condition became true
	StillBusy  bool   // the logical clock was still moving when the watchdog fired (inconclusive)
	Pending    string // first condition that was not reached
	Triggers   int
	SubsByID   int
	Conns      int
	PreTrig    int // registry sizes observed before shutdown (client-driven teardown only), -1 = not taken
	PreSubs    int
	PreConns   int
	PreSettled bool
	PreBusy    bool
	PrePending string
}

func (r *Rig) quietNow(requireCtx bool) string {
	// Every admitted subscription makes the resolver spawn exactly one goroutine (start-up of a new
	// trigger, or join). Such a goroutine is invisible until it reaches its first yield point, so the
	// history is not over before all of them have shown up, have made their start-up hook call (hookable
	// source) and, for start-up goroutines, have come back from Start to their last yield point.
	admitted := r.Rep.SubInc.Load()
	if sp := r.spawned.Load(); sp < admitted {
		return fmt.Sprintf("goroutines of the resolver not yet running: %d seen of %d admitted subscriptions", sp, admitted)
	}
	if hb := r.hookBegun.Load(); r.Opts.Hookable && hb < admitted {
		return fmt.Sprintf("start-up hook calls outstanding: %d begun of %d admitted subscriptions", hb, admitted)
	}
	if n := r.hooksInFlight.Load(); n != 0 {
		return fmt.Sprintf("%d calls into the source (Start / start-up hook) have not returned", n)
	}
	r.mu.Lock()
	for _, st := range r.startups {
		if st.End.Load() == 0 {
			r.mu.Unlock()
			return "start-up goroutine of a trigger has not reached its last yield point"
		}
	}
	r.mu.Unlock()
	if n := r.autoPending.Load(); n != 0 {
		return fmt.Sprintf("%d source reactions to context end still running", n)
	}
	t, s, c := r.Resolver.VerifRegistrySizes()
	if t != 0 || s != 0 || c != 0 {
		return fmt.Sprintf("registry (%d,%d,%d)", t, s, c)
	}
	r.mu.Lock()
	subs := append([]*Subscriber(nil), r.subs...)
	insts := append([]*Instance(nil), r.instances...)
	nd := map[[2]int64]int{}
	for _, d := range r.dones {
		nd[[2]int64{d.Conn, d.Sub}]++
	}
	r.mu.Unlock()
	for _, s := range subs {
		if s.SubInv.Load() == 0 {
			continue
		}
		if s.Sync {
			if s.SyncRet.Load() == 0 {
				return fmt.Sprintf("sync subscriber %d has not returned", s.Idx)
			}
			continue
		}
		if s.SubErr() != "" {
			continue
		}
		id, _ := s.ID()
		if nd[[2]int64{int64(id.ConnectionID), id.SubscriptionID}] == 0 {
			return fmt.Sprintf("subscriber %d not completed", s.Idx)
		}
	}
	if n, inc := int64(len(nd)), r.Rep.SubInc.Load(); n < inc {
		// every admitted subscription was reported once; wait for as many completion signals (this also
		// covers synchronous subscribers whose identifier was never learned)
		return fmt.Sprintf("subscriber completions outstanding: %d completed of %d admitted", n, inc)
	}
	if !requireCtx {
		return ""
	}
	{
		for _, i := range insts {
			if i.Ctx.Context().Err() == nil {
				return fmt.Sprintf("Start context of instance %d not cancelled", i.ID)
			}
			if i.StartRet.Load() == 0 {
				return fmt.Sprintf("Start of instance %d has not returned", i.ID)
			}
			if i.CancelTs.Load() == 0 {
				return fmt.Sprintf("Start context of instance %d: the source's reaction to its end has not run yet", i.ID)
			}
		}
	}
	if r.Rep.SubInc.Load() != r.Rep.SubDec.Load() {
		return "subscription counter"
	}
	if r.Rep.TrigInc.Load() != r.Rep.TrigDec.Load() {
		return "trigger counter"
	}
	return ""
}

const idleLimit = 750 * time.Millisecond

// waitQuiet polls until the conditions hold. The verdict does not depend on the wall clock: the
// watchdog only fires after the logical clock (which every writer call, hook, reporter call and
// rig action advances) has not moved for a long stretch, i.e. the system is idle in a bad state;
// if the clock is still moving at the hard deadline the result is "still busy" (inconclusive).
func (r *Rig) waitQuiet(requireCtx bool, hardLimit, idle time.Duration) (ok bool, busy bool, pending string) {
	hard := time.Now().Add(hardLimit)
	lastClock := r.Clock.Now()
	lastMove := time.Now()
	for i := 0; ; i++ {
		c0 := r.Clock.Now()
		pending = r.quietNow(requireCtx)
		if pending == "" {
			if r.Clock.Now() == c0 {
				return true, false, ""
			}
			// something was recorded while the conditions were being evaluated: evaluate again
			pending = "not stable yet"
		}
		now := time.Now()
		if c := r.Clock.Now(); c != lastClock {
			lastClock, lastMove = c, now
		}
		if now.Sub(lastMove) > idle {
			return false, false, pending
		}
		if now.After(hard) {
			return false, true, pending
		}
		if i < 20 {
			runtime.Gosched()
		} else {
			time.Sleep(100 * time.Microsecond)
		}
	}
}

// Finish ends the history. cleanup: quiescence also requires every Start context cancelled and
// balanced reporter counters (the C13 conditions). clientDriven: every remaining subscriber is unsubscribed and every
// source finishes first, the registry is inspected, and only then the resolver is shut down;
// otherwise the resolver is shut down with whatever is still live.
func (r *Rig) Finish(clientDriven bool, cleanup bool) Quiet {
	r.Ctl.ReleaseAll()
	r.ReleaseAutoDone()
	q := Quiet{PreTrig: -1}
	if clientDriven && !r.ShutdownInvoked() {
		r.mu.Lock()
		subs := append([]*Subscriber(nil), r.subs...)
		r.mu.Unlock()
		for _, s := range subs {
			if s.SubInv.Load() != 0 {
				r.Unsubscribe(s)
			}
		}
		for _, i := range r.Instances() {
			if !i.DoneReturned() && i.Key >= 0 {
				r.SourceDone(i, "teardown")
			}
		}
		ok, busy, pending := r.waitQuiet(cleanup, 6*time.Second, idleLimit)
		q.PreSettled, q.PreBusy, q.PrePending = ok, busy, pending
		q.PreTrig, q.PreSubs, q.PreConns = r.Resolver.VerifRegistrySizes()
	}
	r.Shutdown()
	// cancel every request context so that synchronous calls cannot be left behind
	r.mu.Lock()
	subs := append([]*Subscriber(nil), r.subs...)
	r.mu.Unlock()
	idle := idleLimit
	if q.PreTrig >= 0 && !q.PreSettled && !q.PreBusy {
		// the history was already idle in a bad state before the shutdown: do not wait that long again
		idle = 200 * time.Millisecond
	}
	ok, busy, pending := r.waitQuiet(cleanup, 20*time.Second, idle)
	q.Settled, q.StillBusy, q.Pending = ok, busy, pending
	q.Triggers, q.SubsByID, q.Conns = r.Resolver.VerifRegistrySizes()
	for _, s := range subs {
		s.Cancel()
	}
	return q
}

// History is the immutable record handed to the oracles.
type History struct {
	Rig         *Rig
	Keys        []KeyDef
	Subs        []*Subscriber
	Instances   []*Instance
	Events      []*Event
	Dones       []DoneEv
	Ops         []*Op
	KeyRemovals [][]*KeyRemoval
	HookCalls   []*HookCall
	Startups    []*Startup
	TrigIncs    []TrigInc
	Anomalies   []string
	ShutdownInv int64
	ShutdownRet int64
	End         int64
	Quiet       Quiet
	Hits        map[string]int64
	Parked      int
	Delays      int64
	Signature   string
	Skipped     map[string]int64
	ConnBase    int64

	SubInc, SubDec, TrigInc, TrigDec, Updates int64
}

func (r *Rig) History(q Quiet) *History {
	r.mu.Lock()
	defer r.mu.Unlock()
	h := &History{
		Rig: r, Keys: r.Keys,
		Subs:        append([]*Subscriber(nil), r.subs...),
		Instances:   append([]*Instance(nil), r.instances...),
		Events:      append([]*Event(nil), r.events...),
		Dones:       append([]DoneEv(nil), r.dones...),
		Ops:         append([]*Op(nil), r.ops...),
		HookCalls:   append([]*HookCall(nil), r.hookCalls...),
		Startups:    append([]*Startup(nil), r.startups...),
		TrigIncs:    r.Rep.Incs(),
		Anomalies:   append([]string(nil), r.anomalies...),
		ShutdownInv: r.shutdownInv.Load(), ShutdownRet: r.shutdownRet.Load(),
		End:   r.Clock.Tick(),
		Quiet: q, Hits: r.Ctl.Hits(), Parked: r.Ctl.Parked(), Delays: r.Ctl.Delays(), Signature: r.Ctl.Signature(),
		Skipped:  map[string]int64{},
		ConnBase: r.connBase,
		SubInc:   r.Rep.SubInc.Load(), SubDec: r.Rep.SubDec.Load(), TrigInc: r.Rep.TrigInc.Load(), TrigDec: r.Rep.TrigDec.Load(),
		Updates: r.Rep.Updates.Load(),
	}
	for k, v := range r.skipped {
		h.Skipped[k] = v
	}
	for _, krs := range r.keyRemovals {
		h.KeyRemovals = append(h.KeyRemovals, append([]*KeyRemoval(nil), krs...))
	}
	for _, i := range r.instances {
		i.mu.Lock()
		h.Anomalies = append(h.Anomalies, i.foreignMemberships...)
		i.mu.Unlock()
	}
	return h
}

// DonesOf returns the sub.done timestamps attributed to s (by its identifier, once known).
func (h *History) DonesOf(s *Subscriber) []int64 {
	id, ok := s.ID()
	if !ok {
		return nil
	}
	var out []int64
	for _, d := range h.Dones {
		if d.Conn == int64(id.ConnectionID) && d.Sub == id.SubscriptionID {
			out = append(out, d.Ts)
		}
	}
	return out
}

// OrphanDones: sub.done events of this rig's synchronous subscribers whose identifier was never learned.
func (h *History) OrphanDones() []DoneEv {
	known := map[[2]int64]bool{}
	for _, s := range h.Subs {
		if id, ok := s.ID(); ok {
			known[[2]int64{int64(id.ConnectionID), id.SubscriptionID}] = true
		}
	}
	var out []DoneEv
	for _, d := range h.Dones {
		if known[[2]int64{d.Conn, d.Sub}] {
			continue
		}
		if d.Sub == 0 && d.Conn > h.ConnBase {
			out = append(out, d)
		}
	}
	return out
}

// DoneTs is the completion time of s used by the oracles: its sub.done event, or, for a
// synchronous subscriber whose identifier was never learned, the normal return of the API call
// (0 = not completed / unknown).
func (h *History) DoneTs(s *Subscriber) int64 {
	if d := h.DonesOf(s); len(d) > 0 {
		return d[0]
	}
	if s.Sync && s.SyncErr() == "" {
		// the call returned nil: it saw the completed channel closed, so completion precedes the
		// return (a call that returned the shutdown error may return before the completion)
		if _, ok := s.ID(); !ok {
			return s.SyncRet.Load()
		}
	}
	return 0
}

// FirstRemoval is the earliest invocation of an action that may remove s: its own removal
// actions, injected writer failures on its writer, key-level removals that were not already over
// when s subscribed, and shutdown (0 = none).
func (h *History) FirstRemoval(s *Subscriber) (int64, string) {
	best, what := int64(0), ""
	upd := func(ts int64, w string) {
		if ts != 0 && (best == 0 || ts < best) {
			best, what = ts, w
		}
	}
	for _, rm := range s.Removals() {
		upd(rm.Ts, rm.What)
	}
	for _, ts := range s.W.Log().FailTs {
		upd(ts, "writer-failure")
	}
	inv := s.SubInv.Load()
	for _, kr := range h.KeyRemovals[s.Key] {
		ret := kr.Ret.Load()
		if ret != 0 && ret < inv {
			continue
		}
		upd(kr.Call, kr.What)
	}
	upd(h.ShutdownInv, "shutdown")
	return best, what
}

// FirstRemovalJudged is FirstRemoval without the key-level removals (source Done, failed start-up)
// of a trigger that was certainly gone before s began to subscribe (StaleFor): the source of an
// earlier trigger with the same key finishing late is not something that may remove s.
func (h *History) FirstRemovalJudged(s *Subscriber) (int64, string) {
	best, what := int64(0), ""
	upd := func(ts int64, w string) {
		if ts != 0 && (best == 0 || ts < best) {
			best, what = ts, w
		}
	}
	for _, rm := range s.Removals() {
		upd(rm.Ts, rm.What)
	}
	for _, ts := range s.W.Log().FailTs {
		upd(ts, "writer-failure")
	}
	inv := s.SubInv.Load()
	for _, kr := range h.KeyRemovals[s.Key] {
		ret := kr.Ret.Load()
		if ret != 0 && ret < inv {
			continue
		}
		if h.StaleFor(kr.Creator, s) {
			continue
		}
		upd(kr.Call, kr.What)
	}
	upd(h.ShutdownInv, "shutdown")
	return best, what
}

// StaleRemovals counts the key-level removals that FirstRemovalJudged does not accept for s.
func (h *History) StaleRemovals(s *Subscriber) int {
	n := 0
	for _, kr := range h.KeyRemovals[s.Key] {
		if h.StaleFor(kr.Creator, s) {
			n++
		}
	}
	return n
}

// StaleFor reports whether a trigger created by creator is certainly gone before s began to
// subscribe: every subscriber of the key whose subscribe call began before that of s (the creator
// among them) was completed before s began.
func (h *History) StaleFor(creator, s *Subscriber) bool {
	if creator == nil || creator == s || creator.Key != s.Key {
		return false
	}
	inv := s.SubInv.Load()
	if inv == 0 || creator.SubInv.Load() == 0 || creator.SubInv.Load() >= inv {
		return false
	}
	if h.ShutdownInv != 0 && h.ShutdownInv < inv {
		return false
	}
	for _, j := range h.Subs {
		if j == s || j.Key != s.Key {
			continue
		}
		ji := j.SubInv.Load()
		if ji == 0 || ji >= inv {
			continue
		}
		if !j.Sync && j.SubErr() != "" {
			continue
		}
		d := int64(0)
		if ds := h.DonesOf(j); len(ds) > 0 {
			d = ds[0]
		}
		if d == 0 || d >= inv {
			return false
		}
	}
	return true
}

func (h *History) Describe(max int) []string {
	type line struct {
		ts int64
		s  string
	}
	var ls []line
	for _, s := range h.Subs {
		id, _ := s.ID()
		if s.SubInv.Load() != 0 {
			ls = append(ls, line{s.SubInv.Load(), fmt.Sprintf("subscribe s%d key=%s sync=%v id=%d/%d filter=%s hb=%v err=%q", s.Idx, h.Keys[s.Key].Name, s.Sync, id.ConnectionID, id.SubscriptionID, s.Filter, s.HB, s.SubErr())})
		}
		for _, rm := range s.Removals() {
			ls = append(ls, line{rm.Ts, fmt.Sprintf("%s s%d", rm.What, s.Idx)})
		}
		for _, d := range h.DonesOf(s) {
			ls = append(ls, line{d, fmt.Sprintf("sub.done s%d", s.Idx)})
		}
		lg := s.W.Log()
		for _, c := range lg.Calls {
			if c.Kind == CWrite {
				continue
			}
			f := ""
			if c.Failed {
				f = " (injected failure)"
			}
			ls = append(ls, line{c.Ts, fmt.Sprintf("writer s%d %s%s", s.Idx, c.Kind, f)})
		}
		if s.Sync && s.SyncRet.Load() != 0 {
			ls = append(ls, line{s.SyncRet.Load(), fmt.Sprintf("sync call of s%d returned err=%q", s.Idx, s.SyncErr())})
		}
	}
	for _, i := range h.Instances {
		c := -1
		if i.Creator != nil {
			c = i.Creator.Idx
		}
		ls = append(ls, line{i.StartCall, fmt.Sprintf("Start instance i%d key=%d creator=s%d ctxCancelledAtStart=%v failed=%v", i.ID, i.Key, c, i.CancelledAtStart, i.StartFailed.Load())})
		if t := i.CancelTs.Load(); t != 0 {
			ls = append(ls, line{t, fmt.Sprintf("Start context of i%d cancelled", i.ID)})
		}
	}
	for _, e := range h.Events {
		in := -1
		if e.Inst != nil {
			in = e.Inst.ID
		}
		t := ""
		if e.Target != nil {
			t = fmt.Sprintf(" target=s%d", e.Target.Idx)
		}
		ls = append(ls, line{e.Call, fmt.Sprintf("event e%d via i%d g=%d%s [%d,%d]", e.ID, in, e.G, t, e.Call, e.Ret)})
	}
	for _, o := range h.Ops {
		if o.Kind == "removeall" || o.Kind == "terminal" || o.Kind == "shutdown" {
			in := -1
			if o.Inst != nil {
				in = o.Inst.ID
			}
			ls = append(ls, line{o.Call, fmt.Sprintf("%s %s i%d [%d,%d]", o.Kind, o.Note, in, o.Call, o.Ret)})
		}
	}
	for i := 1; i < len(ls); i++ {
		for j := i; j > 0 && ls[j-1].ts > ls[j].ts; j-- {
			ls[j-1], ls[j] = ls[j], ls[j-1]
		}
	}
	out := make([]string, 0, len(ls))
	for _, l := range ls {
		out = append(out, fmt.Sprintf("%d %s", l.ts, l.s))
	}
	if len(out) > max {
		out = append(out[:max/2:max/2], append([]string{"…"}, out[len(out)-max/2:]...)...)
	}
	return out
}
