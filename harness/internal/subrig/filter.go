package subrig

import (
	"encoding/json"
	"fmt"
	"math/rand/v2"
	"reflect"
	"strconv"
	"strings"

	"github.com/wundergraph/graphql-go-tools/v2/pkg/engine/resolve"
)

// Subscription filters. Every event carries, next to the projected fields, a number and a string
// at the top of "ev" and numbers / strings at nested paths, all derived from the event group
// g ∈ 0..NumGroups-1. A filter is a tree of AND / OR / NOT over IN predicates; an IN predicate has
// 1-4 value templates (static literal, single variable, array variable, static prefix + variable).
// The reference semantics (Pass) is computed from this tree and the event JSON with encoding/json,
// independently of the repository's byte-level implementation.

const NumGroups = 6

// filter fields: path below the event root, and whether the value is a string.
var filterFields = []struct {
	path   []string
	isStr  bool
	prefix string // static prefix usable by a "prefix + variable" template ("" = none)
}{
	{[]string{"data", "ev", "g"}, false, ""},
	{[]string{"data", "ev", "s"}, true, "s"},
	{[]string{"data", "ev", "meta", "m"}, false, ""},
	{[]string{"data", "ev", "meta", "t"}, true, "t."},
	{[]string{"data", "ev", "meta", "deep", "q"}, true, "q"},
}

// fieldJSON is the JSON text of the field's value in an event of group g.
func fieldJSON(field, g int) string {
	switch field {
	case 0:
		return strconv.Itoa(g)
	case 1:
		return fmt.Sprintf(`"s%d"`, g)
	case 2:
		return strconv.Itoa(g*10 + 1)
	case 3:
		return fmt.Sprintf(`"t.%d"`, g)
	default:
		return fmt.Sprintf(`"q%d"`, g)
	}
}

// FVal is one value template of an IN predicate; G are the event groups whose field value it denotes.
type FVal struct {
	Kind string // lit | var | arr | cat
	G    []int
}

// FNode is one node of the filter tree.
type FNode struct {
	Op    string // in | and | or | not
	Kids  []*FNode
	Field int
	Vals  []FVal
}

// FilterSpec is a subscriber's filter (Root nil = no filter).
type FilterSpec struct {
	Root *FNode
}

func (f FilterSpec) None() bool { return f.Root == nil }

func (n *FNode) String() string {
	switch n.Op {
	case "in":
		var vs []string
		for _, v := range n.Vals {
			var js []string
			for _, g := range v.G {
				js = append(js, fieldJSON(n.Field, g))
			}
			vs = append(vs, v.Kind+":"+strings.Join(js, ","))
		}
		return strings.Join(filterFields[n.Field].path[2:], ".") + " in (" + strings.Join(vs, " | ") + ")"
	case "not":
		return "not(" + n.Kids[0].String() + ")"
	default:
		var ks []string
		for _, k := range n.Kids {
			ks = append(ks, k.String())
		}
		return n.Op + "(" + strings.Join(ks, ", ") + ")"
	}
}

func (f FilterSpec) String() string {
	if f.Root == nil {
		return "none"
	}
	return f.Root.String()
}

// Shape classifies the filter for the evidence and for violation facts.
func (f FilterSpec) Shape() string {
	if f.Root == nil {
		return "none"
	}
	multi, strVarLater := false, false
	var walk func(n *FNode)
	walk = func(n *FNode) {
		if n.Op == "in" {
			if len(n.Vals) > 1 {
				multi = true
				if filterFields[n.Field].isStr {
					for _, v := range n.Vals[1:] {
						if v.Kind == "var" {
							strVarLater = true
						}
					}
				}
			}
		}
		for _, k := range n.Kids {
			walk(k)
		}
	}
	walk(f.Root)
	s := f.Root.Op
	if multi {
		s += "+multi-value-in"
	}
	if strVarLater {
		s += "+string-variable-not-first"
	}
	return s
}

func lookup(doc any, path []string) (any, bool) {
	cur := doc
	for _, p := range path {
		m, ok := cur.(map[string]any)
		if !ok {
			return nil, false
		}
		cur, ok = m[p]
		if !ok {
			return nil, false
		}
	}
	return cur, true
}

func (n *FNode) pass(doc any) bool {
	switch n.Op {
	case "in":
		got, ok := lookup(doc, filterFields[n.Field].path)
		if !ok {
			return false
		}
		for _, v := range n.Vals {
			for _, g := range v.G {
				var want any
				if json.Unmarshal([]byte(fieldJSON(n.Field, g)), &want) == nil && reflect.DeepEqual(got, want) {
					return true
				}
			}
		}
		return false
	case "not":
		return !n.Kids[0].pass(doc)
	case "and":
		for _, k := range n.Kids {
			if !k.pass(doc) {
				return false
			}
		}
		return true
	default:
		for _, k := range n.Kids {
			if k.pass(doc) {
				return true
			}
		}
		return false
	}
}

// Pass is the reference semantics: does an event of group g pass the filter?
func (f FilterSpec) Pass(g int) bool {
	if f.Root == nil {
		return true
	}
	var doc any
	if err := json.Unmarshal([]byte(EventPayload(1, "K", g)), &doc); err != nil {
		return false
	}
	return f.Root.pass(doc)
}

// passRequoted models one known deviation of the repository's IN predicate on STRING fields (used
// only to label violations, never to excuse them): SkipEvent overwrites the event's field value with
// its JSON-quoted form each time a single-template string value (literal or variable) fails to match,
// so after k such values a variable / array / prefix+variable value can only match for k = 0 and a
// literal only for k <= 1.
func (n *FNode) passRequoted(doc any, g int) bool {
	switch n.Op {
	case "in":
		if !filterFields[n.Field].isStr {
			return n.pass(doc)
		}
		k := 0
		for _, v := range n.Vals {
			hit := false
			for _, x := range v.G {
				if x == g {
					hit = true
				}
			}
			switch v.Kind {
			case "lit":
				if hit && k <= 1 {
					return true
				}
				k++
			case "var":
				if hit && k == 0 {
					return true
				}
				k++
			default:
				if hit && k == 0 {
					return true
				}
			}
		}
		return false
	case "not":
		return !n.Kids[0].passRequoted(doc, g)
	case "and":
		for _, c := range n.Kids {
			if !c.passRequoted(doc, g) {
				return false
			}
		}
		return true
	default:
		for _, c := range n.Kids {
			if c.passRequoted(doc, g) {
				return true
			}
		}
		return false
	}
}

// PassRequoted: see passRequoted.
func (f FilterSpec) PassRequoted(g int) bool {
	if f.Root == nil {
		return true
	}
	var doc any
	if err := json.Unmarshal([]byte(EventPayload(1, "K", g)), &doc); err != nil {
		return false
	}
	return f.Root.passRequoted(doc, g)
}

// MatchPosition tells where in its IN lists an event of group g matches: "first", "later" (a value
// template other than the first one of some IN predicate is the first to match), or "none".
func (f FilterSpec) MatchPosition(g int) string {
	if f.Root == nil {
		return "none"
	}
	pos := "none"
	var walk func(n *FNode)
	walk = func(n *FNode) {
		if n.Op == "in" {
			for i, v := range n.Vals {
				hit := false
				for _, x := range v.G {
					if x == g {
						hit = true
					}
				}
				if hit {
					if i == 0 && pos == "none" {
						pos = "first"
					} else if i > 0 {
						pos = "later"
					}
					break
				}
			}
		}
		for _, k := range n.Kids {
			walk(k)
		}
	}
	walk(f.Root)
	return pos
}

// walkVals visits the value templates in a fixed order and names their variables v0, v1, …
func (f FilterSpec) walkVals(fn func(n *FNode, v FVal, name string)) {
	i := 0
	var walk func(n *FNode)
	walk = func(n *FNode) {
		if n.Op == "in" {
			for _, v := range n.Vals {
				fn(n, v, "v"+strconv.Itoa(i))
				i++
			}
		}
		for _, k := range n.Kids {
			walk(k)
		}
	}
	if f.Root != nil {
		walk(f.Root)
	}
}

// Vars renders the request variables the value templates read.
func (f FilterSpec) Vars() string {
	var parts []string
	f.walkVals(func(n *FNode, v FVal, name string) {
		switch v.Kind {
		case "var":
			parts = append(parts, fmt.Sprintf(`"%s":%s`, name, fieldJSON(n.Field, v.G[0])))
		case "arr":
			var js []string
			for _, g := range v.G {
				js = append(js, fieldJSON(n.Field, g))
			}
			parts = append(parts, fmt.Sprintf(`"%s":[%s]`, name, strings.Join(js, ",")))
		case "cat":
			parts = append(parts, fmt.Sprintf(`"%s":%d`, name, v.G[0])) // the part after the static prefix
		}
	})
	return "{" + strings.Join(parts, ",") + "}"
}

func varSegment(name string) resolve.TemplateSegment {
	return resolve.TemplateSegment{
		SegmentType:        resolve.VariableSegmentType,
		VariableKind:       resolve.ContextVariableKind,
		VariableSourcePath: []string{name},
		Renderer:           resolve.NewPlainVariableRenderer(),
	}
}

// Build renders the tree as the repository's resolve.SubscriptionFilter.
func (f FilterSpec) Build() *resolve.SubscriptionFilter {
	if f.Root == nil {
		return nil
	}
	tmpl := map[*FNode][]resolve.InputTemplate{}
	f.walkVals(func(n *FNode, v FVal, name string) {
		var t resolve.InputTemplate
		switch v.Kind {
		case "lit":
			t.Segments = []resolve.TemplateSegment{{SegmentType: resolve.StaticSegmentType, Data: []byte(fieldJSON(n.Field, v.G[0]))}}
		case "cat":
			t.Segments = []resolve.TemplateSegment{{SegmentType: resolve.StaticSegmentType, Data: []byte(filterFields[n.Field].prefix)}, varSegment(name)}
		default:
			t.Segments = []resolve.TemplateSegment{varSegment(name)}
		}
		tmpl[n] = append(tmpl[n], t)
	})
	var build func(n *FNode) resolve.SubscriptionFilter
	build = func(n *FNode) resolve.SubscriptionFilter {
		switch n.Op {
		case "in":
			return resolve.SubscriptionFilter{In: &resolve.SubscriptionFieldFilter{FieldPath: filterFields[n.Field].path, Values: tmpl[n]}}
		case "not":
			k := build(n.Kids[0])
			return resolve.SubscriptionFilter{Not: &k}
		case "and":
			out := resolve.SubscriptionFilter{}
			for _, k := range n.Kids {
				out.And = append(out.And, build(k))
			}
			return out
		default:
			out := resolve.SubscriptionFilter{}
			for _, k := range n.Kids {
				out.Or = append(out.Or, build(k))
			}
			return out
		}
	}
	root := build(f.Root)
	return &root
}

// InFilter is a convenience for scripted scenarios: one IN predicate on the field with one value
// template per group (kinds cycle through the given list).
func InFilter(field int, kinds []string, groups ...int) FilterSpec {
	n := &FNode{Op: "in", Field: field}
	for i, g := range groups {
		k := kinds[i%len(kinds)]
		if k == "cat" && filterFields[field].prefix == "" {
			k = "var"
		}
		n.Vals = append(n.Vals, FVal{Kind: k, G: []int{g}})
	}
	return FilterSpec{Root: n}
}

func randLeaf(rng *rand.Rand) *FNode {
	n := &FNode{Op: "in", Field: rng.IntN(len(filterFields))}
	nv := 1 + rng.IntN(4)
	if rng.IntN(3) == 0 {
		nv = 1
	}
	for i := 0; i < nv; i++ {
		v := FVal{G: []int{rng.IntN(NumGroups)}}
		switch r := rng.IntN(10); {
		case r < 3:
			v.Kind = "lit"
		case r < 7:
			v.Kind = "var"
		case r < 9:
			v.Kind = "arr"
			for len(v.G) < 1+rng.IntN(3) {
				v.G = append(v.G, rng.IntN(NumGroups))
			}
		default:
			v.Kind = "cat"
			if filterFields[n.Field].prefix == "" {
				v.Kind = "var"
			}
		}
		n.Vals = append(n.Vals, v)
	}
	return n
}

func randNode(rng *rand.Rand, depth int) *FNode {
	r := rng.IntN(10)
	if depth >= 2 || r < 5 {
		return randLeaf(rng)
	}
	switch {
	case r < 6:
		return &FNode{Op: "not", Kids: []*FNode{randNode(rng, depth+1)}}
	case r < 8:
		n := &FNode{Op: "or"}
		for i := 0; i < 2+rng.IntN(2); i++ {
			n.Kids = append(n.Kids, randNode(rng, depth+1))
		}
		return n
	default:
		n := &FNode{Op: "and"}
		for i := 0; i < 2+rng.IntN(2); i++ {
			n.Kids = append(n.Kids, randNode(rng, depth+1))
		}
		return n
	}
}

func randFilter(rng *rand.Rand) FilterSpec {
	if rng.IntN(10) < 3 {
		return FilterSpec{}
	}
	return FilterSpec{Root: randNode(rng, 0)}
}
