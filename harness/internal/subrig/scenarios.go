package subrig

import (
	"fmt"
	"runtime"
	"strings"
	"sync"
	"time"
)

// Scripted racing pairs (notes/scenarios.md, table "C12 / C13 — subscriptions"). A script is a
// list of steps; the resolver shutdown Z can be injected before any step (row 12).

type Script struct {
	r          *Rig
	steps      []scriptStep
	shut       bool
	NotReached []string
	bg         sync.WaitGroup
	parks      []*Park
	subs       map[string]*Subscriber
	inst       *Instance
}

type scriptStep struct {
	name string
	fn   func()
}

// ScriptCase is one enumerated scenario variant.
type ScriptCase struct {
	Name     string
	Row      int // row of the scenario table
	Hookable bool
	C13      bool // belongs to the C13 set (fault sequences / start-up races)
	AutoDone bool
	Perturb  float64
	build    func(sc *Script)
}

func (sc *Script) step(name string, fn func()) {
	sc.steps = append(sc.steps, scriptStep{name, fn})
}

func (sc *Script) wait() time.Duration {
	if sc.shut {
		return 30 * time.Millisecond
	}
	return 5 * time.Second
}

func (sc *Script) arrived(p *Park, what string) bool {
	if p.Arrived(sc.wait()) {
		return true
	}
	if !sc.shut {
		sc.NotReached = append(sc.NotReached, what)
	}
	return false
}

func (sc *Script) arm(point string, match func(a, b int64) bool) *Park {
	p := sc.r.Ctl.Arm(point, match)
	sc.parks = append(sc.parks, p)
	return p
}

func (sc *Script) matchSub(name string) func(a, b int64) bool {
	return func(a, b int64) bool {
		s := sc.subs[name]
		if s == nil {
			return false
		}
		if id, ok := s.ID(); ok {
			return int64(id.ConnectionID) == a && id.SubscriptionID == b
		}
		return s.Sync && b == 0 && a > sc.r.connBase
	}
}

func (sc *Script) matchTrigger() func(a, b int64) bool {
	return func(a, b int64) bool { return sc.r.OwnsTrigger(a) }
}

func (sc *Script) goBG(fn func()) {
	sc.bg.Add(1)
	go func() {
		defer sc.bg.Done()
		fn()
	}()
}

func (sc *Script) newSub(name string, sp SubSpec) *Subscriber {
	s := sc.r.NewSubscriber(sp)
	sc.subs[name] = s
	return s
}

func (sc *Script) settle() {
	for i := 0; i < 50; i++ {
		runtime.Gosched()
	}
	time.Sleep(300 * time.Microsecond)
}

// compete performs the competing removal of the named subscriber.
func (sc *Script) compete(kind, name string) {
	s := sc.subs[name]
	if s == nil {
		return
	}
	switch kind {
	case "unsub":
		sc.r.Unsubscribe(s)
	case "rmclient":
		sc.r.RemoveClient(s.Lane)
	case "cancel":
		sc.r.CancelCtx(s)
		if s.Sync {
			select {
			case <-s.syncDone:
			case <-time.After(sc.wait()):
			}
		}
	case "shutdown":
		sc.r.Shutdown()
		sc.shut = true
	}
}

// ScriptSteps returns the number of steps of the case (shutdown can be injected at 0..steps).
func ScriptSteps(c ScriptCase) int {
	sc := &Script{subs: map[string]*Subscriber{}}
	c.build(sc)
	return len(sc.steps)
}

// RunScript executes the case on the rig; shutdownAt < 0 means no injected shutdown.
func RunScript(r *Rig, c ScriptCase, shutdownAt int) *Script {
	sc := &Script{r: r, subs: map[string]*Subscriber{}}
	c.build(sc)
	for i, st := range sc.steps {
		if i == shutdownAt {
			r.Ctl.Note("Z")
			r.Shutdown()
			sc.shut = true
		}
		r.Ctl.Note(st.name)
		st.fn()
	}
	if shutdownAt >= len(sc.steps) {
		r.Ctl.Note("Z")
		r.Shutdown()
		sc.shut = true
	}
	r.Ctl.ReleaseAll()
	c2 := make(chan struct{})
	go func() { sc.bg.Wait(); close(c2) }()
	select {
	case <-c2:
	case <-time.After(10 * time.Second):
		sc.NotReached = append(sc.NotReached, "background action did not return")
	}
	return sc
}

func noFilter() FilterSpec { return FilterSpec{} }

// terminalVsRemoval: rows 1, 2 (and 4/12 with competitor shutdown).
func terminalVsRemoval(isErr bool, competitor string, withB bool, syncA bool) func(sc *Script) {
	return func(sc *Script) {
		point := "sub.complete.afterRemovedCheck"
		if isErr {
			point = "sub.error.afterRemovedCheck"
		}
		var p *Park
		sc.step("subscribe", func() {
			a := sc.newSub("A", SubSpec{Key: 0, Lane: 0, Sync: syncA, Variant: 1})
			sc.r.Subscribe(a)
			if withB {
				b := sc.newSub("B", SubSpec{Key: 0, Lane: 1, Variant: 2})
				sc.r.Subscribe(b)
			}
			sc.inst = sc.r.WaitInstance(0, 1, sc.wait())
		})
		sc.step("event", func() { sc.r.Emit(sc.inst, 1, nil, false) })
		sc.step("terminal-parks", func() {
			p = sc.arm(point, sc.matchSub("A"))
			inst := sc.inst
			sc.goBG(func() { sc.r.SourceTerminal(inst, isErr) })
			sc.arrived(p, point)
		})
		sc.step("remove:"+competitor, func() { sc.compete(competitor, "A") })
		sc.step("release", func() { p.Release(); sc.settle() })
		sc.step("done", func() {
			inst := sc.inst
			sc.goBG(func() { sc.r.SourceDone(inst, "source") })
		})
	}
}

// updateVsRemoval: rows 3, 4. two: both A and B are parked before their write lock and released
// in the given order.
func updateVsRemoval(competitor string, two bool, releaseAFirst bool, syncA bool) func(sc *Script) {
	return func(sc *Script) {
		const point = "sub.update.beforeWriteLock"
		var pa, pb *Park
		sc.step("subscribe", func() {
			a := sc.newSub("A", SubSpec{Key: 0, Lane: 0, Sync: syncA, Variant: 0})
			sc.r.Subscribe(a)
			b := sc.newSub("B", SubSpec{Key: 0, Lane: 1, Variant: 3})
			sc.r.Subscribe(b)
			sc.inst = sc.r.WaitInstance(0, 1, sc.wait())
		})
		sc.step("event1", func() { sc.r.Emit(sc.inst, 0, nil, false) })
		sc.step("event2-parks", func() {
			pa = sc.arm(point, sc.matchSub("A"))
			if two {
				pb = sc.arm(point, sc.matchSub("B"))
			}
			inst := sc.inst
			sc.goBG(func() { sc.r.Emit(inst, 2, nil, false) })
			sc.arrived(pa, point+"(A)")
			if two {
				sc.arrived(pb, point+"(B)")
			}
		})
		sc.step("remove:"+competitor, func() { sc.compete(competitor, "A") })
		sc.step("release", func() {
			if two && !releaseAFirst {
				pb.Release()
				sc.settle()
				pa.Release()
			} else {
				pa.Release()
				sc.settle()
				if two {
					pb.Release()
				}
			}
			sc.settle()
		})
		sc.step("event3", func() {
			inst := sc.inst
			sc.goBG(func() { sc.r.Emit(inst, 1, nil, false) })
		})
	}
}

// overlappingUpdates: the source emits from several goroutines. Event 1 is issued and the delivery
// to the slow subscriber is parked before its write lock (the fan-out of event 1 holds the updater's
// event gate); only then a second goroutine issues event 2 (broadcast, or addressed to the slow
// subscriber), and optionally a third goroutine event 3. The emission order 1 < 2, 1 < 3 is defined
// by the source; 2 and 3 are unordered. Finally the parked delivery is released.
func overlappingUpdates(slow string, targeted bool, three bool) func(sc *Script) {
	return func(sc *Script) {
		const point = "sub.update.beforeWriteLock"
		var p *Park
		var e1 *Event
		var parked bool
		waitFanOut := func(n int64) {
			deadline := time.Now().Add(15 * time.Millisecond)
			for time.Now().Before(deadline) {
				if sc.r.Ctl.Hits()["sub.update.afterFilter"] >= n {
					break
				}
				time.Sleep(100 * time.Microsecond)
			}
			sc.settle()
		}
		sc.step("subscribe", func() {
			a := sc.newSub("A", SubSpec{Key: 0, Lane: 0, Variant: 0})
			sc.r.Subscribe(a)
			b := sc.newSub("B", SubSpec{Key: 0, Lane: 1, Variant: 3})
			sc.r.Subscribe(b)
			c := sc.newSub("C", SubSpec{Key: 0, Lane: 2, Variant: 1, Sync: true})
			sc.r.Subscribe(c)
			sc.inst = sc.r.WaitInstance(0, 1, sc.wait())
		})
		sc.step("event0", func() { sc.r.Emit(sc.inst, 0, nil, false) })
		sc.step("event1-parks", func() {
			p = sc.arm(point, sc.matchSub(slow))
			inst := sc.inst
			sc.goBG(func() { sc.r.EmitOrdered(inst, 1, nil, false, nil, func(e *Event) { e1 = e }) })
			parked = sc.arrived(p, point)
		})
		sc.step("event2-overlaps", func() {
			inst := sc.inst
			var after []*Event
			if parked && e1 != nil {
				after = []*Event{e1}
			}
			var target *Subscriber
			if targeted {
				target = sc.subs[slow]
			}
			sc.goBG(func() { sc.r.EmitOrdered(inst, 2, target, false, after, nil) })
			if parked {
				waitFanOut(3)
			}
		})
		if three {
			sc.step("event3-overlaps", func() {
				inst := sc.inst
				var after []*Event
				if parked && e1 != nil {
					after = []*Event{e1}
				}
				sc.goBG(func() { sc.r.EmitOrdered(inst, 3, nil, false, after, nil) })
				if parked {
					waitFanOut(4)
				}
			})
		}
		sc.step("release", func() { p.Release(); sc.settle() })
		sc.step("event4", func() {
			inst := sc.inst
			sc.goBG(func() { sc.r.Emit(inst, 1, nil, false) })
		})
	}
}

// filterValues: row 14 (no race): IN predicates with three value templates on one field, their
// negation and an AND / OR combination; events equal to the first, a middle, the last and no value.
func filterValues(field int, kinds []string) func(sc *Script) {
	return func(sc *Script) {
		in := InFilter(field, kinds, 1, 3, 4)
		other := InFilter((field+1)%len(filterFields), kinds, 3, 5)
		sc.step("subscribe", func() {
			specs := []FilterSpec{
				in,
				{Root: &FNode{Op: "not", Kids: []*FNode{in.Root}}},
				{Root: &FNode{Op: "or", Kids: []*FNode{InFilter(field, kinds, 0).Root, other.Root}}},
				{Root: &FNode{Op: "and", Kids: []*FNode{in.Root, {Op: "not", Kids: []*FNode{other.Root}}}}},
				{},
			}
			for i, f := range specs {
				s := sc.newSub(fmt.Sprintf("F%d", i), SubSpec{Key: 0, Lane: i, Variant: i % NumVariants, Filter: f, Sync: i == 2})
				sc.r.Subscribe(s)
			}
			sc.inst = sc.r.WaitInstance(0, 1, sc.wait())
		})
		sc.step("events", func() {
			for _, g := range []int{1, 3, 4, 2, 5, 0} {
				sc.r.Emit(sc.inst, g, nil, false)
			}
		})
		sc.step("targeted", func() {
			for _, g := range []int{4, 2} {
				sc.r.Emit(sc.inst, g, sc.subs["F0"], false)
			}
		})
	}
}

// heartbeatVsRemoval: row 5. failing: the writer's Heartbeat returns an error once released.
func heartbeatVsRemoval(competitor string, failing bool) func(sc *Script) {
	return func(sc *Script) {
		const point = "sub.heartbeat.beforeSend"
		var p *Park
		sc.step("subscribe", func() {
			a := sc.newSub("A", SubSpec{Key: 0, Lane: 0, Variant: 0, HB: true})
			sc.r.Subscribe(a)
			b := sc.newSub("B", SubSpec{Key: 0, Lane: 1, Variant: 1, HB: true})
			sc.r.Subscribe(b)
			sc.inst = sc.r.WaitInstance(0, 1, sc.wait())
		})
		sc.step("heartbeat-parks", func() {
			p = sc.arm(point, sc.matchSub("A"))
			if failing {
				sc.subs["A"].W.FailHeartbeats()
			}
			inst := sc.inst
			sc.goBG(func() { sc.r.SourceHeartbeat(inst) })
			sc.arrived(p, point)
		})
		sc.step("remove:"+competitor, func() { sc.compete(competitor, "A") })
		sc.step("release", func() { p.Release(); sc.settle() })
		sc.step("heartbeat2", func() {
			inst := sc.inst
			sc.goBG(func() { sc.r.SourceHeartbeat(inst) })
		})
	}
}

// flushFailure: row 6.
func flushFailure(failFirst bool) func(sc *Script) {
	return func(sc *Script) {
		sc.step("subscribe", func() {
			a := sc.newSub("A", SubSpec{Key: 0, Lane: 0, Variant: 1})
			sc.r.Subscribe(a)
			b := sc.newSub("B", SubSpec{Key: 0, Lane: 1, Variant: 2})
			sc.r.Subscribe(b)
			sc.inst = sc.r.WaitInstance(0, 1, sc.wait())
		})
		sc.step("event1", func() {
			if failFirst {
				sc.subs["B"].W.FailNextFlush()
			}
			sc.r.Emit(sc.inst, 0, nil, false)
		})
		sc.step("event2", func() {
			if !failFirst {
				sc.subs["B"].W.FailNextFlush()
			}
			sc.r.Emit(sc.inst, 1, nil, false)
		})
		sc.step("event3", func() { sc.r.Emit(sc.inst, 2, nil, false) })
		sc.step("targeted", func() { sc.r.Emit(sc.inst, 3, sc.subs["B"], false) })
	}
}

// joinVsUnsubscribe: row 10 (hookable source).
func joinVsUnsubscribe(hookPlan int, competitor string) func(sc *Script) {
	return func(sc *Script) {
		const point = "sub.join.beforeStartupHook"
		var p *Park
		sc.step("subscribeA", func() {
			a := sc.newSub("A", SubSpec{Key: 0, Lane: 0, Variant: 0})
			sc.r.Subscribe(a)
			sc.inst = sc.r.WaitInstance(0, 1, sc.wait())
		})
		sc.step("B-joins-parks", func() {
			b := sc.newSub("B", SubSpec{Key: 0, Lane: 1, Variant: 1, HookPlan: hookPlan})
			p = sc.arm(point, sc.matchSub("B"))
			sc.r.Subscribe(b)
			sc.arrived(p, point)
		})
		sc.step("remove:"+competitor, func() { sc.compete(competitor, "B") })
		sc.step("release", func() { p.Release(); sc.settle() })
		sc.step("event", func() { sc.r.Emit(sc.inst, 1, nil, false) })
	}
}

// startupVsResubscribe: rows 7, 8, 9. The start-up goroutine of A's trigger is parked at point;
// A leaves; with resub B subscribes with the same key (a new trigger with the same id) before the
// goroutine is released. settleBeforeB: whether the released goroutine is given time to finish
// before B leaves again (both orders).
func startupVsResubscribe(point string, startPlan int, hookPlan int, resub bool, settleFirst bool, leave string) func(sc *Script) {
	return func(sc *Script) {
		var p *Park
		sc.step("A-subscribes-parks", func() {
			p = sc.arm(point, sc.matchTrigger())
			a := sc.newSub("A", SubSpec{Key: 0, Lane: 0, Variant: 0, StartPlan: startPlan, HookPlan: hookPlan})
			sc.r.Subscribe(a)
			sc.arrived(p, point)
		})
		sc.step("A-leaves:"+leave, func() { sc.compete(leave, "A") })
		if resub {
			sc.step("B-subscribes", func() {
				b := sc.newSub("B", SubSpec{Key: 0, Lane: 1, Variant: 1})
				sc.r.Subscribe(b)
				// B's own trigger starts (it passes the armed point because the park is taken)
				deadline := time.Now().Add(sc.wait())
				for time.Now().Before(deadline) {
					ok := false
					for _, i := range sc.r.Instances() {
						if i.Creator == b && i.StartRet.Load() != 0 {
							ok = true
						}
					}
					if ok {
						break
					}
					time.Sleep(50 * time.Microsecond)
				}
				sc.settle()
			})
		}
		sc.step("release", func() {
			p.Release()
			if settleFirst {
				for i := 0; i < 10; i++ {
					sc.settle()
				}
			}
		})
		if resub {
			sc.step("event-for-B", func() {
				for _, i := range sc.r.Instances() {
					if i.Creator == sc.subs["B"] {
						sc.r.Emit(i, 1, nil, false)
					}
				}
			})
			sc.step("B-leaves", func() { sc.compete("unsub", "B") })
		}
	}
}

// staleDoneVsResubscribe: the source reacts to the end of its Start context with updater.Done()
// (as the GraphQL data source does), but only after a new subscriber has re-created the trigger.
func staleDoneVsResubscribe(explicit bool) func(sc *Script) {
	return staleFinishVsResubscribe(explicit, "")
}

// staleFinishVsResubscribe: as above; terminal "complete" / "error": the old source first sends its
// terminal message and then Done(), all after the trigger was re-created. Afterwards the new source
// emits events, which the new subscriber must receive.
func staleFinishVsResubscribe(explicit bool, terminal string) func(sc *Script) {
	return func(sc *Script) {
		var instA *Instance
		sc.step("A-subscribes", func() {
			a := sc.newSub("A", SubSpec{Key: 0, Lane: 0, Variant: 0})
			sc.r.Subscribe(a)
			instA = sc.r.WaitInstance(0, 1, sc.wait())
			if !explicit {
				sc.r.HoldAutoDone()
			}
		})
		sc.step("A-leaves", func() { sc.compete("unsub", "A") })
		sc.step("B-subscribes", func() {
			b := sc.newSub("B", SubSpec{Key: 0, Lane: 1, Variant: 1})
			sc.r.Subscribe(b)
			sc.r.WaitInstance(0, 2, sc.wait())
			sc.settle()
		})
		sc.step("source-of-A-finishes", func() {
			if terminal != "" && instA != nil {
				sc.r.SourceTerminal(instA, terminal == "error")
			}
			if explicit {
				if instA != nil {
					sc.r.SourceDone(instA, "source")
				}
			} else {
				sc.r.ReleaseAutoDone()
			}
			for i := 0; i < 5; i++ {
				sc.settle()
			}
		})
		sc.step("event-for-B", func() {
			for _, i := range sc.r.Instances() {
				if i.Creator == sc.subs["B"] {
					sc.r.Emit(i, 1, nil, false)
					sc.r.Emit(i, 2, nil, false)
					sc.r.Emit(i, 3, sc.subs["B"], false)
				}
			}
		})
		sc.step("B-leaves", func() { sc.compete("unsub", "B") })
	}
}

// doneVsUnsubscribe: row 11, several rounds with perturbation.
func doneVsUnsubscribe(rounds int, withTerminal bool) func(sc *Script) {
	return func(sc *Script) {
		sc.step("rounds", func() {
			for i := 0; i < rounds; i++ {
				if sc.r.ShutdownInvoked() {
					return
				}
				a := sc.newSub(fmt.Sprintf("A%d", i), SubSpec{Key: 0, Lane: i % 3, Variant: i % NumVariants, Sync: i%5 == 4})
				b := sc.newSub(fmt.Sprintf("B%d", i), SubSpec{Key: 0, Lane: 3 + i%2, Variant: (i + 1) % NumVariants})
				sc.r.Subscribe(a)
				sc.r.Subscribe(b)
				var inst *Instance
				deadline := time.Now().Add(sc.wait())
				for inst == nil && time.Now().Before(deadline) {
					for _, in := range sc.r.Instances() {
						if in.Creator == a || in.Creator == b {
							inst = in
						}
					}
					if inst == nil {
						time.Sleep(50 * time.Microsecond)
					}
				}
				if inst == nil {
					continue
				}
				var wg sync.WaitGroup
				wg.Add(3)
				go func() {
					defer wg.Done()
					sc.r.Emit(inst, i%4, nil, false)
					if withTerminal {
						sc.r.SourceTerminal(inst, i%2 == 0)
					}
					sc.r.SourceDone(inst, "source")
				}()
				go func() { defer wg.Done(); sc.r.Unsubscribe(a) }()
				go func() {
					defer wg.Done()
					if i%2 == 0 {
						sc.r.RemoveClient(b.Lane)
					} else {
						sc.r.Unsubscribe(b)
					}
				}()
				wg.Wait()
			}
		})
	}
}

// ScriptCases enumerates the scenario variants of a property.
func ScriptCases(c13 bool) []ScriptCase {
	var out []ScriptCase
	add := func(c ScriptCase) { out = append(out, c) }
	if !c13 {
		for _, isErr := range []bool{false, true} {
			row := 1
			if isErr {
				row = 2
			}
			for _, comp := range []string{"unsub", "rmclient", "shutdown"} {
				for _, withB := range []bool{false, true} {
					add(ScriptCase{Name: fmt.Sprintf("terminal(err=%v) vs %s withB=%v", isErr, comp, withB), Row: row, build: terminalVsRemoval(isErr, comp, withB, false)})
				}
			}
			add(ScriptCase{Name: fmt.Sprintf("terminal(err=%v) vs ctx-cancel of sync subscriber", isErr), Row: row, build: terminalVsRemoval(isErr, "cancel", true, true)})
		}
		for _, comp := range []string{"unsub", "rmclient", "shutdown"} {
			row := 3
			if comp == "shutdown" {
				row = 4
			}
			add(ScriptCase{Name: "update vs " + comp, Row: row, build: updateVsRemoval(comp, false, true, false)})
			add(ScriptCase{Name: "update vs " + comp + " (A,B parked; A first)", Row: row, build: updateVsRemoval(comp, true, true, false)})
			add(ScriptCase{Name: "update vs " + comp + " (A,B parked; B first)", Row: row, build: updateVsRemoval(comp, true, false, false)})
		}
		add(ScriptCase{Name: "update vs ctx-cancel of sync subscriber", Row: 3, build: updateVsRemoval("cancel", false, true, true)})
		for _, slow := range []string{"A", "B"} {
			for _, targeted := range []bool{false, true} {
				for _, three := range []bool{false, true} {
					add(ScriptCase{Name: fmt.Sprintf("overlapping updates from several source goroutines (slow=%s targeted=%v three=%v)", slow, targeted, three), Row: 13, build: overlappingUpdates(slow, targeted, three)})
				}
			}
		}
		for _, comp := range []string{"unsub", "rmclient", "shutdown"} {
			add(ScriptCase{Name: "heartbeat vs " + comp, Row: 5, build: heartbeatVsRemoval(comp, false)})
			add(ScriptCase{Name: "failing heartbeat vs " + comp, Row: 5, build: heartbeatVsRemoval(comp, true)})
		}
		for field := range filterFields {
			for _, kinds := range [][]string{{"lit"}, {"var"}, {"lit", "var", "arr"}, {"var", "lit", "cat"}, {"arr", "arr", "lit"}} {
				add(ScriptCase{Name: fmt.Sprintf("filter values: field %s, templates %v", strings.Join(filterFields[field].path[2:], "."), kinds), Row: 14, build: filterValues(field, kinds)})
			}
		}
		add(ScriptCase{Name: "flush failure on first event", Row: 6, build: flushFailure(true)})
		add(ScriptCase{Name: "flush failure on second event", Row: 6, build: flushFailure(false)})
		for _, hp := range []int{HookOK, HookFail, HookEmit} {
			for _, comp := range []string{"unsub", "rmclient"} {
				add(ScriptCase{Name: fmt.Sprintf("join(hook=%d) vs %s", hp, comp), Row: 10, Hookable: true, build: joinVsUnsubscribe(hp, comp)})
			}
		}
		for _, term := range []string{"", "complete", "error"} {
			add(ScriptCase{Name: fmt.Sprintf("previous source instance finishes (terminal=%q, Done from its context-end reaction) after the trigger was re-created", term), Row: 15, AutoDone: true, build: staleFinishVsResubscribe(false, term)})
			add(ScriptCase{Name: fmt.Sprintf("previous source instance finishes (terminal=%q, explicit Done) after the trigger was re-created", term), Row: 15, build: staleFinishVsResubscribe(true, term)})
		}
		add(ScriptCase{Name: "done vs unsubscribe rounds", Row: 11, Perturb: 0.5, build: doneVsUnsubscribe(12, false)})
		add(ScriptCase{Name: "terminal+done vs unsubscribe rounds", Row: 11, Perturb: 0.5, build: doneVsUnsubscribe(12, true)})
		return out
	}
	for _, auto := range []bool{false, true} {
		for _, settle := range []bool{true, false} {
			for _, leave := range []string{"unsub", "rmclient"} {
				add(ScriptCase{Name: fmt.Sprintf("start parked before Start; A leaves (%s); B resubscribes; settle=%v auto=%v", leave, settle, auto), Row: 7, C13: true, AutoDone: auto,
					build: startupVsResubscribe("trigger.beforeStart", StartOK, HookOK, true, settle, leave)})
			}
			add(ScriptCase{Name: fmt.Sprintf("start parked before Start; A leaves; B resubscribes; Start fails; settle=%v auto=%v", settle, auto), Row: 8, C13: true, AutoDone: auto,
				build: startupVsResubscribe("trigger.beforeStart", StartErrNow, HookOK, true, settle, "unsub")})
			add(ScriptCase{Name: fmt.Sprintf("start parked before Start; A leaves; B resubscribes; hook fails; settle=%v auto=%v", settle, auto), Row: 8, C13: true, Hookable: true, AutoDone: auto,
				build: startupVsResubscribe("trigger.beforeStart", StartOK, HookFail, true, settle, "unsub")})
			add(ScriptCase{Name: fmt.Sprintf("start parked at startFailed; A leaves; B resubscribes; settle=%v auto=%v", settle, auto), Row: 8, C13: true, AutoDone: auto,
				build: startupVsResubscribe("trigger.startFailed", StartErrNow, HookOK, true, settle, "unsub")})
			add(ScriptCase{Name: fmt.Sprintf("start parked after Start; A leaves; B resubscribes; settle=%v auto=%v", settle, auto), Row: 9, C13: true, AutoDone: auto,
				build: startupVsResubscribe("trigger.afterStart", StartOK, HookOK, true, settle, "unsub")})
		}
		add(ScriptCase{Name: fmt.Sprintf("start parked before Start; A leaves; auto=%v", auto), Row: 7, C13: true, AutoDone: auto,
			build: startupVsResubscribe("trigger.beforeStart", StartOK, HookOK, false, true, "unsub")})
		add(ScriptCase{Name: fmt.Sprintf("start parked after Start; A leaves; auto=%v", auto), Row: 9, C13: true, AutoDone: auto,
			build: startupVsResubscribe("trigger.afterStart", StartOK, HookOK, false, true, "unsub")})
		add(ScriptCase{Name: fmt.Sprintf("start parked at startFailed; A leaves; auto=%v", auto), Row: 8, C13: true, AutoDone: auto,
			build: startupVsResubscribe("trigger.startFailed", StartErrNow, HookOK, false, true, "unsub")})
		add(ScriptCase{Name: fmt.Sprintf("start parked before Start; A leaves; Start fails after cancel; auto=%v", auto), Row: 8, C13: true, AutoDone: auto,
			build: startupVsResubscribe("trigger.beforeStart", StartErrAfterCancel, HookOK, true, true, "unsub")})
		add(ScriptCase{Name: fmt.Sprintf("done vs unsubscribe rounds auto=%v", auto), Row: 11, C13: true, AutoDone: auto, Perturb: 0.5, build: doneVsUnsubscribe(12, true)})
	}
	add(ScriptCase{Name: "source of A reacts to its context end after B re-created the trigger", Row: 7, C13: true, AutoDone: true, build: staleDoneVsResubscribe(false)})
	add(ScriptCase{Name: "source of A calls Done after B re-created the trigger", Row: 7, C13: true, build: staleDoneVsResubscribe(true)})
	// the C12 start-up independent rows, run for the clean-up oracle as well
	add(ScriptCase{Name: "terminal vs unsub", Row: 1, C13: true, build: terminalVsRemoval(false, "unsub", true, false)})
	add(ScriptCase{Name: "update vs rmclient", Row: 3, C13: true, build: updateVsRemoval("rmclient", true, true, false)})
	add(ScriptCase{Name: "failing heartbeat vs unsub", Row: 5, C13: true, build: heartbeatVsRemoval("unsub", true)})
	add(ScriptCase{Name: "flush failure", Row: 6, C13: true, build: flushFailure(true)})
	add(ScriptCase{Name: "join(hook fails) vs unsub", Row: 10, C13: true, Hookable: true, build: joinVsUnsubscribe(HookFail, "unsub")})
	return out
}
