package subrig

import (
	"fmt"
	"math/rand/v2"
	"sort"
	"sync/atomic"
	"time"

	"verifharness/internal/fw"
)

// CaseInfo describes the executed case.
type CaseInfo struct {
	Kind       string // script | history
	Name       string
	Row        int
	ShutdownAt int
	Program    *Program
	NotReached []string
}

type scriptSlot struct {
	c          ScriptCase
	shutdownAt int
}

func scriptSlots(c13 bool) []scriptSlot {
	var out []scriptSlot
	for _, c := range ScriptCases(c13) {
		n := ScriptSteps(c)
		out = append(out, scriptSlot{c, -1})
		for at := 0; at <= n; at++ {
			out = append(out, scriptSlot{c, at})
		}
	}
	return out
}

// NumScript is the number of enumerated scripted cases (every scenario variant × every position
// of the injected shutdown, plus the variant without it).
func NumScript(c13 bool) int { return len(scriptSlots(c13)) }

// RunCase executes case idx: idx < NumScript → the scripted scenario, otherwise a random history.
func RunCase(c13 bool, idx int, rngFor func(stream string) *rand.Rand) (*History, CaseInfo) {
	slots := scriptSlots(c13)
	if idx < len(slots) {
		sl := slots[idx]
		o := Opts{Keys: 1, Hookable: sl.c.Hookable, AutoDone: sl.c.AutoDone, Heartbeat: time.Hour}
		if sl.c.Perturb > 0 {
			o.PerturbP, o.Rng = sl.c.Perturb, rngFor("perturb")
		}
		r := New(o)
		defer r.Close()
		sc := RunScript(r, sl.c, sl.shutdownAt)
		q := r.Finish(idx%2 == 0, c13)
		h := r.History(q)
		return h, CaseInfo{Kind: "script", Name: sl.c.Name, Row: sl.c.Row, ShutdownAt: sl.shutdownAt, NotReached: sc.NotReached}
	}
	rng := rngFor("program")
	hookable := rng.IntN(2) == 0
	p := GenProgram(rng, c13, hookable)
	hb := []time.Duration{time.Millisecond, 4 * time.Millisecond, time.Hour}[rng.IntN(3)]
	o := Opts{Keys: p.Keys, Hookable: hookable, AutoDone: rng.IntN(2) == 0, Heartbeat: hb,
		PerturbP: []float64{0, 0.1, 0.3, 0.6}[rng.IntN(4)], Rng: rngFor("perturb")}
	r := New(o)
	defer r.Close()
	RunProgram(r, p)
	q := r.Finish(p.ClientDriven, c13)
	h := r.History(q)
	return h, CaseInfo{Kind: "history", Name: "history", Program: p, ShutdownAt: -1}
}

// CountCommon records what the monitors saw (both properties).
func CountCommon(res *fw.Result, h *History, ci CaseInfo) {
	res.Count("cases_"+ci.Kind, 1)
	if ci.Kind == "script" {
		res.Count(fmt.Sprintf("script_row_%02d", ci.Row), 1)
		if ci.ShutdownAt >= 0 {
			res.Count("script_with_injected_shutdown", 1)
		}
	}
	nsync, learned := 0, 0
	var wcalls, msgs, errw int64
	for _, s := range h.Subs {
		if s.SubInv.Load() == 0 {
			continue
		}
		res.Count("subscribers", 1)
		if s.Sync {
			nsync++
			if _, ok := s.ID(); ok {
				learned++
			}
		}
		if !s.Filter.None() {
			res.Count("subscribers_with_filter", 1)
			res.Count("filter_shape_"+s.Filter.Shape(), 1)
		}
		lg := s.W.Log()
		wcalls += int64(len(lg.Calls))
		msgs += int64(len(lg.Msgs))
		errw += int64(len(lg.Errs))
		res.Count("writer_injected_failures", int64(len(lg.FailTs)))
		for _, c := range lg.Calls {
			switch c.Kind {
			case CHeartbeat:
				res.Count("writer_heartbeats", 1)
			case CComplete, CError:
				res.Count("writer_terminals", 1)
			}
		}
	}
	res.Count("sync_subscribers", int64(nsync))
	res.Count("sync_ids_learned", int64(learned))
	res.Count("writer_calls", wcalls)
	res.Count("messages_delivered", msgs)
	res.Count("error_payloads_written", errw)
	res.Count("events_emitted", int64(len(h.Events)))
	res.Count("sub_done_events", int64(len(h.Dones)))
	res.Count("start_instances", int64(len(h.Instances)))
	for _, i := range h.Instances {
		if i.StartFailed.Load() {
			res.Count("start_failures", 1)
		}
		if i.CancelledAtStart {
			res.Count("start_with_cancelled_ctx", 1)
		}
	}
	for _, hc := range h.HookCalls {
		res.Count("startup_hook_calls", 1)
		if hc.Failed {
			res.Count("startup_hook_failures", 1)
		}
	}
	for p, n := range h.Hits {
		res.Count("hook:"+p, n)
	}
	res.Count("racing_pairs_parked", int64(h.Parked))
	res.Count("perturb_delays", h.Delays)
	res.Count("reporter_sub_inc", h.SubInc)
	res.Count("reporter_sub_dec", h.SubDec)
	res.Count("reporter_trigger_inc", h.TrigInc)
	res.Count("reporter_trigger_dec", h.TrigDec)
	res.Count("reporter_updates_sent", h.Updates)
	if h.ShutdownInv != 0 {
		res.Count("histories_with_shutdown", 1)
	}
	var sk []string
	for k := range h.Skipped {
		sk = append(sk, k)
	}
	sort.Strings(sk)
	for _, k := range sk {
		res.Count("skipped_"+k, h.Skipped[k])
	}
	for _, o := range h.Ops {
		res.Count("ops_"+o.Kind, 1)
	}
	if ci.Kind == "script" {
		res.Observe("script_interleavings", fmt.Sprintf("%s | Z@%d | %s", ci.Name, ci.ShutdownAt, h.Signature))
	}
	res.Observe("history_signatures", HistorySignature(h))
}

// HistorySignature abstracts the interleaving of a history: the order of subscribe, removal,
// completion, event and source-finish points (identities and payloads dropped).
func HistorySignature(h *History) string {
	type pt struct {
		ts int64
		c  byte
	}
	var ps []pt
	for _, s := range h.Subs {
		if v := s.SubInv.Load(); v != 0 {
			ps = append(ps, pt{v, 's'})
		}
		for _, rm := range s.Removals() {
			ps = append(ps, pt{rm.Ts, 'r'})
		}
		for _, d := range h.DonesOf(s) {
			ps = append(ps, pt{d, 'd'})
		}
		lg := s.W.Log()
		for _, m := range lg.Msgs {
			ps = append(ps, pt{m.Ts, 'm'})
		}
		for _, c := range lg.Calls {
			switch c.Kind {
			case CComplete, CError:
				ps = append(ps, pt{c.Ts, 't'})
			case CHeartbeat:
				ps = append(ps, pt{c.Ts, 'h'})
			}
		}
	}
	for _, e := range h.Events {
		ps = append(ps, pt{atomic.LoadInt64(&e.Call), 'e'})
		if ret := atomic.LoadInt64(&e.Ret); ret != 0 {
			ps = append(ps, pt{ret, 'E'})
		}
	}
	for _, i := range h.Instances {
		ps = append(ps, pt{i.StartCall, 'S'})
		if t := i.CancelTs.Load(); t != 0 {
			ps = append(ps, pt{t, 'c'})
		}
	}
	for _, o := range h.Ops {
		if o.Kind == "removeall" {
			ps = append(ps, pt{o.Call, 'D'})
		}
		if o.Kind == "shutdown" {
			ps = append(ps, pt{o.Call, 'Z'})
		}
	}
	sort.Slice(ps, func(i, j int) bool { return ps[i].ts < ps[j].ts })
	b := make([]byte, len(ps))
	for i, p := range ps {
		b[i] = p.c
	}
	if len(b) <= 48 {
		return string(b)
	}
	return fw.HashKey(b)
}
