package subrig

import (
	"context"
	"errors"
	"io"
	"net/http"
	"sync"
	"sync/atomic"

	"github.com/cespare/xxhash/v2"

	"github.com/wundergraph/graphql-go-tools/v2/pkg/engine/resolve"
)

// Start-up plans of a subscriber (used when that subscriber creates the trigger).
const (
	StartOK = iota
	StartErrNow
	StartErrAfterCancel // Start blocks until the trigger context is cancelled, then returns an error
)

// Hook plans of a subscriber (SubscriptionOnStart of the hookable source).
const (
	HookOK = iota
	HookFail
	HookEmit // deliver one initial event to this subscriber through the hook's updater
)

var ErrInjectedStart = errors.New("injected start failure")
var ErrInjectedHook = errors.New("injected startup hook failure")

// Instance is one recorded call of Source.Start.
type Instance struct {
	ID      int
	Key     int // index into Rig.Keys, -1 when (input, headers) match no key
	Input   string
	Header  string
	Ctx     *resolve.Context
	Updater resolve.SubscriptionUpdater
	Creator *Subscriber // from the context value: the subscriber whose subscribe created the trigger

	StartCall          int64
	StartRet           atomic.Int64
	StartFailed        atomic.Bool
	CancelledAtStart   bool
	CancelTs           atomic.Int64 // when the rig observed the Start context cancelled
	AutoDone           bool
	mu                 sync.Mutex
	terminalSent       bool
	doneReturned       bool
	members            map[int]int64 // subscriber idx -> first timestamp at which it was seen attached
	foreignMemberships []string
}

func (i *Instance) TerminalSent() bool {
	i.mu.Lock()
	defer i.mu.Unlock()
	return i.terminalSent
}

func (i *Instance) DoneReturned() bool {
	i.mu.Lock()
	defer i.mu.Unlock()
	return i.doneReturned
}

// Members returns subscriber idx -> first time seen attached to this instance.
func (i *Instance) Members() map[int]int64 {
	i.mu.Lock()
	defer i.mu.Unlock()
	out := make(map[int]int64, len(i.members))
	for k, v := range i.members {
		out[k] = v
	}
	return out
}

// HookCall is one recorded SubscriptionOnStart call.
type HookCall struct {
	Sub    *Subscriber
	Ts     int64
	Ret    int64
	Failed bool
}

// Source is the fake resolve.SubscriptionDataSource. It records every Start and hands the updater
// to the actors through the rig.
type Source struct {
	rig *Rig
}

func (s *Source) HashTriggerInput(input []byte, xxh *xxhash.Digest) error {
	_, err := xxh.Write(input)
	return err
}

func (s *Source) Start(ctx *resolve.Context, headers http.Header, input []byte, updater resolve.SubscriptionUpdater) error {
	r := s.rig
	r.hooksInFlight.Add(1)
	defer r.hooksInFlight.Add(-1)
	inst := &Instance{
		Input:   string(input),
		Header:  headers.Get(headerName),
		Ctx:     ctx,
		Updater: updater,
		members: map[int]int64{},
	}
	if sub, ok := ctx.Context().Value(subCtxKey{}).(*Subscriber); ok && sub.rig == r {
		inst.Creator = sub
	}
	if inst.Creator != nil {
		r.ownStartup(inst.Creator)
	}
	inst.Key = r.keyOf(inst.Input, inst.Header)
	inst.CancelledAtStart = ctx.Context().Err() != nil
	plan := StartOK
	if inst.Creator != nil {
		plan = inst.Creator.StartPlan
	}
	inst.AutoDone = r.Opts.AutoDone && plan == StartOK
	r.mu.Lock()
	inst.ID = len(r.instances)
	inst.StartCall = r.Clock.Tick()
	r.instances = append(r.instances, inst)
	r.mu.Unlock()
	r.snapshot(inst)

	context.AfterFunc(ctx.Context(), func() {
		inst.CancelTs.Store(r.Clock.Tick())
		if inst.AutoDone {
			// what the real GraphQL data source does: when the trigger context ends, tell the
			// resolver that the source is finished (on its own goroutine, i.e. arbitrarily late)
			r.autoPending.Add(1)
			r.waitAutoGate()
			r.SourceDone(inst, "auto")
			r.autoPending.Add(-1)
		}
	})

	switch plan {
	case StartErrNow:
		inst.StartFailed.Store(true)
		ts := r.Clock.Tick()
		inst.StartRet.Store(ts)
		r.keyRemoval(inst.Key, ts, inst, inst.Creator, nil, "start-failed")
		return ErrInjectedStart
	case StartErrAfterCancel:
		<-ctx.Context().Done()
		inst.StartFailed.Store(true)
		ts := r.Clock.Tick()
		inst.StartRet.Store(ts)
		r.keyRemoval(inst.Key, ts, inst, inst.Creator, nil, "start-failed-after-cancel")
		return ErrInjectedStart
	}
	inst.StartRet.Store(r.Clock.Tick())
	return nil
}

// HookSource additionally implements resolve.HookableSubscriptionDataSource.
type HookSource struct {
	*Source
}

func (h *HookSource) SubscriptionOnStart(hc resolve.StartupHookContext, input []byte) error {
	r := h.rig
	sub, _ := hc.Context.Value(subCtxKey{}).(*Subscriber)
	if sub == nil || sub.rig != r {
		return nil
	}
	r.hooksInFlight.Add(1)
	defer r.hooksInFlight.Add(-1)
	r.hookBegun.Add(1)
	r.ownStartup(sub)
	call := &HookCall{Sub: sub, Ts: r.Clock.Tick()}
	r.mu.Lock()
	r.hookCalls = append(r.hookCalls, call)
	r.mu.Unlock()
	switch sub.HookPlan {
	case HookFail:
		call.Failed = true
		call.Ret = r.Clock.Tick()
		// The failing hook removes this subscriber; when it runs for the creator of a trigger it
		// tears the whole trigger down.
		sub.markRemoval(call.Ret, "hook-failed")
		if !sub.joined.Load() {
			r.keyRemoval(sub.Key, call.Ret, nil, sub, sub, "hook-failed")
		}
		return ErrInjectedHook
	case HookEmit:
		e := r.newEvent(sub.Key, nil, sub.Idx%4, sub)
		e.ViaHook = true
		atomic.StoreInt64(&e.Call, r.Clock.Tick())
		hc.Updater([]byte(e.Payload))
		// (a start-up hook may still be running when the history is read for its signature)
		atomic.StoreInt64(&e.Ret, r.Clock.Tick())
	}
	call.Ret = r.Clock.Tick()
	return nil
}

// Reporter records the resolver's counters.
type Reporter struct {
	SubInc, SubDec, TrigInc, TrigDec, Updates atomic.Int64
	clock                                     *Clock
	mu                                        sync.Mutex
	incs                                      []TrigInc
}

func (r *Reporter) SubscriptionUpdateSent()        { r.Updates.Add(1) }
func (r *Reporter) SubscriptionCountInc(count int) { r.clock.Tick(); r.SubInc.Add(int64(count)) }
func (r *Reporter) SubscriptionCountDec(count int) { r.clock.Tick(); r.SubDec.Add(int64(count)) }
func (r *Reporter) TriggerCountInc(count int) {
	ts := r.clock.Tick()
	r.TrigInc.Add(int64(count))
	// the increment is reported by the start-up goroutine of the trigger: remember which one
	g := goid()
	r.mu.Lock()
	r.incs = append(r.incs, TrigInc{Gid: g, Ts: ts})
	r.mu.Unlock()
}

// TrigInc is one TriggerCountInc call.
type TrigInc struct {
	Gid int64
	Ts  int64
}

func (r *Reporter) Incs() []TrigInc {
	r.mu.Lock()
	defer r.mu.Unlock()
	return append([]TrigInc(nil), r.incs...)
}
func (r *Reporter) TriggerCountDec(count int) { r.clock.Tick(); r.TrigDec.Add(int64(count)) }

// errWriter is the rig's resolve.AsyncErrorWriter.
type errWriter struct{}

func (errWriter) WriteError(ctx *resolve.Context, err error, res *resolve.GraphQLResponse, w io.Writer) {
	msg := "<nil>"
	if err != nil {
		msg = err.Error()
	}
	if rw, ok := w.(*RecWriter); ok {
		rw.WriteErr(msg)
		return
	}
	_, _ = w.Write([]byte(`{"errors":[{"message":"` + msg + `"}]}`))
}

const headerName = "X-Verif-Key"

// headersBuilder is the rig's resolve.SubgraphHeadersBuilder: one forwarded header per key.
type headersBuilder struct{ val string }

func (h headersBuilder) HeadersForSubgraph(string) (http.Header, uint64) {
	if h.val == "" {
		return nil, 0
	}
	return http.Header{headerName: []string{h.val}}, xxhash.Sum64String(h.val) | 1
}
func (h headersBuilder) HashAll() uint64 { return xxhash.Sum64String(h.val) }
