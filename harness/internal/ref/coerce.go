// Package ref holds the independent reference models: input coercion, a reference GraphQL
// executor over gqlparser's AST (an independent parser), the hash-defined data universe, and JSON
// comparison helpers. Nothing here uses graphql-go-tools.
package ref

import (
	"encoding/json"
	"fmt"
	"math"
	"strconv"
	"strings"

	"github.com/vektah/gqlparser/v2/ast"
)

// CoerceError describes why a value is not coercible; Path is the path inside the variable/argument.
type CoerceError struct {
	Var  string
	Path []any
	Msg  string
}

func (e *CoerceError) Error() string {
	return fmt.Sprintf("$%s%s: %s", e.Var, pathString(e.Path), e.Msg)
}

func pathString(p []any) string {
	var sb strings.Builder
	for _, x := range p {
		switch v := x.(type) {
		case int:
			fmt.Fprintf(&sb, "[%d]", v)
		default:
			fmt.Fprintf(&sb, ".%v", v)
		}
	}
	return sb.String()
}

type Coercer struct {
	Schema *ast.Schema
}

func isOneOf(def *ast.Definition) bool { return def.Directives.ForName("oneOf") != nil }

// Absent is the marker for "no value" (distinct from null).
type absent struct{}

var Absent = absent{}

// CoerceVariableValues implements the spec's CoerceVariableValues over JSON (decoded with
// UseNumber). The result contains only variables that have a value (provided or default).
func (c *Coercer) CoerceVariableValues(op *ast.OperationDefinition, provided map[string]any) (map[string]any, *CoerceError) {
	out := map[string]any{}
	for _, vd := range op.VariableDefinitions {
		v, has := provided[vd.Variable]
		if !has {
			if vd.DefaultValue != nil {
				dv, _, err := c.CoerceLiteral(vd.Type, vd.DefaultValue, nil)
				if err != nil {
					err.Var = vd.Variable
					return nil, err
				}
				out[vd.Variable] = dv
				continue
			}
			if vd.Type.NonNull {
				return nil, &CoerceError{Var: vd.Variable, Msg: "required variable not provided"}
			}
			continue
		}
		cv, err := c.CoerceJSON(vd.Type, v, nil)
		if err != nil {
			err.Var = vd.Variable
			return nil, err
		}
		out[vd.Variable] = cv
	}
	return out, nil
}

// CoerceJSON coerces a JSON value (json.Number for numbers) to type t.
func (c *Coercer) CoerceJSON(t *ast.Type, v any, path []any) (any, *CoerceError) {
	if v == nil {
		if t.NonNull {
			return nil, &CoerceError{Path: path, Msg: "null for non-null type " + t.String()}
		}
		return nil, nil
	}
	if t.Elem != nil {
		list, ok := v.([]any)
		if !ok {
			// single value → list of one (input coercion of lists)
			it, err := c.CoerceJSON(t.Elem, v, path)
			if err != nil {
				return nil, err
			}
			return []any{it}, nil
		}
		out := make([]any, len(list))
		for i, it := range list {
			cv, err := c.CoerceJSON(t.Elem, it, append(append([]any{}, path...), i))
			if err != nil {
				return nil, err
			}
			out[i] = cv
		}
		return out, nil
	}
	return c.coerceNamedJSON(t.NamedType, v, path)
}

func (c *Coercer) coerceNamedJSON(name string, v any, path []any) (any, *CoerceError) {
	bad := func(msg string) (any, *CoerceError) {
		return nil, &CoerceError{Path: path, Msg: msg}
	}
	switch name {
	case "Int":
		n, ok := v.(json.Number)
		if !ok {
			return bad("Int cannot represent non-number")
		}
		i, err := strconv.ParseInt(string(n), 10, 64)
		if err != nil {
			f, ferr := strconv.ParseFloat(string(n), 64)
			if ferr != nil || f != math.Trunc(f) {
				return bad("Int cannot represent non-integer " + string(n))
			}
			i = int64(f)
		}
		if i > math.MaxInt32 || i < math.MinInt32 {
			return bad("Int out of 32-bit range")
		}
		return i, nil
	case "Float":
		n, ok := v.(json.Number)
		if !ok {
			return bad("Float cannot represent non-number")
		}
		f, err := strconv.ParseFloat(string(n), 64)
		if err != nil {
			return bad("bad number")
		}
		return f, nil
	case "String":
		s, ok := v.(string)
		if !ok {
			return bad("String cannot represent non-string")
		}
		return s, nil
	case "Boolean":
		b, ok := v.(bool)
		if !ok {
			return bad("Boolean cannot represent non-boolean")
		}
		return b, nil
	case "ID":
		switch x := v.(type) {
		case string:
			return x, nil
		case json.Number:
			if _, err := strconv.ParseInt(string(x), 10, 64); err != nil {
				return bad("ID cannot represent non-integer number")
			}
			return string(x), nil
		}
		return bad("ID cannot represent value")
	}
	def := c.Schema.Types[name]
	if def == nil {
		return bad("unknown type " + name)
	}
	switch def.Kind {
	case ast.Enum:
		s, ok := v.(string)
		if !ok {
			return bad("enum value must be a string")
		}
		if def.EnumValues.ForName(s) == nil {
			return bad("unknown enum value " + s)
		}
		return s, nil
	case ast.Scalar:
		return NormalizeJSON(v), nil
	case ast.InputObject:
		m, ok := v.(map[string]any)
		if !ok {
			return bad("input object must be an object")
		}
		for k := range m {
			if def.Fields.ForName(k) == nil {
				return nil, &CoerceError{Path: append(append([]any{}, path...), k), Msg: "unknown input field"}
			}
		}
		out := map[string]any{}
		for _, f := range def.Fields {
			fv, has := m[f.Name]
			fp := append(append([]any{}, path...), f.Name)
			if !has {
				if f.DefaultValue != nil {
					dv, _, err := c.CoerceLiteral(f.Type, f.DefaultValue, nil)
					if err != nil {
						return nil, err
					}
					out[f.Name] = dv
					continue
				}
				if f.Type.NonNull {
					return nil, &CoerceError{Path: fp, Msg: "required input field missing"}
				}
				continue
			}
			cv, err := c.CoerceJSON(f.Type, fv, fp)
			if err != nil {
				return nil, err
			}
			out[f.Name] = cv
		}
		if isOneOf(def) {
			if len(m) != 1 {
				return bad("oneOf input object must have exactly one field")
			}
			for k, x := range m {
				if x == nil {
					return nil, &CoerceError{Path: append(append([]any{}, path...), k), Msg: "oneOf member must be non-null"}
				}
			}
		}
		return out, nil
	}
	return bad("not an input type: " + name)
}

// CoerceLiteral coerces a literal (possibly containing variables, resolved through the already
// coerced vars) to type t. present=false means "no value" (a variable without a value).
func (c *Coercer) CoerceLiteral(t *ast.Type, v *ast.Value, vars map[string]any) (val any, present bool, cerr *CoerceError) {
	if v == nil {
		return nil, false, nil
	}
	if v.Kind == ast.Variable {
		x, ok := vars[v.Raw]
		if !ok {
			return nil, false, nil
		}
		if x == nil && t.NonNull {
			return nil, true, &CoerceError{Msg: "null variable for non-null position"}
		}
		return x, true, nil
	}
	if v.Kind == ast.NullValue {
		if t.NonNull {
			return nil, true, &CoerceError{Msg: "null for non-null type " + t.String()}
		}
		return nil, true, nil
	}
	if t.Elem != nil {
		if v.Kind != ast.ListValue {
			it, _, err := c.CoerceLiteral(t.Elem, v, vars)
			if err != nil {
				return nil, true, err
			}
			return []any{it}, true, nil
		}
		out := make([]any, 0, len(v.Children))
		for _, ch := range v.Children {
			it, has, err := c.CoerceLiteral(t.Elem, ch.Value, vars)
			if err != nil {
				return nil, true, err
			}
			if !has {
				if t.Elem.NonNull {
					return nil, true, &CoerceError{Msg: "list item variable without value in non-null item position"}
				}
				it = nil
			}
			out = append(out, it)
		}
		return out, true, nil
	}
	name := t.NamedType
	bad := func(msg string) (any, bool, *CoerceError) { return nil, true, &CoerceError{Msg: msg} }
	switch name {
	case "Int":
		if v.Kind != ast.IntValue {
			return bad("Int literal expected")
		}
		i, err := strconv.ParseInt(v.Raw, 10, 64)
		if err != nil || i > math.MaxInt32 || i < math.MinInt32 {
			return bad("Int out of range")
		}
		return i, true, nil
	case "Float":
		if v.Kind != ast.IntValue && v.Kind != ast.FloatValue {
			return bad("Float literal expected")
		}
		f, err := strconv.ParseFloat(v.Raw, 64)
		if err != nil {
			return bad("bad float")
		}
		return f, true, nil
	case "String":
		if v.Kind != ast.StringValue && v.Kind != ast.BlockValue {
			return bad("String literal expected")
		}
		return v.Raw, true, nil
	case "Boolean":
		if v.Kind != ast.BooleanValue {
			return bad("Boolean literal expected")
		}
		return v.Raw == "true", true, nil
	case "ID":
		if v.Kind != ast.StringValue && v.Kind != ast.BlockValue && v.Kind != ast.IntValue {
			return bad("ID literal expected")
		}
		return v.Raw, true, nil
	}
	def := c.Schema.Types[name]
	if def == nil {
		return bad("unknown type " + name)
	}
	switch def.Kind {
	case ast.Enum:
		if v.Kind != ast.EnumValue || def.EnumValues.ForName(v.Raw) == nil {
			return bad("enum literal expected")
		}
		return v.Raw, true, nil
	case ast.Scalar:
		return literalToJSON(v, vars), true, nil
	case ast.InputObject:
		if v.Kind != ast.ObjectValue {
			return bad("object literal expected")
		}
		out := map[string]any{}
		seen := map[string]bool{}
		nonNullCount := 0
		for _, ch := range v.Children {
			fd := def.Fields.ForName(ch.Name)
			if fd == nil {
				return bad("unknown input field " + ch.Name)
			}
			seen[ch.Name] = true
			fv, has, err := c.CoerceLiteral(fd.Type, ch.Value, vars)
			if err != nil {
				return nil, true, err
			}
			if !has {
				// variable without value: behaves as if the field was not given
				seen[ch.Name] = false
				continue
			}
			if fv != nil {
				nonNullCount++
			}
			out[ch.Name] = fv
		}
		for _, f := range def.Fields {
			if seen[f.Name] {
				continue
			}
			if _, ok := out[f.Name]; ok {
				continue
			}
			if f.DefaultValue != nil {
				dv, _, err := c.CoerceLiteral(f.Type, f.DefaultValue, nil)
				if err != nil {
					return nil, true, err
				}
				out[f.Name] = dv
				continue
			}
			if f.Type.NonNull {
				return bad("required input field missing: " + f.Name)
			}
		}
		if isOneOf(def) && (len(v.Children) != 1 || nonNullCount != 1) {
			return bad("oneOf input object must have exactly one non-null field")
		}
		return out, true, nil
	}
	return bad("not an input type")
}

// literalToJSON converts a literal of any kind to a JSON-like value (custom scalars).
func literalToJSON(v *ast.Value, vars map[string]any) any {
	switch v.Kind {
	case ast.Variable:
		return vars[v.Raw]
	case ast.IntValue:
		if i, err := strconv.ParseInt(v.Raw, 10, 64); err == nil {
			return NormalizeJSON(json.Number(strconv.FormatInt(i, 10)))
		}
		return NormalizeJSON(json.Number(v.Raw))
	case ast.FloatValue:
		return NormalizeJSON(json.Number(v.Raw))
	case ast.StringValue, ast.BlockValue, ast.EnumValue:
		return v.Raw
	case ast.BooleanValue:
		return v.Raw == "true"
	case ast.NullValue:
		return nil
	case ast.ListValue:
		out := make([]any, 0, len(v.Children))
		for _, ch := range v.Children {
			out = append(out, literalToJSON(ch.Value, vars))
		}
		return out
	case ast.ObjectValue:
		out := map[string]any{}
		for _, ch := range v.Children {
			out[ch.Name] = literalToJSON(ch.Value, vars)
		}
		return out
	}
	return nil
}

// NormalizeJSON maps json.Number / numeric Go types to a canonical representation (int64 when
// integral and small, else float64) recursively, so that values can be compared with reflect-free
// canonical printing.
func NormalizeJSON(v any) any {
	switch x := v.(type) {
	case json.Number:
		s := string(x)
		if !strings.ContainsAny(s, ".eE") {
			if i, err := strconv.ParseInt(s, 10, 64); err == nil {
				return i
			}
		}
		f, err := strconv.ParseFloat(s, 64)
		if err != nil {
			return s
		}
		if f == math.Trunc(f) && math.Abs(f) < 1e15 {
			return int64(f)
		}
		return f
	case float64:
		if x == math.Trunc(x) && math.Abs(x) < 1e15 {
			return int64(x)
		}
		return x
	case int:
		return int64(x)
	case int32:
		return int64(x)
	case []any:
		out := make([]any, len(x))
		for i, it := range x {
			out[i] = NormalizeJSON(it)
		}
		return out
	case map[string]any:
		out := make(map[string]any, len(x))
		for k, it := range x {
			out[k] = NormalizeJSON(it)
		}
		return out
	}
	return v
}

// CoerceArguments implements CoerceArgumentValues for a field (or directive): returns the map of
// argument values that have a value.
func (c *Coercer) CoerceArguments(defs ast.ArgumentDefinitionList, args ast.ArgumentList, vars map[string]any) (map[string]any, *CoerceError) {
	out := map[string]any{}
	for _, ad := range defs {
		a := args.ForName(ad.Name)
		var val any
		has := false
		if a != nil {
			v, present, err := c.CoerceLiteral(ad.Type, a.Value, vars)
			if err != nil {
				err.Path = append([]any{ad.Name}, err.Path...)
				return nil, err
			}
			val, has = v, present
		}
		if !has {
			if ad.DefaultValue != nil {
				dv, _, err := c.CoerceLiteral(ad.Type, ad.DefaultValue, nil)
				if err != nil {
					return nil, err
				}
				out[ad.Name] = dv
				continue
			}
			if ad.Type.NonNull {
				return nil, &CoerceError{Path: []any{ad.Name}, Msg: "required argument missing"}
			}
			continue
		}
		out[ad.Name] = val
	}
	return NormalizeJSON(out).(map[string]any), nil
}

// DecodeJSON decodes with UseNumber.
func DecodeJSON(b []byte) (any, error) {
	dec := json.NewDecoder(strings.NewReader(string(b)))
	dec.UseNumber()
	var v any
	if err := dec.Decode(&v); err != nil {
		return nil, err
	}
	if dec.More() {
		return nil, fmt.Errorf("trailing data after JSON value")
	}
	return v, nil
}
