package ref

import (
	"fmt"
	"hash/fnv"
	"sort"
	"strings"

	"github.com/vektah/gqlparser/v2/ast"
)

// Obj is an object instance of the data universe.
type Obj struct {
	Type string         // runtime (object) type
	ID   string         // entity id, or path-derived identity for value objects
	Rep  map[string]any // federation: the representation this entity was addressed with (nil otherwise)
}

// FieldResolver produces raw field values: scalars as Go values (int64, float64, string, bool),
// *Obj for objects, []any for lists, nil for null. An error makes the field an error (null + error).
type FieldResolver interface {
	Resolve(obj *Obj, parentDef *ast.Definition, fd *ast.FieldDefinition, args map[string]any, path []any) (any, error)
}

type ExecError struct {
	Message string
	Path    []any
}

// Prov records, for a response position, where its value came from.
type Prov struct {
	ParentType string // runtime type of the object the field was resolved on
	ObjID      string
	Field      string
	Args       map[string]any
	ReturnType string // named return type
}

type Executor struct {
	Schema   *ast.Schema
	Resolver FieldResolver
	Vars     map[string]any // coerced variable values
	Errors   []ExecError
	// Prov, when non-nil, receives the provenance of every field position (key = PathKey(path)).
	Prov map[string]Prov
	// OnField, when set, may veto a field (authorization): returning an error makes the field an error.
	OnField func(obj *Obj, fd *ast.FieldDefinition, args map[string]any, path []any) error
	// IgnoreDirectives disables @skip/@include evaluation (never used by default)
	coercer Coercer
}

func PathKey(path []any) string {
	var sb strings.Builder
	for _, p := range path {
		fmt.Fprintf(&sb, "/%v", p)
	}
	return sb.String()
}

type fieldError struct{ err ExecError }

// ExecuteOperation runs an operation on a root object. data is nil when a root non-null violation
// bubbled up.
func (e *Executor) ExecuteOperation(op *ast.OperationDefinition, root *Obj) (data map[string]any) {
	e.coercer = Coercer{Schema: e.Schema}
	res, ok := e.selSet(root, op.SelectionSet, nil)
	if !ok {
		return nil
	}
	return res
}

// ExecuteSelection runs a selection set on an arbitrary object (used for _entities items).
func (e *Executor) ExecuteSelection(obj *Obj, sels ast.SelectionSet, path []any) (map[string]any, bool) {
	e.coercer = Coercer{Schema: e.Schema}
	return e.selSet(obj, sels, path)
}

func (e *Executor) includes(dirs ast.DirectiveList) bool {
	for _, d := range dirs {
		if d.Name != "skip" && d.Name != "include" {
			continue
		}
		a := d.Arguments.ForName("if")
		if a == nil {
			continue
		}
		var b bool
		if a.Value.Kind == ast.Variable {
			v, _ := e.Vars[a.Value.Raw].(bool)
			b = v
		} else {
			b = a.Value.Raw == "true"
		}
		if d.Name == "skip" && b {
			return false
		}
		if d.Name == "include" && !b {
			return false
		}
	}
	return true
}

func (e *Executor) typeMatches(rt, cond string) bool {
	if cond == "" || rt == cond {
		return true
	}
	def := e.Schema.Types[cond]
	if def == nil {
		return false
	}
	for _, pt := range e.Schema.GetPossibleTypes(def) {
		if pt.Name == rt {
			return true
		}
	}
	return false
}

type collected struct {
	keys   []string
	groups map[string][]*ast.Field
}

func (e *Executor) collect(rt string, sels ast.SelectionSet, out *collected, visited map[string]bool) {
	for _, s := range sels {
		switch s := s.(type) {
		case *ast.Field:
			if !e.includes(s.Directives) {
				continue
			}
			k := s.Alias
			if k == "" {
				k = s.Name
			}
			if _, ok := out.groups[k]; !ok {
				out.keys = append(out.keys, k)
			}
			out.groups[k] = append(out.groups[k], s)
		case *ast.InlineFragment:
			if !e.includes(s.Directives) {
				continue
			}
			if !e.typeMatches(rt, s.TypeCondition) {
				continue
			}
			e.collect(rt, s.SelectionSet, out, visited)
		case *ast.FragmentSpread:
			if !e.includes(s.Directives) {
				continue
			}
			if visited[s.Name] || s.Definition == nil {
				continue
			}
			visited[s.Name] = true
			if !e.typeMatches(rt, s.Definition.TypeCondition) {
				continue
			}
			e.collect(rt, s.Definition.SelectionSet, out, visited)
		}
	}
}

func (e *Executor) selSet(obj *Obj, sels ast.SelectionSet, path []any) (map[string]any, bool) {
	col := &collected{groups: map[string][]*ast.Field{}}
	e.collect(obj.Type, sels, col, map[string]bool{})
	def := e.Schema.Types[obj.Type]
	res := make(map[string]any, len(col.keys))
	for _, k := range col.keys {
		fs := col.groups[k]
		f := fs[0]
		fpath := append(append(make([]any, 0, len(path)+1), path...), k)
		if f.Name == "__typename" {
			res[k] = obj.Type
			continue
		}
		var fd *ast.FieldDefinition
		if def != nil {
			fd = def.Fields.ForName(f.Name)
		}
		if fd == nil {
			// the operation selects a field the runtime type does not have (invalid operation for this schema)
			e.Errors = append(e.Errors, ExecError{Message: "no such field " + obj.Type + "." + f.Name, Path: fpath})
			res[k] = nil
			continue
		}
		var sub ast.SelectionSet
		for _, x := range fs {
			sub = append(sub, x.SelectionSet...)
		}
		v, ok := e.field(obj, def, fd, f, sub, fpath)
		if !ok {
			return nil, false
		}
		res[k] = v
	}
	return res, true
}

// field resolves and completes one field; ok=false means a non-null violation must propagate to the parent.
func (e *Executor) field(obj *Obj, def *ast.Definition, fd *ast.FieldDefinition, f *ast.Field, sub ast.SelectionSet, path []any) (any, bool) {
	fail := func(msg string) (any, bool) {
		e.Errors = append(e.Errors, ExecError{Message: msg, Path: append([]any{}, path...)})
		return nil, !fd.Type.NonNull
	}
	args, cerr := e.coercer.CoerceArguments(fd.Arguments, f.Arguments, e.Vars)
	if cerr != nil {
		return fail("argument coercion: " + cerr.Error())
	}
	if e.OnField != nil {
		if err := e.OnField(obj, fd, args, path); err != nil {
			return fail(err.Error())
		}
	}
	if e.Prov != nil {
		e.Prov[PathKey(path)] = Prov{ParentType: obj.Type, ObjID: obj.ID, Field: fd.Name, Args: args, ReturnType: fd.Type.Name()}
	}
	raw, err := e.Resolver.Resolve(obj, def, fd, args, path)
	if err != nil {
		return fail(err.Error())
	}
	v, ok := e.complete(fd.Type, raw, sub, path)
	if !ok {
		// a non-null violation occurred at or below this position and was not absorbed below
		return nil, !fd.Type.NonNull
	}
	return v, true
}

// complete returns (value, ok). ok=false: this position must become null and, being handled by
// the caller according to its own nullability.
func (e *Executor) complete(t *ast.Type, raw any, sub ast.SelectionSet, path []any) (any, bool) {
	if t.NonNull {
		inner := *t
		inner.NonNull = false
		v, ok := e.complete(&inner, raw, sub, path)
		if !ok {
			return nil, false
		}
		if v == nil {
			e.Errors = append(e.Errors, ExecError{Message: "Cannot return null for non-nullable field", Path: append([]any{}, path...)})
			return nil, false
		}
		return v, true
	}
	if raw == nil {
		return nil, true
	}
	if t.Elem != nil {
		list, isList := raw.([]any)
		if !isList {
			e.Errors = append(e.Errors, ExecError{Message: "expected list", Path: append([]any{}, path...)})
			return nil, true
		}
		out := make([]any, len(list))
		for i, it := range list {
			ipath := append(append(make([]any, 0, len(path)+1), path...), i)
			v, ok := e.complete(t.Elem, it, sub, ipath)
			if !ok {
				// item is non-null and failed → the list becomes null (absorbed here since this level is nullable)
				return nil, true
			}
			out[i] = v
		}
		return out, true
	}
	def := e.Schema.Types[t.NamedType]
	if def == nil || def.Kind == ast.Scalar || def.Kind == ast.Enum {
		return raw, true
	}
	o, isObj := raw.(*Obj)
	if !isObj {
		e.Errors = append(e.Errors, ExecError{Message: "expected object", Path: append([]any{}, path...)})
		return nil, true
	}
	res, ok := e.selSet(o, sub, path)
	if !ok {
		return nil, true // absorbed: this position is nullable
	}
	return res, true
}

// ---------------------------------------------------------------------------------------------
// the hash-defined universe

type Universe struct {
	Seed     uint64
	Schema   *ast.Schema
	NullRate int // nullable positions are null when hash%16 < NullRate
	// Entities: type name → true for types whose identity is drawn from a small id pool
	Entities map[string]bool
	PoolSize int
	MaxList  int // list lengths are hash % (MaxList+1)
	// AliasIDs: values (and so the ids of returned entities) also depend on the response key when it
	// differs from the field name, so the same field selected under two aliases yields different entities
	AliasIDs bool
}

func H(parts ...string) uint64 {
	f := fnv.New64a()
	for _, p := range parts {
		f.Write([]byte(p))
		f.Write([]byte{0})
	}
	return f.Sum64()
}

func argsDigest(args map[string]any) string {
	if len(args) == 0 {
		return ""
	}
	return Canon(args)
}

// Canon prints a normalised JSON-like value with sorted keys.
func Canon(v any) string {
	var sb strings.Builder
	canonInto(&sb, NormalizeJSON(v))
	return sb.String()
}

func canonInto(sb *strings.Builder, v any) {
	switch x := v.(type) {
	case nil:
		sb.WriteString("null")
	case map[string]any:
		keys := make([]string, 0, len(x))
		for k := range x {
			keys = append(keys, k)
		}
		sort.Strings(keys)
		sb.WriteByte('{')
		for i, k := range keys {
			if i > 0 {
				sb.WriteByte(',')
			}
			fmt.Fprintf(sb, "%q:", k)
			canonInto(sb, x[k])
		}
		sb.WriteByte('}')
	case []any:
		sb.WriteByte('[')
		for i, it := range x {
			if i > 0 {
				sb.WriteByte(',')
			}
			canonInto(sb, it)
		}
		sb.WriteByte(']')
	case string:
		fmt.Fprintf(sb, "%q", x)
	case int64:
		fmt.Fprintf(sb, "%d", x)
	case float64:
		fmt.Fprintf(sb, "%g", x)
	case bool:
		fmt.Fprintf(sb, "%v", x)
	default:
		fmt.Fprintf(sb, "%v", x)
	}
}

func (u *Universe) Resolve(obj *Obj, parentDef *ast.Definition, fd *ast.FieldDefinition, args map[string]any, path []any) (any, error) {
	base := fmt.Sprintf("%d|%s|%s|%s|%s", u.Seed, obj.Type, obj.ID, fd.Name, argsDigest(args))
	if u.AliasIDs && len(path) > 0 {
		if k, ok := path[len(path)-1].(string); ok && k != fd.Name {
			base += "|@" + k
		}
	}
	return u.value(fd.Type, obj, fd, base, args), nil
}

func (u *Universe) value(t *ast.Type, obj *Obj, fd *ast.FieldDefinition, base string, args map[string]any) any {
	h := H(base)
	if !t.NonNull && u.NullRate > 0 && int(h>>8)%16 < u.NullRate {
		return nil
	}
	if t.Elem != nil {
		max := u.MaxList
		if max == 0 {
			max = 3
		}
		n := int((h >> 16) % uint64(max+1))
		out := make([]any, n)
		for i := range out {
			out[i] = u.value(t.Elem, obj, fd, fmt.Sprintf("%s[%d]", base, i), args)
		}
		return out
	}
	return u.named(t.NamedType, obj, fd, base, h, args)
}

func (u *Universe) named(name string, obj *Obj, fd *ast.FieldDefinition, base string, h uint64, args map[string]any) any {
	tag := fmt.Sprintf("%s.%s#%s", obj.Type, fd.Name, obj.ID)
	switch name {
	case "Int":
		return int64(h%2001) - 1000
	case "Float":
		return NormalizeJSON(float64(int64(h%4001))/4 - 500)
	case "String":
		return fmt.Sprintf("%s/%04x", tag, h&0xffff)
	case "Boolean":
		return h&1 == 0
	case "ID":
		return fmt.Sprintf("id:%s/%03x", tag, h&0xfff)
	}
	def := u.Schema.Types[name]
	if def == nil {
		return fmt.Sprintf("?%s", name)
	}
	switch def.Kind {
	case ast.Enum:
		return def.EnumValues[int(h%uint64(len(def.EnumValues)))].Name
	case ast.Scalar:
		return fmt.Sprintf("cs:%s/%04x", tag, h&0xffff)
	case ast.Object, ast.Interface, ast.Union:
		possible := u.Schema.GetPossibleTypes(def)
		if len(possible) == 0 {
			return nil
		}
		names := make([]string, len(possible))
		for i, p := range possible {
			names[i] = p.Name
		}
		sort.Strings(names)
		rt := names[int((h>>20)%uint64(len(names)))]
		o := &Obj{Type: rt}
		if u.Entities[rt] {
			pool := u.PoolSize
			if pool == 0 {
				pool = 5
			}
			o.ID = fmt.Sprintf("%d", (h>>24)%uint64(pool))
		} else {
			o.ID = fmt.Sprintf("%s~%06x", obj.ID, H(base)&0xffffff)
			if len(o.ID) > 40 {
				o.ID = fmt.Sprintf("h%012x", H(o.ID)&0xffffffffffff)
			}
		}
		return o
	}
	return nil
}
