// Package gram generates syntactically valid GraphQL documents (executable and type-system) from
// the grammar of the October-2021 spec plus the extensions this repository parses (descriptions on
// operations / fragments / variable definitions, repeatable directives, interfaces implementing
// interfaces, schema descriptions). Documents are not schema-valid; they exercise every production.
package gram

import (
	"fmt"
	"math/rand/v2"
	"strings"
)

type G struct {
	R        *rand.Rand
	sb       strings.Builder
	MaxDepth int
	// Keywords: draw names from a pool that includes GraphQL keywords
	Keywords bool
	// NoDescriptionsOnExecutable: omit descriptions on operations/fragments/variables
	NoExecDescriptions bool
	fragNames          []string
}

var plainNames = []string{"a", "b", "id", "name", "user", "users", "_x", "__typename", "f1", "F_2", "veryLongFieldNameWithManyCharacters_0123456789", "x", "y", "node", "edges", "Type", "Query"}
var keywordNames = []string{"query", "mutation", "subscription", "fragment", "on", "type", "input", "enum", "schema", "scalar", "union", "interface", "directive", "extend", "implements", "repeatable", "true", "false", "null"}

func (g *G) name() string {
	if g.Keywords && g.R.IntN(4) == 0 {
		// true/false/null are legal Names (e.g. field names) but not enum values; callers that
		// need an enum value use enumName.
		return keywordNames[g.R.IntN(len(keywordNames))]
	}
	return plainNames[g.R.IntN(len(plainNames))]
}

func (g *G) enumName() string {
	for {
		n := g.name()
		if n != "true" && n != "false" && n != "null" {
			return n
		}
	}
}

func (g *G) fragName() string {
	for {
		n := g.name()
		if n != "on" {
			return n
		}
	}
}

func (g *G) w(s string)  { g.sb.WriteString(s) }
func (g *G) sp()         { g.sb.WriteString(spaces[g.R.IntN(len(spaces))]) }
func (g *G) p(n int) bool { return g.R.IntN(n) == 0 }

var spaces = []string{" ", " ", " ", "\n", "  ", ", ", "\t", " # c\n", "\n\n"}

var stringPool = []string{"", "a", "hello world", `q\"uote`, `back\\slash`, `\n\t\r\b\f\/`, `é中`, "é中😀", `😀`, "with # hash", "with , comma", "{}[]()", `'single'`}

func (g *G) stringLit() string {
	if g.p(4) {
		return g.blockString()
	}
	return `"` + stringPool[g.R.IntN(len(stringPool))] + `"`
}

var blockPool = []string{"", "a", "line1\nline2", "\n  indented\n    more\n  back\n", "  first line indented\nsecond", "has \"quotes\" inside", `esc \""" triple`, "trailing space   ", "\n\n  blank lines around\n\n", "tab\tinside", "unicode é中😀", `back\slash stays`, "ends with quote\" "}

func (g *G) blockString() string {
	return `"""` + blockPool[g.R.IntN(len(blockPool))] + `"""`
}

func (g *G) description() {
	if g.p(3) {
		g.w(g.stringLit())
		g.w("\n")
	}
}

var intPool = []string{"0", "1", "-1", "42", "2147483647", "-2147483648", "9007199254740993", "123456789012345678901234567890", "-0"}
var floatPool = []string{"0.0", "1.5", "-1.5", "1e10", "1E10", "1e+10", "1.5e-3", "-0.0", "6.0221413e23", "0.1e1"}

func (g *G) value(depth int, constOnly bool) {
	k := g.R.IntN(10)
	if depth > 3 && k >= 8 {
		k = g.R.IntN(8)
	}
	switch k {
	case 0:
		g.w(intPool[g.R.IntN(len(intPool))])
	case 1:
		g.w(floatPool[g.R.IntN(len(floatPool))])
	case 2:
		g.w(g.stringLit())
	case 3:
		if g.p(2) {
			g.w("true")
		} else {
			g.w("false")
		}
	case 4:
		g.w("null")
	case 5:
		g.w(g.enumName())
	case 6, 7:
		if constOnly {
			g.w(g.enumName())
		} else {
			g.w("$" + g.name())
		}
	case 8:
		g.w("[")
		n := g.R.IntN(4)
		for i := 0; i < n; i++ {
			if i > 0 {
				g.sp()
			}
			g.value(depth+1, constOnly)
		}
		g.w("]")
	case 9:
		g.w("{")
		n := g.R.IntN(4)
		for i := 0; i < n; i++ {
			if i > 0 {
				g.sp()
			}
			g.w(g.name())
			g.w(":")
			if g.p(2) {
				g.w(" ")
			}
			g.value(depth+1, constOnly)
		}
		g.w("}")
	}
}

func (g *G) arguments(constOnly bool) {
	if !g.p(3) {
		return
	}
	g.w("(")
	n := 1 + g.R.IntN(3)
	for i := 0; i < n; i++ {
		if i > 0 {
			g.sp()
		}
		g.w(g.name())
		g.w(":")
		if g.p(2) {
			g.w(" ")
		}
		g.value(0, constOnly)
	}
	g.w(")")
}

func (g *G) directives(constOnly bool) {
	n := 0
	if g.p(4) {
		n = 1 + g.R.IntN(2)
	}
	for i := 0; i < n; i++ {
		g.w(" @")
		g.w(g.name())
		g.arguments(constOnly)
	}
}

func (g *G) typeRef(depth int) {
	switch {
	case depth < 3 && g.p(4):
		g.w("[")
		g.typeRef(depth + 1)
		g.w("]")
	default:
		g.w(g.name())
	}
	if g.p(3) {
		g.w("!")
	}
}

func (g *G) selectionSet(depth int) {
	g.w("{")
	g.sp()
	n := 1 + g.R.IntN(4)
	for i := 0; i < n; i++ {
		if i > 0 {
			g.sp()
		}
		g.selection(depth)
	}
	g.sp()
	g.w("}")
}

func (g *G) selection(depth int) {
	k := g.R.IntN(10)
	switch {
	case k < 7:
		if g.p(5) {
			g.w(g.name())
			g.w(":")
			if g.p(2) {
				g.w(" ")
			}
		}
		g.w(g.name())
		g.arguments(false)
		g.directives(false)
		if depth < g.MaxDepth && g.p(3) {
			g.w(" ")
			g.selectionSet(depth + 1)
		}
	case k < 8:
		g.w("...")
		if g.p(3) {
			g.w(" ")
		}
		fn := g.fragName()
		if len(g.fragNames) > 0 && g.p(2) {
			fn = g.fragNames[g.R.IntN(len(g.fragNames))]
		}
		g.w(fn)
		g.directives(false)
	default:
		g.w("...")
		if g.p(2) {
			g.w(" on ")
			g.w(g.name())
		}
		g.directives(false)
		g.w(" ")
		if depth < g.MaxDepth {
			g.selectionSet(depth + 1)
		} else {
			g.w("{ ")
			g.w(g.name())
			g.w(" }")
		}
	}
}

func (g *G) variableDefinitions() {
	if !g.p(2) {
		return
	}
	g.w("(")
	n := 1 + g.R.IntN(3)
	for i := 0; i < n; i++ {
		if i > 0 {
			g.sp()
		}
		if !g.NoExecDescriptions && g.p(5) {
			g.w(g.stringLit())
			g.w(" ")
		}
		g.w("$")
		g.w(g.name())
		g.w(":")
		g.w(" ")
		g.typeRef(0)
		if g.p(3) {
			g.w(" = ")
			g.value(0, true)
		}
		g.directives(true)
	}
	g.w(")")
}

func (g *G) operation() {
	k := g.R.IntN(5)
	if k == 0 {
		g.selectionSet(1)
		return
	}
	if !g.NoExecDescriptions && g.p(5) {
		g.w(g.stringLit())
		g.w("\n")
	}
	g.w([]string{"query", "query", "mutation", "subscription"}[g.R.IntN(4)])
	if g.p(2) {
		g.w(" ")
		g.w(g.name())
	}
	g.variableDefinitions()
	g.directives(false)
	g.w(" ")
	g.selectionSet(1)
}

func (g *G) fragment() {
	if !g.NoExecDescriptions && g.p(5) {
		g.w(g.stringLit())
		g.w("\n")
	}
	g.w("fragment ")
	n := g.fragName()
	g.fragNames = append(g.fragNames, n)
	g.w(n)
	g.w(" on ")
	g.w(g.name())
	g.directives(false)
	g.w(" ")
	g.selectionSet(1)
}

// Executable returns an executable document.
func (g *G) Executable() string {
	g.sb.Reset()
	g.fragNames = nil
	if g.MaxDepth == 0 {
		g.MaxDepth = 4
	}
	nf := g.R.IntN(3)
	for i := 0; i < nf; i++ {
		g.fragNames = append(g.fragNames, g.fragName())
	}
	pre := g.fragNames
	g.fragNames = append([]string(nil), pre...)
	n := 1 + g.R.IntN(3)
	anon := false
	for i := 0; i < n; i++ {
		if i > 0 {
			g.w("\n")
		}
		if g.p(3) {
			g.fragment()
		} else {
			before := g.sb.Len()
			g.operation()
			if strings.HasPrefix(strings.TrimLeft(g.sb.String()[before:], " \n"), "{") {
				anon = true
			}
		}
	}
	_ = anon
	return g.sb.String()
}

func (g *G) inputValueDef() {
	g.description()
	g.w(g.name())
	g.w(": ")
	g.typeRef(0)
	if g.p(3) {
		g.w(" = ")
		g.value(0, true)
	}
	g.directives(true)
}

func (g *G) argsDef() {
	if !g.p(3) {
		return
	}
	g.w("(")
	n := 1 + g.R.IntN(3)
	for i := 0; i < n; i++ {
		if i > 0 {
			g.sp()
		}
		g.inputValueDef()
	}
	g.w(")")
}

func (g *G) fieldsDef(optional bool) {
	if optional && g.p(12) {
		return
	}
	g.w(" {\n")
	n := 1 + g.R.IntN(4)
	for i := 0; i < n; i++ {
		g.description()
		g.w(g.name())
		g.argsDef()
		g.w(": ")
		g.typeRef(0)
		g.directives(true)
		g.w("\n")
	}
	g.w("}")
}

func (g *G) implements() {
	if !g.p(3) {
		return
	}
	g.w(" implements ")
	if g.p(4) {
		g.w("& ")
	}
	n := 1 + g.R.IntN(3)
	for i := 0; i < n; i++ {
		if i > 0 {
			g.w(" & ")
		}
		g.w(g.name())
	}
}

var execLocs = []string{"QUERY", "MUTATION", "SUBSCRIPTION", "FIELD", "FRAGMENT_DEFINITION", "FRAGMENT_SPREAD", "INLINE_FRAGMENT", "VARIABLE_DEFINITION"}
var tsLocs = []string{"SCHEMA", "SCALAR", "OBJECT", "FIELD_DEFINITION", "ARGUMENT_DEFINITION", "INTERFACE", "UNION", "ENUM", "ENUM_VALUE", "INPUT_OBJECT", "INPUT_FIELD_DEFINITION"}

func (g *G) typeSystemDefinition() {
	ext := g.p(4)
	k := g.R.IntN(8)
	if ext && k == 7 {
		k = g.R.IntN(7)
	}
	if ext {
		g.w("extend ")
	} else {
		g.description()
	}
	switch k {
	case 0: // schema
		g.w("schema")
		if ext {
			g.w(" @d")
		}
		g.directives(true)
		if !ext || g.p(2) {
			g.w(" {")
			ops := []string{"query", "mutation", "subscription"}
			n := 1 + g.R.IntN(3)
			for i := 0; i < n; i++ {
				g.w(" ")
				g.w(ops[i])
				g.w(": ")
				g.w(g.name())
			}
			g.w(" }")
		}
	case 1:
		g.w("scalar ")
		g.w(g.name())
		if ext {
			g.w(" @d")
		}
		g.directives(true)
	case 2:
		g.w("type ")
		g.w(g.name())
		g.implements()
		g.directives(true)
		g.fieldsDef(!ext)
	case 3:
		g.w("interface ")
		g.w(g.name())
		g.implements()
		g.directives(true)
		g.fieldsDef(false)
	case 4:
		g.w("union ")
		g.w(g.name())
		g.directives(true)
		g.w(" = ")
		if g.p(4) {
			g.w("| ")
		}
		n := 1 + g.R.IntN(3)
		for i := 0; i < n; i++ {
			if i > 0 {
				g.w(" | ")
			}
			g.w(g.name())
		}
	case 5:
		g.w("enum ")
		g.w(g.name())
		g.directives(true)
		g.w(" {\n")
		n := 1 + g.R.IntN(4)
		for i := 0; i < n; i++ {
			g.description()
			g.w(g.enumName())
			g.directives(true)
			g.w("\n")
		}
		g.w("}")
	case 6:
		g.w("input ")
		g.w(g.name())
		g.directives(true)
		g.w(" {\n")
		n := 1 + g.R.IntN(4)
		for i := 0; i < n; i++ {
			g.inputValueDef()
			g.w("\n")
		}
		g.w("}")
	case 7:
		g.w("directive @")
		g.w(g.name())
		g.argsDef()
		if g.p(3) {
			g.w(" repeatable")
		}
		g.w(" on ")
		if g.p(4) {
			g.w("| ")
		}
		n := 1 + g.R.IntN(3)
		for i := 0; i < n; i++ {
			if i > 0 {
				g.w(" | ")
			}
			if g.p(2) {
				g.w(execLocs[g.R.IntN(len(execLocs))])
			} else {
				g.w(tsLocs[g.R.IntN(len(tsLocs))])
			}
		}
	}
}

// TypeSystem returns a type-system document.
func (g *G) TypeSystem() string {
	g.sb.Reset()
	n := 1 + g.R.IntN(5)
	for i := 0; i < n; i++ {
		if i > 0 {
			g.w("\n")
		}
		g.typeSystemDefinition()
	}
	return g.sb.String()
}

// Nested returns a document with a selection nesting of exactly depth d and approximately the
// given number of fields, optionally using keyword-spelled field names.
func (g *G) Nested(d, fields int) string {
	g.sb.Reset()
	var rec func(level, budget int)
	rec = func(level, budget int) {
		g.w("{ ")
		per := 1
		if level == d {
			per = budget
			if per < 1 {
				per = 1
			}
		}
		for i := 0; i < per; i++ {
			g.w(g.name())
			g.w(" ")
		}
		if level < d {
			g.w(g.name())
			g.w(" ")
			rec(level+1, budget-per-1)
		}
		g.w("} ")
	}
	if g.p(2) {
		g.w("query ")
		if g.p(2) {
			g.w(g.name() + " ")
		}
	}
	rec(1, fields)
	return g.sb.String()
}

var _ = fmt.Sprint
