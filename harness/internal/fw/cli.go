package fw

import (
	"encoding/json"
	"flag"
	"fmt"
	"os"
	"path/filepath"
	"strconv"
)

// Main is the whole CLI; every cmd/* binary just links the properties it wants and calls it.
func envInt(name string, def int64) int64 {
	if v := os.Getenv(name); v != "" {
		if n, err := strconv.ParseInt(v, 10, 64); err == nil {
			return n
		}
	}
	return def
}

func Main() {
	if len(os.Args) < 2 {
		fmt.Fprintln(os.Stderr, "usage: vcheck run|replay|worker|list …")
		os.Exit(2)
	}
	self, _ := os.Executable()
	raceExe := self + "-race"
	_ = filepath.Dir
	switch os.Args[1] {
	case "list":
		for _, id := range IDs() {
			p := Lookup(id)
			fmt.Printf("%s quick=%d thorough=%d race=%v\n", id, p.NumCases(Quick), p.NumCases(Thorough), p.Race())
		}
	case "run":
		fs := flag.NewFlagSet("run", flag.ExitOnError)
		tier := fs.String("tier", "", "")
		seed := fs.Int64("seed", envInt("VERIF_SEED", 1), "")
		workers := fs.Int("workers", int(envInt("VERIF_WORKERS", 16)), "")
		only := fs.Int("only", -1, "")
		if len(os.Args) < 3 {
			os.Exit(2)
		}
		id := os.Args[2]
		fs.Parse(os.Args[3:])
		t := *tier
		if t == "" {
			t = os.Getenv("VERIF_TIER")
		}
		if t == "" {
			t = Quick
		}
		os.Exit(ParentMain(RunOpts{Prop: id, Tier: t, Seed: *seed, Workers: *workers, Only: *only, SelfExe: self, RaceExe: raceExe}))
	case "replay":
		if len(os.Args) < 3 {
			os.Exit(2)
		}
		b, err := os.ReadFile(os.Args[2])
		if err != nil {
			fmt.Fprintln(os.Stderr, err)
			os.Exit(2)
		}
		var rec struct {
			Property string `json:"property"`
			Tier     string `json:"tier"`
			Seed     int64  `json:"seed"`
			Index    int    `json:"index"`
		}
		if err := json.Unmarshal(b, &rec); err != nil {
			fmt.Fprintln(os.Stderr, err)
			os.Exit(2)
		}
		if rec.Index < 0 {
			fmt.Println("this record (race report) is not tied to one case; re-run the whole check with the same seed")
			os.Exit(2)
		}
		os.Exit(ParentMain(RunOpts{Prop: rec.Property, Tier: rec.Tier, Seed: rec.Seed, Workers: 1, Only: rec.Index, SelfExe: self, RaceExe: raceExe}))
	case "worker":
		fs := flag.NewFlagSet("worker", flag.ExitOnError)
		prop := fs.String("prop", "", "")
		tier := fs.String("tier", Quick, "")
		seed := fs.Int64("seed", 1, "")
		from := fs.Int("from", 0, "")
		to := fs.Int("to", 0, "")
		dir := fs.String("dir", "", "")
		name := fs.String("name", "w", "")
		replay := fs.Bool("replay", false, "")
		fs.Parse(os.Args[2:])
		os.Exit(WorkerMain(*prop, *tier, *seed, *from, *to, *dir, *name, *replay))
	default:
		fmt.Fprintln(os.Stderr, "unknown command", os.Args[1])
		os.Exit(2)
	}
}
