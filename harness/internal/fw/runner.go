package fw

import (
	"bufio"
	"bytes"
	"encoding/json"
	"fmt"
	"os"
	"os/exec"
	"path/filepath"
	"regexp"
	"runtime"
	"runtime/debug"
	"sort"
	"strconv"
	"strings"
	"sync"
	"syscall"
	"time"
)

// VerifDir is /verif (overridable for tests of the machinery itself).
func VerifDir() string {
	if d := os.Getenv("VERIF_DIR"); d != "" {
		return d
	}
	return "/verif"
}

// ---------------------------------------------------------------------------------------------
// worker side

// WorkerMain runs cases [from,to) in this process. Journal line "S <idx>" is written (and synced)
// before a case starts, the JSON result line after it returns.
func WorkerMain(propID, tier string, seed int64, from, to int, dir, name string, replay bool) int {
	p := Lookup(propID)
	if p == nil {
		fmt.Fprintln(os.Stderr, "unknown property", propID)
		return 2
	}
	jf, err := os.OpenFile(filepath.Join(dir, name+".journal"), os.O_CREATE|os.O_WRONLY|os.O_APPEND, 0o644)
	if err != nil {
		fmt.Fprintln(os.Stderr, err)
		return 2
	}
	rf, err := os.OpenFile(filepath.Join(dir, name+".results"), os.O_CREATE|os.O_WRONLY|os.O_APPEND, 0o644)
	if err != nil {
		fmt.Fprintln(os.Stderr, err)
		return 2
	}
	ctx := &Ctx{Tier: tier, Seed: seed, Prop: propID, Replay: replay}
	timeout := 120
	if ct, ok := p.(CaseTimeouter); ok {
		timeout = ct.CaseTimeout(tier)
	}
	for idx := from; idx < to; idx++ {
		fmt.Fprintf(jf, "S %d\n", idx)
		SetContext(nil)
		done := make(chan Result, 1)
		go func(idx int) {
			defer func() {
				if r := recover(); r != nil {
					// A recoverable panic inside the system under test: report it, with the stack.
					res := Result{Index: idx, Key: fmt.Sprintf("panic-%d", idx)}
					st := string(debug.Stack())
					if panicInHarness(st) {
						res.Violate("harness-panic", fmt.Sprint(r), nil, map[string]any{"stack": trimStack(st), "context": takeContext()})
					} else {
						res.Violate("panic", fmt.Sprint(r), map[string]string{"panic": PanicSignature(fmt.Sprint(r), st)}, map[string]any{"stack": trimStack(st), "context": takeContext()})
					}
					done <- res
				}
			}()
			done <- p.Run(ctx, idx)
		}(idx)
		var res Result
		select {
		case res = <-done:
		case <-time.After(time.Duration(timeout) * time.Second):
			fmt.Fprintf(jf, "H %d\n", idx)
			buf := make([]byte, 8<<20)
			n := runtime.Stack(buf, true)
			fmt.Fprintf(os.Stderr, "WATCHDOG case %d exceeded %ds; goroutine dump follows\n%s\n", idx, timeout, buf[:n])
			return 3
		}
		res.Index = idx
		b, err := json.Marshal(res)
		if err != nil {
			b, _ = json.Marshal(Result{Index: idx, Key: res.Key, Inconclusive: "result not serialisable: " + err.Error()})
		}
		rf.Write(append(b, '\n'))
		fmt.Fprintf(jf, "E %d\n", idx)
	}
	return 0
}

var frameRe = regexp.MustCompile(`graphql-go-tools/(?:v2|execution)/[^\s(]+\.[A-Za-z0-9_.()*]+`)

// PanicSignature = panic message (digits normalised) + first repository frame.
func PanicSignature(msg, stack string) string {
	m := regexp.MustCompile(`0x[0-9a-f]+|\d+`).ReplaceAllString(msg, "N")
	if len(m) > 120 {
		m = m[:120]
	}
	fr := ""
	for _, l := range strings.Split(stack, "\n") {
		if strings.Contains(l, "graphql-go-tools/") && !strings.Contains(l, "verifharness") && !strings.HasPrefix(strings.TrimSpace(l), "/") {
			fr = strings.TrimSpace(l)
			if i := strings.LastIndex(fr, "("); i > 0 {
				fr = fr[:i]
			}
			if i := strings.LastIndex(fr, "/"); i > 0 {
				fr = fr[i+1:]
			}
			break
		}
	}
	return m + " @ " + fr
}

// panicInHarness: the frame that raised the panic (first non-runtime frame below panic()) is harness code.
func panicInHarness(stack string) bool {
	lines := strings.Split(stack, "\n")
	seenPanic := false
	for _, l := range lines {
		t := strings.TrimSpace(l)
		if strings.HasPrefix(t, "panic(") {
			seenPanic = true
			continue
		}
		if !seenPanic || strings.HasPrefix(t, "/") || strings.HasPrefix(t, "runtime.") || strings.HasPrefix(t, "runtime/") || t == "" {
			continue
		}
		return strings.HasPrefix(t, "verifharness/")
	}
	return false
}

func trimStack(s string) string {
	if len(s) > 6000 {
		return s[:6000] + "…"
	}
	return s
}

// ---------------------------------------------------------------------------------------------
// parent side

type chunk struct{ from, to int }

type Finding struct {
	ID       string            `json:"id"`
	Property string            `json:"property"`
	Status   string            `json:"status"` // open | fixed
	What     string            `json:"what"`
	Kind     string            `json:"kind"`
	Match    map[string]string `json:"match,omitempty"`
	Commit   string            `json:"commit,omitempty"`
	Witness  any               `json:"witness,omitempty"`
	// Pins: cases (seed, tier, index) known to run into this finding. Every run of the property
	// re-runs the pinned cases of its open findings, so each listed finding is demonstrated (or shown
	// to be gone) on every run, whatever VERIF_SEED the run itself uses. Written by
	// scripts/pin_findings.py at development time, never at run time.
	Pins []Pin `json:"pins,omitempty"`
}

type Pin struct {
	Seed  int64  `json:"seed"`
	Tier  string `json:"tier"`
	Index int    `json:"index"`
}

func loadFindings() []Finding {
	b, err := os.ReadFile(filepath.Join(VerifDir(), "known_findings.json"))
	if err != nil {
		return nil
	}
	var f struct {
		Findings []Finding `json:"findings"`
	}
	if err := json.Unmarshal(b, &f); err != nil {
		fmt.Fprintln(os.Stderr, "known_findings.json unreadable:", err)
		os.Exit(2)
	}
	return f.Findings
}

func matchFinding(fs []Finding, prop string, v Violation) *Finding {
	for i := range fs {
		f := &fs[i]
		if f.Status != "open" || f.Property != prop {
			continue
		}
		if strings.HasSuffix(f.Kind, "*") {
			if !strings.HasPrefix(v.Kind, strings.TrimSuffix(f.Kind, "*")) {
				continue
			}
		} else if f.Kind != v.Kind {
			continue
		}
		ok := true
		for k, want := range f.Match {
			if v.Match[k] != want {
				ok = false
				break
			}
		}
		if ok {
			return f
		}
	}
	return nil
}

type RunOpts struct {
	Prop    string
	Tier    string
	Seed    int64
	Workers int
	Only    int // >=0: run only this index (replay)
	SelfExe string
	RaceExe string
}

type crashRec struct {
	Index int    `json:"index"`
	Kind  string `json:"kind"` // crash | hang
	Log   string `json:"log"`
	Sig   string `json:"sig"`
}

// ParentMain orchestrates the workers, aggregates, writes evidence and replays. Returns exit code.
func ParentMain(o RunOpts) int {
	start := time.Now()
	p := Lookup(o.Prop)
	if p == nil {
		fmt.Fprintln(os.Stderr, "unknown property", o.Prop)
		return 2
	}
	if pr, ok := p.(Preparer); ok {
		if err := pr.Prepare(o.Tier); err != nil {
			fmt.Fprintln(os.Stderr, "prepare:", err)
			return 2
		}
	}
	n := p.NumCases(o.Tier)
	exe := o.SelfExe
	if p.Race() {
		exe = o.RaceExe
	}
	dir, err := os.MkdirTemp("", "vcheck-"+o.Prop+"-")
	if err != nil {
		fmt.Fprintln(os.Stderr, err)
		return 2
	}
	defer os.RemoveAll(dir)

	var chunks []chunk
	if o.Only >= 0 {
		chunks = []chunk{{o.Only, o.Only + 1}}
	} else {
		w := o.Workers
		per := (n + w*3 - 1) / (w * 3)
		if per < 1 {
			per = 1
		}
		for a := 0; a < n; a += per {
			b := a + per
			if b > n {
				b = n
			}
			chunks = append(chunks, chunk{a, b})
		}
	}
	timeout := 120
	if ct, ok := p.(CaseTimeouter); ok {
		timeout = ct.CaseTimeout(o.Tier)
	}

	var mu sync.Mutex
	var crashes []crashRec
	var inconclusiveHangs []int
	queue := make(chan chunk, len(chunks)+1024)
	var pending sync.WaitGroup
	for _, c := range chunks {
		pending.Add(1)
		queue <- c
	}
	var seq int
	runChunk := func(c chunk, isolated bool) {
		defer pending.Done()
		mu.Lock()
		seq++
		name := fmt.Sprintf("w%04d", seq)
		mu.Unlock()
		args := []string{"worker", "--prop", o.Prop, "--tier", o.Tier, "--seed", strconv.FormatInt(o.Seed, 10),
			"--from", strconv.Itoa(c.from), "--to", strconv.Itoa(c.to), "--dir", dir, "--name", name}
		if o.Only >= 0 {
			args = append(args, "--replay")
		}
		cmd := exec.Command(exe, args...)
		logPath := filepath.Join(dir, name+".log")
		lf, _ := os.Create(logPath)
		cmd.Stdout = lf
		cmd.Stderr = lf
		cmd.Env = append(os.Environ(), "GORACE=halt_on_error=0 exitcode=0 log_path="+filepath.Join(dir, name+".race"), "GOTRACEBACK=all")
		cmd.SysProcAttr = &syscall.SysProcAttr{Setpgid: true}
		if err := cmd.Start(); err != nil {
			fmt.Fprintln(os.Stderr, "start worker:", err)
			lf.Close()
			mu.Lock()
			crashes = append(crashes, crashRec{Index: c.from, Kind: "spawn", Log: err.Error()})
			mu.Unlock()
			return
		}
		// Outer watchdog: generous, in case the in-process watchdog itself is wedged.
		outer := time.Duration((c.to-c.from)*timeout+60) * time.Second
		if outer > 6*time.Hour {
			outer = 6 * time.Hour
		}
		timer := time.AfterFunc(outer, func() { syscall.Kill(-cmd.Process.Pid, syscall.SIGKILL) })
		werr := cmd.Wait()
		timer.Stop()
		lf.Close()
		if werr == nil {
			return
		}
		// abnormal exit: attribute through the journal
		last, hang := lastOpenCase(filepath.Join(dir, name+".journal"))
		logb, _ := os.ReadFile(logPath)
		tail := tailBytes(logb, 12000)
		if last < 0 {
			mu.Lock()
			crashes = append(crashes, crashRec{Index: c.from, Kind: "worker-failed-before-first-case", Log: tail})
			mu.Unlock()
			return
		}
		kind := "crash"
		if hang {
			kind = "hang"
		}
		if !isolated && (c.to-c.from) > 1 {
			// re-run the attributed case alone (fresh process), and continue with the rest
			pending.Add(1)
			queue <- chunk{last, last + 1}
			if last+1 < c.to {
				pending.Add(1)
				queue <- chunk{last + 1, c.to}
			}
			if kind == "crash" {
				// keep the first crash log too: a non-deterministic crash is still a crash
				mu.Lock()
				crashes = append(crashes, crashRec{Index: last, Kind: kind, Log: tail, Sig: crashSig(tail)})
				mu.Unlock()
			}
			return
		}
		mu.Lock()
		if kind == "hang" {
			crashes = append(crashes, crashRec{Index: last, Kind: "hang", Log: tail, Sig: "hang"})
		} else {
			crashes = append(crashes, crashRec{Index: last, Kind: kind, Log: tail, Sig: crashSig(tail)})
		}
		mu.Unlock()
	}
	var wg sync.WaitGroup
	for i := 0; i < o.Workers; i++ {
		wg.Add(1)
		go func() {
			defer wg.Done()
			for c := range queue {
				runChunk(c, c.to-c.from == 1)
			}
		}()
	}
	pending.Wait()
	close(queue)
	wg.Wait()
	_ = inconclusiveHangs

	// ---- aggregate
	agg := newAggregate()
	files, _ := filepath.Glob(filepath.Join(dir, "*.results"))
	sort.Strings(files)
	for _, f := range files {
		fh, err := os.Open(f)
		if err != nil {
			continue
		}
		sc := bufio.NewScanner(fh)
		sc.Buffer(make([]byte, 1<<20), 256<<20)
		for sc.Scan() {
			var r Result
			if err := json.Unmarshal(sc.Bytes(), &r); err != nil {
				continue
			}
			agg.add(r)
		}
		fh.Close()
	}
	// race reports
	raceFiles, _ := filepath.Glob(filepath.Join(dir, "*.race.*"))
	races := collectRaces(raceFiles)

	findings := loadFindings()
	exit := 0
	knownHit := map[string]int{}
	var newViol []map[string]any
	broken := []string{}
	classes := map[string]int{}
	report := func(idx int, v Violation) {
		if v.Kind == "harness-panic" || v.Kind == "harness-broken" {
			broken = append(broken, fmt.Sprintf("%s at case %d: %s", v.Kind, idx, oneLine(v.Msg, 300)))
			writeReplay(o, idx, v)
			return
		}
		if f := matchFinding(findings, o.Prop, v); f != nil {
			knownHit[f.ID]++
			if lp := os.Getenv("VERIF_LIST_KNOWN"); lp != "" && idx >= 0 {
				// development aid for scripts/pin_findings.py: which case ran into which listed finding
				if fh, err := os.OpenFile(lp, os.O_CREATE|os.O_APPEND|os.O_WRONLY, 0o644); err == nil {
					fmt.Fprintf(fh, "%s %s %d %s %d\n", f.ID, o.Prop, o.Seed, o.Tier, idx)
					fh.Close()
				}
			}
			return
		}
		path := writeReplay(o, idx, v)
		newViol = append(newViol, map[string]any{"index": idx, "kind": v.Kind, "msg": v.Msg, "replay": path})
		mk, _ := json.Marshal(v.Match)
		cls := v.Kind + " " + string(mk)
		classes[cls]++
		if classes[cls] <= 3 {
			fmt.Printf("VIOLATION property=%s replay=%s\n", o.Prop, path)
			fmt.Printf("  kind=%s case=%d %s\n", v.Kind, idx, oneLine(v.Msg, 300))
		}
		exit = 1
	}
	for _, rv := range agg.violations {
		report(rv.idx, rv.v)
	}
	// ---- pinned witnesses of the open findings of this property (full runs only)
	pinnedRuns := 0
	if o.Only < 0 {
		for fi := range findings {
			f := &findings[fi]
			if f.Status != "open" || f.Property != o.Prop || knownHit[f.ID] > 0 {
				continue
			}
			for pi, pin := range f.Pins {
				if pi >= 2 || knownHit[f.ID] > 0 {
					break
				}
				if pin.Index < 0 || pin.Index >= p.NumCases(pin.Tier) {
					continue
				}
				name := fmt.Sprintf("pin-%s-%d", f.ID, pi)
				args := []string{"worker", "--prop", o.Prop, "--tier", pin.Tier, "--seed", strconv.FormatInt(pin.Seed, 10),
					"--from", strconv.Itoa(pin.Index), "--to", strconv.Itoa(pin.Index + 1), "--dir", dir, "--name", name}
				cmd := exec.Command(exe, args...)
				lf, _ := os.Create(filepath.Join(dir, name+".log"))
				cmd.Stdout, cmd.Stderr = lf, lf
				cmd.Env = append(os.Environ(), "GORACE=halt_on_error=0 exitcode=0 log_path="+filepath.Join(dir, name+".race"), "GOTRACEBACK=all")
				cmd.SysProcAttr = &syscall.SysProcAttr{Setpgid: true}
				if err := cmd.Start(); err != nil {
					lf.Close()
					continue
				}
				timer := time.AfterFunc(time.Duration(timeout+60)*time.Second, func() { syscall.Kill(-cmd.Process.Pid, syscall.SIGKILL) })
				_ = cmd.Wait()
				timer.Stop()
				lf.Close()
				pinnedRuns++
				b, err := os.ReadFile(filepath.Join(dir, name+".results"))
				if err != nil {
					continue
				}
				for _, line := range bytes.Split(b, []byte("\n")) {
					var r Result
					if len(line) == 0 || json.Unmarshal(line, &r) != nil {
						continue
					}
					for _, v := range r.Violations {
						// only what the listed findings explain is taken from a pinned case: anything else it
						// shows belongs to the run at (pin.Seed, pin.Tier), not to this run
						if m := matchFinding(findings, o.Prop, v); m != nil {
							knownHit[m.ID]++
						}
					}
				}
			}
		}
	}
	seenCrash := map[string]bool{}
	for _, c := range crashes {
		key := fmt.Sprintf("%s/%d/%s", c.Kind, c.Index, c.Sig)
		if seenCrash[key] {
			continue
		}
		seenCrash[key] = true
		switch c.Kind {
		case "crash", "hang":
			if p.CrashIsViolation() {
				report(c.Index, Violation{Kind: c.Kind, Msg: c.Sig, Match: map[string]string{"sig": c.Sig}, Detail: map[string]any{"log_tail": c.Log}})
			} else {
				broken = append(broken, fmt.Sprintf("worker %s at case %d: %s", c.Kind, c.Index, oneLine(c.Sig, 200)))
				saveBrokenLog(o, c)
			}
		default:
			broken = append(broken, fmt.Sprintf("%s at case %d: %s", c.Kind, c.Index, oneLine(c.Log, 400)))
			saveBrokenLog(o, c)
		}
	}
	for _, rc := range races {
		if rc.repoFrame {
			report(-1, Violation{Kind: "data-race", Msg: rc.sig, Match: map[string]string{"sig": rc.sig}, Detail: map[string]any{"report": rc.text, "count": rc.count}})
		} else {
			broken = append(broken, "race report entirely in harness code: "+oneLine(rc.sig, 200))
		}
	}
	for _, f := range findings {
		if knownHit[f.ID] > 0 {
			fmt.Printf("KNOWN-FINDING: property=%s %s (id=%s, hit %d×)\n", o.Prop, f.What, f.ID, knownHit[f.ID])
		} else if f.Status == "open" && f.Property == o.Prop && o.Only < 0 {
			fmt.Printf("NOTE: listed finding %s was not run into by this run (no case of this seed/tier has its shape%s)\n", f.ID, map[bool]string{true: " and its pinned witness did not show it", false: ""}[len(f.Pins) > 0])
		}
	}
	_ = pinnedRuns
	// a run that observed nothing is broken machinery
	if o.Only < 0 {
		for _, c := range p.RequiredCounters(o.Tier) {
			if agg.counters[c] == 0 {
				broken = append(broken, "required counter "+c+" is zero: the run observed nothing for it")
			}
		}
		if agg.evals < n && len(crashes) == 0 {
			broken = append(broken, fmt.Sprintf("only %d of %d cases produced a result", agg.evals, n))
		}
	}

	wall := time.Since(start).Seconds()
	if o.Only < 0 {
		writeEvidence(o, p, agg, races, knownHit, newViol, broken, wall)
	}
	fmt.Printf("%s tier=%s seed=%d: cases=%d distinct_nontrivial=%d inconclusive=%d violations=%d known=%d races=%d wall=%.1fs\n",
		o.Prop, o.Tier, o.Seed, agg.evals, len(agg.distinct), agg.inconclusive, len(newViol), len(knownHit), len(races), wall)
	keys := make([]string, 0, len(agg.counters))
	for k := range agg.counters {
		keys = append(keys, k)
	}
	sort.Strings(keys)
	for _, k := range keys {
		fmt.Printf("  %s=%d", k, agg.counters[k])
	}
	fmt.Println()
	if len(classes) > 0 {
		fmt.Println("  violation classes:")
		ck := make([]string, 0, len(classes))
		for k := range classes {
			ck = append(ck, k)
		}
		sort.Strings(ck)
		for _, k := range ck {
			fmt.Printf("    %6d × %s\n", classes[k], k)
		}
	}
	if len(agg.inconclusiveReasons) > 0 {
		fmt.Printf("  inconclusive reasons: %v\n", agg.inconclusiveReasons)
	}
	if len(broken) > 0 {
		for _, b := range broken {
			fmt.Println("BROKEN:", b)
		}
		if exit == 0 {
			exit = 2
		}
	}
	return exit
}

func oneLine(s string, n int) string {
	s = strings.ReplaceAll(s, "\n", " ⏎ ")
	if len(s) > n {
		s = s[:n] + "…"
	}
	return s
}

func tailBytes(b []byte, n int) string {
	if len(b) > n {
		// keep the head of the panic (first 4000) and the tail
		head := b[:4000]
		return string(head) + "\n…\n" + string(b[len(b)-(n-4000):])
	}
	return string(b)
}

func crashSig(log string) string {
	lines := strings.Split(log, "\n")
	msg := ""
	for _, l := range lines {
		if strings.HasPrefix(l, "panic:") || strings.HasPrefix(l, "fatal error:") || strings.HasPrefix(l, "WATCHDOG") {
			msg = l
			break
		}
	}
	if msg == "" && len(lines) > 0 {
		msg = lines[0]
	}
	return PanicSignature(msg, log)
}

func lastOpenCase(journal string) (int, bool) {
	b, err := os.ReadFile(journal)
	if err != nil {
		return -1, false
	}
	open := -1
	hang := false
	for _, l := range strings.Split(string(b), "\n") {
		f := strings.Fields(l)
		if len(f) != 2 {
			continue
		}
		i, _ := strconv.Atoi(f[1])
		switch f[0] {
		case "S":
			open = i
		case "E":
			if open == i {
				open = -1
			}
		case "H":
			open = i
			hang = true
		}
	}
	return open, hang
}

type violRec struct {
	idx int
	v   Violation
}

type aggregate struct {
	evals               int
	distinct            map[string]bool
	inconclusive        int
	inconclusiveReasons map[string]int
	counters            map[string]int64
	sets                map[string]map[string]bool
	samples             []any
	violations          []violRec
}

func newAggregate() *aggregate {
	return &aggregate{distinct: map[string]bool{}, inconclusiveReasons: map[string]int{}, counters: map[string]int64{}, sets: map[string]map[string]bool{}}
}

func (a *aggregate) add(r Result) {
	a.evals++
	if r.Inconclusive != "" {
		a.inconclusive++
		reason := r.Inconclusive
		if i := strings.Index(reason, ":"); i > 0 {
			reason = reason[:i]
		}
		a.inconclusiveReasons[reason]++
	} else if len(r.Keys) > 0 {
		for _, k := range r.Keys {
			a.distinct[k] = true
		}
	} else if r.Nontrivial && r.Key != "" {
		a.distinct[r.Key] = true
	}
	for k, v := range r.Counters {
		a.counters[k] += v
	}
	for k, items := range r.Sets {
		if a.sets[k] == nil {
			a.sets[k] = map[string]bool{}
		}
		for _, it := range items {
			a.sets[k][it] = true
		}
	}
	if r.Sample != nil && len(a.samples) < 5 && r.Nontrivial {
		a.samples = append(a.samples, r.Sample)
	}
	for _, v := range r.Violations {
		a.violations = append(a.violations, violRec{r.Index, v})
	}
}

type raceRec struct {
	sig       string
	text      string
	count     int
	repoFrame bool
}

func collectRaces(files []string) []raceRec {
	bySig := map[string]*raceRec{}
	for _, f := range files {
		b, err := os.ReadFile(f)
		if err != nil {
			continue
		}
		blocks := bytes.Split(b, []byte("=================="))
		for _, blk := range blocks {
			if !bytes.Contains(blk, []byte("WARNING: DATA RACE")) {
				continue
			}
			text := string(blk)
			sig, repo := raceSignature(text)
			if r, ok := bySig[sig]; ok {
				r.count++
				continue
			}
			t := text
			if len(t) > 8000 {
				t = t[:8000] + "…"
			}
			bySig[sig] = &raceRec{sig: sig, text: t, count: 1, repoFrame: repo}
		}
	}
	var out []raceRec
	for _, r := range bySig {
		out = append(out, *r)
	}
	sort.Slice(out, func(i, j int) bool { return out[i].sig < out[j].sig })
	return out
}

// raceSignature: the first repository frame of each of the two accessing stacks, line numbers stripped.
func raceSignature(text string) (string, bool) {
	var sigs []string
	repo := false
	harnessTops := 0
	sections := regexp.MustCompile(`(?m)^(?:Write|Read|Previous write|Previous read|Atomic|Previous atomic)[^\n]*\n`).Split(text, -1)
	for i, s := range sections {
		if i == 0 {
			continue
		}
		if i > 2 {
			break
		}
		first := ""
		top := ""
		for _, l := range strings.Split(s, "\n") {
			t := strings.TrimSpace(l)
			if t == "" {
				if first != "" {
					break
				}
				continue
			}
			if strings.HasPrefix(t, "/") || strings.HasPrefix(t, "Goroutine") {
				continue
			}
			if top == "" {
				top = t // the function that performs the access
			}
			if strings.Contains(t, "graphql-go-tools/") {
				repo = true
				fn := t
				if j := strings.LastIndex(fn, "("); j > 0 {
					fn = fn[:j]
				}
				if j := strings.LastIndex(fn, "/"); j > 0 {
					fn = fn[j+1:]
				}
				first = fn
				break
			}
		}
		if first == "" {
			first = "?"
		}
		sigs = append(sigs, first)
		if strings.HasPrefix(top, "verifharness/") {
			harnessTops++
		}
	}
	sort.Strings(sigs)
	if harnessTops >= 2 {
		// both accesses are performed by harness functions (monitor state touched from a callback the
		// repository invokes): a race of the machinery, not of the repository
		repo = false
	}
	return strings.Join(sigs, " <-> "), repo
}

func writeReplay(o RunOpts, idx int, v Violation) string {
	d := filepath.Join(VerifDir(), "replays", o.Prop)
	os.MkdirAll(d, 0o755)
	rec := map[string]any{"property": o.Prop, "tier": o.Tier, "seed": o.Seed, "index": idx, "violation": v,
		"replay_cmd": fmt.Sprintf("scripts/check.sh %s --replay <this file>", o.Prop)}
	b, _ := json.MarshalIndent(rec, "", " ")
	path := filepath.Join(d, fmt.Sprintf("%s-%s.json", v.Kind, HashKey(o.Tier, o.Seed, idx, v.Kind, v.Msg, v.Match)[:12]))
	path = strings.ReplaceAll(path, " ", "_")
	os.WriteFile(path, b, 0o644)
	return path
}

func saveBrokenLog(o RunOpts, c crashRec) {
	d := filepath.Join(VerifDir(), "replays", o.Prop)
	os.MkdirAll(d, 0o755)
	os.WriteFile(filepath.Join(d, fmt.Sprintf("broken-%s-%d.log", c.Kind, c.Index)), []byte(c.Log), 0o644)
}

func writeEvidence(o RunOpts, p Property, a *aggregate, races []raceRec, known map[string]int, viol []map[string]any, broken []string, wall float64) {
	cov := map[string]any{
		"evaluations":         a.evals,
		"distinct_nontrivial": len(a.distinct),
		"rule":                p.Rule(),
		"samples":             a.samples,
		"inconclusive":        a.inconclusive,
		"inconclusive_reasons": a.inconclusiveReasons,
		"monitor_counters":    a.counters,
		"race_reports":        len(races),
		"race_detector":       p.Race(),
	}
	if len(a.samples) == 0 {
		cov["samples"] = []any{"(no non-trivial case produced a sample)"}
	}
	sets := map[string]any{}
	for k, m := range a.sets {
		items := make([]string, 0, len(m))
		for it := range m {
			items = append(items, it)
		}
		sort.Strings(items)
		n := len(items)
		if len(items) > 40 {
			items = items[:40]
		}
		sets[k] = map[string]any{"distinct": n, "items": items}
	}
	cov["observed_sets"] = sets
	if len(known) > 0 {
		cov["known_findings_hit"] = known
	}
	if len(viol) > 0 {
		if len(viol) > 50 {
			viol = viol[:50]
		}
		cov["violation_list"] = viol
	}
	if len(broken) > 0 {
		cov["broken"] = broken
	}
	ev := map[string]any{
		"property_id": o.Prop,
		"tier":        o.Tier,
		"seed":        o.Seed,
		"level":       p.Level(),
		"coverage":    cov,
		"assumptions": p.Assumptions(),
		"wall_s":      wall,
		"violations":  len(viol),
	}
	b, _ := json.MarshalIndent(ev, "", " ")
	d := filepath.Join(VerifDir(), "evidence")
	os.MkdirAll(d, 0o755)
	os.WriteFile(filepath.Join(d, o.Prop+".json"), append(b, '\n'), 0o644)
}
