// Package fw is the common runner of the verification harness: fixed, seed-determined case
// lists, child-process isolation with a journal written before each case, three-valued
// verdicts, known-finding matching, evidence and replay files.
package fw

import (
	"encoding/json"
	"fmt"
	"hash/fnv"
	"math/rand/v2"
	"sort"
	"sync"
)

// Tier names.
const (
	Quick    = "quick"
	Thorough = "thorough"
)

// Violation is one refuting observation. Kind names the oracle that fired; Detail carries the
// witness (input, expected, observed, trace). Match holds the facts a known-finding matcher may
// test (all must be computed by the oracle from the case, never from the finding file).
type Violation struct {
	Kind   string            `json:"kind"`
	Msg    string            `json:"msg"`
	Match  map[string]string `json:"match,omitempty"`
	Detail any               `json:"detail,omitempty"`
}

// Result of one case.
type Result struct {
	Index        int              `json:"index"`
	Key          string           `json:"key"`                    // canonical identity of the case (for distinct counting)
	Nontrivial   bool             `json:"nontrivial"`             // by the property's stated rule
	Keys         []string         `json:"keys,omitempty"`         // when one case bundles many inputs: identities of the distinct non-trivial ones (counted instead of Key)
	Inconclusive string           `json:"inconclusive,omitempty"` // reason; never folded into held/violated
	Violations   []Violation      `json:"violations,omitempty"`
	Sample       any              `json:"sample,omitempty"` // literal description of the case (kept for the first few)
	Counters     map[string]int64 `json:"counters,omitempty"`
	Sets         map[string][]string `json:"sets,omitempty"` // named sets of distinct things observed (merged by union)
}

func (r *Result) Count(name string, n int64) {
	if r.Counters == nil {
		r.Counters = map[string]int64{}
	}
	r.Counters[name] += n
}

func (r *Result) Observe(set, item string) {
	if r.Sets == nil {
		r.Sets = map[string][]string{}
	}
	for _, x := range r.Sets[set] {
		if x == item {
			return
		}
	}
	if len(r.Sets[set]) < 64 {
		r.Sets[set] = append(r.Sets[set], item)
	}
}

// Broken reports a defect of the harness itself (generator self-check failed, oracle precondition
// violated). The run fails as broken machinery; it is never a property violation.
func (r *Result) Broken(msg string, detail any) {
	r.Violations = append(r.Violations, Violation{Kind: "harness-broken", Msg: msg, Detail: detail})
}

func (r *Result) Violate(kind, msg string, match map[string]string, detail any) {
	r.Violations = append(r.Violations, Violation{Kind: kind, Msg: msg, Match: match, Detail: detail})
}

// Property is implemented once per property id.
type Property interface {
	ID() string
	// Level is the evidence level ("exploration", "fault_enumeration").
	Level() string
	// NumCases is fixed by tier (and may depend on the seed only through enumeration sizes).
	NumCases(tier string) int
	// Run executes case idx. It must be a deterministic function of (seed, idx) up to scheduling.
	Run(c *Ctx, idx int) Result
	// Rule describes generation and the non-triviality rule (goes to the evidence file).
	Rule() string
	Assumptions() []string
	// Race says whether the race-detector binary is used for the workers.
	Race() bool
	// CrashIsViolation: the statement includes totality / "never panics", so an abnormal worker
	// exit attributed to a case is a violation (otherwise it is broken machinery).
	CrashIsViolation() bool
	// RequiredCounters: counters that must be > 0 in a run, otherwise the run observed nothing and
	// fails as broken machinery.
	RequiredCounters(tier string) []string
}

// Optional interface: per-case wall clock watchdog in seconds (default 120).
type CaseTimeouter interface{ CaseTimeout(tier string) int }

// Optional interface: called once in the parent before workers start (e.g. extra builds).
type Preparer interface{ Prepare(tier string) error }

// Ctx is handed to Run.
type Ctx struct {
	Tier string
	Seed int64
	Prop string
	// Replay is set when a single case is being re-executed.
	Replay bool
}

// Rng returns the PCG for (seed, property, case index, stream).
func (c *Ctx) Rng(idx int, stream string) *rand.Rand {
	h := fnv.New64a()
	fmt.Fprintf(h, "%s/%d/%s", c.Prop, idx, stream)
	return rand.New(rand.NewPCG(uint64(c.Seed)*0x9E3779B97F4A7C15+1, h.Sum64()))
}

// case context: a property may record what it is about to hand to the system under test; when
// the case panics, the record is attached to the violation so that the failing input is known.
var (
	ctxMu   sync.Mutex
	caseCtx map[string]any
)

// SetContext replaces the context of the running case (workers run one case at a time).
func SetContext(m map[string]any) {
	ctxMu.Lock()
	caseCtx = m
	ctxMu.Unlock()
}

// AddContext adds one entry.
func AddContext(k string, v any) {
	ctxMu.Lock()
	if caseCtx == nil {
		caseCtx = map[string]any{}
	}
	caseCtx[k] = v
	ctxMu.Unlock()
}

func takeContext() map[string]any {
	ctxMu.Lock()
	defer ctxMu.Unlock()
	m := caseCtx
	caseCtx = nil
	return m
}

var (
	regMu sync.Mutex
	reg   = map[string]Property{}
)

func Register(p Property) {
	regMu.Lock()
	defer regMu.Unlock()
	reg[p.ID()] = p
}

func Lookup(id string) Property {
	regMu.Lock()
	defer regMu.Unlock()
	return reg[id]
}

func IDs() []string {
	regMu.Lock()
	defer regMu.Unlock()
	var out []string
	for k := range reg {
		out = append(out, k)
	}
	sort.Strings(out)
	return out
}

// HashKey gives a short stable key for arbitrary case content.
func HashKey(parts ...any) string {
	h := fnv.New64a()
	for _, p := range parts {
		switch v := p.(type) {
		case string:
			h.Write([]byte(v))
		case []byte:
			h.Write(v)
		default:
			b, _ := json.Marshal(v)
			h.Write(b)
		}
		h.Write([]byte{0})
	}
	return fmt.Sprintf("%016x", h.Sum64())
}

// Base provides defaults for the optional parts of Property.
type Base struct{}

func (Base) Level() string                       { return "exploration" }
func (Base) Race() bool                          { return false }
func (Base) CrashIsViolation() bool              { return false }
func (Base) RequiredCounters(string) []string    { return nil }
func (Base) Assumptions() []string               { return nil }
