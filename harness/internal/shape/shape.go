// Package shape gives an independent, reflection-based canonical dump of an ast.Document. It walks
// the document from its root nodes through the raw struct fields (not the printer, not the AST
// accessor methods), resolves byte-slice references to their content, ignores positions and
// storage indices, and compares block strings by their BlockStringValue (indentation is
// presentation). Two documents with the same dump are "structurally identical".
package shape

import (
	"fmt"
	"reflect"
	"strings"

	"github.com/wundergraph/graphql-go-tools/v2/pkg/ast"
	"github.com/wundergraph/graphql-go-tools/v2/pkg/lexer/position"
)

var (
	refType = reflect.TypeOf(ast.ByteSliceReference{})
	posType = reflect.TypeOf(position.Position{})
)

// RefProblem describes a reference or position outside the input.
type RefProblem struct {
	Where string
	Start uint32
	End   uint32
}

func (r RefProblem) String() string { return fmt.Sprintf("%s [%d,%d]", r.Where, r.Start, r.End) }

var skipTop = map[string]bool{"Input": true, "Refs": true, "RefIndex": true, "Index": true, "OnCopyField": true, "OnMergeFields": true, "BooleanValues": true}

// CheckRefs scans every node slice of the document for byte references with Start>End or End
// beyond the input, and for positions outside the input's line table.
func CheckRefs(doc *ast.Document) []RefProblem {
	var probs []RefProblem
	raw := doc.Input.RawBytes
	nlines := uint32(1)
	for _, b := range raw {
		if b == '\n' {
			nlines++
		}
	}
	v := reflect.ValueOf(doc).Elem()
	t := v.Type()
	for i := 0; i < t.NumField(); i++ {
		f := t.Field(i)
		if skipTop[f.Name] || v.Field(i).Kind() != reflect.Slice {
			continue
		}
		fv := v.Field(i)
		for j := 0; j < fv.Len(); j++ {
			scanRefs(fv.Index(j), len(raw), nlines, fmt.Sprintf("%s[%d]", f.Name, j), &probs)
		}
	}
	return probs
}

func scanRefs(v reflect.Value, n int, nlines uint32, where string, probs *[]RefProblem) {
	switch v.Type() {
	case refType:
		r := v.Interface().(ast.ByteSliceReference)
		if r.Start > r.End || int(r.End) > n {
			*probs = append(*probs, RefProblem{where, r.Start, r.End})
		}
		return
	case posType:
		p := v.Interface().(position.Position)
		if p.LineStart > nlines || p.LineEnd > nlines || uint64(p.CharStart) > uint64(n)+1 || uint64(p.CharEnd) > uint64(n)+2 {
			*probs = append(*probs, RefProblem{where + " pos " + p.String(), p.LineStart, p.LineEnd})
		}
		return
	}
	switch v.Kind() {
	case reflect.Struct:
		for i := 0; i < v.NumField(); i++ {
			if v.Type().Field(i).IsExported() {
				scanRefs(v.Field(i), n, nlines, where+"."+v.Type().Field(i).Name, probs)
			}
		}
	case reflect.Slice, reflect.Array:
		if v.Type().Elem().Kind() == reflect.Uint8 || v.Type().Elem().Kind() == reflect.Int {
			return
		}
		for i := 0; i < v.Len(); i++ {
			scanRefs(v.Index(i), n, nlines, where, probs)
		}
	}
}

// list container types → name of the Document slice their Refs point into
var listTarget = map[string]string{
	"ArgumentList":                    "Arguments",
	"DirectiveList":                   "Directives",
	"TypeList":                        "Types",
	"FieldDefinitionList":             "FieldDefinitions",
	"InputValueDefinitionList":        "InputValueDefinitions",
	"EnumValueDefinitionList":         "EnumValueDefinitions",
	"VariableDefinitionList":          "VariableDefinitions",
	"RootOperationTypeDefinitionList": "RootOperationTypeDefinitions",
	"ListValue":                       "Values",
	"ObjectValue":                     "ObjectFields",
}

// derived / bookkeeping fields that are not part of the parsed structure
var skipField = map[string]bool{
	"InterfaceTypeDefinition.ImplementedByObjectDefinitions": true,
	"InlineFragment.IsOfTheSameType":                         true,
	"Argument.PrintBeforeValue":                              true,
	"Argument.PrintAfterValue":                               true,
}

type dumper struct {
	doc   *ast.Document
	dv    reflect.Value
	sb    strings.Builder
	depth int
	err   string
}

// Dump returns the canonical tree dump; err != "" when the document's internal references are
// themselves inconsistent (dangling ref), which is reported by the caller.
func Dump(doc *ast.Document) (string, string) {
	d := &dumper{doc: doc, dv: reflect.ValueOf(doc).Elem()}
	for _, n := range doc.RootNodes {
		d.node(n.Kind, n.Ref)
		d.sb.WriteByte('\n')
	}
	return d.sb.String(), d.err
}

func (d *dumper) slice(name string) reflect.Value { return d.dv.FieldByName(name) }

func (d *dumper) elem(sliceName string, ref int) {
	s := d.slice(sliceName)
	if !s.IsValid() || ref < 0 || ref >= s.Len() {
		if d.err == "" {
			d.err = fmt.Sprintf("dangling ref %s[%d]", sliceName, ref)
		}
		d.sb.WriteString("<dangling>")
		return
	}
	d.depth++
	if d.depth > 400000 {
		if d.err == "" {
			d.err = "reference cycle / excessive depth"
		}
		d.depth--
		return
	}
	d.value(s.Index(ref), sliceName)
	d.depth--
}

var nodeSlice = map[ast.NodeKind]string{
	ast.NodeKindSchemaDefinition:           "SchemaDefinitions",
	ast.NodeKindSchemaExtension:            "SchemaExtensions",
	ast.NodeKindObjectTypeDefinition:       "ObjectTypeDefinitions",
	ast.NodeKindObjectTypeExtension:        "ObjectTypeExtensions",
	ast.NodeKindInterfaceTypeDefinition:    "InterfaceTypeDefinitions",
	ast.NodeKindInterfaceTypeExtension:     "InterfaceTypeExtensions",
	ast.NodeKindUnionTypeDefinition:        "UnionTypeDefinitions",
	ast.NodeKindUnionTypeExtension:         "UnionTypeExtensions",
	ast.NodeKindEnumTypeDefinition:         "EnumTypeDefinitions",
	ast.NodeKindEnumTypeExtension:          "EnumTypeExtensions",
	ast.NodeKindInputObjectTypeDefinition:  "InputObjectTypeDefinitions",
	ast.NodeKindInputObjectTypeExtension:   "InputObjectTypeExtensions",
	ast.NodeKindScalarTypeDefinition:       "ScalarTypeDefinitions",
	ast.NodeKindScalarTypeExtension:        "ScalarTypeExtensions",
	ast.NodeKindDirectiveDefinition:        "DirectiveDefinitions",
	ast.NodeKindOperationDefinition:        "OperationDefinitions",
	ast.NodeKindFragmentDefinition:         "FragmentDefinitions",
}

func (d *dumper) node(kind ast.NodeKind, ref int) {
	name, ok := nodeSlice[kind]
	if !ok {
		fmt.Fprintf(&d.sb, "<node kind %d>", kind)
		return
	}
	d.sb.WriteString(name)
	d.elem(name, ref)
}

func (d *dumper) value(v reflect.Value, ctx string) {
	t := v.Type()
	switch t {
	case refType:
		r := v.Interface().(ast.ByteSliceReference)
		raw := d.doc.Input.RawBytes
		if r.Start > r.End || int(r.End) > len(raw) {
			d.sb.WriteString("<badref>")
			return
		}
		fmt.Fprintf(&d.sb, "%q", raw[r.Start:r.End])
		return
	case posType:
		return
	}
	tn := t.Name()
	switch tn {
	case "Value":
		kind := ast.ValueKind(v.FieldByName("Kind").Int())
		ref := int(v.FieldByName("Ref").Int())
		d.astValue(kind, ref)
		return
	case "Selection":
		kind := ast.SelectionKind(v.FieldByName("Kind").Int())
		ref := int(v.FieldByName("Ref").Int())
		switch kind {
		case ast.SelectionKindField:
			d.sb.WriteString("Field")
			d.elem("Fields", ref)
		case ast.SelectionKindInlineFragment:
			d.sb.WriteString("InlineFragment")
			d.elem("InlineFragments", ref)
		case ast.SelectionKindFragmentSpread:
			d.sb.WriteString("FragmentSpread")
			d.elem("FragmentSpreads", ref)
		default:
			fmt.Fprintf(&d.sb, "<selection kind %d>", kind)
		}
		return
	case "Description":
		if !v.FieldByName("IsDefined").Bool() {
			d.sb.WriteString("nodesc")
			return
		}
		r := v.FieldByName("Content").Interface().(ast.ByteSliceReference)
		d.str(r, v.FieldByName("IsBlockString").Bool())
		return
	case "StringValue":
		r := v.FieldByName("Content").Interface().(ast.ByteSliceReference)
		d.str(r, v.FieldByName("BlockString").Bool())
		return
	case "SelectionSet":
		d.sb.WriteByte('{')
		refs := v.FieldByName("SelectionRefs")
		for i := 0; i < refs.Len(); i++ {
			if i > 0 {
				d.sb.WriteByte(',')
			}
			d.elem("Selections", int(refs.Index(i).Int()))
		}
		d.sb.WriteByte('}')
		return
	case "TypeCondition":
		ref := int(v.FieldByName("Type").Int())
		if ref == -1 {
			d.sb.WriteString("nocond")
		} else {
			d.sb.WriteString("on ")
			d.elem("Types", ref)
		}
		return
	}
	if target, ok := listTarget[tn]; ok {
		d.sb.WriteByte('[')
		refs := v.FieldByName("Refs")
		for i := 0; i < refs.Len(); i++ {
			if i > 0 {
				d.sb.WriteByte(',')
			}
			d.elem(target, int(refs.Index(i).Int()))
		}
		d.sb.WriteByte(']')
		return
	}
	switch v.Kind() {
	case reflect.Struct:
		d.sb.WriteString(tn)
		d.sb.WriteByte('{')
		hasSel := true
		if f := v.FieldByName("HasSelections"); f.IsValid() {
			hasSel = f.Bool()
		}
		for i := 0; i < t.NumField(); i++ {
			f := t.Field(i)
			if !f.IsExported() || f.Type == posType || skipField[tn+"."+f.Name] {
				continue
			}
			fv := v.Field(i)
			switch {
			case f.Name == "SelectionSet" && f.Type.Kind() == reflect.Int:
				if hasSel {
					d.sb.WriteString("sel=")
					d.elem("SelectionSets", int(fv.Int()))
				}
				continue
			case (f.Name == "Type" || f.Name == "OfType") && f.Type.Kind() == reflect.Int:
				// Type.OfType is only meaningful for list / non-null
				if tn == "Type" && ast.TypeKind(v.FieldByName("TypeKind").Int()) == ast.TypeKindNamed {
					continue
				}
				ref := int(fv.Int())
				d.sb.WriteString(f.Name + "=")
				if ref == -1 {
					d.sb.WriteString("nil")
				} else {
					d.elem("Types", ref)
				}
				d.sb.WriteByte(' ')
				continue
			case tn == "Type" && f.Name == "Name" && ast.TypeKind(v.FieldByName("TypeKind").Int()) != ast.TypeKindNamed:
				continue
			}
			if fv.Kind() == reflect.Int && !(strings.HasSuffix(f.Type.Name(), "Kind") || strings.HasSuffix(f.Type.Name(), "Type")) && f.Type.Name() == "int" {
				// an unmapped plain int: part of the dump as a number, flagged so that an unmapped
				// reference field shows up during development
				fmt.Fprintf(&d.sb, "%s=#%d ", f.Name, fv.Int())
				continue
			}
			d.sb.WriteString(f.Name)
			d.sb.WriteByte('=')
			d.value(fv, tn)
			d.sb.WriteByte(' ')
		}
		d.sb.WriteByte('}')
	case reflect.Slice, reflect.Array:
		d.sb.WriteByte('[')
		for i := 0; i < v.Len(); i++ {
			if i > 0 {
				d.sb.WriteByte(',')
			}
			d.value(v.Index(i), ctx)
		}
		d.sb.WriteByte(']')
	case reflect.Bool:
		fmt.Fprintf(&d.sb, "%v", v.Bool())
	case reflect.Int, reflect.Int8, reflect.Int16, reflect.Int32, reflect.Int64:
		fmt.Fprintf(&d.sb, "%d", v.Int())
	case reflect.Uint, reflect.Uint8, reflect.Uint16, reflect.Uint32, reflect.Uint64:
		fmt.Fprintf(&d.sb, "%d", v.Uint())
	case reflect.String:
		fmt.Fprintf(&d.sb, "%q", v.String())
	default:
	}
}

func (d *dumper) str(r ast.ByteSliceReference, block bool) {
	raw := d.doc.Input.RawBytes
	if r.Start > r.End || int(r.End) > len(raw) {
		d.sb.WriteString("<badref>")
		return
	}
	c := string(raw[r.Start:r.End])
	if block {
		fmt.Fprintf(&d.sb, "block%q", BlockStringValue(c))
	} else {
		fmt.Fprintf(&d.sb, "str%q", c)
	}
}

func (d *dumper) astValue(kind ast.ValueKind, ref int) {
	switch kind {
	case ast.ValueKindUnknown:
		d.sb.WriteString("novalue")
	case ast.ValueKindNull:
		d.sb.WriteString("null")
	case ast.ValueKindBoolean:
		// Ref indexes BooleanValues [false,true]
		fmt.Fprintf(&d.sb, "bool(%d)", ref)
	case ast.ValueKindString:
		d.elem("StringValues", ref)
	case ast.ValueKindInteger:
		d.elem("IntValues", ref)
	case ast.ValueKindFloat:
		d.elem("FloatValues", ref)
	case ast.ValueKindVariable:
		d.elem("VariableValues", ref)
	case ast.ValueKindEnum:
		d.elem("EnumValues", ref)
	case ast.ValueKindList:
		d.elem("ListValues", ref)
	case ast.ValueKindObject:
		d.elem("ObjectValues", ref)
	default:
		fmt.Fprintf(&d.sb, "<value kind %d>", kind)
	}
}

// BlockStringValue implements the spec algorithm (independently of the repository) on the raw
// content between the triple quotes, with \""" unescaped.
func BlockStringValue(raw string) string {
	raw = strings.ReplaceAll(raw, "\r\n", "\n")
	raw = strings.ReplaceAll(raw, "\r", "\n")
	lines := strings.Split(raw, "\n")
	common := -1
	for i, l := range lines {
		if i == 0 {
			continue
		}
		ind := 0
		for ind < len(l) && (l[ind] == ' ' || l[ind] == '\t') {
			ind++
		}
		if ind < len(l) && (common == -1 || ind < common) {
			common = ind
		}
	}
	if common > 0 {
		for i := 1; i < len(lines); i++ {
			if len(lines[i]) >= common {
				lines[i] = lines[i][common:]
			} else {
				lines[i] = ""
			}
		}
	}
	isBlank := func(s string) bool { return strings.Trim(s, " \t") == "" }
	for len(lines) > 0 && isBlank(lines[0]) {
		lines = lines[1:]
	}
	for len(lines) > 0 && isBlank(lines[len(lines)-1]) {
		lines = lines[:len(lines)-1]
	}
	return strings.ReplaceAll(strings.Join(lines, "\n"), `\"""`, `"""`)
}
