package rig

import (
	"bytes"

	"github.com/wundergraph/graphql-go-tools/execution/graphql"
	"github.com/wundergraph/graphql-go-tools/v2/pkg/ast"
	"github.com/wundergraph/graphql-go-tools/v2/pkg/astnormalization"
	"github.com/wundergraph/graphql-go-tools/v2/pkg/astparser"
	"github.com/wundergraph/graphql-go-tools/v2/pkg/astprinter"
	"github.com/wundergraph/graphql-go-tools/v2/pkg/astvalidation"
	"github.com/wundergraph/graphql-go-tools/v2/pkg/operationreport"
)

// Pipeline is one normaliser + one validator instance, built with the options Request.Normalize
// uses by default. Routers keep such instances in pools and re-use them for many requests: what an
// instance answers must not depend on the documents it has processed before.
type Pipeline struct {
	norm *astnormalization.OperationNormalizer
	val  *astvalidation.OperationValidator
}

func NewPipeline() *Pipeline {
	return &Pipeline{
		norm: astnormalization.NewWithOpts(
			astnormalization.WithExtractVariables(),
			astnormalization.WithRemoveFragmentDefinitions(),
			astnormalization.WithRemoveUnusedVariables(),
			astnormalization.WithInlineFragmentSpreads(),
			astnormalization.WithRemoveNotMatchingOperationDefinitions(),
		),
		val: astvalidation.DefaultOperationValidator(),
	}
}

// PipelineResult is what one document came out as.
type PipelineResult struct {
	Accepted  bool
	Stage     string // parse | normalize | validate ("" = accepted)
	Printed   string
	Variables string
}

func (r PipelineResult) Verdict() string {
	if r.Accepted {
		return "accepted"
	}
	return "refused@" + r.Stage
}

// Run parses (fresh parser), normalises and validates one document on this instance.
func (p *Pipeline) Run(schema *graphql.Schema, query, opName string, vars []byte) (res PipelineResult) {
	var report operationreport.Report
	doc := ast.NewSmallDocument()
	doc.Input.ResetInputString(query)
	astparser.NewParser().Parse(doc, &report)
	if report.HasErrors() {
		return PipelineResult{Stage: "parse"}
	}
	doc.Input.Variables = append([]byte(nil), vars...)
	if opName != "" {
		p.norm.NormalizeNamedOperation(doc, schema.Document(), []byte(opName), &report)
	} else {
		p.norm.NormalizeOperation(doc, schema.Document(), &report)
	}
	if report.HasErrors() {
		return PipelineResult{Stage: "normalize"}
	}
	var buf bytes.Buffer
	if err := astprinter.Print(doc, &buf); err == nil {
		res.Printed = buf.String()
	}
	res.Variables = string(doc.Input.Variables)
	p.val.Validate(doc, schema.Document(), &report)
	if report.HasErrors() {
		res.Stage = "validate"
		return res
	}
	res.Accepted = true
	return res
}
