// Package rig holds wiring shared by the engine-level properties: schema loading on both sides
// (gqlparser and the repository), the engine's admission sequence replayed step by step, and
// reference execution helpers.
package rig

import (
	"bytes"
	"context"
	"encoding/json"
	"fmt"
	"strings"

	"github.com/vektah/gqlparser/v2"
	gast "github.com/vektah/gqlparser/v2/ast"
	"github.com/vektah/gqlparser/v2/gqlerror"

	"github.com/jensneuse/abstractlogger"

	"github.com/wundergraph/graphql-go-tools/execution/engine"
	"github.com/wundergraph/graphql-go-tools/execution/graphql"
	"github.com/wundergraph/graphql-go-tools/v2/pkg/engine/resolve"
	"github.com/wundergraph/graphql-go-tools/v2/pkg/astprinter"

	"verifharness/internal/ref"
)

// Schemas is one schema loaded by both implementations.
type Schemas struct {
	SDL  string
	Gql  *gast.Schema
	Repo *graphql.Schema
}

// LoadSchemas loads the SDL with gqlparser and with the repository. An error here is a generator
// bug (broken machinery), never a property violation.
func LoadSchemas(sdl string) (*Schemas, error) {
	g, err := gqlparser.LoadSchema(&gast.Source{Name: "schema", Input: sdl})
	if err != nil {
		return nil, fmt.Errorf("gqlparser rejects generated schema: %v", err)
	}
	r, err := graphql.NewSchemaFromString(sdl)
	if err != nil {
		return nil, fmt.Errorf("repository rejects generated schema: %v", err)
	}
	return &Schemas{SDL: sdl, Gql: g, Repo: r}, nil
}

// LoadQuery parses + validates with gqlparser.
func (s *Schemas) LoadQuery(q string) (doc *gast.QueryDocument, errs gqlerror.List) {
	defer func() {
		if r := recover(); r != nil {
			// gqlparser itself can panic on some invalid documents; the oracle is then unavailable
			doc, errs = nil, gqlerror.List{gqlerror.Errorf("%s: %v", GqlparserPanic, r)}
		}
	}()
	return gqlparser.LoadQuery(s.Gql, q)
}

// GqlparserPanic prefixes the error returned when gqlparser panicked.
const GqlparserPanic = "gqlparser panicked"

func PickOperation(doc *gast.QueryDocument, name string) *gast.OperationDefinition {
	if name == "" {
		if len(doc.Operations) > 0 {
			return doc.Operations[0]
		}
		return nil
	}
	return doc.Operations.ForName(name)
}

// Admission is the outcome of replaying ExecutionEngine.Execute's admission steps.
type Admission struct {
	Stage     string // "" = admitted; else the stage that refused: normalize1, validate, normalize2, remap, variables
	Err       string
	Printed   string            // normalised operation
	Variables []byte            // request variables after normalisation
	Remap     map[string]string // canonical name → client name
	Req       *graphql.Request
}

// Engine is a real ExecutionEngine over the schema with no data sources: Execute runs the whole
// admission sequence (normalise, validate, extract variables, remap, validate variables), then
// applies the request options — where the harness captures the per-request state — and then fails
// at planning/resolving, which is irrelevant here.
type Engine struct {
	Schema *graphql.Schema
	Eng    *engine.ExecutionEngine
	cancel context.CancelFunc
}

func NewAdmissionEngine(schema *graphql.Schema) (*Engine, error) {
	ctx, cancel := context.WithCancel(context.Background())
	conf := engine.NewConfiguration(schema)
	eng, err := engine.NewExecutionEngine(ctx, abstractlogger.NoopLogger, conf, resolve.ResolverOptions{MaxConcurrency: 4})
	if err != nil {
		cancel()
		return nil, err
	}
	return &Engine{Schema: schema, Eng: eng, cancel: cancel}, nil
}

func (e *Engine) Close() { e.cancel() }

// EngineAdmission runs ExecutionEngine.Execute and reports whether the request was admitted (the
// request options were reached), with the normalised operation, its variables and the remap table
// the engine itself computed.
func (e *Engine) Admit(query, opName string, vars []byte) Admission {
	req := &graphql.Request{Query: query, OperationName: opName, Variables: vars}
	a := Admission{Req: req}
	reached := false
	capture := engine.VerifWithResolveContext(func(ctx *resolve.Context) {
		reached = true
		a.Remap = map[string]string{}
		for k, v := range ctx.RemapVariables {
			a.Remap[k] = v
		}
	})
	w := graphql.NewEngineResultWriter()
	err := e.Eng.Execute(context.Background(), req, &w, capture)
	if !reached {
		a.Stage = "refused"
		if err != nil {
			a.Err = err.Error()
			switch {
			case strings.Contains(a.Err, "variable") || strings.Contains(a.Err, "Variable"):
				a.Stage = "refused"
			}
		}
		return a
	}
	var buf bytes.Buffer
	if perr := astprinter.Print(req.Document(), &buf); perr != nil {
		a.Stage, a.Err = "print", perr.Error()
		return a
	}
	a.Printed = buf.String()
	a.Variables = append([]byte(nil), req.Variables...)
	return a
}

// DefaultNormalize is graphql.Request.Normalize with its default option set (single pass).
func DefaultNormalize(schema *graphql.Schema, query, opName string, vars []byte) (printed string, variables []byte, err error) {
	req := &graphql.Request{Query: query, OperationName: opName, Variables: vars}
	res, nerr := req.Normalize(schema)
	if nerr != nil {
		return "", nil, nerr
	}
	if !res.Successful {
		return "", nil, fmt.Errorf("%s", res.Errors.Error())
	}
	var buf bytes.Buffer
	if err := astprinter.Print(req.Document(), &buf); err != nil {
		return "", nil, err
	}
	return buf.String(), append([]byte(nil), req.Variables...), nil
}

// VarsForRemapped builds the variable map an executor needs for a remapped operation: canonical
// name → value of the client-named variable.
func VarsForRemapped(variables []byte, remap map[string]string) (map[string]any, error) {
	m := map[string]any{}
	if len(bytes.TrimSpace(variables)) > 0 {
		v, err := ref.DecodeJSON(variables)
		if err != nil {
			return nil, fmt.Errorf("variables are not valid JSON: %v", err)
		}
		obj, ok := v.(map[string]any)
		if !ok && v != nil {
			return nil, fmt.Errorf("variables are not a JSON object")
		}
		m = obj
	}
	if remap == nil {
		return m, nil
	}
	out := map[string]any{}
	mapped := map[string]bool{}
	for canon, client := range remap {
		mapped[client] = true
		if v, ok := m[client]; ok {
			out[canon] = v
		}
	}
	// variables the mapper leaves alone (file uploads) keep their own name
	for k, v := range m {
		if _, taken := out[k]; !mapped[k] && !taken {
			out[k] = v
		}
	}
	return out, nil
}

// RefExec runs the reference executor: coerce variables, execute. It returns data, errors and a
// coercion error (if the variables are not coercible).
func RefExec(gs *gast.Schema, op *gast.OperationDefinition, vars map[string]any, resolver ref.FieldResolver, root *ref.Obj, prov map[string]ref.Prov) (map[string]any, []ref.ExecError, *ref.CoerceError) {
	c := ref.Coercer{Schema: gs}
	cv, cerr := c.CoerceVariableValues(op, vars)
	if cerr != nil {
		return nil, nil, cerr
	}
	ex := &ref.Executor{Schema: gs, Resolver: resolver, Vars: cv, Prov: prov}
	data := ex.ExecuteOperation(op, root)
	return data, ex.Errors, nil
}

// StripInternal removes response keys with the reserved __internal_ prefix (the normaliser's
// placeholder for emptied selection sets, hidden by the planner).
func StripInternal(v any) any {
	switch x := v.(type) {
	case map[string]any:
		out := make(map[string]any, len(x))
		for k, it := range x {
			if strings.HasPrefix(k, "__internal_") {
				continue
			}
			out[k] = StripInternal(it)
		}
		return out
	case []any:
		out := make([]any, len(x))
		for i, it := range x {
			out[i] = StripInternal(it)
		}
		return out
	}
	return v
}

// MustJSON marshals for messages.
func MustJSON(v any) string {
	b, err := json.Marshal(v)
	if err != nil {
		return fmt.Sprintf("<%v>", err)
	}
	return string(b)
}
