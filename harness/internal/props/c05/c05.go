package c05

import (
	"fmt"
	"math/rand/v2"
	"os"
	"path/filepath"
	"sort"
	"strings"
	"sync"

	"verifharness/internal/fw"
	"verifharness/internal/gram"
	"verifharness/internal/shape"

	"github.com/wundergraph/graphql-go-tools/v2/pkg/ast"
	"github.com/wundergraph/graphql-go-tools/v2/pkg/astparser"
	"github.com/wundergraph/graphql-go-tools/v2/pkg/astprinter"
	"github.com/wundergraph/graphql-go-tools/v2/pkg/operationreport"
)

// C05 — parsing is total and printing round-trips; limits are never under-counted.
type c05 struct{ fw.Base }

func init() { fw.Register(c05{}) }

func (c05) ID() string             { return "C05" }
func (c05) CrashIsViolation() bool { return true }
func (c05) CaseTimeout(string) int { return 180 }
func (c05) Rule() string {
	return "case kinds: (A) exhaustive byte strings of length<=3 over a 24-symbol alphabet; (B) random bytes and token soups up to 4KB; (C) mutations (bit flip, truncate, splice, duplicate, deep nesting) of the repository's .graphql files and hand-written tricky documents; (D) grammar-generated executable and type-system documents incl. keyword-spelled names; (E) ParseWithLimits with limits around the real depth / field count. Every input: parse under recover+watchdog, reference/position bounds, and if accepted: print (compact, indented) -> parse -> independent shape dump equal, print fixed point. An input counts as non-trivial when it parses to a document with >=1 definition; distinct by content hash."
}
func (c05) Assumptions() []string {
	return []string{"block strings are compared by BlockStringValue (indentation is presentation)", "real depth = max selection-set nesting inside one definition and with named fragments inlined; real field count = number of Field nodes", "over-counting by the limit tokenizer is not judged"}
}
func (c05) RequiredCounters(string) []string {
	return []string{"inputs", "accepted", "rejected", "roundtrips", "limit_probes", "limit_rejections"}
}

const (
	c05A = 25  // exhaustive cases: one per first symbol + one for length<=1... see runA
	c05Bq = 200
	c05Cq = 200
	c05Dq = 500
	c05Eq = 200
)

func (c05) NumCases(tier string) int {
	m := 1
	if tier == fw.Thorough {
		m = 20
	}
	return c05A + (c05Bq+c05Cq+c05Dq+c05Eq)*m
}

var c05Alphabet = []string{"{", "}", "(", ")", "[", "]", ":", "!", "$", "@", "=", "|", "&", "...", "\"", "\"\"\"", "\\", "#", "\n", " ", "a", "1", "-", "."}

var (
	corpusOnce sync.Once
	corpus     [][]byte
)

var handCorpus = []string{
	`query Q($a: Int = 1, $b: [String!]! = ["x"] @d) @dir(a: 1) { a: f(x: {k: [1, 2.5e3, "s", true, null, ENUM, $a]}) @skip(if: $b) { ...F ... on T @include(if: true) { g } ... { h } } }`,
	`fragment F on T @d { a b { c } }`,
	`"""desc""" type T implements A & B @d { "fd" f("ad" a: Int = 1 @d): [Int!]! @deprecated(reason: "r") }`,
	`extend type T @d`, `extend type T implements I`, `extend interface I implements J { a: Int }`, `extend interface I @d`,
	`"sd" schema @d { query: Q mutation: M subscription: S }`, `extend schema @d { query: Q }`, `extend schema @d`,
	`"d" scalar S @specifiedBy(url: "u")`, `extend scalar S @d`,
	`"d" interface I implements J & K @d { f: Int }`,
	`"d" union U @d = | A | B`, `extend union U = C`, `extend union U @d`,
	`"d" enum E @d { "vd" A @deprecated B }`, `extend enum E { C }`, `extend enum E @d`,
	`"d" input In @d { "fd" a: Int = 1 @d b: [In!] = [{a: 1}] }`, `extend input In { c: Int }`, `extend input In @d`,
	`"d" directive @d("ad" a: Int = 1 @x) repeatable on QUERY | FIELD | SCHEMA`, `directive @d on | QUERY`,
	`{ query mutation subscription fragment on type }`, `query query { query }`, `fragment fragment on on { on }`,
	`{ a(s: """block "q" \""" end""") b(s: "é😀 \"\\\/\b\f\n\r\t") }`,
	`{ a(i: -0, f: -1.5E-10, l: [], o: {}) }`, `subscription { s }`, `mutation M { m }`,
	`"op desc" query Q("var desc" $v: Int) { f(a: $v) }`, `"frag desc" fragment F on T { a }`,
	// witnesses of the open known findings (C05-F4, F5, F9, F10) and of the repaired ones
	"schema {\n\n}", "type Query query{\n    foo: Foo\n}", "interface A implements B {\n}\ninterface C { a: Int }",
	" \"[= = on\x00interface\\ ", "query Q(\"\"\"\n\"  The department\n  \"\"\" $d: String) { f }",
	`{ query a b c d e f g }`, `fragment F on T { a { b { c } } } { x { ...F } }`, `query @d { a }`, `"d" query { a }`, `{ a(s: """x" """) }`,
	`type T`, `type T { f: [[[Int!]!]!]! }`, `{ ... @d { a } }`, `{ ...on T { a } }`, `{ ...on }`,
}

func loadCorpus() {
	for _, s := range handCorpus {
		corpus = append(corpus, []byte(s))
	}
	var files []string
	filepath.Walk("/repo", func(p string, info os.FileInfo, err error) error {
		if err != nil {
			return nil
		}
		if info.IsDir() {
			if info.Name() == ".git" || info.Name() == "node_modules" {
				return filepath.SkipDir
			}
			return nil
		}
		if (strings.HasSuffix(p, ".graphql") || strings.HasSuffix(p, ".graphqls")) && info.Size() < 200_000 {
			files = append(files, p)
		}
		return nil
	})
	sort.Strings(files)
	for _, f := range files {
		if b, err := os.ReadFile(f); err == nil {
			corpus = append(corpus, b)
		}
	}
}

type c05acc struct {
	res  *fw.Result
	keys map[string]bool
}

// checkInput runs the totality, bounds and round-trip oracles on one input.
func c05CheckInput(res *fw.Result, in []byte, origin string) (accepted bool) {
	res.Count("inputs", 1)
	inCopy := append([]byte(nil), in...)
	doc, rep := astparser.ParseGraphqlDocumentBytes(in)
	if string(in) != string(inCopy) {
		res.Violate("parse.mutated-input", "the parser modified its input bytes", nil, map[string]any{"input": string(inCopy), "origin": origin})
	}
	if rep.HasErrors() {
		res.Count("rejected", 1)
		return false
	}
	res.Count("accepted", 1)
	if probs := shape.CheckRefs(&doc); len(probs) > 0 {
		res.Violate("refs.out-of-input", "reference outside the input: "+probs[0].String(), map[string]string{"where": strings.SplitN(probs[0].Where, "[", 2)[0]}, map[string]any{"input": string(in), "problems": fmt.Sprint(probs), "origin": origin})
	}
	d0, derr := shape.Dump(&doc)
	if derr != "" {
		res.Violate("refs.dangling", derr, nil, map[string]any{"input": string(in), "origin": origin})
		return true
	}
	if len(doc.RootNodes) == 0 {
		return true
	}
	for _, indent := range []string{"", "  "} {
		res.Count("roundtrips", 1)
		var p1 string
		var err error
		if indent == "" {
			p1, err = astprinter.PrintString(&doc)
		} else {
			p1, err = astprinter.PrintStringIndent(&doc, indent)
		}
		mode := "compact"
		if indent != "" {
			mode = "indent"
		}
		if err != nil {
			res.Violate("print.error", "printing an accepted document failed: "+err.Error(), nil, map[string]any{"input": string(in), "mode": mode, "origin": origin})
			continue
		}
		doc2, rep2 := astparser.ParseGraphqlDocumentString(p1)
		if rep2.HasErrors() {
			res.Violate("roundtrip.reparse", "print of an accepted document does not parse: "+rep2.Error(), c05Features(&doc, map[string]string{"construct": firstConstruct(d0)}), map[string]any{"input": string(in), "printed": p1, "mode": mode, "origin": origin})
			continue
		}
		d1, _ := shape.Dump(&doc2)
		if d1 != d0 {
			a, b := firstDiff(d0, d1)
			res.Violate("roundtrip.shape", "parse(print(d)) is not structurally identical to d", c05Features(&doc, map[string]string{"construct": diffConstruct(d0, d1), "diff_in_block_string": fmt.Sprint(diffInBlockString(d0, d1))}), map[string]any{"input": string(in), "printed": p1, "mode": mode, "orig": a, "reparsed": b, "origin": origin})
			continue
		}
		var p2 string
		if indent == "" {
			p2, err = astprinter.PrintString(&doc2)
		} else {
			p2, err = astprinter.PrintStringIndent(&doc2, indent)
		}
		if err != nil || p2 != p1 {
			res.Violate("roundtrip.fixpoint", "print(parse(print(d))) != print(d)", c05Features(&doc, map[string]string{"diff_in_block_string": fmt.Sprint(diffInTripleQuotes(p1, p2))}), map[string]any{"input": string(in), "print1": p1, "print2": p2, "mode": mode, "origin": origin})
		}
	}
	return true
}

// c05Features adds facts about the document that known-finding matchers may test. They are
// computed from the parsed input only.
func c05Features(doc *ast.Document, m map[string]string) map[string]string {
	emptySchema := false
	for _, n := range doc.RootNodes {
		switch n.Kind {
		case ast.NodeKindSchemaDefinition:
			if len(doc.SchemaDefinitions[n.Ref].RootOperationTypeDefinitions.Refs) == 0 {
				emptySchema = true
			}
		}
	}
	m["empty_schema_definition"] = fmt.Sprint(emptySchema)
	m["block_string_edge_whitespace"] = fmt.Sprint(blockStringEdgeWhitespace(doc.Input.RawBytes))
	m["input_contains_nul_byte"] = fmt.Sprint(strings.IndexByte(string(doc.Input.RawBytes), 0) >= 0)
	// a definition that the spec requires a braces body for (or that may take one) but has none
	// — `type T`, `interface I implements J { }` — followed by another definition: its print is
	// ambiguous (a following shorthand query reads as the body, a following keyword reads as a
	// further implemented interface in the legacy space-separated syntax)
	amb := false
	for i := 0; i+1 < len(doc.RootNodes); i++ {
		n := doc.RootNodes[i]
		bodyless := false
		switch n.Kind {
		case ast.NodeKindObjectTypeDefinition:
			bodyless = !doc.ObjectTypeDefinitions[n.Ref].HasFieldDefinitions
		case ast.NodeKindObjectTypeExtension:
			bodyless = !doc.ObjectTypeExtensions[n.Ref].HasFieldDefinitions
		case ast.NodeKindInterfaceTypeDefinition:
			bodyless = !doc.InterfaceTypeDefinitions[n.Ref].HasFieldDefinitions
		case ast.NodeKindInterfaceTypeExtension:
			bodyless = !doc.InterfaceTypeExtensions[n.Ref].HasFieldDefinitions
		case ast.NodeKindEnumTypeDefinition:
			bodyless = !doc.EnumTypeDefinitions[n.Ref].HasEnumValuesDefinition
		case ast.NodeKindEnumTypeExtension:
			bodyless = !doc.EnumTypeExtensions[n.Ref].HasEnumValuesDefinition
		case ast.NodeKindInputObjectTypeDefinition:
			bodyless = !doc.InputObjectTypeDefinitions[n.Ref].HasInputFieldsDefinition
		case ast.NodeKindInputObjectTypeExtension:
			bodyless = !doc.InputObjectTypeExtensions[n.Ref].HasInputFieldsDefinition
		case ast.NodeKindSchemaExtension:
			bodyless = len(doc.SchemaExtensions[n.Ref].RootOperationTypeDefinitions.Refs) == 0
		}
		if bodyless {
			amb = true
		}
	}
	m["bodyless_definition_not_last"] = fmt.Sprint(amb)
	return m
}

// diffInBlockString: the first difference between the two dumps lies inside a block"…" token.
func diffInBlockString(a, b string) bool {
	n := len(a)
	if len(b) < n {
		n = len(b)
	}
	i := 0
	for i < n && a[i] == b[i] {
		i++
	}
	j := strings.LastIndex(a[:i], `block"`)
	if j < 0 {
		return false
	}
	// find the closing quote of that token
	k := j + len(`block"`)
	for k < len(a) {
		if a[k] == '\\' {
			k += 2
			continue
		}
		if a[k] == '"' {
			break
		}
		k++
	}
	return i <= k+1
}

// blockStringEdgeWhitespace: some block string in the input has a first line starting with
// whitespace or a quote, or a line ending in whitespace (the lexer trims, the printer re-indents).
func blockStringEdgeWhitespace(raw []byte) bool {
	s := string(raw)
	for {
		i := strings.Index(s, `"""`)
		if i < 0 {
			return false
		}
		rest := s[i+3:]
		j := 0
		for {
			k := strings.Index(rest[j:], `"""`)
			if k < 0 {
				j = len(rest)
				break
			}
			if j+k > 0 && rest[j+k-1] == '\\' {
				j = j + k + 3
				continue
			}
			j = j + k
			break
		}
		content := rest[:j]
		lines := strings.Split(strings.ReplaceAll(content, "\r", "\n"), "\n")
		for li, l := range lines {
			if strings.TrimSpace(l) == "" {
				continue
			}
			if l != strings.TrimRight(l, " \t") {
				return true
			}
			if (li == 0 || strings.HasPrefix(strings.TrimLeft(l, " \t"), `"`)) && (l[0] == ' ' || l[0] == '\t' || strings.HasPrefix(strings.TrimLeft(l, " \t"), `"`)) {
				return true
			}
		}
		if j+3 > len(rest) {
			return false
		}
		s = rest[j+3:]
	}
}

func diffInTripleQuotes(a, b string) bool {
	n := len(a)
	if len(b) < n {
		n = len(b)
	}
	i := 0
	for i < n && a[i] == b[i] {
		i++
	}
	// inside (or at the closing delimiter of) a block string
	return strings.Count(a[:i], `"""`)%2 == 1 || strings.HasPrefix(a[i:], `"""`) || strings.HasPrefix(b[i:], `"""`)
}

func firstConstruct(d string) string {
	if i := strings.IndexAny(d, "{\n"); i > 0 {
		return d[:i]
	}
	return ""
}

// diffConstruct names the innermost struct type enclosing the first difference.
func diffConstruct(a, b string) string {
	n := len(a)
	if len(b) < n {
		n = len(b)
	}
	i := 0
	for i < n && a[i] == b[i] {
		i++
	}
	// walk back to find the enclosing "Name{" and the field "Field="
	depth := 0
	field := ""
	for j := i - 1; j >= 0; j-- {
		switch a[j] {
		case '}':
			depth++
		case '{':
			if depth == 0 {
				k := j
				for k > 0 && (isIdent(a[k-1])) {
					k--
				}
				return a[k:j] + "." + field
			}
			depth--
		case '=':
			if depth == 0 && field == "" {
				k := j
				for k > 0 && isIdent(a[k-1]) {
					k--
				}
				field = a[k:j]
			}
		}
	}
	return "?"
}

func isIdent(c byte) bool {
	return c == '_' || (c >= 'a' && c <= 'z') || (c >= 'A' && c <= 'Z') || (c >= '0' && c <= '9')
}

func firstDiff(a, b string) (string, string) {
	n := len(a)
	if len(b) < n {
		n = len(b)
	}
	i := 0
	for i < n && a[i] == b[i] {
		i++
	}
	lo := i - 200
	if lo < 0 {
		lo = 0
	}
	cut := func(s string) string {
		hi := i + 200
		if hi > len(s) {
			hi = len(s)
		}
		if lo > len(s) {
			return ""
		}
		return s[lo:hi]
	}
	return cut(a), cut(b)
}

// ---- limits

type realStats struct {
	fields       int
	depthLocal   int // max selection-set nesting inside one definition
	depthInlined int // with named fragments inlined (acyclic part)
}

func computeRealStats(doc *ast.Document) realStats {
	var st realStats
	fragByName := map[string]int{}
	for i := range doc.FragmentDefinitions {
		n := doc.Input.ByteSliceString(doc.FragmentDefinitions[i].Name)
		if _, ok := fragByName[n]; !ok {
			fragByName[n] = i
		}
	}
	var local func(set int) int
	local = func(set int) int {
		max := 0
		for _, sref := range doc.SelectionSets[set].SelectionRefs {
			sel := doc.Selections[sref]
			switch sel.Kind {
			case ast.SelectionKindField:
				st.fields++
				f := doc.Fields[sel.Ref]
				if f.HasSelections {
					if d := local(f.SelectionSet); d > max {
						max = d
					}
				}
			case ast.SelectionKindInlineFragment:
				f := doc.InlineFragments[sel.Ref]
				if f.HasSelections {
					if d := local(f.SelectionSet); d > max {
						max = d
					}
				}
			}
		}
		return max + 1
	}
	var inlined func(set int, stack map[int]bool, budget *int) int
	inlined = func(set int, stack map[int]bool, budget *int) int {
		max := 0
		for _, sref := range doc.SelectionSets[set].SelectionRefs {
			*budget--
			if *budget < 0 {
				break
			}
			sel := doc.Selections[sref]
			switch sel.Kind {
			case ast.SelectionKindField:
				f := doc.Fields[sel.Ref]
				if f.HasSelections {
					if d := inlined(f.SelectionSet, stack, budget); d > max {
						max = d
					}
				}
			case ast.SelectionKindInlineFragment:
				f := doc.InlineFragments[sel.Ref]
				if f.HasSelections {
					// an inline fragment's braces are a nesting level for the tokenizer and for the user-visible
					// brace depth; for selection depth it adds no level. Use the conservative (smaller) figure.
					if d := inlined(f.SelectionSet, stack, budget) - 1; d > max {
						max = d
					}
				}
			case ast.SelectionKindFragmentSpread:
				name := doc.Input.ByteSliceString(doc.FragmentSpreads[sel.Ref].FragmentName)
				fi, ok := fragByName[name]
				if !ok || stack[fi] {
					continue
				}
				fd := doc.FragmentDefinitions[fi]
				if fd.HasSelections {
					stack[fi] = true
					if d := inlined(fd.SelectionSet, stack, budget) - 1; d > max {
						max = d
					}
					delete(stack, fi)
				}
			}
		}
		return max + 1
	}
	for _, n := range doc.RootNodes {
		switch n.Kind {
		case ast.NodeKindOperationDefinition:
			op := doc.OperationDefinitions[n.Ref]
			if op.HasSelections {
				if d := local(op.SelectionSet); d > st.depthLocal {
					st.depthLocal = d
				}
				budget := 200000
				if d := inlined(op.SelectionSet, map[int]bool{}, &budget); d > st.depthInlined && budget >= 0 {
					st.depthInlined = d
				}
			}
		case ast.NodeKindFragmentDefinition:
			fd := doc.FragmentDefinitions[n.Ref]
			if fd.HasSelections {
				if d := local(fd.SelectionSet); d > st.depthLocal {
					st.depthLocal = d
				}
			}
		}
	}
	return st
}

var keywordFieldNames = map[string]bool{"query": true, "mutation": true, "subscription": true, "fragment": true}

func c05CheckLimits(res *fw.Result, in []byte, origin string) {
	doc, rep := astparser.ParseGraphqlDocumentBytes(in)
	if rep.HasErrors() {
		return
	}
	st := computeRealStats(&doc)
	depth := st.depthLocal
	if st.depthInlined > depth {
		depth = st.depthInlined
	}
	if st.fields == 0 {
		return
	}
	// does any selection-set field carry one of the definition keywords as its name or alias?
	kwField := false
	for i := range doc.Fields {
		if keywordFieldNames[doc.Input.ByteSliceString(doc.Fields[i].Name)] || (doc.Fields[i].Alias.IsDefined && keywordFieldNames[doc.Input.ByteSliceString(doc.Fields[i].Alias.Name)]) {
			kwField = true
		}
	}
	kwOther := !kwField && (strings.Contains(string(in), "query") || strings.Contains(string(in), "mutation") || strings.Contains(string(in), "subscription") || strings.Contains(string(in), "fragment"))
	probe := func(lim astparser.TokenizerLimits, what string, real, limit int) {
		res.Count("limit_probes", 1)
		p := astparser.NewParser()
		d := ast.NewSmallDocument()
		d.Input.ResetInputBytes(in)
		var r operationreport.Report
		stats, err := p.ParseWithLimits(lim, d, &r)
		if err != nil || r.HasErrors() {
			res.Count("limit_rejections", 1)
			return
		}
		res.Count("limit_accepts", 1)
		if real > limit {
			res.Violate("limits."+what+".accepted", fmt.Sprintf("real %s %d exceeds limit %d but ParseWithLimits accepted (tokenizer stats %+v)", what, real, limit, stats),
				map[string]string{"keyword_named_field": fmt.Sprint(kwField), "keyword_elsewhere_in_selection": fmt.Sprint(kwOther)},
				map[string]any{"input": string(in), "real": real, "limit": limit, "stats": fmt.Sprintf("%+v", stats), "origin": origin})
		}
	}
	for _, l := range []int{1, depth - 1, depth, depth + 1} {
		if l >= 1 {
			probe(astparser.TokenizerLimits{MaxDepth: l}, "depth", depth, l)
		}
	}
	for _, l := range []int{1, st.fields - 1, st.fields, st.fields + 1} {
		if l >= 1 {
			probe(astparser.TokenizerLimits{MaxFields: l}, "fields", st.fields, l)
		}
	}
}

// ---- case kinds

func (p c05) Run(c *fw.Ctx, idx int) fw.Result {
	corpusOnce.Do(loadCorpus)
	res := fw.Result{}
	keys := map[string]bool{}
	var sample string
	note := func(in []byte, accepted bool) {
		if accepted {
			k := fw.HashKey(in)
			if !keys[k] && len(keys) < 400 {
				keys[k] = true
			}
			if sample == "" || (len(in) > 20 && len(sample) < 20) {
				sample = string(in)
			}
		}
	}
	m := 1
	if c.Tier == fw.Thorough {
		m = 20
	}
	kind, sub := "", idx
	switch {
	case sub < c05A:
		kind = "A"
	case sub < c05A+c05Bq*m:
		kind, sub = "B", sub-c05A
	case sub < c05A+(c05Bq+c05Cq)*m:
		kind, sub = "C", sub-c05A-c05Bq*m
	case sub < c05A+(c05Bq+c05Cq+c05Dq)*m:
		kind, sub = "D", sub-c05A-(c05Bq+c05Cq)*m
	default:
		kind, sub = "E", sub-c05A-(c05Bq+c05Cq+c05Dq)*m
	}
	r := c.Rng(idx, "c05")
	res.Count("cases_"+kind, 1)
	switch kind {
	case "A":
		// exhaustive: idx 0 → lengths 0,1 and the fixed corpus itself; idx k≥1 → all strings of length 2..3 starting with symbol k-1
		if sub == 0 {
			note(nil, c05CheckInput(&res, []byte{}, "A"))
			for _, s := range c05Alphabet {
				note([]byte(s), c05CheckInput(&res, []byte(s), "A"))
			}
			for i, b := range corpus {
				ok := c05CheckInput(&res, b, fmt.Sprintf("corpus[%d]", i))
				note(b, ok)
				c05CheckLimits(&res, b, fmt.Sprintf("corpus[%d]", i))
			}
		} else {
			a := c05Alphabet[sub-1]
			for _, b := range c05Alphabet {
				in := []byte(a + b)
				note(in, c05CheckInput(&res, in, "A"))
				for _, cc := range c05Alphabet {
					in := []byte(a + b + cc)
					note(in, c05CheckInput(&res, in, "A"))
				}
			}
		}
	case "B":
		for i := 0; i < 300; i++ {
			in := randomSoup(r)
			note(in, c05CheckInput(&res, in, "B"))
		}
	case "C":
		for i := 0; i < 100; i++ {
			base := corpus[r.IntN(len(corpus))]
			in := mutateBytes(r, base)
			ok := c05CheckInput(&res, in, "C")
			note(in, ok)
			if ok && i%4 == 0 {
				c05CheckLimits(&res, in, "C")
			}
		}
	case "D":
		g := &gram.G{R: r, Keywords: sub%2 == 0, MaxDepth: 2 + r.IntN(4)}
		for i := 0; i < 30; i++ {
			var in string
			if i%3 == 2 {
				in = g.TypeSystem()
			} else {
				in = g.Executable()
			}
			ok := c05CheckInput(&res, []byte(in), "D")
			note([]byte(in), ok)
			if !ok {
				res.Count("gram_rejected", 1)
				if res.Counters["gram_rejected"] <= 1 {
					res.Observe("gram_rejected_examples", truncate(in, 300))
				}
			}
		}
	case "E":
		g := &gram.G{R: r, Keywords: sub%2 == 0, MaxDepth: 1 + r.IntN(6), NoExecDescriptions: true}
		for i := 0; i < 30; i++ {
			var in string
			switch i % 3 {
			case 0:
				in = g.Nested(1+r.IntN(8), 1+r.IntN(12))
			case 1:
				in = g.Executable()
			default:
				// several definitions, nested selections with keyword names in the middle
				in = g.Executable() + "\n" + g.Nested(1+r.IntN(5), 1+r.IntN(6))
			}
			ok := c05CheckInput(&res, []byte(in), "E")
			note([]byte(in), ok)
			c05CheckLimits(&res, []byte(in), "E")
		}
		// limit-targeted documents: several definitions (fragments of various depths spreading each
		// other, shorthand / named / variable-default operations) in any order, separated by
		// whitespace, commas and COMMENTS — the limits are cumulative over definitions and the
		// tokenizer sees comment tokens between them
		for i := 0; i < 10; i++ {
			in := limitDoc(r)
			res.Count("limit_targeted_documents", 1)
			ok := c05CheckInput(&res, []byte(in), "E-limits")
			note([]byte(in), ok)
			c05CheckLimits(&res, []byte(in), "E-limits")
		}
	}
	for k := range keys {
		res.Keys = append(res.Keys, k)
	}
	res.Key = fw.HashKey("C05", idx, c.Seed)
	res.Nontrivial = len(keys) > 0
	res.Sample = map[string]any{"kind": kind, "example_input": truncate(sample, 400), "inputs_in_case": res.Counters["inputs"]}
	return res
}

func truncate(s string, n int) string {
	if len(s) > n {
		return s[:n] + "…"
	}
	return s
}

var soupTokens = []string{"{", "}", "(", ")", "[", "]", ":", "!", "$", "@", "=", "|", "&", "...", "\"", "\"\"\"", "\\", "#", "\n", " ", ",", "query", "mutation", "subscription", "fragment", "on", "type", "input", "enum", "union", "interface", "scalar", "schema", "extend", "directive", "implements", "repeatable", "true", "false", "null", "a", "b", "Foo", "1", "-1", "1.5", "1e3", "\"s\"", "\"\"\"b\"\"\"", "\\u00e9", "\\\"", "\xff", "\x00", "é", "😀", "\ufeff", "\r", "\t", ".", "..", "-", "+", "e", "0x1", "01", "1.", ".5", "1e", "$a", "@d", "QUERY", "FIELD"}

func randomSoup(r *rand.Rand) []byte {
	switch r.IntN(3) {
	case 0: // raw bytes
		n := r.IntN(64)
		if r.IntN(20) == 0 {
			n = r.IntN(4096)
		}
		b := make([]byte, n)
		for i := range b {
			if r.IntN(3) == 0 {
				b[i] = byte(r.IntN(256))
			} else {
				b[i] = " \n{}()[]:!$@=|&.\"\\#,abq01-"[r.IntN(26)]
			}
		}
		return b
	default:
		n := 1 + r.IntN(30)
		if r.IntN(20) == 0 {
			n = r.IntN(800)
		}
		var sb strings.Builder
		for i := 0; i < n; i++ {
			sb.WriteString(soupTokens[r.IntN(len(soupTokens))])
			if r.IntN(2) == 0 {
				sb.WriteByte(' ')
			}
		}
		return []byte(sb.String())
	}
}

func mutateBytes(r *rand.Rand, base []byte) []byte {
	b := append([]byte(nil), base...)
	if len(b) > 6000 {
		off := r.IntN(len(b) - 6000)
		b = b[off : off+6000]
	}
	nm := 1 + r.IntN(3)
	for k := 0; k < nm; k++ {
		if len(b) == 0 {
			b = []byte("{a}")
		}
		switch r.IntN(8) {
		case 0: // bit flip
			i := r.IntN(len(b))
			b[i] ^= 1 << uint(r.IntN(8))
		case 1: // truncate
			b = b[:r.IntN(len(b)+1)]
		case 2: // splice from another corpus entry
			o := corpus[r.IntN(len(corpus))]
			if len(o) > 0 {
				i, j := r.IntN(len(b)+1), r.IntN(len(o))
				l := r.IntN(len(o)-j) + 1
				if l > 300 {
					l = 300
				}
				nb := append([]byte(nil), b[:i]...)
				nb = append(nb, o[j:j+l]...)
				b = append(nb, b[i:]...)
			}
		case 3: // duplicate a chunk
			i := r.IntN(len(b))
			l := r.IntN(len(b)-i) + 1
			if l > 200 {
				l = 200
			}
			nb := append([]byte(nil), b[:i+l]...)
			nb = append(nb, b[i:i+l]...)
			b = append(nb, b[i+l:]...)
		case 4: // delete a chunk
			i := r.IntN(len(b))
			l := r.IntN(len(b)-i) + 1
			if l > 40 {
				l = 40
			}
			b = append(b[:i:i], b[i+l:]...)
		case 5: // insert a token
			i := r.IntN(len(b) + 1)
			t := soupTokens[r.IntN(len(soupTokens))]
			nb := append([]byte(nil), b[:i]...)
			nb = append(nb, t...)
			b = append(nb, b[i:]...)
		case 6: // deep nesting
			d := 1 + r.IntN(200)
			if r.IntN(50) == 0 {
				d = 10000
			}
			open := []string{"{a", "[", "{a:", "(a:{b:"}[r.IntN(4)]
			b = []byte(strings.Repeat(open, d) + string(b))
			if r.IntN(2) == 0 {
				b = append(b, strings.Repeat("}", d)...)
			}
		case 7: // replace a name with a keyword
			kws := []string{"query", "fragment", "on", "null", "true", "type", "extend"}
			i := r.IntN(len(b))
			j := i
			for j < len(b) && isIdent(b[j]) {
				j++
			}
			nb := append([]byte(nil), b[:i]...)
			nb = append(nb, kws[r.IntN(len(kws))]...)
			b = append(nb, b[j:]...)
		}
	}
	return b
}

// limitDoc builds one multi-definition executable document for the limit oracle.
func limitDoc(r *rand.Rand) string {
	nest := func(depth int, leaf string) string {
		var sb strings.Builder
		for d := 0; d < depth; d++ {
			fmt.Fprintf(&sb, "f%d {", d)
		}
		sb.WriteString(leaf)
		sb.WriteString(strings.Repeat("}", depth))
		return sb.String()
	}
	nfr := r.IntN(4)
	var defs []string
	for k := 0; k < nfr; k++ {
		leaf := "x"
		if k > 0 && r.IntN(2) == 0 {
			leaf = fmt.Sprintf("x ...F%d", r.IntN(k)) // spreads only earlier fragments: no cycles
		}
		defs = append(defs, fmt.Sprintf("fragment F%d on T {%s}", k, nest(r.IntN(5), leaf)))
	}
	nops := 1 + r.IntN(2)
	for k := 0; k < nops; k++ {
		leaf := "y"
		if nfr > 0 && r.IntN(3) != 0 {
			leaf = fmt.Sprintf("y ...F%d", r.IntN(nfr))
		}
		body := "{" + nest(r.IntN(4), leaf) + "}"
		switch r.IntN(4) {
		case 0:
			defs = append(defs, body) // shorthand
		case 1:
			defs = append(defs, fmt.Sprintf("query Q%d %s", k, body))
		case 2:
			defs = append(defs, fmt.Sprintf("query Q%d($v: In = {a: {b: [1, {c: 2}]}}) %s", k, body))
		default:
			defs = append(defs, fmt.Sprintf("mutation M%d @d(a: {b: 1}) %s", k, body))
		}
	}
	r.Shuffle(len(defs), func(i, j int) { defs[i], defs[j] = defs[j], defs[i] })
	seps := []string{"\n", " ", "# c\n", "\n# a comment {\n# }\n", ",", "\n\n", "#\n", " ,\n"}
	var sb strings.Builder
	if r.IntN(3) == 0 {
		sb.WriteString(seps[r.IntN(len(seps))])
	}
	for i, d := range defs {
		if i > 0 {
			sb.WriteString(seps[r.IntN(len(seps))])
		}
		sb.WriteString(d)
	}
	if r.IntN(3) == 0 {
		sb.WriteString(seps[r.IntN(len(seps))])
	}
	return sb.String()
}
