// Package c08 checks property C08: fetch execution respects data dependencies under every
// schedule.
//
// Layer 1 (structural): synthetic plans (DAGs of fetches with generated FetchDependencies) go
// through the real postprocess.Processor under every scheduling option set; the resulting
// FetchTreeNode is read under Sequence/Parallel semantics by an independent monitor.
// Layer 2 (runtime): the same plans are executed by the real Resolver/Loader against gated fake
// subgraphs; a controller decides the completion order; request content, a logical clock and
// the final response are checked.
// Layer 3 (engine level over federation) lives in its own file and registers further case
// kinds through registerKinds (see kinds below).
package c08

import (
	"fmt"
	"math/rand/v2"
	"sort"
	"strings"

	"verifharness/internal/fw"

	"github.com/wundergraph/graphql-go-tools/v2/pkg/engine/resolve"
)

type c08 struct{ fw.Base }

func init() { fw.Register(c08{}) }

func (c08) ID() string             { return "C08" }
func (c08) Race() bool             { return true }
func (c08) CrashIsViolation() bool { return false }
func (c08) CaseTimeout(string) int { return 600 }

func (c08) Rule() string {
	return "Synthetic plans = DAGs of fetches; each fetch declares DependsOnFetchIDs and its request template reads one unique value from every dependency's merged result. " +
		"Case kinds (index space = concatenation of the kinds table, fixed count per tier): " +
		"l1.exhaustive: one case per (n, edge mask) for n<=4 (thorough n<=5, each mask split into 4 blocks of id assignments), inside it every fetch-id assignment x every raw order (n=5: identity, reverse and 2 seeded raw orders); " +
		"l1.random/l1.nested/l1.entity/l1.dup: seeded random plans up to 14 fetches (random/layered/chains/diamonds/forest/components shapes; nested = fetches hanging under response paths of other fetches, some without declared dependencies; entity = entity/batch-entity fetches on few subgraphs so that same-wave fetches merge into multi fetches; dup = exact duplicate fetches); " +
		"l1.dupfan: directed de-duplication shapes (a fetch with 1-2 exact duplicates behind a chain of 0-3 fetches and 2-5 dependants spread over the copies, random ids and raw order); " +
		"l1.branch: type-conditioned branches of an abstract list (2-3 concrete types, 1-2 items each) that select the same relation object o: the root delivers o for the native types, a provider fetch (optionally behind one more provider) delivers it for the others, one owner fetch per branch loads o.name - all owner fetches are the same request with DIFFERENT dependency sets, so de-duplication keeps one that has to wait for the providers of every branch - plus 0-3 readers of o.name; random ids and raw order. " +
		"Every layer-1 plan is built with a FetchInfo on every fetch (planner default) AND on no fetch (plan.Configuration.DisableIncludeInfo; quick tier of l1.exhaustive: for a checkerboard half of id assignment x raw order), every other random plan additionally with a seeded mix (quick tier, plain and nested plans: with FetchInfo plus alternately none / mixed), and post-processed under 10 option sets (waves|scheduler|serial x +-multi-fetch x +-de-duplication; every 4th random plan additionally as the response tree of a subscription plan whose root carries the trigger; a quarter of the entity plans with eagerly printed inputs) and the tree is checked: every planned fetch exactly once (as itself, as member of a merged request, or via the first fetch of its duplicate class) and every dependency completes before its dependant starts. " +
		"l2.*: the same plan kinds (plus errors = fetches failing in one of 8 ways: GraphQL errors with data, GraphQL errors with data:null, transport error, 502 with a non-JSON body, 503 with data:null, 500 with errors, 200 with data:null and no errors, empty body) executed by the real Resolver/Loader (alternating ResolveGraphQLResponse / ArenaResolveGraphQLResponse) with gated fake subgraphs under 3-5 option sets and a seeded FetchInfo mode (dup/dupfan plans: with FetchInfo and without): all completion orders for n<=4, per parallel group all permutations up to 4 members (seeded beyond), seeded flat priorities, burst (whole wave released at once) and ungated runs; " +
		"l2.branch: the branch plans executed (batch entity fetches with type-conditioned fetch paths; the request content oracle demands one representation per item of every branch the request serves, each with the values its dependencies delivered; the clock oracle also applies the dependencies of the removed copies to the surviving request); " +
		"l2.faults: one group of 2-4 mutually independent fetches of which at least two fail in different ways, optionally behind a healthy root and followed by a reader of the group, every completion order the tree allows; " +
		"oracles: request content equals the values the dependencies delivered, arrival after merged/release of every dependency on one logical clock, each planned request at most/exactly once, response identical across completion orders (data bytes, errors as multiset of error objects). " +
		"A layer-1 plan is non-trivial when it has >=1 dependency edge; a layer-2 case when >=1 execution really had >=2 requests pending at once and the plan has >=1 edge (faults: always when requests overlapped). Distinct = canonical labelled plan incl. its FetchInfo mode."
}

func (c08) Assumptions() []string {
	return []string{
		"plans are acyclic and free of self-dependencies (the planner never emits those); every dependency id refers to a planned fetch",
		"FetchTreeNode semantics: Sequence = children one after the other, Parallel = children concurrently, node complete when all children complete; a MultiEntityFetch stands for all its MergedFetchIDs",
		"de-duplication is modelled as: a fetch equal (request template, variables, path) to an earlier raw fetch is represented by the first one of its class",
		"LoaderHooks.OnFinished is called by the loader inside the merge phase (used as the 'merged' event); only early arrivals are judged, never late ones",
		"a fetch whose (transitive) dependency delivered nothing (transport error, unusable or empty answer, non-2xx without data, data:null) may be skipped by the loader; whether it must be is C07's question",
		"the stage DisableOrderSequenceByDependencies (switching the ordering mechanism off) is not a scheduling option set",
		"plans come from the harness, not from the planner: the FetchInfo modes model plan.Configuration.DisableIncludeInfo (no fetch carries a FetchInfo) and hand-built plans (some do); fake subgraphs report their HTTP status the way the HTTP client of a real data source does (httpclient.ResponseContext)",
		"errors are compared as whole error objects (message, path, extensions) after replacing the per-execution nonce; the match fact messages_and_paths_differ tells whether the difference is visible in (message, path) alone",
	}
}

func (c08) RequiredCounters(string) []string {
	req := []string{
		"l1_plans", "l1_trees_walked", "l1_dependency_edges_checked", "l1_dedupe_accounted",
		"l1_subscription_trees", "tree_nodes_trigger", "tree_nodes_single", "tree_nodes_entity", "tree_nodes_batch", "tree_nodes_multi", "tree_nodes_parallel", "tree_nodes_sequence",
		"l2_plans", "l2_executions", "l2_executions_perm", "l2_executions_flat", "l2_executions_burst", "l2_executions_free",
		"l2_requests", "l2_dependency_edges_checked", "l2_contents_checked", "l2_merge_events", "l2_parallel_groups_observed",
		"l2_completion_orders", "l2_responses_compared", "l2_multi_requests",
		// FetchInfo dimension (plan.Configuration.DisableIncludeInfo) and the rewiring of dependants of removed duplicates
		"l1_plans_fetchinfo_all", "l1_plans_fetchinfo_none", "l1_plans_fetchinfo_mixed",
		"l1_plans_removed_duplicate_with_2plus_dependants_fetchinfo_all", "l1_plans_removed_duplicate_with_2plus_dependants_fetchinfo_none",
		"l2_plans_fetchinfo_all", "l2_plans_fetchinfo_none", "l2_plans_fetchinfo_mixed",
		"l2_plans_removed_duplicate_with_2plus_dependants_fetchinfo_all", "l2_plans_removed_duplicate_with_2plus_dependants_fetchinfo_none",
		// failing subgraph answers under controlled completion orders
		"l1_plans_duplicates_with_differing_dependency_sets", "l2_plans_duplicates_with_differing_dependency_sets",
		"l2_trees_with_differently_failing_parallel_fetches", "l2_error_multisets_compared", "l2_error_multisets_compared_2plus_errors_parallel_faults",
	}
	for _, m := range faultModes {
		req = append(req, "l2_fault_answers_"+m.String())
	}
	for _, o := range allOptSets {
		req = append(req, "l1_dags_"+o.Name)
	}
	return req
}

// ---------------------------------------------------------------------------------------------
// kinds table

type kindDef struct {
	name  string
	count func(tier string) int
	run   func(c *fw.Ctx, res *fw.Result, idx, local int)
}

func tiered(quick, thorough int) func(string) int {
	return func(t string) int {
		if t == fw.Thorough {
			return thorough
		}
		return quick
	}
}

var (
	exh4 = exhaustiveCases(4)
	exh5 = exhaustiveCases(5)
)

// layer 1 splits every 5-node edge mask into l1Parts5 cases (blocks of id assignments) so that
// the cases of a tier cost about the same (the runner hands out contiguous index ranges).
const l1Parts5 = 4

type l1ExhCase struct {
	nm
	part, parts int
}

func l1ExhCases(tier string) []l1ExhCase {
	var out []l1ExhCase
	for _, c := range exhFor(tier) {
		parts := 1
		if c.n >= 5 {
			parts = l1Parts5
		}
		for p := 0; p < parts; p++ {
			out = append(out, l1ExhCase{c, p, parts})
		}
	}
	return out
}

var l1ExhQuick, l1ExhThorough = l1ExhCases(fw.Quick), l1ExhCases(fw.Thorough)

func exhFor(tier string) []nm {
	if tier == fw.Thorough {
		return exh5
	}
	return exh4
}

var baseKinds = []kindDef{
	{"l1.exhaustive", tiered(len(l1ExhQuick), len(l1ExhThorough)), runL1Exhaustive},
	{"l1.random", tiered(160, 2400), func(c *fw.Ctx, res *fw.Result, idx, local int) {
		runL1Random(c, res, idx, func(r *rand.Rand) *planSpec { return randomPlain(r, 5, 14) })
	}},
	{"l1.nested", tiered(100, 1500), func(c *fw.Ctx, res *fw.Result, idx, local int) {
		runL1Random(c, res, idx, func(r *rand.Rand) *planSpec { return randomNested(r, 2, 14) })
	}},
	{"l1.entity", tiered(140, 2100), func(c *fw.Ctx, res *fw.Result, idx, local int) {
		runL1Random(c, res, idx, func(r *rand.Rand) *planSpec { return randomEntity(r, 3, 14) })
	}},
	{"l1.dup", tiered(100, 1500), func(c *fw.Ctx, res *fw.Result, idx, local int) {
		runL1Random(c, res, idx, func(r *rand.Rand) *planSpec { return randomDup(r, 2, 12) })
	}},
	{"l2.exhaustive", tiered(len(exh4), len(exh5)), runL2Exhaustive},
	{"l2.random", tiered(120, 1800), func(c *fw.Ctx, res *fw.Result, idx, local int) {
		runL2Random(c, res, idx, func(r *rand.Rand) *planSpec { return randomPlain(r, 5, 14) })
	}},
	{"l2.nested", tiered(70, 1000), func(c *fw.Ctx, res *fw.Result, idx, local int) {
		runL2Random(c, res, idx, func(r *rand.Rand) *planSpec { return randomNested(r, 2, 12) })
	}},
	{"l2.entity", tiered(120, 1800), func(c *fw.Ctx, res *fw.Result, idx, local int) {
		runL2Random(c, res, idx, func(r *rand.Rand) *planSpec { return randomEntity(r, 3, 12) })
	}},
	{"l2.dup", tiered(60, 900), func(c *fw.Ctx, res *fw.Result, idx, local int) {
		runL2Random(c, res, idx, func(r *rand.Rand) *planSpec { return randomDup(r, 2, 10) })
	}},
	{"l2.errors", tiered(70, 1000), func(c *fw.Ctx, res *fw.Result, idx, local int) {
		runL2Random(c, res, idx, func(r *rand.Rand) *planSpec { return randomErrors(r, 3, 12) })
	}},
}

// extraKinds: further case kinds (layer 3) appended after the base kinds. A file of this
// package registers them from its init() with registerKinds; the table is only read when a run
// starts, i.e. after every init() of the package has finished. Appending never changes the
// indexes of the base kinds.
var extraKinds []kindDef

func registerKinds(k ...kindDef) { extraKinds = append(extraKinds, k...) }

func kinds() []kindDef {
	return append(append([]kindDef(nil), baseKinds...), extraKinds...)
}

func (c08) NumCases(tier string) int {
	n := 0
	for _, k := range kinds() {
		n += k.count(tier)
	}
	return n
}

func (c08) Run(c *fw.Ctx, idx int) fw.Result {
	res := fw.Result{Index: idx}
	local := idx
	for _, k := range kinds() {
		n := k.count(c.Tier)
		if local < n {
			res.Count("cases_"+k.name, 1)
			k.run(c, &res, idx, local)
			capViolations(&res)
			if res.Key == "" {
				res.Key = fw.HashKey(k.name, local)
			}
			return res
		}
		local -= n
	}
	res.Inconclusive = "harness: case index out of range"
	return res
}

// capViolations keeps at most 2 witnesses per (kind, match) class and 12 per case: a broken
// stage fires on nearly every plan x option set x schedule of a case, and one case bundles
// hundreds of those.
func capViolations(res *fw.Result) {
	if len(res.Violations) == 0 {
		return
	}
	perClass := map[string]int{}
	var kept []fw.Violation
	for _, v := range res.Violations {
		cls := v.Kind + fmt.Sprint(v.Match)
		perClass[cls]++
		if perClass[cls] <= 2 && len(kept) < 12 {
			kept = append(kept, v)
		}
	}
	res.Count("violations_observed", int64(len(res.Violations)))
	res.Count("violations_not_kept_as_witness", int64(len(res.Violations)-len(kept)))
	res.Violations = kept
}

// ---------------------------------------------------------------------------------------------
// witnesses

func dumpTree(n *resolve.FetchTreeNode) string {
	if n == nil {
		return "nil"
	}
	switch n.Kind {
	case resolve.FetchTreeNodeKindSingle:
		if n.Item == nil || n.Item.Fetch == nil {
			return "Single(?)"
		}
		d := n.Item.Fetch.Dependencies()
		s := fmt.Sprintf("%d<-%v", d.FetchID, d.DependsOnFetchIDs)
		switch f := n.Item.Fetch.(type) {
		case *resolve.MultiEntityFetch:
			s = fmt.Sprintf("Multi%v:%s", f.MergedFetchIDs, s)
		case *resolve.EntityFetch:
			s = "E:" + s
		case *resolve.BatchEntityFetch:
			s = "B:" + s
		}
		if n.Item.ResponsePath != "" {
			s += "@" + n.Item.ResponsePath
		}
		return s
	case resolve.FetchTreeNodeKindSequence, resolve.FetchTreeNodeKindParallel:
		parts := make([]string, len(n.ChildNodes))
		for i, c := range n.ChildNodes {
			parts[i] = dumpTree(c)
		}
		return string(n.Kind)[:3] + "(" + strings.Join(parts, ", ") + ")"
	default:
		return string(n.Kind) + "(?)"
	}
}

func coarseShape(tm *treeModel) string {
	if len(tm.leaves) <= 6 {
		return tm.shape
	}
	return fmt.Sprintf("leaves=%d width=%d par=%d seq=%d multi=%d", len(tm.leaves), tm.width, tm.nodes["parallel"], tm.nodes["sequence"], tm.nodes["multi"])
}

// ---------------------------------------------------------------------------------------------
// layer 1 drivers

type l1acc struct {
	keys map[string]bool
}

// l1PlanModes runs the structural check on the plan once per FetchInfo mode (with FetchInfo on
// every fetch = planner default; on none = plan.Configuration.DisableIncludeInfo; mixed).
func l1PlanModes(res *fw.Result, acc *l1acc, spec *planSpec, eager bool, salt uint64, modes ...infoMode) {
	for _, m := range modes {
		l1Plan(res, acc, spec.withInfo(m, salt), eager)
	}
}

func l1Plan(res *fw.Result, acc *l1acc, spec *planSpec, eager bool) {
	res.Count("l1_plans", 1)
	res.Count("l1_plans_fetchinfo_"+spec.Info.String(), 1)
	if spec.dupDepSetsDiffer() {
		// de-duplication merges fetches whose dependency sets differ: the survivor takes them all over
		res.Count("l1_plans_duplicates_with_differing_dependency_sets", 1)
	}
	if fan := spec.removedFanout(); fan >= 2 {
		// a duplicate that de-duplication removes has >= 2 dependants to rewire
		res.Count("l1_plans_removed_duplicate_with_2plus_dependants", 1)
		res.Count("l1_plans_removed_duplicate_with_2plus_dependants_fetchinfo_"+spec.Info.String(), 1)
	}
	for _, o := range allOptSets {
		resp, _, err := process(spec, o, eager)
		if err != nil {
			res.Inconclusive = "harness: " + err.Error()
			return
		}
		tm := buildTreeModel(resp.Fetches)
		res.Count("l1_dags_"+o.Name, 1)
		res.Count("l1_trees_walked", 1)
		if len(tm.problems) > 0 {
			res.Inconclusive = "monitor: cannot interpret tree: " + tm.problems[0] + " plan=" + spec.String() + " opt=" + o.Name
			res.Count("l1_uninterpretable_trees", 1)
			continue
		}
		st := checkStructure(res, spec, o, tm, func() map[string]any {
			return map[string]any{"plan": spec.String(), "opt": o.Name, "tree": dumpTree(resp.Fetches), "eager_input": eager, "fetch_info": spec.Info.String()}
		})
		res.Count("l1_dependency_edges_checked", int64(st.edges))
		res.Count("l1_dedupe_accounted", int64(st.accounted))
		for k, v := range tm.nodes {
			res.Count("tree_nodes_"+k, int64(v))
		}
		res.Observe("tree_shapes", coarseShape(tm))
		res.Observe("max_parallel_width", fmt.Sprintf("%02d", tm.width))
	}
	if spec.edges() > 0 {
		acc.keys[fw.HashKey(spec.canon())] = true
	}
}

// l1SubscriptionPlan: the same structural oracle on the response tree of a subscription plan
// (root carries the trigger; root-level fetches depend on the trigger's fetch id).
func l1SubscriptionPlan(res *fw.Result, spec *planSpec) {
	triggerID := 0
	for _, f := range spec.Fetches {
		if f.ID >= triggerID {
			triggerID = f.ID + 1
		}
	}
	res.Count("l1_subscription_plans", 1)
	for _, o := range allOptSets {
		resp, err := processAsSubscription(spec, o, triggerID)
		if err != nil {
			res.Inconclusive = "harness: " + err.Error()
			return
		}
		tm := buildTreeModelT(resp.Fetches, true)
		res.Count("l1_trees_walked", 1)
		res.Count("l1_subscription_trees", 1)
		if len(tm.problems) > 0 {
			res.Inconclusive = "monitor: cannot interpret tree: " + tm.problems[0] + " plan=" + spec.String() + " opt=" + o.Name + " (subscription)"
			res.Count("l1_uninterpretable_trees", 1)
			continue
		}
		st := checkStructure(res, spec, o, tm, func() map[string]any {
			return map[string]any{"plan": spec.String(), "opt": o.Name, "tree": dumpTree(resp.Fetches), "subscription_trigger_fetch_id": triggerID, "fetch_info": spec.Info.String()}
		})
		res.Count("l1_dependency_edges_checked", int64(st.edges))
		res.Count("l1_dedupe_accounted", int64(st.accounted))
		for k, v := range tm.nodes {
			res.Count("tree_nodes_"+k, int64(v))
		}
		res.Observe("tree_shapes", coarseShape(tm))
	}
}

func (a *l1acc) finish(res *fw.Result) {
	for k := range a.keys {
		res.Keys = append(res.Keys, k)
	}
	sort.Strings(res.Keys)
	res.Nontrivial = len(res.Keys) > 0
}

func runL1Exhaustive(c *fw.Ctx, res *fw.Result, idx, local int) {
	cases := l1ExhQuick
	if c.Tier == fw.Thorough {
		cases = l1ExhThorough
	}
	if local >= len(cases) {
		res.Inconclusive = "harness: exhaustive index out of range"
		return
	}
	cs := cases[local]
	acc := &l1acc{keys: map[string]bool{}}
	perms := permutations(cs.n)
	orders := perms
	if cs.n >= 5 {
		rng := c.Rng(idx, "orders")
		orders = [][]int{perms[0], perms[len(perms)-1]}
		for len(orders) < 4 {
			orders = append(orders, perms[rng.IntN(len(perms))])
		}
	}
	block := len(perms) / cs.parts
	idperms := perms[cs.part*block : (cs.part+1)*block]
	for i, idperm := range idperms {
		for j, order := range orders {
			// with FetchInfo: every (id assignment, raw order); without FetchInfo: all of them in the
			// thorough tier, a checkerboard half in the quick tier (every id assignment and every
			// raw order still meets the mode)
			modes := []infoMode{infoAll}
			if c.Tier == fw.Thorough || (i+j)%2 == 0 {
				modes = append(modes, infoNone)
			}
			l1PlanModes(res, acc, dagFromMask(cs.n, cs.mask, idperm, order), false, 0, modes...)
		}
	}
	res.Key = fw.HashKey("l1.exhaustive", cs.n, cs.mask, cs.part)
	res.Sample = map[string]any{"kind": "l1.exhaustive", "n": cs.n, "mask": cs.mask, "id_assignments": len(idperms), "id_assignment_block": fmt.Sprintf("%d/%d", cs.part+1, cs.parts), "raw_orders": len(orders), "option_sets": len(allOptSets), "fetch_info_modes": "all; none (quick: checkerboard half of id assignment x raw order)"}
	acc.finish(res)
}

const l1PlansPerCase = 16

func runL1Random(c *fw.Ctx, res *fw.Result, idx int, gen func(*rand.Rand) *planSpec) {
	rng := c.Rng(idx, "plans")
	acc := &l1acc{keys: map[string]bool{}}
	var first string
	for i := 0; i < l1PlansPerCase; i++ {
		spec := gen(rng)
		if i == 0 {
			first = spec.String()
		}
		eager := spec.Kind == "entity" && rng.IntN(4) == 0
		salt := rng.Uint64()
		// every plan with FetchInfo on all fetches and on none; every other plan also mixed. Plans
		// without duplicates and without merge candidates (plain, nested): none / mixed alternate.
		modes := []infoMode{infoAll, infoNone}
		if i%2 == 1 {
			modes = append(modes, infoMixed)
		}
		if (spec.Kind == "plain" || spec.Kind == "nested") && c.Tier != fw.Thorough {
			modes = []infoMode{infoAll, []infoMode{infoNone, infoMixed}[i%2]}
		}
		l1PlanModes(res, acc, spec, eager, salt, modes...)
		if i%4 == 3 {
			l1SubscriptionPlan(res, spec.withInfo([]infoMode{infoAll, infoNone, infoMixed}[(i/4)%3], salt))
		}
	}
	res.Sample = map[string]any{"plans": l1PlansPerCase, "first": first, "fetch_info_modes": "all,none (+mixed for every other plan; quick tier of plain/nested plans: all + none|mixed alternating)"}
	acc.finish(res)
}

// ---------------------------------------------------------------------------------------------
// layer 2 drivers

type l2params struct {
	allOrders   bool // enumerate every completion order (small plans)
	permCap     int
	flatRandom  int
	burst       int
	free        int
	passthrough bool
	eager       bool       // entity plans: printed Input instead of the SubgraphOperation artifact
	infoModes   []infoMode // FetchInfo modes the plan is executed under (nil = with FetchInfo only)
	infoSalt    uint64
}

type l2acc struct {
	stalled    bool
	keys       map[string]bool
	execCount  int
	concurrent bool
}

func l2Plan(c *fw.Ctx, res *fw.Result, acc *l2acc, idx int, spec *planSpec, rng *rand.Rand, p l2params) {
	modes := p.infoModes
	if len(modes) == 0 {
		modes = []infoMode{infoAll}
	}
	for _, m := range modes {
		l2PlanMode(c, res, acc, idx, spec.withInfo(m, p.infoSalt), rng, p)
		if acc.stalled || res.Inconclusive != "" && strings.HasPrefix(res.Inconclusive, "hang:") {
			return
		}
	}
}

func l2PlanMode(c *fw.Ctx, res *fw.Result, acc *l2acc, idx int, spec *planSpec, rng *rand.Rand, p l2params) {
	res.Count("l2_plans", 1)
	res.Count("l2_plans_fetchinfo_"+spec.Info.String(), 1)
	if spec.dupDepSetsDiffer() {
		res.Count("l2_plans_duplicates_with_differing_dependency_sets", 1)
	}
	if spec.removedFanout() >= 2 {
		res.Count("l2_plans_removed_duplicate_with_2plus_dependants_fetchinfo_"+spec.Info.String(), 1)
	}
	for _, o := range runtimeOptSets(spec.Kind) {
		resp, rt, err := process(spec, o, p.eager)
		if err != nil {
			res.Inconclusive = "harness: " + err.Error()
			return
		}
		tm := buildTreeModel(resp.Fetches)
		if len(tm.problems) > 0 {
			res.Inconclusive = "monitor: cannot interpret tree: " + tm.problems[0] + " plan=" + spec.String() + " opt=" + o.Name
			continue
		}
		witness := func() map[string]any {
			return map[string]any{"plan": spec.String(), "opt": o.Name, "tree": dumpTree(resp.Fetches), "eager_input": p.eager, "fetch_info": spec.Info.String()}
		}
		// the structural oracle applies here as well (a wrong tree explains a runtime finding)
		checkStructure(res, spec, o, tm, witness)
		res.Observe("tree_shapes", coarseShape(tm))
		res.Observe("max_parallel_width", fmt.Sprintf("%02d", tm.width))
		if tm.width >= 2 {
			res.Count("l2_plans_with_parallelism", 1)
		}

		var scheds []schedule
		if p.allOrders {
			seen := map[string]bool{}
			for _, prio := range permutations(len(tm.leaves)) {
				s := flatSchedule("flat", prio, fmt.Sprintf("flat%v", prio))
				k := fmt.Sprint(simulate(tm, s.key))
				if !seen[k] {
					seen[k] = true
					scheds = append(scheds, s)
				}
			}
			// the same orders are reachable through the hierarchical discipline; run it too so
			// that both controllers are exercised on the exhaustive space
			scheds = append(scheds, permSchedules(tm, rng, 2)...)
		} else {
			scheds = append(scheds, permSchedules(tm, rng, p.permCap)...)
			for i := 0; i < p.flatRandom; i++ {
				prio := rng.Perm(len(tm.leaves))
				scheds = append(scheds, flatSchedule("flat", prio, fmt.Sprintf("flat%v", prio)))
			}
		}
		for i := 0; i < p.burst; i++ {
			prio := rng.Perm(len(tm.leaves))
			scheds = append(scheds, flatSchedule("burst", prio, fmt.Sprintf("burst%v", prio)))
		}
		for i := 0; i < p.free; i++ {
			scheds = append(scheds, schedule{mode: "free", desc: "free"})
		}

		var base *normResponse
		var baseDesc string
		orders := map[string]bool{}
		unorderedFaults := 0
		if spec.faulty() {
			unorderedFaults = unorderedFaultPairs(spec, tm)
			if unorderedFaults > 0 {
				res.Count("l2_trees_with_differently_failing_parallel_fetches", 1)
			}
		}
		for _, sch := range scheds {
			acc.execCount++
			nonce := fmt.Sprintf("x%dx%d", idx, acc.execCount)
			env := newExecEnv(spec, tm, nonce, sch.mode != "free")
			env.dedupeOn = o.DedupeOn
			useArena := acc.execCount%2 == 0
			oc := execute(resp, rt, env, sch, p.passthrough, useArena, uint64(idx)<<20|uint64(acc.execCount))
			res.Count("l2_executions", 1)
			if useArena {
				res.Count("l2_executions_arena_entrypoint", 1)
			}
			res.Count("l2_executions_"+sch.mode, 1)
			if oc.hung {
				res.Inconclusive = "hang: resolve call did not return after all gates were opened and the context was cancelled; plan=" + spec.String() + " opt=" + o.Name
				return
			}
			if oc.panicMsg != "" {
				d := witness()
				d["stack"] = truncate(oc.panicStack, 6000)
				d["schedule"] = sch.desc
				res.Violate("panic", oc.panicMsg, map[string]string{"panic": fw.PanicSignature(oc.panicMsg, oc.panicStack)}, d)
				continue
			}
			if oc.stall != "" {
				res.Count("l2_stalls", 1)
				res.Count("l2_"+strings.SplitN(oc.stall, ":", 2)[0], 1)
				res.Inconclusive = oc.stall + "; plan=" + spec.String() + " opt=" + o.Name + " schedule=" + sch.desc
			}
			st := env.checkExecution(res, o, sch, &oc, witness)
			env.mu.Lock()
			maxInflight, hookDone := env.maxInflight, env.hookDone
			multiReqs := 0
			faultAnswers := map[string]int{}
			for _, r := range env.reqs {
				if r.aliases != nil {
					multiReqs++
				}
				if spec.faulty() {
					if f := spec.get(r.dsFetch); f != nil && f.Fail != failNone && r.relAt != 0 {
						faultAnswers[f.Fail.String()]++
					}
				}
			}
			env.mu.Unlock()
			res.Count("l2_requests", int64(st.requests))
			for mode, n := range faultAnswers {
				res.Count("l2_fault_answers_"+mode, int64(n))
			}
			res.Count("l2_multi_requests", int64(multiReqs))
			res.Count("l2_dependency_edges_checked", int64(st.edges))
			res.Count("l2_contents_checked", int64(st.contents))
			res.Count("l2_merge_events", int64(hookDone))
			res.Count("l2_parallel_groups_observed", int64(oc.groupSteps))
			res.Observe("max_inflight", fmt.Sprintf("%02d", maxInflight))
			if maxInflight >= 2 {
				acc.concurrent = true
			}
			if sch.mode != "free" && oc.stall == "" {
				orders[fmt.Sprint(oc.order)] = true
			}
			if oc.stall != "" {
				// The schedule was not the intended one, so the response is not compared. Every
				// further stall would cost another watchdog period: stop this case here (the
				// oracles above already ran on what was observed).
				acc.stalled = true
				return
			}
			// response comparison
			var nr normResponse
			if oc.err != nil {
				res.Count("l2_resolve_errors", 1)
				nr = normResponse{data: "RESOLVE ERROR: " + strings.ReplaceAll(oc.err.Error(), nonce, "N")}
			} else {
				var perr error
				nr, perr = normaliseResponse(oc.out, nonce)
				if perr != nil {
					d := witness()
					d["response"] = truncate(string(oc.out), 2000)
					d["schedule"] = sch.desc
					res.Violate("response.malformed", perr.Error(), map[string]string{"opt": o.Name, "plan_kind": spec.Kind, "fetch_info": spec.Info.String()}, d)
					continue
				}
				if !spec.faulty() {
					for _, f := range spec.Fetches {
						if !strings.Contains(nr.raw, fmt.Sprintf("t%d_N", spec.class(f.ID))) {
							res.Count("l2_responses_missing_value", 1)
							res.Inconclusive = fmt.Sprintf("response: value of fetch %d is not in the response %s; plan=%s opt=%s schedule=%s", f.ID, truncate(nr.raw, 400), spec.String(), o.Name, sch.desc)
							break
						}
					}
				}
			}
			if base == nil {
				base = &nr
				baseDesc = sch.desc
				continue
			}
			res.Count("l2_responses_compared", 1)
			if len(nr.errors) > 0 || len(base.errors) > 0 {
				res.Count("l2_error_multisets_compared", 1)
				if len(nr.errors) >= 2 && unorderedFaults > 0 {
					res.Count("l2_error_multisets_compared_2plus_errors_parallel_faults", 1)
				}
			}
			if ok, part := base.equal(nr); !ok {
				d := witness()
				d["schedule_a"] = baseDesc
				d["schedule_b"] = sch.desc
				d["response_a"] = truncate(base.raw+base.dataIfNoRaw(), 3000)
				d["response_b"] = truncate(nr.raw+nr.dataIfNoRaw(), 3000)
				d["trace_b"] = env.trace(env.reqs)
				match := map[string]string{"opt": o.Name, "plan_kind": spec.Kind, "part": part, "schedule": sch.mode, "fetch_info": spec.Info.String()}
				if part == "errors" {
					d["errors_a"] = base.errorsMP
					d["errors_b"] = nr.errorsMP
					match["error_count_differs"] = fmt.Sprint(len(base.errors) != len(nr.errors))
					match["messages_and_paths_differ"] = fmt.Sprint(!base.sameMessagesAndPaths(nr))
					match["fault_modes"] = spec.faultSet()
					match["passthrough"] = fmt.Sprint(p.passthrough)
				}
				res.Violate("response.order-dependent", "the response differs between two completion orders of the same plan ("+part+")", match, d)
			}
		}
		res.Count("l2_completion_orders", int64(len(orders)))
		res.Observe("completion_orders_per_plan", fmt.Sprintf("%03d", len(orders)))
	}
	if spec.edges() > 0 || spec.Kind == "faults" {
		acc.keys[fw.HashKey(spec.canon())] = true
	}
}

// unorderedFaultPairs: pairs of fetches that fail in different ways and are not ordered by the
// tree (their answers can be merged in either order).
func unorderedFaultPairs(spec *planSpec, tm *treeModel) int {
	n := 0
	for i := range spec.Fetches {
		for j := i + 1; j < len(spec.Fetches); j++ {
			a, b := &spec.Fetches[i], &spec.Fetches[j]
			if a.Fail == failNone || b.Fail == failNone || a.Fail == b.Fail {
				continue
			}
			la, oka := tm.leafOf[a.ID]
			lb, okb := tm.leafOf[b.ID]
			if oka && okb && la != lb && tm.relation(la, lb) == "parallel" {
				n++
			}
		}
	}
	return n
}

func (n normResponse) dataIfNoRaw() string {
	if n.raw == "" {
		return n.data
	}
	return ""
}

func (a *l2acc) finish(res *fw.Result) {
	if a.concurrent {
		for k := range a.keys {
			res.Keys = append(res.Keys, k)
		}
		sort.Strings(res.Keys)
	}
	res.Nontrivial = len(res.Keys) > 0
}

func runL2Exhaustive(c *fw.Ctx, res *fw.Result, idx, local int) {
	cases := exhFor(c.Tier)
	if local >= len(cases) {
		res.Inconclusive = "harness: exhaustive index out of range"
		return
	}
	cs := cases[local]
	acc := &l2acc{keys: map[string]bool{}}
	rng := c.Rng(idx, "l2")
	perms := permutations(cs.n)
	seen := map[string]bool{}
	plans := 0
	p := l2params{allOrders: true, burst: 1, free: 1}
	idperms := perms
	if cs.n >= 5 {
		// thorough only: all edge masks on 5 nodes, a seeded choice of id assignments, sampled schedules
		idperms = [][]int{perms[0]}
		for len(idperms) < 4 {
			idperms = append(idperms, perms[rng.IntN(len(perms))])
		}
		p = l2params{permCap: 24, flatRandom: 4, burst: 1, free: 1}
	}
	for _, idperm := range idperms {
		order := rng.Perm(cs.n)
		spec := dagFromMask(cs.n, cs.mask, idperm, order)
		k := spec.canon()
		if seen[k] {
			continue
		}
		seen[k] = true
		plans++
		l2Plan(c, res, acc, idx, spec, rng, p)
		if acc.stalled {
			break
		}
	}
	res.Key = fw.HashKey("l2.exhaustive", cs.n, cs.mask)
	res.Sample = map[string]any{"kind": "l2.exhaustive", "n": cs.n, "mask": cs.mask, "labelled_plans": plans, "executions": acc.execCount}
	acc.finish(res)
}

func runL2Random(c *fw.Ctx, res *fw.Result, idx int, gen func(*rand.Rand) *planSpec) {
	rng := c.Rng(idx, "l2")
	acc := &l2acc{keys: map[string]bool{}}
	spec := gen(rng)
	p := l2params{permCap: 24, flatRandom: 4, burst: 2, free: 1, passthrough: rng.IntN(2) == 0}
	p.eager = spec.Kind == "entity" && rng.IntN(5) == 0
	p.infoModes, p.infoSalt = l2InfoModes(spec.Kind, rng), rng.Uint64()
	l2Plan(c, res, acc, idx, spec, rng, p)
	res.Sample = map[string]any{"plan": spec.String(), "executions": acc.execCount, "fetch_info_modes": fmt.Sprint(p.infoModes)}
	acc.finish(res)
}

// l2InfoModes: FetchInfo modes a layer-2 plan is executed under. Plans with duplicates run with
// FetchInfo on every fetch AND on none (de-duplication rewires dependants either way), every third
// one also mixed; the other kinds run under one seeded mode.
func l2InfoModes(kind string, rng *rand.Rand) []infoMode {
	if kind == "dup" || kind == "branch" {
		m := []infoMode{infoAll, infoNone}
		if rng.IntN(3) == 0 {
			m = append(m, infoMixed)
		}
		return m
	}
	switch x := rng.IntN(10); {
	case x < 5:
		return []infoMode{infoAll}
	case x < 8:
		return []infoMode{infoNone}
	default:
		return []infoMode{infoMixed}
	}
}
