package c08

import (
	"context"
	"fmt"
	"net/http"
	"strings"
	"sync/atomic"

	"github.com/wundergraph/graphql-go-tools/v2/pkg/ast"
	"github.com/wundergraph/graphql-go-tools/v2/pkg/astparser"
	"github.com/wundergraph/graphql-go-tools/v2/pkg/engine/datasource/httpclient"
	"github.com/wundergraph/graphql-go-tools/v2/pkg/engine/plan"
	"github.com/wundergraph/graphql-go-tools/v2/pkg/engine/postprocess"
	"github.com/wundergraph/graphql-go-tools/v2/pkg/engine/resolve"
)

// ---------------------------------------------------------------------------------------------
// option sets

type optSet struct {
	Name     string
	Opts     func() []postprocess.ProcessorOption
	DedupeOn bool
	Multi    bool
	Sched    bool
	Serial   bool
}

func mkOpts(sched, multi, dedupe, serial bool) optSet {
	name := "waves"
	if sched {
		name = "sched"
	}
	if serial {
		name = "serial"
	}
	if multi {
		name += "+multi"
	}
	if !dedupe {
		name += "-dedupe"
	}
	return optSet{Name: name, DedupeOn: dedupe, Multi: multi, Sched: sched, Serial: serial, Opts: func() []postprocess.ProcessorOption {
		var o []postprocess.ProcessorOption
		if sched {
			o = append(o, postprocess.EnableScheduleFetches())
		}
		if multi {
			o = append(o, postprocess.EnableMultiFetch())
		}
		if !dedupe {
			o = append(o, postprocess.DisableDeduplicateSingleFetches())
		}
		if serial {
			o = append(o, postprocess.DisableCreateParallelNodes())
		}
		return o
	}}
}

// every scheduling option set of the post-processor: default waves / nested scheduler, each with
// and without the multi-fetch merge and with and without single-fetch de-duplication, plus the
// purely sequential tree (parallel grouping disabled).
var allOptSets = []optSet{
	mkOpts(false, false, true, false),
	mkOpts(false, true, true, false),
	mkOpts(true, false, true, false),
	mkOpts(true, true, true, false),
	mkOpts(false, false, false, false),
	mkOpts(false, true, false, false),
	mkOpts(true, false, false, false),
	mkOpts(true, true, false, false),
	mkOpts(false, false, true, true),
	mkOpts(false, true, true, true),
}

// option sets executed by layer 2 (the trees of the others differ only when duplicates exist)
func runtimeOptSets(kind string) []optSet {
	switch kind {
	case "dup":
		return []optSet{allOptSets[0], allOptSets[2], allOptSets[4], allOptSets[6], allOptSets[3]}
	case "branch": // no merge candidates; one tree without de-duplication as control
		return []optSet{allOptSets[0], allOptSets[2], allOptSets[4]}
	case "entity":
		return []optSet{allOptSets[0], allOptSets[1], allOptSets[2], allOptSets[3]}
	default:
		return []optSet{allOptSets[0], allOptSets[2], allOptSets[3]}
	}
}

// ---------------------------------------------------------------------------------------------
// fake data sources

// planRuntime is shared by the data sources of one built plan; env is the execution currently
// running on it (nil in layer 1, where nothing is ever loaded).
type planRuntime struct {
	spec *planSpec
	env  atomic.Pointer[execEnv]
}

type fakeDS struct {
	rt  *planRuntime
	fid int
}

func (d *fakeDS) Load(ctx context.Context, headers http.Header, input []byte) ([]byte, error) {
	env := d.rt.env.Load()
	if env == nil {
		return nil, fmt.Errorf("c08: data source of fetch %d loaded outside an execution", d.fid)
	}
	return env.load(ctx, d.fid, input)
}

func (d *fakeDS) LoadWithFiles(ctx context.Context, headers http.Header, input []byte, files []*httpclient.FileUpload) ([]byte, error) {
	return d.Load(ctx, headers, input)
}

// ---------------------------------------------------------------------------------------------
// spec -> GraphQLResponse

const entityTypeName = "T"

var listIDs = []string{"L0", "L1"} // ids of the two items of the list "l"
const entityID = "E0"

func entityQuery(fid int) string {
	return fmt.Sprintf(`query($representations: [_Any!]!){_entities(representations: $representations){... on %s {r%d}}}`, entityTypeName, fid)
}

func strField(name string, path ...string) *resolve.Field {
	return &resolve.Field{Name: []byte(name), Value: &resolve.String{Path: path, Nullable: true}}
}

// buildResponse creates a fresh, unprocessed response for spec. eager: entity fetches carry a
// printed Input and no SubgraphOperation artifact (the planner's mode when merging is off).
func buildResponse(spec *planSpec, eager bool) (*resolve.GraphQLResponse, *planRuntime, error) {
	rt := &planRuntime{spec: spec}
	resp := &resolve.GraphQLResponse{
		Info: &resolve.GraphQLResponseInfo{OperationType: ast.OperationTypeQuery},
	}
	for i := range spec.Fetches {
		f := &spec.Fetches[i]
		var item *resolve.FetchItem
		var err error
		switch spec.Kind {
		case "entity":
			item, err = buildEntityKindFetch(spec, rt, f, eager)
		case "branch":
			item = buildBranchFetch(spec, rt, f)
		default:
			item = buildPlainFetch(spec, rt, f)
		}
		if err != nil {
			return nil, nil, err
		}
		if !spec.hasInfo(f.ID) {
			// plan.Configuration.DisableIncludeInfo (or a hand-built plan): the fetch carries no FetchInfo
			if sf, ok := item.Fetch.(*resolve.SingleFetch); ok {
				sf.Info = nil
			}
		}
		resp.RawFetches = append(resp.RawFetches, item)
	}
	switch spec.Kind {
	case "entity":
		resp.Data = entityDataTree(spec)
	case "branch":
		resp.Data = branchDataTree(spec)
	default:
		resp.Data = plainDataTree(spec)
	}
	return resp, rt, nil
}

// ---------------------------------------------------------------------------------------------
// branch kind: type-conditioned branches of an abstract list (see randomBranch)

const brOwnerType = "U"

func brSelection(f *fetchSpec) string {
	switch f.Flavor {
	case flBrProvider:
		if f.DS == 1 {
			return fmt.Sprintf(`... on %s {p%d o {__typename id}}`, f.Type, f.ID)
		}
		return fmt.Sprintf(`... on %s {p%d}`, f.Type, f.ID)
	case flBrOwner:
		return `... on ` + brOwnerType + ` {name}` // the same request for every branch
	default:
		return fmt.Sprintf(`... on %s {x%d}`, brOwnerType, f.ID)
	}
}

// brRepresentationFields: names of the fields (besides __typename and id) a branch-kind fetch
// sends per entity = what it reads from its dependencies.
func (p *planSpec) brRepresentationFields(f *fetchSpec) []string {
	var out []string
	switch f.Flavor {
	case flBrProvider:
		for _, d := range f.Deps {
			if df := p.get(d); df != nil && df.Flavor == flBrProvider {
				out = append(out, fmt.Sprintf("p%d", d))
			}
		}
	case flBrReader:
		out = append(out, "name")
	}
	return out
}

func buildBranchFetch(spec *planSpec, rt *planRuntime, f *fetchSpec) *resolve.FetchItem {
	info := func(name string) *resolve.FetchInfo {
		return &resolve.FetchInfo{DataSourceID: name, DataSourceName: name, OperationType: ast.OperationTypeQuery}
	}
	if f.Root {
		sf := &resolve.SingleFetch{
			FetchDependencies: resolve.FetchDependencies{FetchID: f.ID},
			FetchConfiguration: resolve.FetchConfiguration{
				Input:      fmt.Sprintf(`{"id":%d,"deps":[]}`, f.ID),
				DataSource: &fakeDS{rt: rt, fid: f.ID},
				PostProcessing: resolve.PostProcessingConfiguration{
					SelectResponseDataPath:   []string{"data"},
					SelectResponseErrorsPath: []string{"errors"},
				},
			},
			Info: info("root"),
		}
		return resolve.FetchItemWithPath(sf, "")
	}
	var onTypes [][]byte
	if f.Flavor == flBrProvider {
		// a provider works on the items of its type only: the representation renders for those
		onTypes = [][]byte{[]byte(f.Type)}
	}
	fields := []*resolve.Field{
		{Name: []byte("__typename"), Value: &resolve.String{Path: []string{"__typename"}}, OnTypeNames: onTypes},
		{Name: []byte("id"), Value: &resolve.String{Path: []string{"id"}}, OnTypeNames: onTypes},
	}
	for _, name := range spec.brRepresentationFields(f) {
		fields = append(fields, &resolve.Field{Name: []byte(name), Value: &resolve.String{Path: []string{name}, Nullable: true}, OnTypeNames: onTypes})
	}
	subgraph := map[flavor]string{flBrProvider: "items", flBrOwner: "users", flBrReader: "users"}[f.Flavor]
	query := `query($representations: [_Any!]!){_entities(representations: $representations){` + brSelection(f) + `}}`
	sf := &resolve.SingleFetch{
		FetchDependencies: resolve.FetchDependencies{FetchID: f.ID, DependsOnFetchIDs: append([]int(nil), f.Deps...)},
		FetchConfiguration: resolve.FetchConfiguration{
			Input:                                 string(httpclient.AssembleGraphQLRequestInput([]byte(`{"representations":[$$0$$]}`), []byte(query), nil, "http://"+subgraph, "POST")),
			Variables:                             resolve.NewVariables(resolve.NewResolvableObjectVariable(&resolve.Object{Fields: fields})),
			DataSource:                            &fakeDS{rt: rt, fid: f.ID},
			RequiresEntityBatchFetch:              true,
			SetTemplateOutputToNullOnVariableNull: true,
			PostProcessing: resolve.PostProcessingConfiguration{
				SelectResponseDataPath:   []string{"data", "_entities"},
				SelectResponseErrorsPath: []string{"errors"},
			},
		},
		Info: info(subgraph),
	}
	if f.Flavor == flBrProvider {
		return resolve.FetchItemWithPath(sf, "l.@", resolve.ArrayPath("l"))
	}
	o := resolve.ObjectPath("o")
	if f.Type != "" {
		o = resolve.PathElementWithTypeNames(o, []string{f.Type})
	}
	return resolve.FetchItemWithPath(sf, "l.@.o", resolve.ArrayPath("l"), o)
}

func branchDataTree(spec *planSpec) *resolve.Object {
	root := &resolve.Object{}
	item := &resolve.Object{Nullable: true, Fields: []*resolve.Field{strField("id", "id")}}
	owner := &resolve.Object{Path: []string{"o"}, Nullable: true, Fields: []*resolve.Field{strField("id", "id"), strField("name", "name")}}
	for _, f := range spec.Fetches {
		switch {
		case f.Root:
			root.Fields = append(root.Fields, strField(fmt.Sprintf("r%d", f.ID), fmt.Sprintf("r%d", f.ID)))
		case f.Flavor == flBrProvider:
			item.Fields = append(item.Fields, strField(fmt.Sprintf("p%d", f.ID), fmt.Sprintf("p%d", f.ID)))
		case f.Flavor == flBrReader:
			owner.Fields = append(owner.Fields, strField(fmt.Sprintf("x%d", f.ID), fmt.Sprintf("x%d", f.ID)))
		}
	}
	item.Fields = append(item.Fields, &resolve.Field{Name: []byte("o"), Value: owner})
	root.Fields = append(root.Fields, &resolve.Field{Name: []byte("l"), Value: &resolve.Array{Path: []string{"l"}, Nullable: true, Item: item}})
	return root
}

func plainInputTemplate(spec *planSpec, f *fetchSpec) (string, []resolve.Variable) {
	var b strings.Builder
	fmt.Fprintf(&b, `{"id":%d,"deps":[`, spec.class(f.ID))
	var vars []resolve.Variable
	for i, r := range spec.plainReads(f) {
		if i > 0 {
			b.WriteString(",")
		}
		fmt.Fprintf(&b, "$$%d$$", i)
		vars = append(vars, &resolve.ObjectVariable{Path: r.Path, Renderer: resolve.NewJSONVariableRenderer()})
	}
	b.WriteString("]}")
	return b.String(), vars
}

func buildPlainFetch(spec *planSpec, rt *planRuntime, f *fetchSpec) *resolve.FetchItem {
	input, vars := plainInputTemplate(spec, f)
	sf := &resolve.SingleFetch{
		FetchDependencies: resolve.FetchDependencies{FetchID: f.ID, DependsOnFetchIDs: append([]int(nil), f.Deps...)},
		FetchConfiguration: resolve.FetchConfiguration{
			Input:      input,
			Variables:  resolve.NewVariables(vars...),
			DataSource: &fakeDS{rt: rt, fid: f.ID},
			PostProcessing: resolve.PostProcessingConfiguration{
				SelectResponseDataPath:   []string{"data"},
				SelectResponseErrorsPath: []string{"errors"},
			},
		},
		Info: &resolve.FetchInfo{
			// duplicates target the same subgraph; the data source *object* still tells them apart
			DataSourceID:   fmt.Sprint("s", spec.class(f.ID)),
			DataSourceName: fmt.Sprint("s", spec.class(f.ID)),
			OperationType:  ast.OperationTypeQuery,
		},
	}
	if f.MergeM {
		sf.PostProcessing.MergePath = []string{fmt.Sprintf("m%d", spec.class(f.ID))}
	}
	item := spec.itemPath(f.ID)
	var fp []resolve.FetchItemPathElement
	for _, el := range item {
		fp = append(fp, resolve.ObjectPath(el))
	}
	return resolve.FetchItemWithPath(sf, strings.Join(item, "."), fp...)
}

func plainDataTree(spec *planSpec) *resolve.Object {
	children := map[int][]int{} // parent id -> child ids (class representatives only)
	var roots []int
	seen := map[int]bool{}
	for _, f := range spec.Fetches {
		c := spec.class(f.ID)
		if seen[c] {
			continue
		}
		seen[c] = true
		cf := spec.get(c)
		if cf.Parent >= 0 {
			children[spec.class(cf.Parent)] = append(children[spec.class(cf.Parent)], c)
		} else {
			roots = append(roots, c)
		}
	}
	var fieldFor func(id int) *resolve.Field
	fieldFor = func(id int) *resolve.Field {
		o := &resolve.Object{Path: []string{fmt.Sprintf("f%d", id)}, Nullable: true}
		o.Fields = append(o.Fields, strField("v", "v"))
		for _, c := range children[id] {
			o.Fields = append(o.Fields, fieldFor(c))
		}
		fld := &resolve.Field{Name: []byte(fmt.Sprintf("f%d", id)), Value: o}
		if spec.get(id).MergeM {
			m := fmt.Sprintf("m%d", id)
			fld = &resolve.Field{Name: []byte(m), Value: &resolve.Object{Path: []string{m}, Nullable: true, Fields: []*resolve.Field{fld}}}
		}
		return fld
	}
	root := &resolve.Object{}
	for _, r := range roots {
		root.Fields = append(root.Fields, fieldFor(r))
	}
	return root
}

// representationNode: what an entity fetch sends per entity = key fields + one field per
// dependency whose value lives on the same object.
func representationNode(spec *planSpec, f *fetchSpec) *resolve.Object {
	o := &resolve.Object{Nullable: true}
	o.Fields = append(o.Fields, strField("__typename", "__typename"), strField("id", "id"))
	for _, d := range spec.entityReads(f) {
		o.Fields = append(o.Fields, strField(fmt.Sprintf("d%d", d), fmt.Sprintf("r%d", d)))
	}
	return o
}

func buildEntityKindFetch(spec *planSpec, rt *planRuntime, f *fetchSpec, eager bool) (*resolve.FetchItem, error) {
	if f.Root {
		sf := &resolve.SingleFetch{
			FetchDependencies: resolve.FetchDependencies{FetchID: f.ID},
			FetchConfiguration: resolve.FetchConfiguration{
				Input:      fmt.Sprintf(`{"id":%d,"deps":[]}`, f.ID),
				DataSource: &fakeDS{rt: rt, fid: f.ID},
				PostProcessing: resolve.PostProcessingConfiguration{
					SelectResponseDataPath:   []string{"data"},
					SelectResponseErrorsPath: []string{"errors"},
				},
			},
			Info: &resolve.FetchInfo{DataSourceID: fmt.Sprint("root", f.ID), DataSourceName: fmt.Sprint("root", f.ID), OperationType: ast.OperationTypeQuery},
		}
		return resolve.FetchItemWithPath(sf, ""), nil
	}
	doc, report := astparser.ParseGraphqlDocumentString(entityQuery(f.ID))
	if report.HasErrors() {
		return nil, fmt.Errorf("entity query does not parse: %s", report.Error())
	}
	url := fmt.Sprintf("http://sg%d", f.DS)
	sf := &resolve.SingleFetch{
		FetchDependencies: resolve.FetchDependencies{FetchID: f.ID, DependsOnFetchIDs: append([]int(nil), f.Deps...)},
		FetchConfiguration: resolve.FetchConfiguration{
			Variables:                             resolve.NewVariables(resolve.NewResolvableObjectVariable(representationNode(spec, f))),
			DataSource:                            &fakeDS{rt: rt, fid: f.ID},
			SetTemplateOutputToNullOnVariableNull: true,
			PostProcessing: resolve.PostProcessingConfiguration{
				SelectResponseErrorsPath: []string{"errors"},
			},
		},
		Info: &resolve.FetchInfo{DataSourceID: fmt.Sprint("sg", f.DS), DataSourceName: fmt.Sprint("sg", f.DS), OperationType: ast.OperationTypeQuery},
	}
	if eager {
		sf.Input = string(httpclient.AssembleGraphQLRequestInput([]byte(`{"representations":[$$0$$]}`), []byte(entityQuery(f.ID)), nil, url, "POST"))
	} else {
		sf.SubgraphOperation = &resolve.SubgraphOperation{
			Document:  &doc,
			Variables: []resolve.SubgraphVariable{{Name: "representations", Value: []byte("[$$0$$]")}},
			Envelope:  resolve.SubgraphRequestEnvelope{Method: "POST", URL: url},
		}
	}
	if f.Flavor == flBatch {
		sf.RequiresEntityBatchFetch = true
		sf.PostProcessing.SelectResponseDataPath = []string{"data", "_entities"}
		return resolve.FetchItemWithPath(sf, "l.@", resolve.ArrayPath("l")), nil
	}
	sf.RequiresEntityFetch = true
	sf.PostProcessing.SelectResponseDataPath = []string{"data", "_entities", "0"}
	return resolve.FetchItemWithPath(sf, "e", resolve.ObjectPath("e")), nil
}

func entityDataTree(spec *planSpec) *resolve.Object {
	fields := func(fl flavor) []*resolve.Field {
		out := []*resolve.Field{strField("id", "id")}
		for _, f := range spec.Fetches {
			if f.Root || f.Flavor == fl {
				out = append(out, strField(fmt.Sprintf("r%d", f.ID), fmt.Sprintf("r%d", f.ID)))
			}
		}
		return out
	}
	return &resolve.Object{Fields: []*resolve.Field{
		{Name: []byte("e"), Value: &resolve.Object{Path: []string{"e"}, Nullable: true, Fields: fields(flEntity)}},
		{Name: []byte("l"), Value: &resolve.Array{Path: []string{"l"}, Nullable: true, Item: &resolve.Object{Nullable: true, Fields: fields(flBatch)}}},
	}}
}

// process runs the real post-processor over a fresh response of spec.
func process(spec *planSpec, o optSet, eager bool) (*resolve.GraphQLResponse, *planRuntime, error) {
	resp, rt, err := buildResponse(spec, eager)
	if err != nil {
		return nil, nil, err
	}
	postprocess.NewProcessor(o.Opts()...).Process(&plan.SynchronousResponsePlan{Response: resp})
	return resp, rt, nil
}

// processAsSubscription runs the same plan as the response part of a subscription plan: the
// root of the fetch tree carries the trigger (fetch id triggerID, not part of the tree) and the
// root-level fetches without dependencies depend on the trigger's fetch id, as in planner output.
func processAsSubscription(spec *planSpec, o optSet, triggerID int) (*resolve.GraphQLResponse, error) {
	resp, _, err := buildResponse(spec, false)
	if err != nil {
		return nil, err
	}
	for _, item := range resp.RawFetches {
		d := item.Fetch.Dependencies()
		// only root-level fetches: a nested fetch without declared dependencies is the case the
		// response-path rule exists for, and giving it a dependency would switch that rule off
		if len(d.DependsOnFetchIDs) == 0 && item.ResponsePath == "" {
			d.DependsOnFetchIDs = []int{triggerID}
		}
	}
	if len(resp.Data.Fields) > 0 {
		resp.Data.Fields[0].Info = &resolve.FieldInfo{
			Name:    string(resp.Data.Fields[0].Name),
			FetchID: triggerID,
			Source:  resolve.TypeFieldSource{IDs: []string{"trigger"}, Names: []string{"trigger"}},
		}
	}
	resp.Info.OperationType = ast.OperationTypeSubscription
	sub := &resolve.GraphQLSubscription{Response: resp, Trigger: resolve.GraphQLSubscriptionTrigger{Input: []byte(`{"trigger":true}`)}}
	postprocess.NewProcessor(o.Opts()...).Process(&plan.SubscriptionResponsePlan{Response: sub})
	return resp, nil
}
