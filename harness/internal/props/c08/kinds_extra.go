package c08

import (
	"fmt"
	"math/rand/v2"

	"verifharness/internal/fw"
)

// Further case kinds, appended after the base kinds (the indexes of the base kinds do not move).
//
//	l1.dupfan / l2.dupfan : directed shapes for the rewiring that de-duplication has to do: a
//	    fetch with 1..2 exact duplicates and 2..5 dependants spread over the copies, under every
//	    FetchInfo mode (the planner's DisableIncludeInfo produces fetches without FetchInfo).
//	l2.faults : ONE group of 2..4 independent fetches failing in pairwise different ways (GraphQL
//	    errors with / without data, transport error, non-2xx with a non-JSON body, non-2xx with
//	    data:null, data:null without errors, empty body), every completion order of the group;
//	    oracle = the response comparison of layer 2 (data bytes equal, errors equal as a multiset).
func init() {
	registerKinds(
		kindDef{"l1.dupfan", tiered(60, 900), func(c *fw.Ctx, res *fw.Result, idx, local int) {
			runL1Random(c, res, idx, randomDupFan)
		}},
		kindDef{"l2.dupfan", tiered(50, 750), func(c *fw.Ctx, res *fw.Result, idx, local int) {
			runL2Random(c, res, idx, randomDupFan)
		}},
		kindDef{"l2.faults", tiered(120, 1800), runL2Faults},
		// l1.branch / l2.branch: type-conditioned branches of an abstract list selecting the same
		// relation (randomBranch): the de-duplicated owner fetch has to wait for the providers of
		// every branch it serves (duplicates with DIFFERENT dependency sets).
		kindDef{"l1.branch", tiered(30, 450), func(c *fw.Ctx, res *fw.Result, idx, local int) {
			runL1Random(c, res, idx, randomBranch)
		}},
		kindDef{"l2.branch", tiered(36, 540), runL2Branch},
	)
}

func runL2Faults(c *fw.Ctx, res *fw.Result, idx, local int) {
	rng := c.Rng(idx, "l2")
	acc := &l2acc{keys: map[string]bool{}}
	spec := randomFaults(rng)
	// at most 6 fetches: every completion order the tree allows is executed
	p := l2params{allOrders: true, burst: 1, free: 1, passthrough: rng.IntN(2) == 0}
	p.infoModes, p.infoSalt = l2InfoModes(spec.Kind, rng), rng.Uint64()
	l2Plan(c, res, acc, idx, spec, rng, p)
	res.Sample = map[string]any{"plan": spec.String(), "executions": acc.execCount, "fault_modes": spec.faultSet(), "fetch_info_modes": fmt.Sprint(p.infoModes), "passthrough_errors": p.passthrough}
	acc.finish(res)
}

func runL2Branch(c *fw.Ctx, res *fw.Result, idx, local int) {
	rng := c.Rng(idx, "l2")
	acc := &l2acc{keys: map[string]bool{}}
	spec := randomBranch(rng)
	p := l2params{permCap: 12, flatRandom: 3, burst: 1, free: 1, passthrough: rng.IntN(2) == 0}
	if c.Tier == fw.Thorough {
		p.permCap, p.flatRandom, p.burst = 24, 4, 2
	}
	p.infoModes, p.infoSalt = l2InfoModes(spec.Kind, rng), rng.Uint64()
	l2Plan(c, res, acc, idx, spec, rng, p)
	res.Sample = map[string]any{"plan": spec.String(), "executions": acc.execCount, "fetch_info_modes": fmt.Sprint(p.infoModes)}
	acc.finish(res)
}

var _ = rand.IntN
