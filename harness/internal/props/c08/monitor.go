package c08

import (
	"fmt"
	"sort"
	"strings"

	"verifharness/internal/fw"

	"github.com/wundergraph/graphql-go-tools/v2/pkg/engine/resolve"
)

// ---------------------------------------------------------------------------------------------
// tree model: the processed FetchTreeNode read under Sequence/Parallel semantics.
//   Single   : one request (leaf); it stands for one planned fetch, or for several when the
//              fetch is a MultiEntityFetch (MergedFetchIDs)
//   Sequence : children run one after the other, each starts when the previous one completed
//   Parallel : all children start together, the node completes when all of them completed

type pathStep struct {
	par   bool
	node  int // ordinal of the Parallel node (index into treeModel.parSizes); -1 for Sequence
	child int
}

type leafInfo struct {
	idx     int
	ids     []int  // planned fetch ids this request stands for
	fetchID int    // FetchID carried by the tree
	kind    string // single | entity | batch | multi
	preds   uint64 // leaves guaranteed complete before this one starts (bit = leaf index)
	path    []pathStep
}

type treeModel struct {
	leaves   []leafInfo
	leafOf   map[int]int // planned id -> leaf index (first occurrence)
	count    map[int]int // planned id -> number of leaves it appears in
	parSizes []int       // child count of every Parallel node
	problems []string    // nodes the model cannot interpret
	shape    string
	width    int // maximal number of simultaneously running requests the tree allows
	nodes    map[string]int
}

func buildTreeModel(root *resolve.FetchTreeNode) *treeModel { return buildTreeModelT(root, false) }

// triggerOK: the root may carry a subscription trigger (a node outside the executed tree).
func buildTreeModelT(root *resolve.FetchTreeNode, triggerOK bool) *treeModel {
	tm := &treeModel{leafOf: map[int]int{}, count: map[int]int{}, nodes: map[string]int{}}
	var sb strings.Builder
	var walk func(n *resolve.FetchTreeNode, done uint64, path []pathStep) (uint64, int)
	walk = func(n *resolve.FetchTreeNode, done uint64, path []pathStep) (uint64, int) {
		if n == nil {
			sb.WriteString("nil")
			return done, 0
		}
		switch n.Kind {
		case resolve.FetchTreeNodeKindSingle:
			if n.Item == nil || n.Item.Fetch == nil {
				tm.problems = append(tm.problems, "Single node without item/fetch")
				sb.WriteString("?")
				return done, 0
			}
			if len(n.ChildNodes) != 0 {
				tm.problems = append(tm.problems, "Single node with child nodes")
			}
			lf := leafInfo{idx: len(tm.leaves), preds: done, path: append([]pathStep(nil), path...)}
			switch f := n.Item.Fetch.(type) {
			case *resolve.SingleFetch:
				lf.kind, lf.fetchID, lf.ids = "single", f.FetchID, []int{f.FetchID}
			case *resolve.EntityFetch:
				lf.kind, lf.fetchID, lf.ids = "entity", f.FetchID, []int{f.FetchID}
			case *resolve.BatchEntityFetch:
				lf.kind, lf.fetchID, lf.ids = "batch", f.FetchID, []int{f.FetchID}
			case *resolve.MultiEntityFetch:
				lf.kind, lf.fetchID = "multi", f.FetchID
				lf.ids = append([]int(nil), f.MergedFetchIDs...)
				if !containsInt(lf.ids, f.FetchID) {
					tm.problems = append(tm.problems, fmt.Sprintf("multi fetch %d does not list itself in MergedFetchIDs %v", f.FetchID, f.MergedFetchIDs))
				}
				if len(f.Input.Entries) != len(f.MergedFetchIDs) {
					tm.problems = append(tm.problems, fmt.Sprintf("multi fetch %d: %d entries for %d merged ids", f.FetchID, len(f.Input.Entries), len(f.MergedFetchIDs)))
				}
			default:
				tm.problems = append(tm.problems, fmt.Sprintf("unknown fetch type %T", n.Item.Fetch))
				sb.WriteString("?")
				return done, 0
			}
			if lf.idx >= 64 {
				tm.problems = append(tm.problems, "more than 64 leaves")
				return done, 0
			}
			tm.nodes[lf.kind]++
			for _, id := range lf.ids {
				if _, ok := tm.leafOf[id]; !ok {
					tm.leafOf[id] = lf.idx
				}
				tm.count[id]++
			}
			tm.leaves = append(tm.leaves, lf)
			if lf.kind == "multi" {
				fmt.Fprintf(&sb, "m%d", len(lf.ids))
			} else {
				sb.WriteString(lf.kind[:1])
			}
			return done | 1<<uint(lf.idx), 1
		case resolve.FetchTreeNodeKindSequence:
			tm.nodes["sequence"]++
			sb.WriteString("S(")
			cur := done
			w := 0
			for i, c := range n.ChildNodes {
				if i > 0 {
					sb.WriteString(",")
				}
				var cw int
				cur, cw = walk(c, cur, append(path, pathStep{par: false, node: -1, child: i}))
				if cw > w {
					w = cw
				}
			}
			sb.WriteString(")")
			return cur, w
		case resolve.FetchTreeNodeKindParallel:
			tm.nodes["parallel"]++
			ord := len(tm.parSizes)
			tm.parSizes = append(tm.parSizes, len(n.ChildNodes))
			sb.WriteString("P(")
			out := done
			w := 0
			for i, c := range n.ChildNodes {
				if i > 0 {
					sb.WriteString(",")
				}
				r, cw := walk(c, done, append(path, pathStep{par: true, node: ord, child: i}))
				out |= r
				w += cw
			}
			sb.WriteString(")")
			return out, w
		default:
			tm.problems = append(tm.problems, fmt.Sprintf("node kind %q", n.Kind))
			sb.WriteString("?")
			return done, 0
		}
	}
	_, tm.width = walk(root, 0, nil)
	if root != nil && root.Trigger != nil && triggerOK {
		tm.nodes["trigger"]++
		if root.Trigger.Kind != resolve.FetchTreeNodeKindTrigger {
			tm.problems = append(tm.problems, fmt.Sprintf("trigger node of kind %q", root.Trigger.Kind))
		}
	} else if root != nil && root.Trigger != nil {
		tm.problems = append(tm.problems, "root carries a subscription trigger")
	}
	tm.shape = sb.String()
	return tm
}

// relation of two distinct leaves under the tree semantics
func (tm *treeModel) relation(before, after int) string {
	switch {
	case tm.leaves[after].preds&(1<<uint(before)) != 0:
		return "before"
	case tm.leaves[before].preds&(1<<uint(after)) != 0:
		return "later"
	default:
		return "parallel"
	}
}

// ---------------------------------------------------------------------------------------------
// layer 1 oracle

type structStats struct {
	edges      int
	accounted  int
	violations int
}

// checkStructure applies the statement to one processed tree:
//   - every planned fetch appears exactly once — as itself, as a member of a merged request, or
//     (de-duplication enabled) through the first fetch of its duplicate class;
//   - for every fetch f and every d whose result f reads, the request standing for d completes
//     before the request standing for f starts (never the same request, a parallel sibling, or later).
func checkStructure(res *fw.Result, spec *planSpec, o optSet, tm *treeModel, witness func() map[string]any) structStats {
	var st structStats
	viol := func(kind, msg string, match map[string]string) {
		st.violations++
		match["opt"] = o.Name
		match["plan_kind"] = spec.Kind
		match["sched"] = fmt.Sprint(o.Sched)
		match["multi"] = fmt.Sprint(o.Multi)
		match["dedupe"] = fmt.Sprint(o.DedupeOn)
		match["fetch_info"] = spec.Info.String()
		d := witness()
		d["problem"] = msg
		res.Violate(kind, msg, match, d)
	}
	// who stands for a planned id
	standIn := func(id int) (leaf int, via string, ok bool) {
		if tm.count[id] >= 1 {
			return tm.leafOf[id], "self", true
		}
		if o.DedupeOn {
			if r := spec.rep(id); r != id && tm.count[r] >= 1 {
				return tm.leafOf[r], "dedupe", true
			}
		}
		return -1, "", false
	}
	planned := map[int]bool{}
	for i := range spec.Fetches {
		f := &spec.Fetches[i]
		planned[f.ID] = true
		switch c := tm.count[f.ID]; {
		case c > 1:
			viol("tree.duplicate-fetch", fmt.Sprintf("fetch %d appears %d times in the fetch tree", f.ID, c), map[string]string{})
		case c == 0:
			if _, via, ok := standIn(f.ID); ok && via == "dedupe" {
				st.accounted++
			} else {
				viol("tree.missing-fetch", fmt.Sprintf("fetch %d does not appear in the fetch tree and no merge accounts for it", f.ID), map[string]string{})
			}
		}
	}
	var extra []int
	for id := range tm.count {
		if !planned[id] {
			extra = append(extra, id)
		}
	}
	sort.Ints(extra)
	for _, id := range extra {
		viol("tree.unknown-fetch", fmt.Sprintf("fetch id %d in the tree was never planned", id), map[string]string{})
	}
	for i := range spec.Fetches {
		f := &spec.Fetches[i]
		lf, _, ok := standIn(f.ID)
		if !ok {
			continue
		}
		for _, d := range spec.trueDeps(f) {
			ld, _, ok := standIn(d)
			if !ok {
				continue // reported as missing above (or never planned: not generated)
			}
			st.edges++
			if ld == lf {
				if spec.class(d) == spec.class(f.ID) {
					continue // cannot happen for generated plans (a fetch never depends on its own duplicate)
				}
				viol("tree.dependency-order", fmt.Sprintf("fetch %d and its dependency %d are merged into the same request (fetch id %d)", f.ID, d, tm.leaves[lf].fetchID),
					map[string]string{"relation": "same-request", "leaf_kind": tm.leaves[lf].kind})
				continue
			}
			if rel := tm.relation(ld, lf); rel != "before" {
				viol("tree.dependency-order", fmt.Sprintf("fetch %d reads the result of fetch %d, but %d is scheduled %s", f.ID, d, d, map[string]string{"parallel": "in a parallel sibling", "later": "after it"}[rel]),
					map[string]string{"relation": rel, "leaf_kind": tm.leaves[lf].kind})
			}
		}
	}
	return st
}
