package c08

import (
	"fmt"
	"math/rand/v2"
	"sort"
	"strings"
)

// A planSpec is the harness-side ground truth of one synthetic plan: which fetches exist, which
// other fetches' merged results each one reads, and how its request / response look. Everything
// the oracles need is derived from it (never from the processed tree).

type flavor int

const (
	flPlain  flavor = iota // SingleFetch, reads values with ObjectVariables
	flEntity               // RequiresEntityFetch on the object "e"
	flBatch                // RequiresEntityBatchFetch on the list "l"
	// branch kind (type-conditioned branches of an abstract list, see randomBranch)
	flBrProvider // batch entity fetch on the items of type Type of the list "l": delivers p<id> and (DS == 1) their relation object "o"; reads p<d> of every provider d it depends on
	flBrOwner    // batch entity fetch on "l.@.o" below the items of type Type: delivers o.name (all owner fetches are the same request)
	flBrReader   // batch entity fetch on "l.@.o" (below the items of type Type, or of every type when Type is empty): reads o.name
)

// brItem: one item of the abstract list "l" of a branch plan.
type brItem struct {
	Type   string // concrete type of the item
	ID     string
	Owner  string // id of the relation object o
	Native bool   // the root fetch delivers o itself; otherwise the provider fetch of Type does
}

type failMode int

const (
	failNone       failMode = iota
	failGQL                 // 200, response carries "errors" next to the data
	failTransport           // Load returns an error (dependants are skipped by the loader)
	failStatusHTML          // 502 with a body that is not JSON (a proxy in front of the subgraph)
	failStatusNull          // 503 with {"data":null} and no errors
	failStatusGQL           // 500 with an errors array and data:null
	failNullData            // 200 with {"data":null} and no errors
	failGQLNull             // 200 with an errors array and data:null
	failEmpty               // 200 with an empty body
)

// faultModes: every way a fake subgraph can fail (layer 2, kinds errors / faults).
var faultModes = []failMode{failGQL, failTransport, failStatusHTML, failStatusNull, failStatusGQL, failNullData, failGQLNull, failEmpty}

func (m failMode) String() string {
	switch m {
	case failNone:
		return "ok"
	case failGQL:
		return "gql"
	case failTransport:
		return "net"
	case failStatusHTML:
		return "502html"
	case failStatusNull:
		return "503null"
	case failStatusGQL:
		return "500gql"
	case failNullData:
		return "nulldata"
	case failGQLNull:
		return "gqlnull"
	case failEmpty:
		return "empty"
	}
	return "?"
}

// deliversNothing: the fetch merges no data, so whoever reads its value reads null.
func (m failMode) deliversNothing() bool { return m != failNone && m != failGQL }

// infoMode: which fetches of the plan carry a FetchInfo. The planner attaches one to every fetch
// unless plan.Configuration.DisableIncludeInfo is set (then to none); hand-built plans may mix.
type infoMode int

const (
	infoAll infoMode = iota
	infoNone
	infoMixed // per fetch, decided by (fetch id, InfoSalt)
)

func (m infoMode) String() string {
	switch m {
	case infoNone:
		return "none"
	case infoMixed:
		return "mixed"
	}
	return "all"
}

type fetchSpec struct {
	ID     int
	Deps   []int // declared DependsOnFetchIDs
	Flavor flavor
	DS     int  // entity flavours: subgraph number (same number = merge candidates)
	DupOf  int  // -1, or the id of the fetch this one is an exact duplicate of
	Parent int  // nested kind: -1 = root level, else id of the fetch providing the object this fetch hangs under
	MergeM bool // nested kind: result merged into the item under MergePath ["m<id>"]
	Fail   failMode
	Root   bool   // entity / branch kind: plain root fetch providing e / l
	Type   string // branch kind: type condition of the fetch ("" = none)
}

type planSpec struct {
	Kind     string // plain | nested | entity | dup | errors | faults
	Fetches  []fetchSpec
	Info     infoMode
	InfoSalt uint64
	Items    []brItem // branch kind: the items of the list "l"
	byID     map[int]*fetchSpec
}

// dupDepSetsDiffer: the plan has duplicates whose declared dependency sets differ (compared up to
// duplicate classes): the survivor of the de-duplication has to take over the dependencies of
// the removed copies.
func (p *planSpec) dupDepSetsDiffer() bool {
	sets := map[int]string{}
	for _, f := range p.Fetches {
		c := p.class(f.ID)
		var d []int
		for _, x := range f.Deps {
			d = append(d, p.class(x))
		}
		d = uniqInts(d)
		sort.Ints(d)
		k := fmt.Sprint(d)
		if prev, ok := sets[c]; ok && prev != k {
			return true
		}
		sets[c] = k
	}
	return false
}

// standsFor: the planned fetches the request of fetch id stands for when the copies of its
// duplicate class that are absent from the tree were merged into it.
func (p *planSpec) classMembers(id int) []int {
	c := p.class(id)
	var out []int
	for _, f := range p.Fetches {
		if p.class(f.ID) == c {
			out = append(out, f.ID)
		}
	}
	return out
}

// withInfo: the same plan (shared, read-only fetch list) under another FetchInfo mode.
func (p *planSpec) withInfo(m infoMode, salt uint64) *planSpec {
	q := *p
	q.Info, q.InfoSalt = m, 0
	if m == infoMixed {
		q.InfoSalt = salt
	}
	return &q
}

// hasInfo: does the fetch carry a FetchInfo.
func (p *planSpec) hasInfo(id int) bool {
	switch p.Info {
	case infoNone:
		return false
	case infoMixed:
		x := (uint64(id)+1)*0x9E3779B97F4A7C15 ^ p.InfoSalt*0xC2B2AE3D27D4EB4F
		x ^= x >> 29
		x *= 0xBF58476D1CE4E5B9
		x ^= x >> 32
		return x&1 == 0
	}
	return true
}

func (p *planSpec) withoutInfo() []int {
	var out []int
	for _, f := range p.Fetches {
		if !p.hasInfo(f.ID) {
			out = append(out, f.ID)
		}
	}
	sort.Ints(out)
	return out
}

// removedFanout: the largest number of fetches that declare a dependency on one fetch that
// de-duplication removes (a copy that is not the first of its duplicate class in raw order).
// All of them have to be rewired to the survivor.
func (p *planSpec) removedFanout() int {
	n := map[int]int{}
	for _, f := range p.Fetches {
		for _, d := range uniqInts(f.Deps) {
			if p.rep(d) != d {
				n[d]++
			}
		}
	}
	best := 0
	for _, v := range n {
		if v > best {
			best = v
		}
	}
	return best
}

// faultSet: sorted distinct fault modes of the plan.
func (p *planSpec) faultSet() string {
	seen := map[string]bool{}
	for _, f := range p.Fetches {
		if f.Fail != failNone {
			seen[f.Fail.String()] = true
		}
	}
	out := make([]string, 0, len(seen))
	for k := range seen {
		out = append(out, k)
	}
	sort.Strings(out)
	return strings.Join(out, "+")
}

func (p *planSpec) index() {
	p.byID = make(map[int]*fetchSpec, len(p.Fetches))
	for i := range p.Fetches {
		p.byID[p.Fetches[i].ID] = &p.Fetches[i]
	}
}

func (p *planSpec) get(id int) *fetchSpec { return p.byID[id] }

// faulty: plan kinds in which fetches fail.
func (p *planSpec) faulty() bool { return p.Kind == "errors" || p.Kind == "faults" }

// class: the id whose request content / response field this fetch shares (itself unless duplicate).
func (p *planSpec) class(id int) int {
	for guard := 0; guard < 64; guard++ {
		f := p.byID[id]
		if f == nil || f.DupOf < 0 {
			return id
		}
		id = f.DupOf
	}
	return id
}

// rep: the fetch that stands for id after de-duplication = the first fetch in raw order of its
// duplicate class (model of "remove every later fetch equal to an earlier one").
func (p *planSpec) rep(id int) int {
	c := p.class(id)
	for i := range p.Fetches {
		if p.class(p.Fetches[i].ID) == c {
			return p.Fetches[i].ID
		}
	}
	return id
}

// trueDeps: fetches whose merged result f reads = declared dependencies plus, for a nested
// fetch, the provider of the object it hangs under.
func (p *planSpec) trueDeps(f *fetchSpec) []int {
	out := append([]int(nil), f.Deps...)
	if f.Parent >= 0 && !containsInt(out, f.Parent) {
		out = append(out, f.Parent)
	}
	return out
}

// objPath: absolute response path of the object "f<class>" written by fetch id.
func (p *planSpec) objPath(id int) []string {
	f := p.byID[id]
	if f == nil {
		return nil
	}
	var base []string
	if f.Parent >= 0 {
		base = append(base, p.objPath(f.Parent)...)
	}
	if f.MergeM {
		base = append(base, fmt.Sprintf("m%d", p.class(id)))
	}
	return append(base, fmt.Sprintf("f%d", p.class(id)))
}

// itemPath: absolute path of the item the fetch is executed on (FetchPath).
func (p *planSpec) itemPath(id int) []string {
	f := p.byID[id]
	if f == nil || f.Parent < 0 {
		return nil
	}
	return p.objPath(f.Parent)
}

// reads: dependencies whose value is visible in the request content, with the value path
// relative to the fetch's item (plain flavour).
type readRef struct {
	Dep  int
	Path []string
}

func (p *planSpec) plainReads(f *fetchSpec) []readRef {
	var out []readRef
	item := p.itemPath(f.ID)
	for _, d := range p.trueDeps(f) {
		op := p.objPath(d)
		if len(op) < len(item) || !equalStrings(op[:len(item)], item) {
			continue // outside the item: only the clock oracle applies
		}
		rel := append(append([]string(nil), op[len(item):]...), "v")
		out = append(out, readRef{Dep: d, Path: rel})
	}
	return out
}

// entityReads: dependencies whose field r<d> lives on the same entity object(s) as f.
func (p *planSpec) entityReads(f *fetchSpec) []int {
	var out []int
	for _, d := range f.Deps {
		df := p.byID[d]
		if df == nil {
			continue
		}
		if df.Root || df.Flavor == f.Flavor {
			out = append(out, d)
		}
	}
	return out
}

func (p *planSpec) edges() int {
	n := 0
	for i := range p.Fetches {
		n += len(p.trueDeps(&p.Fetches[i]))
	}
	return n
}

func (p *planSpec) String() string {
	var b strings.Builder
	b.WriteString(p.Kind)
	b.WriteString("[")
	for i, f := range p.Fetches {
		if i > 0 {
			b.WriteString(" ")
		}
		fmt.Fprintf(&b, "%d<-%v", f.ID, f.Deps)
		switch f.Flavor {
		case flEntity:
			fmt.Fprintf(&b, "E@sg%d", f.DS)
		case flBatch:
			fmt.Fprintf(&b, "B@sg%d", f.DS)
		case flBrProvider:
			if f.DS == 1 {
				fmt.Fprintf(&b, "provider(o of %s)", f.Type)
			} else {
				fmt.Fprintf(&b, "provider(p of %s)", f.Type)
			}
		case flBrOwner:
			fmt.Fprintf(&b, "owner@l.[%s]o", f.Type)
		case flBrReader:
			fmt.Fprintf(&b, "reader@l.[%s]o", f.Type)
		}
		if f.DupOf >= 0 {
			fmt.Fprintf(&b, "dup(%d)", f.DupOf)
		}
		if f.Parent >= 0 {
			fmt.Fprintf(&b, "under(%d)", f.Parent)
		}
		if f.MergeM {
			b.WriteString("M")
		}
		if f.Fail != failNone {
			b.WriteString("!" + f.Fail.String())
		}
	}
	b.WriteString("]")
	if len(p.Items) > 0 {
		b.WriteString(" l=[")
		for i, it := range p.Items {
			if i > 0 {
				b.WriteString(" ")
			}
			b.WriteString(it.Type)
			if it.Native {
				b.WriteString("+o")
			}
		}
		b.WriteString("]")
	}
	switch p.Info {
	case infoNone:
		b.WriteString(" fetchinfo=none")
	case infoMixed:
		fmt.Fprintf(&b, " fetchinfo=all-but%v", p.withoutInfo())
	}
	return b.String()
}

// canonical identity of the labelled DAG (independent of raw order).
func (p *planSpec) canon() string {
	parts := make([]string, 0, len(p.Fetches))
	for _, f := range p.Fetches {
		d := append([]int(nil), f.Deps...)
		sort.Ints(d)
		parts = append(parts, fmt.Sprintf("%d:%v:%d:%d:%d:%d:%v:%d%s", f.ID, d, f.Flavor, f.DS, f.DupOf, f.Parent, f.MergeM, f.Fail, f.Type))
	}
	sort.Strings(parts)
	if len(p.Items) > 0 {
		parts = append(parts, fmt.Sprint(p.Items))
	}
	info := ""
	if p.Info != infoAll {
		info = fmt.Sprintf("|info=%s%v", p.Info, p.withoutInfo())
	}
	return p.Kind + "|" + strings.Join(parts, ";") + info
}

func containsInt(s []int, x int) bool {
	for _, v := range s {
		if v == x {
			return true
		}
	}
	return false
}

func equalStrings(a, b []string) bool {
	if len(a) != len(b) {
		return false
	}
	for i := range a {
		if a[i] != b[i] {
			return false
		}
	}
	return true
}

// ---------------------------------------------------------------------------------------------
// enumeration helpers

func permutations(n int) [][]int {
	var res [][]int
	cur := make([]int, 0, n)
	used := make([]bool, n)
	var rec func()
	rec = func() {
		if len(cur) == n {
			res = append(res, append([]int(nil), cur...))
			return
		}
		for i := 0; i < n; i++ {
			if !used[i] {
				used[i] = true
				cur = append(cur, i)
				rec()
				cur = cur[:len(cur)-1]
				used[i] = false
			}
		}
	}
	rec()
	return res
}

// nthPermutation returns permutation number k (0 <= k < n!) of 0..n-1 in lexicographic order.
func nthPermutation(n, k int) []int {
	elems := make([]int, n)
	for i := range elems {
		elems[i] = i
	}
	fact := 1
	for i := 2; i < n; i++ {
		fact *= i
	}
	out := make([]int, 0, n)
	for i := n - 1; i >= 0; i-- {
		idx := 0
		if fact > 0 {
			idx = k / fact
			k %= fact
		}
		if idx >= len(elems) {
			idx = len(elems) - 1
		}
		out = append(out, elems[idx])
		elems = append(elems[:idx], elems[idx+1:]...)
		if i > 0 {
			fact /= i
		}
	}
	return out
}

func factorial(n int) int {
	f := 1
	for i := 2; i <= n; i++ {
		f *= i
	}
	return f
}

// topoPairs lists the pairs (i,j), i<j, of a topological numbering: bit b of a mask set means
// node j depends on node i.
func topoPairs(n int) [][2]int {
	var pairs [][2]int
	for j := 0; j < n; j++ {
		for i := 0; i < j; i++ {
			pairs = append(pairs, [2]int{i, j})
		}
	}
	return pairs
}

// dagFromMask builds the plain plan for (n, mask, idperm, raw order). idperm maps topological
// index -> fetch id, order lists topological indexes in raw order.
func dagFromMask(n int, mask uint64, idperm, order []int) *planSpec {
	pairs := topoPairs(n)
	deps := make([][]int, n)
	for b, pr := range pairs {
		if mask&(1<<uint(b)) != 0 {
			deps[pr[1]] = append(deps[pr[1]], idperm[pr[0]])
		}
	}
	p := &planSpec{Kind: "plain"}
	for _, t := range order {
		p.Fetches = append(p.Fetches, fetchSpec{ID: idperm[t], Deps: deps[t], DupOf: -1, Parent: -1})
	}
	p.index()
	return p
}

// exhaustive case list: (n, mask) for n = 1..maxN.
type nm struct {
	n    int
	mask uint64
}

func exhaustiveCases(maxN int) []nm {
	var out []nm
	for n := 1; n <= maxN; n++ {
		bits := n * (n - 1) / 2
		for m := uint64(0); m < 1<<uint(bits); m++ {
			out = append(out, nm{n, m})
		}
	}
	return out
}

// ---------------------------------------------------------------------------------------------
// random generators. All produce acyclic, self-dependency-free plans: a fetch only ever
// depends on fetches that are earlier in a hidden topological numbering.

// randomTopoDeps returns deps (as topological indexes) for n nodes using one of several shapes.
func randomTopoDeps(rng *rand.Rand, n int) [][]int {
	deps := make([][]int, n)
	shape := rng.IntN(8)
	switch shape {
	case 0: // uniform density
		p := []float64{0.1, 0.2, 0.35, 0.5, 0.8}[rng.IntN(5)]
		for j := 1; j < n; j++ {
			for i := 0; i < j; i++ {
				if rng.Float64() < p {
					deps[j] = append(deps[j], i)
				}
			}
		}
	case 1: // layered: each node depends on 1..3 nodes of the previous layer(s)
		layers := 2 + rng.IntN(4)
		layerOf := make([]int, n)
		for i := range layerOf {
			layerOf[i] = i * layers / n
		}
		for j := 0; j < n; j++ {
			if layerOf[j] == 0 {
				continue
			}
			var cand []int
			for i := 0; i < j; i++ {
				if layerOf[i] < layerOf[j] && (layerOf[i] == layerOf[j]-1 || rng.IntN(4) == 0) {
					cand = append(cand, i)
				}
			}
			k := 1 + rng.IntN(3)
			rng.Shuffle(len(cand), func(a, b int) { cand[a], cand[b] = cand[b], cand[a] })
			if k > len(cand) {
				k = len(cand)
			}
			deps[j] = append(deps[j], cand[:k]...)
		}
	case 2: // independent chains (what the scheduler inlines), optionally joined at the end
		chains := 2 + rng.IntN(3)
		last := make([]int, chains)
		for i := range last {
			last[i] = -1
		}
		join := rng.IntN(2) == 0
		for j := 0; j < n; j++ {
			if join && j == n-1 {
				for _, l := range last {
					if l >= 0 {
						deps[j] = append(deps[j], l)
					}
				}
				break
			}
			c := rng.IntN(chains)
			if last[c] >= 0 {
				deps[j] = append(deps[j], last[c])
			}
			last[c] = j
		}
	case 3: // one root, fan out, then fan in (diamonds)
		for j := 1; j < n; j++ {
			if j < n-1 || n < 3 {
				deps[j] = append(deps[j], 0)
				if j > 2 && rng.IntN(3) == 0 {
					deps[j] = append(deps[j], 1+rng.IntN(j-1))
				}
			} else {
				for i := 1; i < j; i++ {
					if rng.IntN(2) == 0 {
						deps[j] = append(deps[j], i)
					}
				}
				if len(deps[j]) == 0 {
					deps[j] = append(deps[j], j-1)
				}
			}
		}
	case 4: // random forest (each node at most one dependency)
		for j := 1; j < n; j++ {
			if rng.IntN(5) != 0 {
				deps[j] = append(deps[j], rng.IntN(j))
			}
		}
	case 5: // several components of mixed shape
		comp := make([]int, n)
		k := 2 + rng.IntN(3)
		for i := range comp {
			comp[i] = rng.IntN(k)
		}
		for j := 1; j < n; j++ {
			for i := 0; i < j; i++ {
				if comp[i] == comp[j] && rng.IntN(3) == 0 {
					deps[j] = append(deps[j], i)
				}
			}
		}
	case 6: // long chain with shortcuts and a few free nodes
		for j := 1; j < n; j++ {
			if rng.IntN(6) == 0 {
				continue
			}
			deps[j] = append(deps[j], j-1)
			if j > 1 && rng.IntN(3) == 0 {
				deps[j] = append(deps[j], rng.IntN(j-1))
			}
		}
	default: // dependency sets of very different sizes that overlap without depending on each other
		roots := 1 + rng.IntN(min(4, n))
		for j := roots; j < n; j++ {
			k := 1 + rng.IntN(roots)
			for _, r := range rng.Perm(roots)[:k] {
				deps[j] = append(deps[j], r)
			}
			if j > roots && rng.IntN(3) == 0 {
				deps[j] = append(deps[j], roots+rng.IntN(j-roots))
			}
		}
	}
	for j := range deps {
		deps[j] = uniqInts(deps[j])
		// order of the declared ids is arbitrary in a real plan
		rng.Shuffle(len(deps[j]), func(a, b int) { deps[j][a], deps[j][b] = deps[j][b], deps[j][a] })
	}
	return deps
}

func uniqInts(s []int) []int {
	seen := map[int]bool{}
	out := s[:0:0]
	for _, v := range s {
		if !seen[v] {
			seen[v] = true
			out = append(out, v)
		}
	}
	return out
}

// randomIDs: distinct non-negative fetch ids for n nodes: a permutation of 0..n-1 or ids with gaps.
func randomIDs(rng *rand.Rand, n int) []int {
	if rng.IntN(3) == 0 {
		pool := rng.Perm(n * 3)
		return pool[:n]
	}
	return rng.Perm(n)
}

func randomPlain(rng *rand.Rand, nMin, nMax int) *planSpec {
	n := nMin + rng.IntN(nMax-nMin+1)
	td := randomTopoDeps(rng, n)
	ids := randomIDs(rng, n)
	order := rng.Perm(n)
	if rng.IntN(4) == 0 {
		sort.Ints(order) // planner-like raw order: already topological
	}
	p := &planSpec{Kind: "plain"}
	for _, t := range order {
		f := fetchSpec{ID: ids[t], DupOf: -1, Parent: -1}
		for _, d := range td[t] {
			f.Deps = append(f.Deps, ids[d])
		}
		p.Fetches = append(p.Fetches, f)
	}
	if rng.IntN(6) == 0 {
		// a dependency id listed twice (de-duplication and merging tolerate and produce that)
		i := rng.IntN(len(p.Fetches))
		if d := p.Fetches[i].Deps; len(d) > 0 {
			p.Fetches[i].Deps = append(d, d[rng.IntN(len(d))])
		}
	}
	p.index()
	return p
}

// randomErrors: a plain plan where some fetches fail.
func randomErrors(rng *rand.Rand, nMin, nMax int) *planSpec {
	p := randomPlain(rng, nMin, nMax)
	p.Kind = "errors"
	any := false
	for i := range p.Fetches {
		switch rng.IntN(5) {
		case 0:
			p.Fetches[i].Fail = failGQL
			any = true
		case 1:
			p.Fetches[i].Fail = failTransport
			any = true
		case 2:
			if rng.IntN(2) == 0 {
				p.Fetches[i].Fail = faultModes[rng.IntN(len(faultModes))]
				any = true
			}
		}
	}
	if !any {
		p.Fetches[rng.IntN(len(p.Fetches))].Fail = failGQL
	}
	return p
}

// randomFaults: a small plan around ONE group of 2..4 mutually independent fetches that fail in
// pairwise different ways (at least two of them), optionally behind a healthy root fetch and
// optionally followed by a fetch that reads some members of the group. Small enough for every
// completion order of the group to be executed.
func randomFaults(rng *rand.Rand) *planSpec {
	k := 2 + rng.IntN(3)
	pre := rng.IntN(3) == 0
	post := rng.IntN(3) == 0
	n := k
	if pre {
		n++
	}
	if post {
		n++
	}
	ids := randomIDs(rng, n)
	next := 0
	take := func() int { next++; return ids[next-1] }
	var fetches []fetchSpec
	preID := -1
	if pre {
		preID = take()
		fetches = append(fetches, fetchSpec{ID: preID, DupOf: -1, Parent: -1})
	}
	modes := append([]failMode(nil), faultModes...)
	rng.Shuffle(len(modes), func(a, b int) { modes[a], modes[b] = modes[b], modes[a] })
	var group []int
	for i := 0; i < k; i++ {
		f := fetchSpec{ID: take(), DupOf: -1, Parent: -1}
		if pre {
			f.Deps = []int{preID}
		}
		switch {
		case i < 2:
			f.Fail = modes[i]
		case rng.IntN(3) != 0:
			f.Fail = modes[i]
		}
		group = append(group, f.ID)
		fetches = append(fetches, f)
	}
	if post {
		f := fetchSpec{ID: take(), DupOf: -1, Parent: -1}
		for _, g := range group {
			if rng.IntN(2) == 0 {
				f.Deps = append(f.Deps, g)
			}
		}
		if len(f.Deps) == 0 {
			f.Deps = []int{group[rng.IntN(len(group))]}
		}
		fetches = append(fetches, f)
	}
	rng.Shuffle(len(fetches), func(a, b int) { fetches[a], fetches[b] = fetches[b], fetches[a] })
	p := &planSpec{Kind: "faults", Fetches: fetches}
	p.index()
	return p
}

// randomDupFan: directed shape for the rewiring done by de-duplication: a fetch with 1..2 exact
// duplicates, behind a dependency chain of length 0..3, and 2..5 dependants that each declare
// ONE copy (any of them) as their dependency — whichever copies are removed, all dependants of
// them have to follow the survivor. Raw order and ids are random, so the survivor (first copy in
// raw order) varies.
func randomDupFan(rng *rand.Rand) *planSpec {
	type node struct {
		deps  []int
		dupOf int
	}
	var nodes []node
	add := func(dupOf int, deps ...int) int {
		nodes = append(nodes, node{deps: append([]int(nil), deps...), dupOf: dupOf})
		return len(nodes) - 1
	}
	last := -1
	for i, chain := 0, rng.IntN(4); i < chain; i++ {
		if last < 0 {
			last = add(-1)
		} else {
			last = add(-1, last)
		}
	}
	var odeps []int
	if last >= 0 {
		odeps = []int{last}
	}
	orig := add(-1, odeps...)
	copies := []int{orig}
	for i, c := 0, 1+rng.IntN(2); i < c; i++ {
		copies = append(copies, add(orig, odeps...))
	}
	dependants := 2 + rng.IntN(4)
	var depNodes []int
	for i := 0; i < dependants; i++ {
		d := []int{copies[rng.IntN(len(copies))]}
		if last >= 0 && rng.IntN(4) == 0 {
			d = append(d, last)
		}
		if len(depNodes) > 0 && rng.IntN(5) == 0 {
			d = append(d, depNodes[rng.IntN(len(depNodes))])
		}
		depNodes = append(depNodes, add(-1, d...))
	}
	if rng.IntN(3) == 0 { // an unrelated fetch or two
		add(-1)
		if rng.IntN(2) == 0 {
			add(-1, len(nodes)-1)
		}
	}
	ids := randomIDs(rng, len(nodes))
	order := rng.Perm(len(nodes))
	if rng.IntN(3) == 0 {
		sort.Ints(order) // planner-like raw order: topological, the original before its copies
	}
	p := &planSpec{Kind: "dup"}
	for _, t := range order {
		f := fetchSpec{ID: ids[t], DupOf: -1, Parent: -1}
		if nodes[t].dupOf >= 0 {
			f.DupOf = ids[nodes[t].dupOf]
		}
		for _, d := range nodes[t].deps {
			f.Deps = append(f.Deps, ids[d])
		}
		p.Fetches = append(p.Fetches, f)
	}
	p.index()
	return p
}

// randomDup: a plain plan plus exact duplicates of some fetches; dependants may point at either copy.
func randomDup(rng *rand.Rand, nMin, nMax int) *planSpec {
	n := nMin + rng.IntN(nMax-nMin+1)
	td := randomTopoDeps(rng, n)
	// duplicates are appended to the topological numbering right after their original
	type node struct {
		deps  []int // indexes into nodes
		dupOf int
	}
	var nodes []node
	remap := make([][]int, n) // original topo index -> node indexes of its copies
	for t := 0; t < n; t++ {
		var deps []int
		for _, d := range td[t] {
			c := remap[d]
			deps = append(deps, c[rng.IntN(len(c))])
		}
		nodes = append(nodes, node{deps: deps, dupOf: -1})
		orig := len(nodes) - 1
		remap[t] = []int{orig}
		copies := 0
		if rng.IntN(3) == 0 {
			copies = 1 + rng.IntN(2)
		}
		for c := 0; c < copies && len(nodes) < 20; c++ {
			// the copy has the same request: the same dependencies, possibly through other copies
			var cd []int
			for _, d := range td[t] {
				cs := remap[d]
				cd = append(cd, cs[rng.IntN(len(cs))])
			}
			nodes = append(nodes, node{deps: cd, dupOf: orig})
			remap[t] = append(remap[t], len(nodes)-1)
		}
	}
	if len(nodes) == n { // force at least one duplicate
		t := rng.IntN(n)
		var cd []int
		for _, d := range td[t] {
			cs := remap[d]
			cd = append(cd, cs[rng.IntN(len(cs))])
		}
		nodes = append(nodes, node{deps: cd, dupOf: remap[t][0]})
	}
	ids := randomIDs(rng, len(nodes))
	order := rng.Perm(len(nodes))
	p := &planSpec{Kind: "dup"}
	for _, t := range order {
		f := fetchSpec{ID: ids[t], DupOf: -1, Parent: -1}
		if nodes[t].dupOf >= 0 {
			f.DupOf = ids[nodes[t].dupOf]
		}
		for _, d := range nodes[t].deps {
			f.Deps = append(f.Deps, ids[d])
		}
		p.Fetches = append(p.Fetches, f)
	}
	p.index()
	// A duplicate must render the same request as its original: the dependency list is the same
	// position by position up to duplicate classes (guaranteed by construction above).
	return p
}

// randomNested: fetches hang under objects provided by other fetches; some nested fetches carry
// no declared dependency at all and rely on the response-path rule of the post-processor.
func randomNested(rng *rand.Rand, nMin, nMax int) *planSpec {
	n := nMin + rng.IntN(nMax-nMin+1)
	ids := randomIDs(rng, n)
	if rng.IntN(2) == 0 {
		// ids >= 10 next to ids 1.. make field names that are string prefixes of each other (f1 / f10)
		for i := range ids {
			if rng.IntN(2) == 0 {
				ids[i] += 10
			}
		}
		ids = fixDistinct(ids)
	}
	type node struct {
		parent int // topo index or -1
		deps   []int
		mergeM bool
	}
	nodes := make([]node, n)
	roots := 1 + rng.IntN(min(3, n))
	for t := 0; t < n; t++ {
		nodes[t].parent = -1
		if t < roots {
			nodes[t].mergeM = rng.IntN(4) == 0
			continue
		}
		if rng.IntN(8) == 0 { // a late root-level fetch; root-level fetches never depend on nested ones
			for i := 0; i < t; i++ {
				if nodes[i].parent < 0 && rng.IntN(3) == 0 {
					nodes[t].deps = append(nodes[t].deps, i)
				}
			}
			continue
		}
		nodes[t].parent = rng.IntN(t)
		nodes[t].mergeM = rng.IntN(5) == 0
		switch rng.IntN(3) {
		case 0: // no declared dependency: the path rule must add it
		case 1:
			nodes[t].deps = []int{nodes[t].parent}
		default:
			nodes[t].deps = []int{nodes[t].parent}
			for i := 0; i < t; i++ {
				if i != nodes[t].parent && rng.IntN(4) == 0 {
					nodes[t].deps = append(nodes[t].deps, i)
				}
			}
		}
	}
	order := rng.Perm(n)
	p := &planSpec{Kind: "nested"}
	for _, t := range order {
		f := fetchSpec{ID: ids[t], DupOf: -1, Parent: -1, MergeM: nodes[t].mergeM}
		if nodes[t].parent >= 0 {
			f.Parent = ids[nodes[t].parent]
		}
		for _, d := range nodes[t].deps {
			f.Deps = append(f.Deps, ids[d])
		}
		p.Fetches = append(p.Fetches, f)
	}
	p.index()
	// Realism filter: a nested fetch without declared dependencies gets, by the path rule, a
	// dependency on every fetch whose provided path is a string prefix of its response path. If
	// such a fetch is not topologically earlier the plan would be cyclic — not a plan the
	// planner produces — so that fetch declares its dependencies explicitly instead.
	topoOf := map[int]int{}
	for t := 0; t < n; t++ {
		topoOf[ids[t]] = t
	}
	for i := range p.Fetches {
		f := &p.Fetches[i]
		if f.Parent < 0 || len(f.Deps) > 0 {
			continue
		}
		rp := strings.Join(p.itemPath(f.ID), ".")
		for j := range p.Fetches {
			o := &p.Fetches[j]
			if o.ID == f.ID {
				continue
			}
			if strings.HasPrefix(rp, p.providedPath(o)) && topoOf[o.ID] > topoOf[f.ID] {
				f.Deps = []int{f.Parent}
				break
			}
		}
	}
	return p
}

// providedPath mirrors how a plan's response path and merge path name the location a fetch
// provides (used by the generator's realism filter only, never by an oracle).
func (p *planSpec) providedPath(f *fetchSpec) string {
	rp := strings.Join(p.itemPath(f.ID), ".")
	mp := ""
	if f.MergeM {
		mp = fmt.Sprintf("m%d", p.class(f.ID))
	}
	if rp != "" {
		return rp + "." + mp
	}
	return mp
}

func fixDistinct(ids []int) []int {
	seen := map[int]bool{}
	for i, v := range ids {
		for seen[v] {
			v++
		}
		seen[v] = true
		ids[i] = v
	}
	return ids
}

// randomEntity: one primary root fetch provides the entity object "e" and the list "l"; fetches
// without dependencies are further plain roots; every other fetch is an entity (on e) or batch
// entity (on l) fetch against one of a few subgraphs, so same-wave fetches are merge candidates.
func randomEntity(rng *rand.Rand, nMin, nMax int) *planSpec {
	n := nMin + rng.IntN(nMax-nMin+1)
	td := randomTopoDeps(rng, n)
	ids := randomIDs(rng, n)
	mode := rng.IntN(3) // 0 all entity, 1 all batch, 2 mixed
	subgraphs := 1 + rng.IntN(3)
	// reachability of the primary root (topo index 0)
	reach := make([]bool, n)
	reach[0] = true
	for t := 1; t < n; t++ {
		if len(td[t]) == 0 && rng.IntN(5) != 0 {
			td[t] = []int{0} // most fetches of a federated plan are entity fetches below the root
		}
		if len(td[t]) == 0 {
			continue // secondary root
		}
		for _, d := range td[t] {
			if reach[d] {
				reach[t] = true
			}
		}
		if !reach[t] {
			td[t] = append(td[t], 0)
			reach[t] = true
		}
	}
	order := rng.Perm(n)
	p := &planSpec{Kind: "entity"}
	for _, t := range order {
		f := fetchSpec{ID: ids[t], DupOf: -1, Parent: -1}
		for _, d := range td[t] {
			f.Deps = append(f.Deps, ids[d])
		}
		if len(td[t]) == 0 {
			f.Root = true
		} else {
			f.DS = 1 + rng.IntN(subgraphs)
			switch mode {
			case 0:
				f.Flavor = flEntity
			case 1:
				f.Flavor = flBatch
			default:
				f.Flavor = []flavor{flEntity, flBatch}[rng.IntN(2)]
			}
		}
		p.Fetches = append(p.Fetches, f)
	}
	p.index()
	return p
}

// primaryRoot of an entity plan: the root every entity fetch transitively depends on = the
// root with the topologically first position; by construction it is the only root reachable
// from every entity fetch, found here as the root with most dependants (ties: lowest id) —
// but to stay exact the generator's choice is recomputed: the root that every non-root reaches.
func (p *planSpec) primaryRoot() int {
	anc := map[int]map[int]bool{}
	var ancestors func(id int) map[int]bool
	ancestors = func(id int) map[int]bool {
		if a, ok := anc[id]; ok {
			return a
		}
		a := map[int]bool{}
		anc[id] = a
		if f := p.byID[id]; f != nil {
			for _, d := range f.Deps {
				a[d] = true
				for k := range ancestors(d) {
					a[k] = true
				}
			}
		}
		return a
	}
	var roots []int
	for _, f := range p.Fetches {
		if f.Root {
			roots = append(roots, f.ID)
		}
	}
	sort.Ints(roots)
	for _, r := range roots {
		all := true
		for _, f := range p.Fetches {
			if !f.Root && !ancestors(f.ID)[r] {
				all = false
				break
			}
		}
		if all {
			return r
		}
	}
	if len(roots) > 0 {
		return roots[0]
	}
	return -1
}


// randomBranch: the plan of an abstract list whose type-conditioned branches select the same
// relation:  l { ... on A { o { name } } ... on B { o { name } } [... on C { o { name } }] }.
// The root fetch delivers the items and, for the "native" types, their relation object o; for
// every other type a provider fetch (batch entity fetch on the items of that type) delivers o.
// Per type one owner fetch loads o.name below that branch; all owner fetches are the SAME request
// (same input, variables, path up to type conditions) but depend on different providers, so the
// de-duplication keeps one of them for all branches and it has to wait for the providers of all.
// 0..3 reader fetches read o.name (below one branch, depending on that branch's owner fetch, or
// below all, depending on all of them). Ids and raw order are random.
func randomBranch(rng *rand.Rand) *planSpec {
	types := []string{"A", "B", "C"}[:2+rng.IntN(2)]
	native := map[string]bool{}
	for _, t := range types[:len(types)-1] {
		native[t] = rng.IntN(2) == 0
	}
	rng.Shuffle(len(types), func(a, b int) { types[a], types[b] = types[b], types[a] })
	p := &planSpec{Kind: "branch"}
	for _, t := range types {
		for i, n := 0, 1+rng.IntN(2); i < n; i++ {
			id := fmt.Sprintf("%s%d", strings.ToLower(t), i)
			p.Items = append(p.Items, brItem{Type: t, ID: id, Owner: "u-" + id, Native: native[t]})
		}
	}
	rng.Shuffle(len(p.Items), func(a, b int) { p.Items[a], p.Items[b] = p.Items[b], p.Items[a] })
	type node struct {
		f    fetchSpec
		deps []int // node indexes
		dup  int
	}
	var nodes []node
	add := func(f fetchSpec, dup int, deps ...int) int {
		nodes = append(nodes, node{f: f, dup: dup, deps: append([]int(nil), deps...)})
		return len(nodes) - 1
	}
	root := add(fetchSpec{Root: true}, -1)
	owners := map[string]int{}
	firstOwner := -1
	var ownerNodes []int
	for _, t := range types {
		deps := []int{root}
		if !native[t] {
			pre := []int{root}
			if rng.IntN(4) == 0 {
				// the provider itself waits for one more fetch (a longer chain in front of the owner fetch)
				pre = append(pre, add(fetchSpec{Flavor: flBrProvider, Type: t}, -1, root))
			}
			deps = append(deps, add(fetchSpec{Flavor: flBrProvider, Type: t, DS: 1}, -1, pre...))
		}
		if rng.IntN(2) == 0 {
			deps[0], deps[len(deps)-1] = deps[len(deps)-1], deps[0]
		}
		o := add(fetchSpec{Flavor: flBrOwner, Type: t}, firstOwner, deps...)
		if firstOwner < 0 {
			firstOwner = o
		}
		owners[t] = o
		ownerNodes = append(ownerNodes, o)
	}
	for i, n := 0, rng.IntN(4); i < n; i++ {
		if rng.IntN(2) == 0 {
			t := types[rng.IntN(len(types))]
			add(fetchSpec{Flavor: flBrReader, Type: t}, -1, owners[t])
		} else {
			d := append([]int(nil), ownerNodes...)
			rng.Shuffle(len(d), func(a, b int) { d[a], d[b] = d[b], d[a] })
			add(fetchSpec{Flavor: flBrReader}, -1, d...)
		}
	}
	ids := randomIDs(rng, len(nodes))
	order := rng.Perm(len(nodes))
	if rng.IntN(3) == 0 {
		sort.Ints(order) // planner-like raw order
	}
	for _, t := range order {
		f := nodes[t].f
		f.ID, f.DupOf, f.Parent = ids[t], -1, -1
		if nodes[t].dup >= 0 {
			f.DupOf = ids[nodes[t].dup]
		}
		for _, d := range nodes[t].deps {
			f.Deps = append(f.Deps, ids[d])
		}
		p.Fetches = append(p.Fetches, f)
	}
	p.index()
	return p
}

// brCovered: the items a branch-kind request of fetch f covers. merged: the copies of f's
// duplicate class were merged into one request (de-duplication), which then serves all their types.
func (p *planSpec) brCovered(f *fetchSpec, merged bool) []brItem {
	types := map[string]bool{}
	all := false
	add := func(g *fetchSpec) {
		if g.Type == "" {
			all = true
		}
		types[g.Type] = true
	}
	add(f)
	if merged && f.Flavor == flBrOwner {
		for _, id := range p.classMembers(f.ID) {
			add(p.get(id))
		}
	}
	var out []brItem
	for _, it := range p.Items {
		if all || types[it.Type] {
			out = append(out, it)
		}
	}
	return out
}
