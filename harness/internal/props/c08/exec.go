package c08

import (
	"bytes"
	"context"
	"encoding/json"
	"errors"
	"fmt"
	"math/rand/v2"
	"regexp"
	"runtime/debug"
	"sort"
	"strings"
	"sync"
	"time"

	"verifharness/internal/fw"

	"github.com/wundergraph/graphql-go-tools/v2/pkg/engine/datasource/httpclient"
	"github.com/wundergraph/graphql-go-tools/v2/pkg/engine/resolve"
)

// ---------------------------------------------------------------------------------------------
// layer 2: one execution of a processed plan by the real Resolver/Loader against gated fake
// subgraphs. All events are stamped on one logical clock (env.clock, under env.mu):
//   arrive(req)  : Load entered (request content captured)
//   release(req) : Load about to return its response
//   merged(req)  : LoaderHooks.OnFinished — called by the loader inside its merge phase, after
//                  the response was merged into the shared data, still under the data lock

type request struct {
	seq      int
	dsFetch  int
	ids      []int
	aliases  map[int]string // multi request: planned id -> alias
	reps     map[int]int    // entity requests: planned id -> number of representations
	include  map[int]bool
	input    string
	leaf     int
	gate     chan struct{}
	opened   bool
	arriveAt int64
	relAt    int64
	mergedAt int64
	parseErr string
}

type execEnv struct {
	spec     *planSpec
	tm       *treeModel
	nonce    string
	dedupeOn bool // option set of the tree being executed (branch kind: a surviving duplicate serves all branches)

	mu          sync.Mutex
	clock       int64
	reqs        []*request
	gated       bool
	jitter      bool
	finished    bool // resolve call returned
	inflight    int
	maxInflight int
	hookLoads   int
	hookDone    int
	anomalies   []string

	notify chan struct{}
	abort  chan struct{}
}

func newExecEnv(spec *planSpec, tm *treeModel, nonce string, gated bool) *execEnv {
	return &execEnv{spec: spec, tm: tm, nonce: nonce, gated: gated, jitter: !gated, notify: make(chan struct{}, 1), abort: make(chan struct{})}
}

func (e *execEnv) signal() {
	select {
	case e.notify <- struct{}{}:
	default:
	}
}

func (e *execEnv) token(id int) string { return fmt.Sprintf("t%d_%s", e.spec.class(id), e.nonce) }

type hookHolderKey struct{}
type hookHolder struct{ req *request }

// LoaderHooks
func (e *execEnv) OnLoad(ctx context.Context, ds resolve.DataSourceInfo) context.Context {
	e.mu.Lock()
	e.hookLoads++
	e.mu.Unlock()
	return context.WithValue(ctx, hookHolderKey{}, &hookHolder{})
}

func (e *execEnv) OnFinished(ctx context.Context, ds resolve.DataSourceInfo, info *resolve.ResponseInfo) {
	h, _ := ctx.Value(hookHolderKey{}).(*hookHolder)
	e.mu.Lock()
	e.hookDone++
	if h != nil && h.req != nil {
		e.clock++
		if h.req.mergedAt == 0 {
			h.req.mergedAt = e.clock
		}
	}
	e.mu.Unlock()
	e.signal()
}

var aliasRe = regexp.MustCompile(`(f\d+):\s*_entities[^{]*\{\s*\.\.\.\s*on\s+T\s*\{\s*r(\d+)\s*\}`)

type entityInput struct {
	Body struct {
		Query     string                     `json:"query"`
		Variables map[string]json.RawMessage `json:"variables"`
	} `json:"body"`
}

// identify works out which planned fetches a request stands for.
func (e *execEnv) identify(dsFetch int, input []byte, req *request) {
	req.ids = []int{dsFetch}
	f := e.spec.get(dsFetch)
	if (e.spec.Kind != "entity" && e.spec.Kind != "branch") || f == nil || f.Root {
		return
	}
	var in entityInput
	if err := json.Unmarshal(input, &in); err != nil {
		req.parseErr = "request is not JSON: " + err.Error()
		return
	}
	req.reps = map[int]int{}
	countReps := func(raw json.RawMessage) int {
		var arr []json.RawMessage
		if json.Unmarshal(raw, &arr) != nil {
			return -1
		}
		return len(arr)
	}
	if raw, ok := in.Body.Variables["representations"]; ok {
		req.reps[dsFetch] = countReps(raw)
		return
	}
	ms := aliasRe.FindAllStringSubmatch(in.Body.Query, -1)
	if len(ms) == 0 {
		req.parseErr = "no representations variable and no aliased _entities field"
		return
	}
	req.ids = nil
	req.aliases = map[int]string{}
	req.include = map[int]bool{}
	for _, m := range ms {
		var id int
		fmt.Sscanf(m[2], "%d", &id)
		alias := m[1]
		req.ids = append(req.ids, id)
		req.aliases[id] = alias
		req.reps[id] = countReps(in.Body.Variables["representations_"+alias])
		req.include[id] = string(bytes.TrimSpace(in.Body.Variables["include"+strings.ToUpper(alias[:1])+alias[1:]])) == "true"
	}
}

func (e *execEnv) load(ctx context.Context, dsFetch int, input []byte) ([]byte, error) {
	req := &request{dsFetch: dsFetch, input: string(input), gate: make(chan struct{}), leaf: -1}
	e.identify(dsFetch, input, req)
	if h, _ := ctx.Value(hookHolderKey{}).(*hookHolder); h != nil {
		h.req = req
	}
	e.mu.Lock()
	e.clock++
	req.arriveAt = e.clock
	req.seq = len(e.reqs)
	if len(req.ids) > 0 {
		if l, ok := e.tm.leafOf[req.ids[0]]; ok {
			req.leaf = l
		}
	}
	e.reqs = append(e.reqs, req)
	e.inflight++
	if e.inflight > e.maxInflight {
		e.maxInflight = e.inflight
	}
	gated := e.gated
	if !gated {
		req.opened = true
	}
	e.mu.Unlock()
	e.signal()
	if gated {
		select {
		case <-req.gate:
		case <-e.abort:
		case <-ctx.Done():
		}
	} else if e.jitter {
		// ungated runs: a small content-determined delay so that requests of a wave really
		// overlap (no verdict depends on it)
		time.Sleep(time.Duration((req.seq*7919+dsFetch*104729+len(input))%400) * time.Microsecond)
	}
	out, status, err := e.respond(req)
	if status != 0 {
		// what the HTTP client of a real data source does: report the status of the subgraph's
		// answer through the response context the loader injected
		if rc := httpclient.GetResponseContext(ctx); rc != nil {
			rc.StatusCode = status
		}
	}
	e.mu.Lock()
	e.clock++
	req.relAt = e.clock
	e.inflight--
	e.mu.Unlock()
	e.signal()
	return out, err
}

// respond: body, HTTP status (0 = the data source reports none, as in the kinds without faults)
// and transport error of the fake subgraph's answer.
func (e *execEnv) respond(req *request) ([]byte, int, error) {
	spec := e.spec
	f := spec.get(req.dsFetch)
	if f == nil {
		return nil, 0, fmt.Errorf("unknown fetch %d", req.dsFetch)
	}
	if spec.Kind == "branch" {
		return e.respondBranch(req, f), 0, nil
	}
	if spec.Kind != "entity" {
		okStatus := 0
		if spec.faulty() {
			okStatus = 200
		}
		switch f.Fail {
		case failTransport:
			return nil, 0, fmt.Errorf("subgraph of fetch %d unreachable", f.ID)
		case failGQL:
			return []byte(fmt.Sprintf(`{"errors":[{"message":"boom%d"}],"data":{"f%d":{"v":%q}}}`, f.ID, spec.class(f.ID), e.token(f.ID))), okStatus, nil
		case failStatusHTML:
			return []byte(`<html><body>502 Bad Gateway</body></html>`), 502, nil
		case failStatusNull:
			return []byte(`{"data":null}`), 503, nil
		case failStatusGQL:
			return []byte(fmt.Sprintf(`{"errors":[{"message":"down%d"}],"data":null}`, f.ID)), 500, nil
		case failNullData:
			return []byte(`{"data":null}`), okStatus, nil
		case failGQLNull:
			return []byte(fmt.Sprintf(`{"errors":[{"message":"nope%d","path":["f%d"]}],"data":null}`, f.ID, spec.class(f.ID))), okStatus, nil
		case failEmpty:
			return nil, okStatus, nil
		}
		return []byte(fmt.Sprintf(`{"data":{"f%d":{"v":%q}}}`, spec.class(f.ID), e.token(f.ID))), okStatus, nil
	}
	if f.Root {
		primary := spec.primaryRoot() == f.ID
		obj := func(id string) string {
			if primary {
				return fmt.Sprintf(`{"__typename":%q,"id":%q,"r%d":%q}`, entityTypeName, id, f.ID, e.token(f.ID))
			}
			return fmt.Sprintf(`{"r%d":%q}`, f.ID, e.token(f.ID))
		}
		return []byte(fmt.Sprintf(`{"data":{"e":%s,"l":[%s,%s]}}`, obj(entityID), obj(listIDs[0]), obj(listIDs[1]))), 0, nil
	}
	if req.parseErr != "" {
		return []byte(`{"errors":[{"message":"fake subgraph could not read the request"}],"data":null}`), 0, nil
	}
	entities := func(id int) string {
		n := req.reps[id]
		if n < 0 {
			n = 0
		}
		items := make([]string, n)
		for i := range items {
			items[i] = fmt.Sprintf(`{"r%d":%q}`, id, e.token(id))
		}
		return "[" + strings.Join(items, ",") + "]"
	}
	if req.aliases == nil {
		return []byte(fmt.Sprintf(`{"data":{"_entities":%s}}`, entities(f.ID))), 0, nil
	}
	var parts []string
	for _, id := range req.ids {
		if req.include[id] {
			parts = append(parts, fmt.Sprintf(`%q:%s`, req.aliases[id], entities(id)))
		}
	}
	return []byte(`{"data":{` + strings.Join(parts, ",") + `}}`), 0, nil
}

// respondBranch: answers of the fake subgraphs of a branch plan. Entity requests get one entity
// per representation they carry, in request order.
func (e *execEnv) respondBranch(req *request, f *fetchSpec) []byte {
	spec := e.spec
	if f.Root {
		items := make([]string, len(spec.Items))
		for i, it := range spec.Items {
			if it.Native {
				items[i] = fmt.Sprintf(`{"__typename":%q,"id":%q,"o":{"__typename":%q,"id":%q}}`, it.Type, it.ID, brOwnerType, it.Owner)
			} else {
				items[i] = fmt.Sprintf(`{"__typename":%q,"id":%q}`, it.Type, it.ID)
			}
		}
		return []byte(fmt.Sprintf(`{"data":{"r%d":%q,"l":[%s]}}`, f.ID, e.token(f.ID), strings.Join(items, ",")))
	}
	if req.parseErr != "" {
		return []byte(`{"errors":[{"message":"fake subgraph could not read the request"}],"data":null}`)
	}
	var in entityInput
	var reps []map[string]any
	if json.Unmarshal([]byte(req.input), &in) == nil {
		_ = json.Unmarshal(in.Body.Variables["representations"], &reps)
	}
	out := make([]string, len(reps))
	for i, rep := range reps {
		switch f.Flavor {
		case flBrProvider:
			o := ""
			if f.DS == 1 {
				// the relation object of the item the representation names
				owner := "?"
				for _, it := range spec.Items {
					if it.ID == rep["id"] {
						owner = it.Owner
					}
				}
				o = fmt.Sprintf(`,"o":{"__typename":%q,"id":%q}`, brOwnerType, owner)
			}
			out[i] = fmt.Sprintf(`{"p%d":%q%s}`, f.ID, e.token(f.ID), o)
		case flBrOwner:
			out[i] = fmt.Sprintf(`{"name":%q}`, e.token(f.ID))
		default:
			out[i] = fmt.Sprintf(`{"x%d":%q}`, f.ID, e.token(f.ID))
		}
	}
	return []byte(`{"data":{"_entities":[` + strings.Join(out, ",") + `]}}`)
}

// checkBranchContent: a branch-kind request must carry one representation per item it covers,
// each with the values its dependencies delivered: the relation objects of the non-native types
// exist only once their provider was merged, o.name only once the owner fetch was merged.
func (e *execEnv) checkBranchContent(r *request) (msg, what string) {
	spec := e.spec
	f := spec.get(r.dsFetch)
	if f == nil {
		return "", ""
	}
	if f.Root {
		if want := fmt.Sprintf(`{"id":%d,"deps":[]}`, f.ID); r.input != want {
			return fmt.Sprintf("request of fetch %d is %s, expected %s", f.ID, r.input, want), "other"
		}
		return "", ""
	}
	var in entityInput
	if err := json.Unmarshal([]byte(r.input), &in); err != nil {
		return "", ""
	}
	var reps []map[string]any
	if err := json.Unmarshal(in.Body.Variables["representations"], &reps); err != nil {
		return fmt.Sprintf("fetch %d: variable representations is not a list of objects: %s", f.ID, string(in.Body.Variables["representations"])), "other"
	}
	merged := e.dedupeOn && e.tm.count[f.ID] >= 1
	covered := spec.brCovered(f, merged)
	if len(reps) != len(covered) {
		return fmt.Sprintf("fetch %d: %d representations, expected %d (one per item of the branches it serves; the relation object of an item exists once its provider was merged): %s", f.ID, len(reps), len(covered), string(in.Body.Variables["representations"])), "count"
	}
	for i, it := range covered {
		want := map[string]any{"__typename": brOwnerType, "id": it.Owner}
		if f.Flavor == flBrProvider {
			want = map[string]any{"__typename": it.Type, "id": it.ID}
			for _, d := range f.Deps {
				if df := spec.get(d); df != nil && df.Flavor == flBrProvider {
					want[fmt.Sprintf("p%d", d)] = e.token(d)
				}
			}
		}
		if f.Flavor == flBrReader {
			for _, d := range f.Deps {
				if df := spec.get(d); df != nil && df.Flavor == flBrOwner {
					want["name"] = e.token(d)
				}
			}
		}
		for k, wv := range want {
			if gv, ok := reps[i][k]; !ok || gv != wv {
				what = "other"
				if ok && gv == nil {
					what = "null"
				}
				return fmt.Sprintf("fetch %d: representation %d has %s=%v, expected %v (the value its dependency delivered): %s", f.ID, i, k, gv, wv, string(in.Body.Variables["representations"])), what
			}
		}
		if len(reps[i]) != len(want) {
			return fmt.Sprintf("fetch %d: representation %d has unexpected fields: %s", f.ID, i, string(in.Body.Variables["representations"])), "other"
		}
	}
	return "", ""
}

// ---------------------------------------------------------------------------------------------
// schedules

type schedule struct {
	mode string // perm | flat | burst | free
	desc string
	key  func(leaf int) []int // priority of a leaf (lexicographic, smaller first); nil for free
}

func lessKey(a, b []int) bool {
	for i := 0; i < len(a) && i < len(b); i++ {
		if a[i] != b[i] {
			return a[i] < b[i]
		}
	}
	return len(a) < len(b)
}

// hierarchical schedule: every Parallel node's children complete in the order sigma[node].
func hierSchedule(tm *treeModel, sigma [][]int, desc string) schedule {
	keys := make([][]int, len(tm.leaves))
	for i, lf := range tm.leaves {
		for _, st := range lf.path {
			if st.par && st.node < len(sigma) && st.child < len(sigma[st.node]) {
				keys[i] = append(keys[i], sigma[st.node][st.child])
			} else {
				keys[i] = append(keys[i], st.child)
			}
		}
	}
	return schedule{mode: "perm", desc: desc, key: func(l int) []int {
		if l < 0 || l >= len(keys) {
			return []int{1 << 30}
		}
		return keys[l]
	}}
}

func flatSchedule(mode string, prio []int, desc string) schedule {
	return schedule{mode: mode, desc: desc, key: func(l int) []int {
		if l < 0 || l >= len(prio) {
			return []int{1 << 30}
		}
		return []int{prio[l]}
	}}
}

// permSchedules: run r gives every Parallel node with k<=4 children its permutation number
// (r mod k!), so that R = max k! runs show every completion order of every such group; larger
// groups get seeded random permutations.
func permSchedules(tm *treeModel, rng *rand.Rand, capRuns int) []schedule {
	runs := 1
	for _, k := range tm.parSizes {
		n := 24
		if k <= 4 {
			n = factorial(k)
		}
		if n > runs {
			runs = n
		}
	}
	if runs > capRuns {
		runs = capRuns
	}
	var out []schedule
	for r := 0; r < runs; r++ {
		sigma := make([][]int, len(tm.parSizes))
		for p, k := range tm.parSizes {
			if k <= 4 {
				// position of child c in the completion order = index of c in permutation number r
				perm := nthPermutation(k, r%factorial(k))
				pos := make([]int, k)
				for i, c := range perm {
					pos[c] = i
				}
				sigma[p] = pos
			} else {
				sigma[p] = rng.Perm(k)
			}
		}
		out = append(out, hierSchedule(tm, sigma, fmt.Sprintf("perm#%d", r)))
	}
	return out
}

// simulate: completion order of the leaves under the tree semantics for a priority key.
func simulate(tm *treeModel, key func(int) []int) []int {
	var order []int
	var completed uint64
	for len(order) < len(tm.leaves) {
		best := -1
		for i, lf := range tm.leaves {
			if completed&(1<<uint(i)) != 0 || lf.preds&^completed != 0 {
				continue
			}
			if best < 0 || lessKey(key(i), key(best)) {
				best = i
			}
		}
		if best < 0 {
			break
		}
		completed |= 1 << uint(best)
		order = append(order, best)
	}
	return order
}

// ---------------------------------------------------------------------------------------------
// controller

const (
	stallTimeout = 30 * time.Second
	hardTimeout  = 60 * time.Second
)

type execOutcome struct {
	out        []byte
	err        error
	panicMsg   string
	panicStack string
	stall      string // non-empty: the controller gave up steering (schedule not as intended)
	hung       bool
	steps      int
	groupSteps int // controller steps with >= 2 requests pending at once
	order      []int
}

func (e *execEnv) waitUntil(cond func() bool, d time.Duration) bool {
	timer := time.NewTimer(d)
	defer timer.Stop()
	for {
		e.mu.Lock()
		ok := cond()
		e.mu.Unlock()
		if ok {
			return true
		}
		select {
		case <-e.notify:
		case <-timer.C:
			e.mu.Lock()
			ok := cond()
			e.mu.Unlock()
			return ok
		}
	}
}

// pendingSummary: what the controller saw when it gave up (for the inconclusive reason).
func (e *execEnv) pendingSummary() string {
	e.mu.Lock()
	defer e.mu.Unlock()
	var parts []string
	for _, r := range e.reqs {
		parts = append(parts, fmt.Sprintf("%v(leaf %d arrive=%d opened=%v release=%d merged=%d)", r.ids, r.leaf, r.arriveAt, r.opened, r.relAt, r.mergedAt))
	}
	return fmt.Sprintf("requests=%v finished=%v hookLoads=%d hookFinished=%d", parts, e.finished, e.hookLoads, e.hookDone)
}

func (e *execEnv) openAll() {
	e.mu.Lock()
	e.gated = false
	for _, r := range e.reqs {
		if !r.opened {
			r.opened = true
			close(r.gate)
		}
	}
	e.mu.Unlock()
}

// predictedSkip: fetches the loader may not send because a (transitive) dependency delivered
// nothing (transport error, unusable answer, data:null).
func predictedSkip(spec *planSpec) map[int]bool {
	skip := map[int]bool{}
	memo := map[int]int{}
	var rec func(id int) bool
	rec = func(id int) bool {
		if v, ok := memo[id]; ok {
			return v == 1
		}
		memo[id] = 0
		f := spec.get(id)
		r := false
		if f != nil {
			for _, d := range f.Deps {
				df := spec.get(d)
				if df != nil && (df.Fail.deliversNothing() || rec(d)) {
					r = true
				}
			}
		}
		if r {
			memo[id] = 1
		}
		return r
	}
	for _, f := range spec.Fetches {
		if rec(f.ID) {
			skip[f.ID] = true
		}
	}
	return skip
}

func (e *execEnv) control(sch schedule, out *execOutcome) {
	if sch.mode == "free" {
		if !e.waitUntil(func() bool { return e.finished }, hardTimeout) {
			out.stall = "stall-finish: ungated execution did not finish"
		}
		return
	}
	skip := predictedSkip(e.spec)
	leafSkipped := func(l int) bool {
		for _, id := range e.tm.leaves[l].ids {
			if skip[id] {
				return true
			}
		}
		return false
	}
	var completed uint64
	arrived := func(l int) bool {
		for _, r := range e.reqs {
			if r.leaf == l {
				return true
			}
		}
		return false
	}
	for {
		// leaves predicted to be skipped complete as soon as they become enabled
		for changed := true; changed; {
			changed = false
			for i, lf := range e.tm.leaves {
				if completed&(1<<uint(i)) == 0 && lf.preds&^completed == 0 && leafSkipped(i) {
					completed |= 1 << uint(i)
					changed = true
				}
			}
		}
		var expected []int
		for i, lf := range e.tm.leaves {
			if completed&(1<<uint(i)) == 0 && lf.preds&^completed == 0 {
				expected = append(expected, i)
			}
		}
		ok := e.waitUntil(func() bool {
			if e.finished {
				return true
			}
			for _, l := range expected {
				if !arrived(l) {
					return false
				}
			}
			return true
		}, stallTimeout)
		if !ok {
			out.stall = fmt.Sprintf("stall-arrival: enabled requests (leaves %v) did not all arrive; %s", expected, e.pendingSummary())
			return
		}
		e.mu.Lock()
		fin := e.finished
		var cands []*request
		for _, r := range e.reqs {
			if !r.opened {
				cands = append(cands, r)
			}
		}
		e.mu.Unlock()
		if fin {
			return
		}
		if len(cands) == 0 {
			// nothing pending: the resolve call is finishing, or requests the model does not expect will come
			ok := e.waitUntil(func() bool {
				if e.finished {
					return true
				}
				for _, r := range e.reqs {
					if !r.opened {
						return true
					}
				}
				return false
			}, stallTimeout)
			if !ok {
				out.stall = "stall-finish: nothing pending and the resolve call does not return; " + e.pendingSummary()
				return
			}
			e.mu.Lock()
			fin = e.finished
			e.mu.Unlock()
			if fin {
				return
			}
			continue
		}
		out.steps++
		if len(cands) >= 2 {
			out.groupSteps++
		}
		sort.SliceStable(cands, func(i, j int) bool { return lessKey(sch.key(cands[i].leaf), sch.key(cands[j].leaf)) })
		batch := cands[:1]
		if sch.mode == "burst" {
			batch = cands
		}
		e.mu.Lock()
		for _, r := range batch {
			r.opened = true
			close(r.gate)
		}
		e.mu.Unlock()
		ok = e.waitUntil(func() bool {
			if e.finished {
				return true
			}
			for _, r := range batch {
				if r.mergedAt == 0 {
					return false
				}
			}
			return true
		}, stallTimeout)
		if !ok {
			out.stall = "stall-merge: released request was never reported merged; " + e.pendingSummary()
			return
		}
		for _, r := range batch {
			if r.leaf >= 0 {
				completed |= 1 << uint(r.leaf)
				out.order = append(out.order, r.leaf)
			}
		}
	}
}

var (
	resolverOnce sync.Once
	resolvers    [2]*resolve.Resolver
)

func getResolver(passthrough bool) *resolve.Resolver {
	resolverOnce.Do(func() {
		resolvers[0] = resolve.New(context.Background(), resolve.ResolverOptions{MaxConcurrency: 64, PropagateSubgraphErrors: true})
		resolvers[1] = resolve.New(context.Background(), resolve.ResolverOptions{MaxConcurrency: 64, PropagateSubgraphErrors: true, SubgraphErrorPropagationMode: resolve.SubgraphErrorPropagationModePassThrough})
	})
	if passthrough {
		return resolvers[1]
	}
	return resolvers[0]
}

// execute runs one execution of resp under schedule sch.
// arena: use Resolver.ArenaResolveGraphQLResponse (the production entry point: loader and
// resolvable allocate on a pooled arena) instead of ResolveGraphQLResponse.
func execute(resp *resolve.GraphQLResponse, rt *planRuntime, env *execEnv, sch schedule, passthrough, arena bool, reqID uint64) execOutcome {
	var oc execOutcome
	var rerr error
	var panicMsg, panicStack string
	rt.env.Store(env)
	defer rt.env.Store(nil)
	ctx, cancel := context.WithCancel(context.Background())
	defer cancel()
	rctx := resolve.NewContext(ctx)
	rctx.LoaderHooks = env
	if env.spec.Kind == "dup" || env.spec.Kind == "branch" {
		// duplicates that survive (de-duplication disabled) are identical requests; keep each
		// planned request visible at the subgraph instead of letting single-flight join them
		rctx.ExecutionOptions.DisableSubgraphRequestDeduplication = true
	}
	buf := &bytes.Buffer{}
	doneCh := make(chan struct{})
	go func() {
		defer close(doneCh)
		defer func() {
			if p := recover(); p != nil {
				panicMsg = fmt.Sprint(p)
				panicStack = string(debug.Stack())
			}
			env.mu.Lock()
			env.finished = true
			env.mu.Unlock()
			env.signal()
		}()
		if arena {
			rctx.Request.ID = reqID
			rctx.ExecutionOptions.DisableInboundRequestDeduplication = true
			_, rerr = getResolver(passthrough).ArenaResolveGraphQLResponse(rctx, resp, buf)
		} else {
			_, rerr = getResolver(passthrough).ResolveGraphQLResponse(rctx, resp, nil, buf)
		}
	}()
	env.control(sch, &oc)
	if oc.stall != "" {
		env.openAll()
	}
	select {
	case <-doneCh:
	case <-time.After(hardTimeout):
		close(env.abort)
		cancel()
		select {
		case <-doneCh:
		case <-time.After(hardTimeout):
			oc.hung = true
			return oc
		}
	}
	oc.out = buf.Bytes()
	oc.err, oc.panicMsg, oc.panicStack = rerr, panicMsg, panicStack
	return oc
}

// ---------------------------------------------------------------------------------------------
// oracles over one execution

type execStats struct {
	edges    int
	contents int
	requests int
}

func (e *execEnv) checkExecution(res *fw.Result, o optSet, sch schedule, oc *execOutcome, witness func() map[string]any) execStats {
	var st execStats
	spec, tm := e.spec, e.tm
	e.mu.Lock()
	reqs := append([]*request(nil), e.reqs...)
	e.mu.Unlock()
	st.requests = len(reqs)
	viol := func(kind, msg string, match map[string]string) {
		match["opt"] = o.Name
		match["plan_kind"] = spec.Kind
		match["schedule"] = sch.mode
		match["fetch_info"] = spec.Info.String()
		d := witness()
		d["problem"] = msg
		d["schedule"] = sch.desc
		d["trace"] = e.trace(reqs)
		res.Violate(kind, msg, match, d)
	}
	byID := map[int][]*request{}
	for _, r := range reqs {
		if r.parseErr != "" {
			viol("runtime.unreadable-request", fmt.Sprintf("request of fetch %d: %s", r.dsFetch, r.parseErr), map[string]string{})
		}
		for _, id := range r.ids {
			byID[id] = append(byID[id], r)
		}
	}
	skip := predictedSkip(spec)
	standIn := func(id int) (int, bool) {
		if tm.count[id] >= 1 {
			return id, true
		}
		if o.DedupeOn {
			if r := spec.rep(id); r != id && tm.count[r] >= 1 {
				return r, true
			}
		}
		return id, false
	}
	complete := oc.stall == "" && !oc.hung && oc.panicMsg == ""
	for i := range spec.Fetches {
		f := &spec.Fetches[i]
		n := len(byID[f.ID])
		if n > 1 {
			viol("runtime.duplicate-request", fmt.Sprintf("fetch %d was sent %d times", f.ID, n), map[string]string{})
		}
		if n == 0 && complete && tm.count[f.ID] == 1 && !skip[f.ID] {
			viol("runtime.missing-request", fmt.Sprintf("fetch %d is in the fetch tree but no request for it arrived although the resolve call returned", f.ID), map[string]string{})
		}
		if n > 0 && skip[f.ID] {
			res.Count("skipped_fetch_sent_anyway", 1) // C07's business, not judged here
		}
	}
	// ordering on the logical clock
	for _, r := range reqs {
		for _, id := range r.ids {
			f := spec.get(id)
			if f == nil {
				viol("runtime.unknown-request", fmt.Sprintf("request for unplanned fetch %d", id), map[string]string{})
				continue
			}
			// the request also stands for the copies of f's duplicate class that de-duplication
			// removed from the tree: it reads what they read
			deps := spec.trueDeps(f)
			if o.DedupeOn && spec.rep(id) == id {
				for _, m := range spec.classMembers(id) {
					if m != id && tm.count[m] == 0 {
						for _, d := range spec.trueDeps(spec.get(m)) {
							if spec.class(d) != spec.class(id) && !containsInt(deps, d) {
								deps = append(deps, d)
							}
						}
					}
				}
			}
			for _, d := range deps {
				sd, ok := standIn(d)
				if !ok {
					continue
				}
				drs := byID[sd]
				if len(drs) == 0 {
					if complete && !skip[sd] && spec.get(sd) != nil && !spec.get(sd).Fail.deliversNothing() {
						viol("runtime.early-request", fmt.Sprintf("fetch %d was sent although the request of its dependency %d never arrived", id, sd),
							map[string]string{"against": "never-sent"})
					}
					continue
				}
				st.edges++
				dr := drs[0]
				switch {
				case dr == r:
					viol("runtime.early-request", fmt.Sprintf("fetch %d and its dependency %d travel in the same request", id, d), map[string]string{"against": "same-request"})
				case dr.relAt == 0 || r.arriveAt < dr.relAt:
					viol("runtime.early-request", fmt.Sprintf("request of fetch %d arrived (t=%d) before the response of its dependency %d was released (t=%d)", id, r.arriveAt, d, dr.relAt), map[string]string{"against": "release"})
				case dr.mergedAt != 0 && r.arriveAt < dr.mergedAt:
					viol("runtime.early-request", fmt.Sprintf("request of fetch %d arrived (t=%d) before the result of its dependency %d was merged (t=%d)", id, r.arriveAt, d, dr.mergedAt), map[string]string{"against": "merged"})
				case dr.mergedAt == 0:
					res.Count("merge_unobserved_edges", 1)
				}
			}
		}
	}
	// content: every value read from a dependency must be the value that dependency delivered
	for _, r := range reqs {
		if r.parseErr != "" {
			continue
		}
		st.contents++
		if msg, what := e.checkContent(r); msg != "" {
			viol("runtime.stale-input", msg, map[string]string{"observed": what})
		}
	}
	return st
}

func (e *execEnv) checkContent(r *request) (msg, what string) {
	spec := e.spec
	if spec.Kind == "branch" {
		return e.checkBranchContent(r)
	}
	if spec.Kind != "entity" || spec.get(r.dsFetch) == nil || spec.get(r.dsFetch).Root {
		f := spec.get(r.dsFetch)
		if f == nil {
			return "", ""
		}
		var b strings.Builder
		fmt.Fprintf(&b, `{"id":%d,"deps":[`, spec.class(f.ID))
		if spec.Kind != "entity" {
			skip := predictedSkip(spec)
			for i, rd := range spec.plainReads(f) {
				if i > 0 {
					b.WriteString(",")
				}
				if df := spec.get(rd.Dep); df != nil && (df.Fail.deliversNothing() || skip[rd.Dep]) {
					b.WriteString("null") // that dependency delivered nothing (whether f should be sent at all is C07's question)
					continue
				}
				fmt.Fprintf(&b, "%q", e.token(rd.Dep))
			}
		}
		b.WriteString("]}")
		if r.input != b.String() {
			what = "other"
			if strings.Contains(r.input, "null") {
				what = "null"
			}
			return fmt.Sprintf("request of fetch %d is %s, expected %s (every dependency value delivered before the request was prepared)", f.ID, r.input, b.String()), what
		}
		return "", ""
	}
	var in entityInput
	if err := json.Unmarshal([]byte(r.input), &in); err != nil {
		return "", ""
	}
	for _, id := range r.ids {
		f := spec.get(id)
		if f == nil {
			continue
		}
		key := "representations"
		if r.aliases != nil {
			key = "representations_" + r.aliases[id]
			if !r.include[id] {
				return fmt.Sprintf("merged request excludes fetch %d (include variable false): its representations could not be rendered", id), "excluded"
			}
		}
		var reps []map[string]any
		if err := json.Unmarshal(in.Body.Variables[key], &reps); err != nil {
			return fmt.Sprintf("fetch %d: variable %s is not a list of objects: %s", id, key, string(in.Body.Variables[key])), "other"
		}
		ids := []string{entityID}
		if f.Flavor == flBatch {
			ids = listIDs
		}
		if len(reps) != len(ids) {
			return fmt.Sprintf("fetch %d: %d representations, expected %d: %s", id, len(reps), len(ids), string(in.Body.Variables[key])), "count"
		}
		for i, rep := range reps {
			want := map[string]any{"__typename": entityTypeName, "id": ids[i]}
			for _, d := range spec.entityReads(f) {
				want[fmt.Sprintf("d%d", d)] = e.token(d)
			}
			for k, wv := range want {
				if gv, ok := rep[k]; !ok || gv != wv {
					what = "other"
					if ok && gv == nil {
						what = "null"
					}
					return fmt.Sprintf("fetch %d: representation %d has %s=%v, expected %v (the value its dependency delivered): %s", id, i, k, gv, wv, string(in.Body.Variables[key])), what
				}
			}
			if len(rep) != len(want) {
				return fmt.Sprintf("fetch %d: representation %d has unexpected fields: %s", id, i, string(in.Body.Variables[key])), "other"
			}
		}
	}
	return "", ""
}

func (e *execEnv) trace(reqs []*request) []string {
	type ev struct {
		t int64
		s string
	}
	var evs []ev
	for _, r := range reqs {
		evs = append(evs, ev{r.arriveAt, fmt.Sprintf("arrive %v input=%s", r.ids, truncate(r.input, 300))})
		if r.relAt != 0 {
			evs = append(evs, ev{r.relAt, fmt.Sprintf("release %v", r.ids)})
		}
		if r.mergedAt != 0 {
			evs = append(evs, ev{r.mergedAt, fmt.Sprintf("merged %v", r.ids)})
		}
	}
	sort.Slice(evs, func(i, j int) bool { return evs[i].t < evs[j].t })
	out := make([]string, 0, len(evs))
	for _, x := range evs {
		out = append(out, fmt.Sprintf("t=%d %s", x.t, x.s))
	}
	if len(out) > 80 {
		out = out[:80]
	}
	return out
}

func truncate(s string, n int) string {
	if len(s) > n {
		return s[:n] + "…"
	}
	return s
}

// ---------------------------------------------------------------------------------------------
// response comparison

type normResponse struct {
	data     string
	errors   []string // every error object, sorted (multiset)
	errorsMP []string // (message, path) of every error, sorted (multiset)
	raw      string
}

func normaliseResponse(out []byte, nonce string) (normResponse, error) {
	s := strings.ReplaceAll(string(out), nonce, "N")
	var top map[string]json.RawMessage
	if err := json.Unmarshal([]byte(s), &top); err != nil {
		return normResponse{raw: s}, errors.New("response is not a JSON object: " + truncate(s, 200))
	}
	nr := normResponse{raw: s, data: string(top["data"])}
	if e, ok := top["errors"]; ok {
		var arr []json.RawMessage
		if err := json.Unmarshal(e, &arr); err != nil {
			return nr, errors.New("errors is not an array")
		}
		for _, x := range arr {
			nr.errors = append(nr.errors, string(x))
			var mp struct {
				Message json.RawMessage `json:"message"`
				Path    json.RawMessage `json:"path"`
			}
			_ = json.Unmarshal(x, &mp)
			nr.errorsMP = append(nr.errorsMP, string(mp.Message)+" @ "+string(mp.Path))
		}
		sort.Strings(nr.errors)
		sort.Strings(nr.errorsMP)
	}
	return nr, nil
}

// sameMessagesAndPaths: the multisets of (message, path) agree (the difference, if any, is in
// extensions / other members of the error objects).
func (a normResponse) sameMessagesAndPaths(b normResponse) bool {
	if len(a.errorsMP) != len(b.errorsMP) {
		return false
	}
	for i := range a.errorsMP {
		if a.errorsMP[i] != b.errorsMP[i] {
			return false
		}
	}
	return true
}

func (a normResponse) equal(b normResponse) (bool, string) {
	if a.data != b.data {
		return false, "data"
	}
	if len(a.errors) != len(b.errors) {
		return false, "errors"
	}
	for i := range a.errors {
		if a.errors[i] != b.errors[i] {
			return false, "errors"
		}
	}
	return true, ""
}
