// Package c13 checks property C13: subscription triggers are shared, started once, and always
// cleaned up. Same rig and actors as C12 plus fault sequences (failing Start, failing start-up
// hooks, removal racing trigger start-up, stale updaters); conservation / quiescence oracle and the
// porcupine check of DESIGN.md Appendix F5.
package c13

import (
	"fmt"
	"math/rand/v2"
	"sort"
	"strings"
	"time"

	"github.com/anishathalye/porcupine"

	"verifharness/internal/fw"
	"verifharness/internal/subrig"
)

type c13 struct{ fw.Base }

func init() { fw.Register(c13{}) }

const (
	quickHistories    = 3000
	thoroughHistories = 50000
)

func (c13) ID() string             { return "C13" }
func (c13) Race() bool             { return true }
func (c13) CrashIsViolation() bool { return true }
func (c13) CaseTimeout(string) int { return 180 }

func (c13) NumCases(tier string) int {
	if tier == fw.Thorough {
		return subrig.NumScript(true)*4 + NumReal()*4 + thoroughHistories
	}
	return subrig.NumScript(true) + NumReal() + quickHistories
}

func (c13) Rule() string {
	return "Cases 0..S-1 enumerate the scripted start-up races of notes/scenarios.md rows 7-9, 11 (start-up goroutine parked at trigger.beforeStart / trigger.afterStart / trigger.startFailed while its creator leaves and, optionally, a new subscriber re-creates the trigger with the same key; Start ok / failing immediately / failing after the context is cancelled; failing start-up hook; the source's Done arriving after the re-subscribe; both settle orders; source with and without the context-end reaction) and rows 1, 3, 5, 6, 10 for the clean-up oracle, each x every position of an injected resolver shutdown (row 12). Cases S..S+R-1 run the repository's real graphql_datasource.SubscriptionSource (real trigger hash, input rendered by the real planner and Resolver.subscriptionInput, fake upstream client) with pairs / triples of subscribers whose upstream identity is equal or differs in exactly one component (url, body.query, body.variables, body.extensions, forwarded header, initial_payload present/different, ws_sub_protocol, use_sse, configured header) x 4 shapes x 2 timings: equal identities share exactly one upstream Subscribe, unequal ones never do and never see each other's origin-tagged events. The remaining cases are the random programs of C12 with the fault alphabet switched on (Start failures, hook failures, Done/Update through older Start instances). Oracle per case: sharing (members of a Start instance have its (input, headers); a subscriber never moves; live subscribers of one key never sit on different instances; one Start per creating subscriber), quiescence (registry (0,0,0), every Start context cancelled, reporter Inc == Dec for both counters, every subscriber completed - first after all clients left and all sources finished, then after shutdown), no completion without a cause, no cross-talk, and the porcupine check of the subscribe / unsubscribe / source-finish history against the nondeterministic reference-count model, partitioned by key. Non-trivial: scripted = the start-up goroutine was parked (or, for rows without a park, >=1 Start instance); history = >=2 subscribers shared a Start instance or >=2 instances of one key. Distinct = distinct program / scenario variant."
}

func (c13) Assumptions() []string {
	return []string{
		"a Start instance's trigger is identified by the subscriber that created it (context value kept by xcontext.Detach) and by updater.Subscriptions() snapshots",
		"a trigger is certainly gone for subscriber s when every subscriber of the key whose subscribe began before that of s was completed before s began (used for 'completed without cause')",
		"quiescence is decided on the logical clock: the verdict 'leak' is only given after every gate is open, every action returned and the clock has not moved for 0.75 s; a clock still moving at the 20 s watchdog is inconclusive",
		"porcupine timeout (2 s per key partition) is inconclusive",
	}
}

func (c13) RequiredCounters(tier string) []string {
	return []string{"start_instances", "shared_instances", "reporter_sub_inc", "reporter_trigger_inc", "racing_pairs_parked",
		"hook:trigger.beforeStart", "hook:trigger.afterStart", "hook:trigger.startFailed", "hook:sub.join.beforeStartupHook",
		"start_failures", "startup_hook_failures", "start_with_cancelled_ctx", "porcupine_ok", "quiescent_histories",
		"pre_shutdown_registry_checks", "keys_with_several_instances", "cases_history", "cases_script",
		"cases_real_source", "real_upstream_subscribe_calls", "real_messages_checked", "real_identities_with_one_upstream", "real_upstream_options_checked"}
}

func (p c13) Run(c *fw.Ctx, idx int) fw.Result {
	res := fw.Result{}
	ns := subrig.NumScript(true)
	nr := NumReal()
	rep := 1
	if c.Tier == fw.Thorough {
		rep = 4
	}
	// layout: scripted scenarios (x rep) | real-source family (x rep) | random histories
	var caseIdx int
	switch {
	case idx < ns*rep:
		caseIdx = idx % ns
	case idx < (ns+nr)*rep:
		runReal(&res, (idx-ns*rep)%nr)
		return res
	default:
		caseIdx = ns + (idx - (ns+nr)*rep)
	}
	h, ci := subrig.RunCase(true, caseIdx, func(stream string) *rand.Rand { return c.Rng(idx, stream) })
	subrig.CountCommon(&res, h, ci)
	Check(&res, h)
	if ci.Kind == "script" {
		res.Key = fw.HashKey("C13", ci.Name, ci.ShutdownAt)
		res.Nontrivial = h.Parked > 0 || len(h.Instances) > 0
		if len(ci.NotReached) > 0 {
			res.Inconclusive = "hook-not-reached: " + strings.Join(ci.NotReached, ", ")
		}
		res.Sample = map[string]any{"kind": "script", "scenario": ci.Name, "row": ci.Row, "shutdown_before_step": ci.ShutdownAt, "interleaving": h.Signature}
	} else {
		res.Key = fw.HashKey("C13", ci.Program.String())
		res.Nontrivial = res.Counters["shared_instances"] > 0 || res.Counters["keys_with_several_instances"] > 0
		s := ci.Program.String()
		if len(s) > 600 {
			s = s[:600] + "…"
		}
		res.Sample = map[string]any{"kind": "history", "program": s}
	}
	if h.Quiet.StillBusy && res.Inconclusive == "" {
		res.Inconclusive = "watchdog: still busy at the quiescence deadline: " + h.Quiet.Pending
	}
	return res
}

// attachment: the Start instance a subscriber is known to sit on (-1 unknown) and when that was known.
type attach struct {
	inst  int
	since int64
}

func attachments(h *subrig.History, res *fw.Result, witness func(map[string]any) map[string]any) map[int]attach {
	at := map[int]attach{}
	for _, i := range h.Instances {
		mem := i.Members()
		if i.Creator != nil {
			if _, ok := mem[i.Creator.Idx]; !ok {
				mem[i.Creator.Idx] = i.StartCall
			}
		}
		idxs := make([]int, 0, len(mem))
		for k := range mem {
			idxs = append(idxs, k)
		}
		sort.Ints(idxs)
		for _, si := range idxs {
			if prev, ok := at[si]; ok && prev.inst != i.ID {
				violate(res, "sharing.moved", fmt.Sprintf("subscriber s%d was seen attached to Start instances i%d and i%d", si, prev.inst, i.ID), nil, witness(nil))
				continue
			}
			if prev, ok := at[si]; !ok || mem[si] < prev.since {
				at[si] = attach{i.ID, mem[si]}
			}
		}
	}
	return at
}

// staleActor: the precondition of the trigger-id re-use defect is present in this history: two
// triggers of one key were created by subscribers c and c' (c' later), and c' began to subscribe
// before the asynchronous actors of c's trigger had finished: (a) its start-up goroutine (up to its
// final registry action), (b) a Done() on the updater handed to its Start, (c) a failing start-up
// hook of c. Such an actor addresses "its" trigger by id and can hit the trigger of c'.
func staleActor(h *subrig.History) bool {
	actorsEnd := map[*subrig.Subscriber]int64{}
	upd := func(c *subrig.Subscriber, ts int64) {
		if c == nil {
			return
		}
		if ts == 0 {
			ts = h.End
		}
		if ts > actorsEnd[c] {
			actorsEnd[c] = ts
		}
	}
	for _, st := range h.Startups {
		upd(st.Creator.Load(), st.End.Load())
	}
	for _, i := range h.Instances {
		upd(i.Creator, i.StartRet.Load())
	}
	for _, krs := range h.KeyRemovals {
		for _, kr := range krs {
			upd(kr.Creator, kr.Ret.Load())
		}
	}
	for c, end := range actorsEnd {
		for c2 := range actorsEnd {
			if c2 != c && c2.Key == c.Key && c2.SubInv.Load() > c.SubInv.Load() && c2.SubInv.Load() < end {
				return true
			}
		}
	}
	return false
}

// incRacedRemoval: some start-up goroutine reported TriggerCountInc for its trigger although an
// action that removes that trigger (shutdown, or the removal of every subscriber known to sit on
// it) had already begun: the increment is not atomic with the registry.
func incRacedRemoval(h *subrig.History, at map[int]attach) bool {
	byG := map[int64]int64{}
	for _, inc := range h.TrigIncs {
		byG[inc.Gid] = inc.Ts
	}
	for _, st := range h.Startups {
		incTs, ok := byG[st.Gid]
		c := st.Creator.Load()
		if !ok || c == nil {
			continue
		}
		if h.ShutdownInv != 0 && h.ShutdownInv < incTs {
			return true
		}
		inst := -1
		for _, i := range h.Instances {
			if i.Creator == c {
				inst = i.ID
			}
		}
		all := true
		for _, s := range h.Subs {
			if a, ok := at[s.Idx]; (ok && a.inst == inst) || s == c {
				if rm, _ := h.FirstRemoval(s); rm == 0 || rm >= incTs {
					all = false
				}
			}
		}
		if all {
			return true
		}
	}
	return false
}

// Check is the C13 oracle.
func Check(res *fw.Result, h *subrig.History) {
	witness := func(extra map[string]any) map[string]any {
		m := map[string]any{"history": h.Describe(160)}
		for k, v := range extra {
			m[k] = v
		}
		return m
	}
	stale := fmt.Sprint(staleActor(h))

	// ---- sharing
	for _, a := range h.Anomalies {
		if strings.Contains(a, "attached to Start instance") {
			violate(res, "sharing.unequal-share", a, nil, witness(nil))
		}
	}
	perKey := map[int]int{}
	creators := map[int]int{}
	for _, i := range h.Instances {
		if i.Key < 0 {
			violate(res, "sharing.unknown-start", fmt.Sprintf("Start instance i%d has input %q / header %q which no subscriber asked for", i.ID, i.Input, i.Header), nil, witness(nil))
			continue
		}
		perKey[i.Key]++
		if i.Creator != nil {
			if prev, ok := creators[i.Creator.Idx]; ok {
				violate(res, "start.twice", fmt.Sprintf("Start was called twice (i%d, i%d) for the trigger created by s%d", prev, i.ID, i.Creator.Idx), nil, witness(nil))
			}
			creators[i.Creator.Idx] = i.ID
			if i.Creator.Key != i.Key {
				violate(res, "sharing.unequal-share", fmt.Sprintf("Start instance i%d of key %d was created for subscriber s%d of key %d", i.ID, i.Key, i.Creator.Idx, i.Creator.Key), nil, witness(nil))
			}
		}
	}
	for _, n := range perKey {
		if n > 1 {
			res.Count("keys_with_several_instances", 1)
		}
	}
	at := attachments(h, res, witness)
	members := map[int]int{}
	for _, a := range at {
		members[a.inst]++
	}
	for _, n := range members {
		if n > 1 {
			res.Count("shared_instances", 1)
			res.Count("subscribers_sharing", int64(n))
		}
	}
	// live subscribers of one key on different instances
	type win struct {
		s        *subrig.Subscriber
		inst     int
		from, to int64
	}
	byKey := map[int][]win{}
	for _, s := range h.Subs {
		a, ok := at[s.Idx]
		if !ok || s.SubInv.Load() == 0 {
			continue
		}
		from := a.since
		if !s.Sync && s.SubRet.Load() > from {
			from = s.SubRet.Load()
		}
		if s.Sync && s.FirstSeen.Load() > from {
			from = s.FirstSeen.Load()
		}
		to, _ := h.FirstRemoval(s)
		if to == 0 {
			to = h.End
		}
		if from < to {
			byKey[s.Key] = append(byKey[s.Key], win{s, a.inst, from, to})
		}
	}
	for _, ws := range byKey {
		for i := 0; i < len(ws); i++ {
			for j := i + 1; j < len(ws); j++ {
				a, b := ws[i], ws[j]
				if a.inst == b.inst {
					res.Count("sharing_pairs_checked", 1)
					continue
				}
				lo, hi := max64(a.from, b.from), min64(a.to, b.to)
				if lo < hi {
					violate(res, "sharing.split", fmt.Sprintf("s%d (on i%d) and s%d (on i%d) have the same key and were both live during (%d,%d) but do not share one upstream subscription", a.s.Idx, a.inst, b.s.Idx, b.inst, lo, hi),
						map[string]string{"stale_actor": stale}, witness(nil))
				}
			}
		}
	}

	// ---- cross-talk
	for _, s := range h.Subs {
		for _, m := range s.W.Log().Msgs {
			eid, key, ok := subrig.ParseDelivered(m.Data)
			if !ok || eid < 1 || eid > len(h.Events) {
				continue
			}
			res.Count("messages_key_checked", 1)
			if h.Events[eid-1].Key != s.Key || (key != "" && key != h.Keys[s.Key].Name) {
				violate(res, "cross-talk", fmt.Sprintf("s%d (key %s) received event e%d of key %s", s.Idx, h.Keys[s.Key].Name, eid, h.Keys[h.Events[eid-1].Key].Name), nil, witness(map[string]any{"message": m.Data}))
			}
		}
	}

	// ---- quiescence: after the history everything is gone
	q := h.Quiet
	quiesce := func(phase, pending string) {
		mt := map[string]string{"phase": phase, "stale_actor": stale}
		switch {
		case strings.HasPrefix(pending, "registry"):
			violate(res, "registry-leak", fmt.Sprintf("%s: %s remains (triggers, subscriptions, connections)", phase, pending), mt, witness(nil))
		case strings.Contains(pending, "not completed") || strings.Contains(pending, "has not returned") || strings.Contains(pending, "completions outstanding"):
			violate(res, "not-completed", fmt.Sprintf("%s: %s", phase, pending), mt, witness(nil))
		case strings.HasPrefix(pending, "Start context") && strings.Contains(pending, "not cancelled"):
			violate(res, "ctx-not-cancelled", fmt.Sprintf("%s: %s", phase, pending), mt, witness(nil))
		case strings.HasPrefix(pending, "Start of instance") || strings.Contains(pending, "calls into the source"):
			violate(res, "start-not-returned", fmt.Sprintf("%s: %s", phase, pending), mt, witness(nil))
		case pending == "subscription counter":
			mt["counter"] = "subscription"
			violate(res, "counter-drift", fmt.Sprintf("%s: SubscriptionCountInc total %d != SubscriptionCountDec total %d", phase, h.SubInc, h.SubDec), mt, witness(nil))
		case pending == "trigger counter":
			mt["counter"] = "trigger"
			mt["inc_raced_removal"] = fmt.Sprint(incRacedRemoval(h, at))
			mt["sign"] = "inc>dec"
			if h.TrigInc < h.TrigDec {
				mt["sign"] = "inc<dec"
			}
			violate(res, "counter-drift", fmt.Sprintf("%s: TriggerCountInc total %d != TriggerCountDec total %d", phase, h.TrigInc, h.TrigDec), mt, witness(nil))
		default:
			violate(res, "not-quiescent", fmt.Sprintf("%s: %s", phase, pending), mt, witness(nil))
		}
	}
	if q.PreTrig >= 0 {
		res.Count("pre_shutdown_registry_checks", 1)
		if !q.PreSettled && !q.PreBusy {
			quiesce("after every client left and every source finished (before shutdown)", q.PrePending)
		}
	}
	switch {
	case q.Settled:
		res.Count("quiescent_histories", 1)
	case q.StillBusy:
	default:
		if q.PreSettled || q.PreTrig < 0 || q.PrePending != q.Pending {
			quiesce("after shutdown", q.Pending)
		}
	}

	// ---- no completion without a cause
	for _, s := range h.Subs {
		if s.SubInv.Load() == 0 {
			continue
		}
		ds := h.DonesOf(s)
		if len(ds) == 0 {
			continue
		}
		d := ds[0]
		caused := false
		for _, rm := range s.Removals() {
			if rm.Ts < d {
				caused = true
			}
		}
		for _, ts := range s.W.Log().FailTs {
			if ts < d {
				caused = true
			}
		}
		if h.ShutdownInv != 0 && h.ShutdownInv < d {
			caused = true
		}
		staleCause := ""
		for _, kr := range h.KeyRemovals[s.Key] {
			if kr.Call >= d {
				continue
			}
			if ret := kr.Ret.Load(); ret != 0 && ret < s.SubInv.Load() {
				continue
			}
			if h.StaleFor(kr.Creator, s) {
				staleCause = kr.What
				continue
			}
			caused = true
		}
		res.Count("completions_checked_for_cause", 1)
		if !caused {
			mt := map[string]string{"stale_teardown": fmt.Sprint(staleCause != "")}
			violate(res, "spurious-completion", fmt.Sprintf("s%d was completed at t=%d although nothing that may remove it had begun (no own removal, writer failure, shutdown, nor a source finish / start failure of its own trigger)%s", s.Idx, d, ifs(staleCause != "", "; a trigger that was gone before it subscribed did: "+staleCause, "")), mt, witness(nil))
		}
	}

	// ---- porcupine
	porcupineCheck(res, h, at, stale, witness)
}

func ifs(c bool, a, b string) string {
	if c {
		return a
	}
	return b
}

func min64(a, b int64) int64 {
	if a < b {
		return a
	}
	return b
}
func max64(a, b int64) int64 {
	if a > b {
		return a
	}
	return b
}

// ---------------------------------------------------------------------------------------------
// F5: nondeterministic reference-count model, one partition per trigger key.

type pin struct {
	kind string // sub | unsub | maybe | removeall | shutdown
	sub  int    // position of the subscriber in the partition
	inst int    // instance id, -2 unknown
	desc string
}

type pstate struct {
	subs string // per subscriber of the partition: '0' not yet, '1' attached, '2' gone
	cur  int    // -1 none, -2 unknown, else instance id
	used string // instance ids that already served a generation, ",i,"
}

func (s pstate) enc() string { return fmt.Sprintf("%s|%d|%s", s.subs, s.cur, s.used) }

func anyAttached(s string) bool { return strings.IndexByte(s, '1') >= 0 }

func setAt(s string, i int, c byte) string {
	b := []byte(s)
	b[i] = c
	return string(b)
}

func clearAll(s string) string { return strings.ReplaceAll(s, "1", "2") }

func step(st pstate, in pin) []pstate {
	switch in.kind {
	case "sub":
		if st.subs[in.sub] != '0' {
			return nil
		}
		tag := fmt.Sprintf(",%d,", in.inst)
		if !anyAttached(st.subs) {
			if in.inst >= 0 {
				if strings.Contains(st.used, tag) {
					return nil
				}
				st.cur = in.inst
				st.used += tag
			} else {
				st.cur = -2
			}
		} else if in.inst >= 0 {
			switch {
			case st.cur == -2:
				if strings.Contains(st.used, tag) {
					return nil
				}
				st.cur = in.inst
				st.used += tag
			case st.cur != in.inst:
				return nil
			}
		}
		st.subs = setAt(st.subs, in.sub, '1')
		return []pstate{st}
	case "unsub", "maybe":
		if st.subs[in.sub] == '0' {
			if in.kind == "maybe" {
				// CloseSubscription by the source may run before the subscribe call has registered
				return []pstate{st}
			}
			return nil // a client-side removal never precedes its own subscribe
		}
		out := []pstate{}
		if in.kind == "maybe" {
			out = append(out, st)
		}
		if st.subs[in.sub] == '1' {
			st.subs = setAt(st.subs, in.sub, '2')
			if !anyAttached(st.subs) {
				st.cur = -1
			}
		}
		return append(out, st)
	case "removeall":
		cleared := st
		cleared.subs = clearAll(st.subs)
		cleared.cur = -1
		switch {
		case !anyAttached(st.subs):
			return []pstate{st}
		case in.inst >= 0 && st.cur == in.inst:
			return []pstate{cleared}
		case in.inst >= 0 && st.cur >= 0:
			return []pstate{st} // a finish of another (older) instance does not touch this generation
		default:
			return []pstate{st, cleared}
		}
	case "shutdown":
		st.subs = clearAll(st.subs)
		st.cur = -1
		return []pstate{st}
	}
	return []pstate{st}
}

func porcupineCheck(res *fw.Result, h *subrig.History, at map[int]attach, stale string, witness func(map[string]any) map[string]any) {
	for key := range h.Keys {
		pos := map[int]int{}
		var ops []porcupine.Operation
		cid := 0
		addOp := func(in pin, call, ret int64) {
			if ret == 0 || ret < call {
				ret = -1 // open: closed below at a horizon later than every recorded time
			}
			ops = append(ops, porcupine.Operation{ClientId: cid, Input: in, Call: call, Output: nil, Return: ret})
			cid++
		}
		for _, s := range h.Subs {
			if s.Key != key || s.SubInv.Load() == 0 {
				continue
			}
			if !s.Sync && s.SubErr() != "" {
				continue
			}
			_, idKnown := s.ID()
			if _, attached := at[s.Idx]; s.Sync && s.SyncErr() != "" && !idKnown && !attached {
				continue
			}
			pos[s.Idx] = len(pos)
			inst := -2
			if a, ok := at[s.Idx]; ok {
				inst = a.inst
			}
			ret := s.SubRet.Load()
			if s.Sync {
				ret = s.SyncRet.Load()
				if fs := s.FirstSeen.Load(); fs != 0 && (ret == 0 || fs < ret) {
					ret = fs
				}
			}
			addOp(pin{kind: "sub", sub: pos[s.Idx], inst: inst, desc: fmt.Sprintf("subscribe(s%d)->i%d", s.Idx, inst)}, s.SubInv.Load(), ret)
			done := h.DoneTs(s)
			for _, ts := range s.W.Log().FailTs {
				addOp(pin{kind: "unsub", sub: pos[s.Idx], desc: fmt.Sprintf("writer-failure(s%d)", s.Idx)}, ts, done)
			}
		}
		for _, hc := range h.HookCalls {
			p, ok := pos[hc.Sub.Idx]
			if !hc.Failed || hc.Sub.Key != key || !ok {
				continue
			}
			if hc.Sub.Joined() {
				addOp(pin{kind: "unsub", sub: p, desc: fmt.Sprintf("hook-failed(s%d)", hc.Sub.Idx)}, hc.Ret, h.DoneTs(hc.Sub))
			} else {
				addOp(pin{kind: "removeall", inst: -2, desc: fmt.Sprintf("creator-hook-failed(s%d)", hc.Sub.Idx)}, hc.Ret, 0)
				addOp(pin{kind: "maybe", sub: p, desc: fmt.Sprintf("hook-failed(s%d)", hc.Sub.Idx)}, hc.Ret, 0)
			}
		}
		for _, i := range h.Instances {
			if i.Key == key && i.StartFailed.Load() {
				addOp(pin{kind: "removeall", inst: i.ID, desc: fmt.Sprintf("start-failed(i%d)", i.ID)}, i.StartRet.Load(), 0)
			}
		}
		for _, o := range h.Ops {
			switch o.Kind {
			case "unsub", "maybe-unsub":
				if o.Key != key || o.Sub == nil {
					continue
				}
				p, ok := pos[o.Sub.Idx]
				if !ok {
					continue
				}
				k := "unsub"
				if o.Kind == "maybe-unsub" {
					k = "maybe"
				}
				if o.Sub.Sync && o.Sub.SyncErr() != "" {
					// The synchronous call returned the resolver's shutdown error: it may have returned
					// on r.ctx.Done() without unsubscribing (the subscriber then stays registered, and
					// others can still join its trigger, until shutdownResolver detaches everything).
					k = "maybe"
				}
				ret := o.Ret
				if ret == 0 && o.Sub.Sync {
					ret = o.Sub.SyncRet.Load()
				}
				addOp(pin{kind: k, sub: p, desc: fmt.Sprintf("%s(s%d)", o.Note, o.Sub.Idx)}, o.Call, ret)
			case "removeall":
				if o.Key == key && o.Inst != nil {
					addOp(pin{kind: "removeall", inst: o.Inst.ID, desc: fmt.Sprintf("%s(i%d)", o.Note, o.Inst.ID)}, o.Call, o.Ret)
				}
			case "shutdown":
				addOp(pin{kind: "shutdown", desc: "shutdown"}, o.Call, o.Ret)
			}
		}
		if len(pos) == 0 {
			continue
		}
		horizon := h.End
		for _, o := range ops {
			horizon = max64(horizon, max64(o.Call, o.Return))
		}
		horizon++
		for i := range ops {
			if ops[i].Return < 0 {
				ops[i].Return = horizon
			}
		}
		n := len(pos)
		model := porcupine.NondeterministicModel{
			Init: func() []interface{} {
				return []interface{}{pstate{subs: strings.Repeat("0", n), cur: -1}.enc()}
			},
			Step: func(state, input, output interface{}) []interface{} {
				st := dec(state.(string))
				var out []interface{}
				for _, ns := range step(st, input.(pin)) {
					out = append(out, ns.enc())
				}
				return out
			},
			Equal: func(a, b interface{}) bool { return a.(string) == b.(string) },
			DescribeOperation: func(in, out interface{}) string {
				return in.(pin).desc
			},
		}
		res.Count("porcupine_operations", int64(len(ops)))
		r := porcupine.CheckOperationsTimeout(model.ToModel(), ops, 2*time.Second)
		switch r {
		case porcupine.Ok:
			res.Count("porcupine_ok", 1)
		case porcupine.Illegal:
			res.Count("porcupine_illegal", 1)
			var ds []string
			sort.Slice(ops, func(i, j int) bool { return ops[i].Call < ops[j].Call })
			for _, o := range ops {
				ds = append(ds, fmt.Sprintf("[%d,%d] %s", o.Call, o.Return, o.Input.(pin).desc))
			}
			if len(ds) > 120 {
				ds = ds[:120]
			}
			violate(res, "porcupine-illegal", fmt.Sprintf("the subscribe/unsubscribe/source-finish history of key %s is not linearizable against the shared-trigger reference-count model", h.Keys[key].Name),
				map[string]string{"stale_actor": stale}, witness(map[string]any{"operations": ds}))
		default:
			res.Count("porcupine_unknown", 1)
			if res.Inconclusive == "" {
				res.Inconclusive = "porcupine: checker timeout"
			}
		}
	}
}

func dec(s string) pstate {
	p := strings.SplitN(s, "|", 3)
	st := pstate{}
	if len(p) == 3 {
		st.subs = p[0]
		fmt.Sscanf(p[1], "%d", &st.cur)
		st.used = p[2]
	}
	return st
}

// violate reports at most three violations per kind and case (a broken tree can produce thousands
// in one history); the rest is counted.
func violate(res *fw.Result, kind, msg string, match map[string]string, detail any) {
	n := 0
	for _, v := range res.Violations {
		if v.Kind == kind {
			n++
		}
	}
	if n >= 3 {
		res.Count("violations_not_listed", 1)
		return
	}
	res.Violate(kind, msg, match, detail)
}
