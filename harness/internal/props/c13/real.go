package c13

// Real-source family: the repository's graphql_datasource.SubscriptionSource (real HashTriggerInput,
// real Start, input rendered by the real planner and by Resolver.subscriptionInput) behind
// resolve.Resolver, with a fake GraphQLSubscriptionClient as the upstream. Pairs / triples of
// subscribers whose upstream input and forwarded headers are equal, or differ in exactly one
// component. Oracle (C13 statement, literally): equal (input, forwarded headers) share exactly one
// upstream subscription; subscribers that differ in any component of the input or in the
// forwarded headers never share one, and never receive each other's events (origin-tagged).

import (
	"context"
	"encoding/json"
	"fmt"
	"io"
	"net/http"
	"regexp"
	"strings"
	"sync"
	"time"

	"github.com/cespare/xxhash/v2"
	"github.com/wundergraph/astjson"

	"github.com/wundergraph/graphql-go-tools/execution/graphql"
	"github.com/wundergraph/graphql-go-tools/v2/pkg/engine/datasource/graphql_datasource"
	"github.com/wundergraph/graphql-go-tools/v2/pkg/engine/plan"
	"github.com/wundergraph/graphql-go-tools/v2/pkg/engine/postprocess"
	"github.com/wundergraph/graphql-go-tools/v2/pkg/engine/resolve"
	"github.com/wundergraph/graphql-go-tools/v2/pkg/operationreport"

	"verifharness/internal/fw"
	"verifharness/internal/subrig"
)

const realSDL = `schema { query: Query subscription: Subscription }
type Query { q: Int }
type Subscription { counter(k: Int): Ev }
type Ev { n: Int origin: String }`

// realKey is one (upstream input, forwarded headers) identity, component by component.
type realKey struct {
	URL        string
	Query      string
	Variables  string
	Extensions string
	Forwarded  string // forwarded client header value ("" = none)
	Initial    string // connection initial payload
	WsProto    string
	UseSSE     bool
	StaticHdr  string // header configured on the data source (part of the rendered input)
}

func baseKey() realKey {
	return realKey{
		URL:        "ws://upstream-a.invalid/graphql",
		Query:      `subscription($k: Int){ counter(k: $k){ n origin } }`,
		Variables:  `{"k":1}`,
		Extensions: `{"persisted":"x1"}`,
		Forwarded:  "tenant-1",
		Initial:    `{"Authorization":"Bearer alice"}`,
		WsProto:    "graphql-transport-ws",
		StaticHdr:  "s1",
	}
}

// realComponents: which single component the second identity differs in. judged=false would mean
// "does not separate triggers on the clean tree by design: counted, not judged" (none at present:
// the clean tree hashes the whole rendered input and the forwarded-headers hash).
var realComponents = []struct {
	name   string
	judged bool
	vary   func(k *realKey)
}{
	{"equal", true, func(k *realKey) {}},
	{"equal-replanned", true, func(k *realKey) {}},
	{"url", true, func(k *realKey) { k.URL = "ws://upstream-b.invalid/graphql" }},
	{"body.query", true, func(k *realKey) { k.Query = `subscription($k: Int){ counter(k: $k){ origin n } }` }},
	{"body.variables", true, func(k *realKey) { k.Variables = `{"k":2}` }},
	{"body.extensions", true, func(k *realKey) { k.Extensions = `{"persisted":"x2"}` }},
	{"forwarded-header", true, func(k *realKey) { k.Forwarded = "tenant-2" }},
	{"initial_payload", true, func(k *realKey) { k.Initial = `{"Authorization":"Bearer bob"}` }},
	{"initial_payload-absent", true, func(k *realKey) { k.Initial = "" }},
	{"ws_sub_protocol", true, func(k *realKey) { k.WsProto = "graphql-ws" }},
	{"use_sse", true, func(k *realKey) { k.UseSSE = true }},
	{"header", true, func(k *realKey) { k.StaticHdr = "s2" }},
}

var realShapes = []string{"AX", "AXA", "AXX", "XAA"}

// NumReal is the number of enumerated real-source cases: component x shape x timing.
func NumReal() int { return len(realComponents) * len(realShapes) * 2 }

type realSubCtxKey struct{}

type realSub struct {
	idx   int
	label byte // 'A' or 'X'
	key   realKey
	w     *subrig.RecWriter
	id    resolve.SubscriptionIdentifier
	ctx   *resolve.Context
	plan  *resolve.GraphQLSubscription
}

type realUpstream struct {
	idx     int
	opts    graphql_datasource.GraphQLSubscriptionOptions
	ctx     context.Context
	updater resolve.SubscriptionUpdater
	creator *realSub
}

type realClient struct {
	mu    sync.Mutex
	calls []*realUpstream
}

func (c *realClient) Subscribe(ctx *resolve.Context, options graphql_datasource.GraphQLSubscriptionOptions, updater resolve.SubscriptionUpdater) error {
	u := &realUpstream{opts: options, ctx: ctx.Context(), updater: updater}
	u.creator, _ = ctx.Context().Value(realSubCtxKey{}).(*realSub)
	c.mu.Lock()
	u.idx = len(c.calls)
	c.calls = append(c.calls, u)
	c.mu.Unlock()
	// like the real client: when the trigger context ends the source reports that it is finished
	context.AfterFunc(ctx.Context(), updater.Done)
	return nil
}

func (c *realClient) snapshot() []*realUpstream {
	c.mu.Lock()
	defer c.mu.Unlock()
	return append([]*realUpstream(nil), c.calls...)
}

type realErrWriter struct{}

func (realErrWriter) WriteError(_ *resolve.Context, err error, _ *resolve.GraphQLResponse, w io.Writer) {
	if rw, ok := w.(*subrig.RecWriter); ok {
		rw.WriteErr(fmt.Sprint(err))
		return
	}
	_, _ = w.Write([]byte(fmt.Sprint(err)))
}

type realHeaders struct{ val string }

func (h realHeaders) HeadersForSubgraph(string) (http.Header, uint64) {
	if h.val == "" {
		return nil, 0
	}
	return http.Header{"X-Tenant": []string{h.val}}, xxhash.Sum64String(h.val) | 1
}
func (h realHeaders) HashAll() uint64 { return xxhash.Sum64String(h.val) }

// planReal plans the subscription with the repository's normaliser, validator, planner and
// post-processor for a data source configured from the key.
func planReal(ctx context.Context, client graphql_datasource.GraphQLSubscriptionClient, k realKey) (*resolve.GraphQLSubscription, error) {
	factory, err := graphql_datasource.NewFactory(ctx, http.DefaultClient, client)
	if err != nil {
		return nil, err
	}
	sc, err := graphql_datasource.NewSchemaConfiguration(realSDL, nil)
	if err != nil {
		return nil, err
	}
	cfg, err := graphql_datasource.NewConfiguration(graphql_datasource.ConfigurationInput{
		Fetch: &graphql_datasource.FetchConfiguration{URL: "http://upstream.invalid/graphql", Method: "POST"},
		Subscription: &graphql_datasource.SubscriptionConfiguration{
			URL: k.URL, UseSSE: k.UseSSE, WsSubProtocol: k.WsProto,
			Header: http.Header{"X-Static": []string{k.StaticHdr}},
		},
		SchemaConfiguration: sc,
	})
	if err != nil {
		return nil, err
	}
	md := &plan.DataSourceMetadata{
		RootNodes:  []plan.TypeField{{TypeName: "Query", FieldNames: []string{"q"}}, {TypeName: "Subscription", FieldNames: []string{"counter"}}},
		ChildNodes: []plan.TypeField{{TypeName: "Ev", FieldNames: []string{"n", "origin"}}},
	}
	ds, err := plan.NewDataSourceConfigurationWithName[graphql_datasource.Configuration]("ds", "ds", factory, md, cfg)
	if err != nil {
		return nil, err
	}
	schema, err := graphql.NewSchemaFromString(realSDL)
	if err != nil {
		return nil, err
	}
	req := &graphql.Request{Query: k.Query, Variables: json.RawMessage(k.Variables)}
	if res, err := req.Normalize(schema); err != nil {
		return nil, err
	} else if !res.Successful {
		return nil, fmt.Errorf("normalize: %v", res.Errors)
	}
	if res, err := req.ValidateForSchema(schema); err != nil {
		return nil, err
	} else if !res.Valid {
		return nil, fmt.Errorf("validate: %v", res.Errors)
	}
	planner, err := plan.NewPlanner(plan.Configuration{
		DataSources: []plan.DataSource{ds},
		Fields: plan.FieldConfigurations{{TypeName: "Subscription", FieldName: "counter",
			Arguments: plan.ArgumentsConfigurations{{Name: "k", SourceType: plan.FieldArgumentSource}}}},
		DisableResolveFieldPositions: true,
	})
	if err != nil {
		return nil, err
	}
	var report operationreport.Report
	p := planner.Plan(req.Document(), schema.Document(), "", &report)
	if report.HasErrors() {
		return nil, fmt.Errorf("plan: %s", report.Error())
	}
	postprocess.NewProcessor().Process(p)
	sp, ok := p.(*plan.SubscriptionResponsePlan)
	if !ok {
		return nil, fmt.Errorf("plan is %T", p)
	}
	if _, ok := sp.Response.Trigger.Source.(*graphql_datasource.SubscriptionSource); !ok {
		return nil, fmt.Errorf("trigger source is %T", sp.Response.Trigger.Source)
	}
	return sp.Response, nil
}

var originRe = regexp.MustCompile(`"origin":"u(\d+)"`)

// runReal executes real-source case i.
func runReal(res *fw.Result, i int) {
	comp := realComponents[i%len(realComponents)]
	shape := realShapes[(i/len(realComponents))%len(realShapes)]
	waitEach := (i/(len(realComponents)*len(realShapes)))%2 == 0
	res.Key = fw.HashKey("C13-real", comp.name, shape, waitEach)
	res.Sample = map[string]any{"kind": "real-source", "differs_in": comp.name, "shape": shape, "wait_for_upstream_between_subscribes": waitEach}
	res.Count("cases_real_source", 1)
	res.Count("real_component_"+comp.name, 1)

	rctx, shutdown := context.WithCancel(context.Background())
	defer shutdown()
	client := &realClient{}
	clock := &subrig.Clock{}
	keyA := baseKey()
	keyX := baseKey()
	comp.vary(&keyX)
	equal := keyA == keyX

	plans := map[byte]*resolve.GraphQLSubscription{}
	for _, l := range []byte{'A', 'X'} {
		k := keyA
		if l == 'X' {
			k = keyX
		}
		if l == 'X' && comp.name == "equal" {
			plans['X'] = plans['A'] // same plan object (plan cache hit)
			continue
		}
		p, err := planReal(rctx, client, k)
		if err != nil {
			res.Inconclusive = "planning: " + err.Error()
			return
		}
		plans[l] = p
	}
	r := resolve.New(rctx, resolve.ResolverOptions{MaxConcurrency: 16, AsyncErrorWriter: realErrWriter{}, SubscriptionHeartbeatInterval: time.Hour})

	var subs []*realSub
	conn := resolve.NewConnectionID()
	for n, l := range []byte(shape) {
		k := keyA
		if l == 'X' {
			k = keyX
		}
		s := &realSub{idx: n, label: l, key: k, w: subrig.NewRecWriter(clock), plan: plans[l]}
		s.id = resolve.SubscriptionIdentifier{ConnectionID: conn, SubscriptionID: int64(n + 1)}
		s.ctx = resolve.NewContext(context.WithValue(context.Background(), realSubCtxKey{}, s))
		s.ctx.Variables = astjson.MustParseBytes([]byte(k.Variables))
		if k.Initial != "" {
			s.ctx.InitialPayload = []byte(k.Initial)
		}
		s.ctx.Extensions = []byte(k.Extensions)
		s.ctx.SubgraphHeadersBuilder = realHeaders{k.Forwarded}
		subs = append(subs, s)
	}
	label := func(s *realSub) byte {
		if equal {
			return 'A' // one identity
		}
		return s.label
	}
	waitFor := func(cond func() bool) bool {
		deadline := time.Now().Add(3 * time.Second)
		for !cond() {
			if time.Now().After(deadline) {
				return false
			}
			time.Sleep(100 * time.Microsecond)
		}
		return true
	}
	startedFor := func(l byte) bool {
		for _, u := range client.snapshot() {
			if u.creator != nil && label(u.creator) == l {
				return true
			}
		}
		return false
	}
	for _, s := range subs {
		if err := r.AsyncResolveGraphQLSubscription(s.ctx, s.plan, s.w, s.id); err != nil {
			res.Inconclusive = "subscribe: " + err.Error()
			return
		}
		if waitEach {
			// under a sharing break the upstream of this identity is never started: bounded wait
			l := label(s)
			deadline := time.Now().Add(30 * time.Millisecond)
			for !startedFor(l) && time.Now().Before(deadline) {
				time.Sleep(100 * time.Microsecond)
			}
		}
	}
	// every registered trigger has started its upstream
	if !waitFor(func() bool { t, _, _ := r.VerifRegistrySizes(); return len(client.snapshot()) >= t }) {
		res.Inconclusive = "watchdog: upstream subscriptions not started"
		return
	}
	time.Sleep(300 * time.Microsecond)
	ups := client.snapshot()
	res.Count("real_upstream_subscribe_calls", int64(len(ups)))
	for _, u := range ups {
		for n := 1; n <= 2; n++ {
			u.updater.Update([]byte(fmt.Sprintf(`{"data":{"counter":{"n":%d,"origin":"u%d"}}}`, n, u.idx)))
			res.Count("real_events_emitted", 1)
		}
	}
	for _, s := range subs {
		_ = r.UnsubscribeSubscription(s.id)
	}
	quiet := waitFor(func() bool {
		t, n, c := r.VerifRegistrySizes()
		if t != 0 || n != 0 || c != 0 {
			return false
		}
		for _, u := range client.snapshot() {
			if u.ctx.Err() == nil {
				return false
			}
		}
		return true
	})

	// ---- oracle
	desc := func() map[string]any {
		var us, ss []string
		for _, u := range client.snapshot() {
			c := "?"
			if u.creator != nil {
				c = fmt.Sprintf("s%d(%c)", u.creator.idx, u.creator.label)
			}
			us = append(us, fmt.Sprintf("u%d started for %s: url=%s initial_payload=%s variables=%s extensions=%s forwarded=%v ws_sub_protocol=%s use_sse=%v query=%s",
				u.idx, c, u.opts.URL, u.opts.InitialPayload, u.opts.Body.Variables, u.opts.Body.Extensions, u.opts.Header, u.opts.WsSubProtocol, u.opts.UseSSE, u.opts.Body.Query))
		}
		for _, s := range subs {
			var ms []string
			for _, m := range s.w.Log().Msgs {
				ms = append(ms, m.Data)
			}
			ss = append(ss, fmt.Sprintf("s%d identity %c received %v", s.idx, s.label, ms))
		}
		return map[string]any{"differs_in": comp.name, "shape": shape, "identity_A": fmt.Sprintf("%+v", keyA), "identity_X": fmt.Sprintf("%+v", keyX), "upstreams": us, "subscribers": ss}
	}
	match := map[string]string{"component": comp.name}
	if !comp.judged {
		res.Count("real_components_counted_not_judged", 1)
	}
	perLabel := map[byte][]*realUpstream{}
	for _, u := range ups {
		if u.creator == nil {
			violate(res, "real.unknown-start", fmt.Sprintf("upstream u%d was started for nobody", u.idx), match, desc())
			continue
		}
		perLabel[label(u.creator)] = append(perLabel[label(u.creator)], u)
	}
	labels := map[byte]bool{}
	for _, s := range subs {
		labels[label(s)] = true
	}
	for l := range labels {
		n := len(perLabel[l])
		switch {
		case n == 1:
			res.Count("real_identities_with_one_upstream", 1)
		case n == 0 && comp.judged:
			violate(res, "real.shared-unequal", fmt.Sprintf("no upstream subscription was started for identity %c, which differs from the other identity in %s: its subscribers share the other identity's upstream", l, comp.name), match, desc())
		case n > 1 && comp.judged:
			violate(res, "real.not-shared", fmt.Sprintf("%d upstream subscriptions were started for the live subscribers of identity %c (equal input and forwarded headers)", n, l), match, desc())
		default:
			res.Count("real_unjudged_sharing_observations", 1)
		}
	}
	for _, s := range subs {
		own := perLabel[label(s)]
		got := map[string]int{}
		for _, m := range s.w.Log().Msgs {
			res.Count("real_messages_checked", 1)
			o := originRe.FindStringSubmatch(m.Data)
			if o == nil {
				violate(res, "real.garbled", fmt.Sprintf("s%d received %s", s.idx, m.Data), match, desc())
				continue
			}
			got[o[1]]++
			mine := false
			for _, u := range own {
				if fmt.Sprint(u.idx) == o[1] {
					mine = true
				}
			}
			if !mine && comp.judged {
				violate(res, "cross-talk", fmt.Sprintf("s%d (identity %c) received an event of upstream u%s, which was started for the other identity (differs in %s)", s.idx, s.label, o[1], comp.name), match, desc())
			}
		}
		if len(own) == 1 && got[fmt.Sprint(own[0].idx)] != 2 {
			violate(res, "real.missing", fmt.Sprintf("s%d received %d of the 2 events of its own upstream u%d", s.idx, got[fmt.Sprint(own[0].idx)], own[0].idx), match, desc())
		}
	}
	// the upstream was opened with the identity of its subscribers
	for l, us := range perLabel {
		k := keyA
		if l == 'X' {
			k = keyX
		}
		for _, u := range us {
			var bad []string
			if u.opts.URL != k.URL {
				bad = append(bad, "url")
			}
			if strings.TrimSpace(string(u.opts.InitialPayload)) != k.Initial {
				bad = append(bad, "initial_payload")
			}
			if string(u.opts.Body.Variables) != k.Variables {
				bad = append(bad, "body.variables")
			}
			if string(u.opts.Body.Extensions) != k.Extensions {
				bad = append(bad, "body.extensions")
			}
			if u.opts.Header.Get("X-Tenant") != k.Forwarded {
				bad = append(bad, "forwarded-header")
			}
			if u.opts.WsSubProtocol != k.WsProto {
				bad = append(bad, "ws_sub_protocol")
			}
			if u.opts.UseSSE != k.UseSSE {
				bad = append(bad, "use_sse")
			}
			wantOrder := "n origin"
			if strings.Contains(k.Query, "origin n") {
				wantOrder = "origin n"
			}
			if !strings.Contains(u.opts.Body.Query, wantOrder) {
				bad = append(bad, "body.query")
			}
			res.Count("real_upstream_options_checked", 1)
			if len(bad) > 0 && len(us) == 1 {
				violate(res, "real.wrong-upstream-options", fmt.Sprintf("upstream u%d of identity %c was opened with other values for %v", u.idx, l, bad), match, desc())
			}
		}
	}
	if !quiet {
		t, n, c := r.VerifRegistrySizes()
		if t != 0 || n != 0 || c != 0 {
			violate(res, "registry-leak", fmt.Sprintf("real source: registry (%d,%d,%d) after every subscriber left", t, n, c), map[string]string{"phase": "real-source"}, desc())
		} else {
			violate(res, "ctx-not-cancelled", "real source: an upstream context is still live after every subscriber left", map[string]string{"phase": "real-source"}, desc())
		}
	}
	res.Nontrivial = len(ups) > 0
}
