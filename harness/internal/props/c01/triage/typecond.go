package triage

import (
	"sort"
	"strings"

	gast "github.com/vektah/gqlparser/v2/ast"
)

// IncomparableTypeConditionChains is an INPUT fact (operation + schema only).
//
// It reports whether some response position (path of response keys) is selected by two field
// occurrences whose type-condition chains cannot be combined into ONE conjunction "per level of the
// path: runtime type of the object at that level is one of …". The chain of an occurrence lists, for
// every level of its response path (the selection set it sits in and the selection sets of its
// ancestor fields), the concrete types that the fragments enclosing it at that level leave possible
// (levels that are not narrowed are omitted). Two chains combine exactly when one implies the other
// (every narrowed level of the weaker one is narrowed at least as much in the other) or when they
// narrow the same levels and differ at one level only. Otherwise the position has to be rendered when
// "chain A OR chain B" holds, e.g.
//
//	nodes { relOwner { relNode { ... on User { id } } }  ... on User { relOwner { relNode { id } } } }
//
// (`id` is due when relNode is a User OR the node is a User), which the response plan of the
// repository (resolve.Field.OnTypeNames / ParentOnTypeNames: one conjunction per field, merged by
// postprocess/merge_fields.go) cannot express: it renders the field only when both hold.
func IncomparableTypeConditionChains(schema *gast.Schema, doc *gast.QueryDocument, op *gast.OperationDefinition) bool {
	w := &chainWalker{schema: schema, doc: doc, occ: map[string][]condChain{}, seen: map[string]bool{}}
	root := schema.Query
	switch op.Operation {
	case gast.Mutation:
		root = schema.Mutation
	case gast.Subscription:
		root = schema.Subscription
	}
	if root == nil {
		return false
	}
	w.walk(op.SelectionSet, root, w.possible(root), "", nil, 0, 0)
	for _, all := range w.occ {
		// a chain that implies another one adds nothing to the disjunction
		var chains []condChain
		for i := range all {
			redundant := false
			for j := range all {
				if i != j && chainImplies(all[i], all[j]) && !(chainImplies(all[j], all[i]) && j > i) {
					redundant = true
					break
				}
			}
			if !redundant {
				chains = append(chains, all[i])
			}
		}
		for i := range chains {
			for j := i + 1; j < len(chains); j++ {
				if !chainsCombine(chains[i], chains[j]) {
					return true
				}
			}
		}
	}
	return false
}

// condLayer: at response level Level the object's runtime type must be one of Types.
type condLayer struct {
	Level int
	Types map[string]bool
}

type condChain []condLayer

type chainWalker struct {
	schema *gast.Schema
	doc    *gast.QueryDocument
	occ    map[string][]condChain
	seen   map[string]bool
	// meta: level and parent kind of a response position (filled for NarrowedAtAncestorAndNotBelowAbstractParent)
	meta map[string]posMeta
}

type posMeta struct {
	level          int
	abstractParent bool
}

// NarrowedAtAncestorAndNotBelowAbstractParent is an INPUT fact (operation + schema only).
//
// It reports whether some response position whose PARENT object has an abstract static type
// (interface / union) is selected by two field occurrences of which one is narrowed by a fragment at
// an ANCESTOR level of the path that the other one does not narrow (or narrows less), e.g.
//
//	products { relNode { ... on Product { relOwner { relNode { id } } } }  relNode { relOwner { relNode { label id } } } }
//
// (`id` below the inner relNode: Node is due always, and also selected under "outer relNode is a
// Product"). On the client operation the two chains combine (one implies the other), so
// IncomparableTypeConditionChains is false; but when the planner's abstract-selection rewrite splits the
// unnarrowed selection into one fragment per concrete type (needed when a sibling field such as `label`
// lives in another subgraph for some types), the occurrences become "own type is User" / "own type is
// Product" / "ancestor is Product", whose disjunction is not one conjunction any more — the root cause
// listed as C01-F6.
func NarrowedAtAncestorAndNotBelowAbstractParent(schema *gast.Schema, doc *gast.QueryDocument, op *gast.OperationDefinition) bool {
	w := &chainWalker{schema: schema, doc: doc, occ: map[string][]condChain{}, seen: map[string]bool{}, meta: map[string]posMeta{}}
	root := schema.Query
	switch op.Operation {
	case gast.Mutation:
		root = schema.Mutation
	case gast.Subscription:
		root = schema.Subscription
	}
	if root == nil {
		return false
	}
	w.walk(op.SelectionSet, root, w.possible(root), "", nil, 0, 0)
	for pk, all := range w.occ {
		m := w.meta[pk]
		if !m.abstractParent {
			continue
		}
		for i := range all {
			for j := range all {
				if i == j {
					continue
				}
				// all[i] narrows an ancestor level more than all[j] does
				for _, li := range all[i] {
					if li.Level >= m.level {
						continue
					}
					lj, ok := layerAt(all[j], li.Level)
					if !ok || (subset(li.Types, lj.Types) && !sameSet(li.Types, lj.Types)) {
						return true
					}
				}
			}
		}
	}
	return false
}

func (w *chainWalker) possible(def *gast.Definition) map[string]bool {
	out := map[string]bool{}
	if def == nil {
		return out
	}
	switch def.Kind {
	case gast.Object:
		out[def.Name] = true
	case gast.Interface, gast.Union:
		for _, p := range w.schema.GetPossibleTypes(def) {
			out[p.Name] = true
		}
	}
	return out
}

func intersect(a, b map[string]bool) map[string]bool {
	out := map[string]bool{}
	for k := range a {
		if b[k] {
			out[k] = true
		}
	}
	return out
}

func sameSet(a, b map[string]bool) bool {
	if len(a) != len(b) {
		return false
	}
	for k := range a {
		if !b[k] {
			return false
		}
	}
	return true
}

func subset(a, b map[string]bool) bool {
	for k := range a {
		if !b[k] {
			return false
		}
	}
	return true
}

func (c condChain) key() string {
	var parts []string
	for _, l := range c {
		var ns []string
		for n := range l.Types {
			ns = append(ns, n)
		}
		sort.Strings(ns)
		parts = append(parts, string(rune('0'+l.Level))+":"+strings.Join(ns, "|"))
	}
	sort.Strings(parts)
	return strings.Join(parts, ";")
}

// walk visits a selection set at response level `level` whose objects have static type `static`;
// `cur` = concrete types still possible under the fragments entered at this level.
func (w *chainWalker) walk(sels gast.SelectionSet, static *gast.Definition, cur map[string]bool, path string, chain condChain, level, fragDepth int) {
	if fragDepth > 64 {
		return
	}
	all := w.possible(static)
	for _, sel := range sels {
		switch s := sel.(type) {
		case *gast.Field:
			key := s.Alias
			if key == "" {
				key = s.Name
			}
			mine := append(condChain(nil), chain...)
			if !sameSet(cur, all) {
				mine = append(mine, condLayer{Level: level, Types: cur})
			}
			pk := path + "/" + key
			id := pk + "#" + mine.key()
			if !w.seen[id] {
				w.seen[id] = true
				w.occ[pk] = append(w.occ[pk], mine)
			}
			if w.meta != nil {
				w.meta[pk] = posMeta{level: level, abstractParent: static != nil && (static.Kind == gast.Interface || static.Kind == gast.Union)}
			}
			if len(s.SelectionSet) > 0 && s.Definition != nil {
				if td := w.schema.Types[s.Definition.Type.Name()]; td != nil {
					w.walk(s.SelectionSet, td, w.possible(td), pk, mine, level+1, 0)
				}
			}
		case *gast.InlineFragment:
			next := cur
			if s.TypeCondition != "" {
				next = intersect(cur, w.possible(w.schema.Types[s.TypeCondition]))
			}
			if len(next) == 0 {
				continue
			}
			w.walk(s.SelectionSet, static, next, path, chain, level, fragDepth+1)
		case *gast.FragmentSpread:
			fd := s.Definition
			if fd == nil {
				fd = w.doc.Fragments.ForName(s.Name)
			}
			if fd == nil {
				continue
			}
			next := intersect(cur, w.possible(w.schema.Types[fd.TypeCondition]))
			if len(next) == 0 {
				continue
			}
			w.walk(fd.SelectionSet, static, next, path, chain, level, fragDepth+1)
		}
	}
}

func layerAt(c condChain, level int) (condLayer, bool) {
	for _, l := range c {
		if l.Level == level {
			return l, true
		}
	}
	return condLayer{}, false
}

// chainImplies: whenever a holds, b holds.
func chainImplies(a, b condChain) bool {
	for _, lb := range b {
		la, ok := layerAt(a, lb.Level)
		if !ok || !subset(la.Types, lb.Types) {
			return false
		}
	}
	return true
}

// chainsCombine: "a OR b" is again one conjunction over levels.
func chainsCombine(a, b condChain) bool {
	if chainImplies(a, b) || chainImplies(b, a) {
		return true
	}
	if len(a) != len(b) {
		return false
	}
	different := 0
	for _, la := range a {
		lb, ok := layerAt(b, la.Level)
		if !ok {
			return false
		}
		if !sameSet(la.Types, lb.Types) {
			different++
		}
	}
	return different <= 1
}
