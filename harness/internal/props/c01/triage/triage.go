// Package triage: helpers to re-generate a C01 case from (seed, idx), judge one operation with the
// same oracles as c01.Run, and shrink a failing operation by greedy delta debugging while the same
// violation class persists. Triage only: nothing here influences a verdict of the check.
package triage

import (
	"context"
	"encoding/json"
	"fmt"
	"os"
	"regexp"
	"runtime/debug"
	"sort"
	"strings"

	"github.com/vektah/gqlparser/v2"
	gast "github.com/vektah/gqlparser/v2/ast"

	"github.com/wundergraph/graphql-go-tools/execution/engine"

	"verifharness/internal/fed"
	"verifharness/internal/fw"
	"verifharness/internal/gen"
	"verifharness/internal/ref"
	"verifharness/internal/rig"
)

const opsPerCase = 12

// BaseCases mirrors c01.baseCases.
func BaseCases(tier string) int {
	if tier == fw.Thorough {
		return 40000
	}
	return 2000
}

type GenOp struct {
	K    int
	Doc  *gen.Doc
	Vals map[string]*gen.Val
}

type Case struct {
	Seed     int64
	Idx      int
	Prof     fed.Profile
	L        *fed.Layout
	SuperGql *gast.Schema
	U        *ref.Universe
	GW       *fed.Gateway
	Ops      []GenOp
	// Opts: gateway options (triage experiments)
	Opts fed.GatewayOptions
}

func VarsJSON(vals map[string]*gen.Val) []byte {
	m := map[string]any{}
	for k, v := range vals {
		x, _ := v.JSON(nil)
		m[k] = x
	}
	b, _ := json.Marshal(m)
	return b
}

// Build re-generates case idx exactly as c01.Run does (same RNG stream, same draw order).
func Build(seed int64, idx int, tier string) (*Case, error) {
	ctx := &fw.Ctx{Tier: tier, Seed: seed, Prop: "C01"}
	r := ctx.Rng(idx, "c01")
	prof := fed.RandomProfile(r)
	base := 2000
	if tier == fw.Thorough {
		base = 40000
	}
	if idx >= base {
		prof.IfaceRel = idx%2 == 0
		prof.Requires2 = idx%3 == 0
	}
	l := fed.GenLayout(r, prof)
	superGql, err := gqlparser.LoadSchema(&gast.Source{Name: "super", Input: l.SuperSDL})
	if err != nil {
		return nil, err
	}
	ents := map[string]bool{}
	for e := range l.Entities {
		ents[e] = true
	}
	u := &ref.Universe{Seed: r.Uint64(), Schema: superGql, NullRate: 2, Entities: ents, PoolSize: 4, MaxList: 2}
	c := &Case{Seed: seed, Idx: idx, Prof: prof, L: l, SuperGql: superGql, U: u}
	if err := c.Rebuild(); err != nil {
		return nil, err
	}
	for k := 0; k < opsPerCase; k++ {
		op := gen.DefaultOpProfile(r)
		op.MaxDepth = 2 + r.IntN(3)
		op.NoSingletonVars = true
		if idx >= BaseCases(tier) {
			op.Echo = k%2 == 1
			op.MultiFrag = k%3 != 2
		}
		if l.Super.Mutation != "" && k%6 == 5 {
			op.Kind = "mutation"
		}
		doc, vals := gen.GenOperation(r, l.Super, op)
		c.Ops = append(c.Ops, GenOp{K: k, Doc: doc, Vals: vals})
	}
	return c, nil
}

func (c *Case) Rebuild() error {
	if c.GW != nil {
		c.GW.Close()
	}
	opts := c.Opts
	if dbg := os.Getenv("C01MIN_DEBUG"); dbg != "" && opts.Configure == nil {
		opts.Configure = func(conf *engine.Configuration) {
			pc := conf.VerifPlannerConfiguration()
			pc.Debug.PrintOperationTransformations = true
			pc.Debug.PrintPlanningPaths = strings.Contains(dbg, "paths")
			pc.Debug.PrintNodeSuggestions = strings.Contains(dbg, "sugg")
			pc.Debug.PrintQueryPlans = strings.Contains(dbg, "plans")
			pc.Debug.PlanningVisitor = strings.Contains(dbg, "pv")
			pc.Debug.DatasourceVisitor = strings.Contains(dbg, "dv")
			pc.Debug.NodeSelectionVisitor = strings.Contains(dbg, "nsv")
			pc.Debug.ConfigurationVisitor = strings.Contains(dbg, "cv")
		}
	}
	gw, err := fed.NewGateway(c.L, c.SuperGql, c.U, opts)
	if err != nil {
		return err
	}
	c.GW = gw
	return nil
}

type Verdict struct {
	Invalid  string   // the operation is not a valid input (gqlparser / coercion): not judged
	Classes  []string // violation classes (empty = held)
	Msgs     map[string]string
	Expected string
	Observed string
	Raw      string
	Requests []*fed.Request
	Stack    string
}

func (v Verdict) Has(class string) bool {
	for _, c := range v.Classes {
		if c == class {
			return true
		}
	}
	return false
}

var (
	reDigits = regexp.MustCompile(`\d+`)
	reQuoted = regexp.MustCompile(`"[a-z_][A-Za-z0-9_]*"`)
)

func errClass(msg string) string {
	m := reDigits.ReplaceAllString(msg, "N")
	m = reQuoted.ReplaceAllString(m, "F")
	if len(m) > 160 {
		m = m[:160]
	}
	return m
}

func problemClass(p string) string {
	for _, k := range []string{"not valid for the subgraph schema", "not coercible", "is not owned", "outside a @provides path", "lacks the @requires input", "lacks the key field", "not an entity of subgraph", "not valid JSON"} {
		if strings.Contains(p, k) {
			return k
		}
	}
	return "other"
}

// Judge applies the oracles of c01.Run to one operation text.
func (c *Case) Judge(text string, vars []byte) Verdict {
	v := Verdict{Msgs: map[string]string{}}
	qd, gerrs := gqlparser.LoadQuery(c.SuperGql, text)
	if gerrs != nil {
		v.Invalid = "gqlparser: " + gerrs.Error()
		return v
	}
	gop := qd.Operations[0]
	vm, _ := ref.DecodeJSON(vars)
	vmm, _ := vm.(map[string]any)
	root := &ref.Obj{Type: "Query", ID: "root"}
	if gop.Operation == gast.Mutation {
		root.Type = "Mutation"
	}
	want, werrs, cerr := rig.RefExec(c.SuperGql, gop, vmm, fed.NewReferenceResolver(c.L, c.U), root, nil)
	if cerr != nil {
		v.Invalid = "variables: " + cerr.Error()
		return v
	}
	add := func(class, msg string) {
		if !v.Has(class) {
			v.Classes = append(v.Classes, class)
			v.Msgs[class] = msg
		}
	}
	var got *fed.Result
	func() {
		defer func() {
			if r := recover(); r != nil {
				st := string(debug.Stack())
				v.Stack = st
				add("panic|"+fw.PanicSignature(fmt.Sprint(r), st), fmt.Sprint(r))
			}
		}()
		got = c.GW.Execute(context.Background(), text, "", vars)
	}()
	if got == nil {
		_ = c.Rebuild() // do not trust an engine that panicked
		return v
	}
	v.Raw = got.Raw
	v.Requests = got.Requests
	if got.Err != nil {
		add("execute-error|"+errClass(got.Err.Error()), got.Err.Error())
		return v
	}
	for _, rq := range got.Requests {
		for _, pr := range rq.Problems {
			add("subgraph-request|"+problemClass(pr), rq.Subgraph+": "+pr+"\n"+rq.Query)
			break
		}
	}
	var w any
	if want != nil {
		w = want
	}
	v.Expected = ref.Canon(w)
	v.Observed = ref.Canon(got.Data)
	if !got.HasData {
		v.Observed = "<no data>"
	}
	if v.Expected != v.Observed {
		add("data-mismatch", "")
	}
	if (len(got.Errors) > 0) != (len(werrs) > 0) {
		add("errors-mismatch", fmt.Sprintf("gateway %v reference %v", got.Errors, werrs))
	}
	sort.Strings(v.Classes)
	return v
}

// ---- minimiser

func collectValVars(v *gen.Val, out map[string]bool) {
	if v == nil {
		return
	}
	if v.Kind == gen.VVar {
		out[v.Str] = true
	}
	for _, it := range v.Items {
		collectValVars(it, out)
	}
	for _, f := range v.Fields {
		collectValVars(f.Val, out)
	}
}

func collectDirVars(ds []*gen.Dir, out map[string]bool) {
	for _, d := range ds {
		for _, a := range d.Args {
			collectValVars(a.Val, out)
		}
	}
}

func collectUse(doc *gen.Doc, sels []*gen.Sel, vars, frags map[string]bool) {
	for _, x := range sels {
		switch {
		case x.Field != nil:
			for _, a := range x.Field.Args {
				collectValVars(a.Val, vars)
			}
			collectDirVars(x.Field.Dirs, vars)
			collectUse(doc, x.Field.Sel, vars, frags)
		case x.Inline != nil:
			collectDirVars(x.Inline.Dirs, vars)
			collectUse(doc, x.Inline.Sel, vars, frags)
		case x.Spread != nil:
			collectDirVars(x.Spread.Dirs, vars)
			if !frags[x.Spread.Name] {
				frags[x.Spread.Name] = true
				for _, fr := range doc.Frags {
					if fr.Name == x.Spread.Name {
						collectUse(doc, fr.Sel, vars, frags)
					}
				}
			}
		}
	}
}

// Cleanup drops fragments that are no longer spread and variables that are no longer used.
func Cleanup(doc *gen.Doc, vals map[string]*gen.Val) map[string]*gen.Val {
	usedVars, usedFrags := map[string]bool{}, map[string]bool{}
	op := doc.Ops[0]
	collectUse(doc, op.Sel, usedVars, usedFrags)
	var frs []*gen.Frag
	for _, fr := range doc.Frags {
		if usedFrags[fr.Name] {
			frs = append(frs, fr)
		}
	}
	doc.Frags = frs
	var vds []*gen.VarDef
	out := map[string]*gen.Val{}
	for _, v := range op.Vars {
		if usedVars[v.Name] {
			vds = append(vds, v)
			if x, ok := vals[v.Name]; ok {
				out[v.Name] = x
			}
		}
	}
	op.Vars = vds
	if len(op.Vars) == 0 && len(op.Dirs) == 0 && op.Kind == "query" {
		op.Name = ""
	}
	return out
}

// edits lists the single-step reductions applicable to doc (closures over doc's own nodes), large
// removals first (pre-order).
func edits(s *gen.Schema, doc *gen.Doc, vals map[string]*gen.Val) []func() {
	var out []func()
	removeDir := func(dirs *[]*gen.Dir) {
		for i := range *dirs {
			i := i
			out = append(out, func() { *dirs = append((*dirs)[:i:i], (*dirs)[i+1:]...) })
		}
	}
	var walk func(sels *[]*gen.Sel, parent string)
	walk = func(sels *[]*gen.Sel, parent string) {
		for i := range *sels {
			i := i
			x := (*sels)[i]
			if len(*sels) > 1 {
				out = append(out, func() { *sels = append((*sels)[:i:i], (*sels)[i+1:]...) })
			}
			switch {
			case x.Field != nil:
				f := x.Field
				if f.Alias != "" {
					out = append(out, func() { f.Alias = "" })
				}
				removeDir(&f.Dirs)
				for j := range f.Args {
					j := j
					out = append(out, func() { f.Args = append(f.Args[:j:j], f.Args[j+1:]...) })
					if a := f.Args[j]; a.Val != nil && a.Val.Kind == gen.VVar {
						if val, ok := vals[a.Val.Str]; ok && val != nil {
							out = append(out, func() { a.Val = val })
						}
					}
				}
				if len(f.Sel) > 0 && f.Def != nil {
					// replace the sub-selection by __typename
					if !(len(f.Sel) == 1 && f.Sel[0].Field != nil && f.Sel[0].Field.Name == "__typename") {
						out = append(out, func() { f.Sel = []*gen.Sel{{Field: &gen.FieldSel{Name: "__typename"}}} })
					}
					walk(&f.Sel, f.Def.Type.NamedType())
				}
			case x.Inline != nil:
				in := x.Inline
				cond := in.On
				if cond == "" {
					cond = parent
				}
				// unwrap (dropping its directives); validity is checked by the caller
				out = append(out, func() {
					var n []*gen.Sel
					n = append(n, (*sels)[:i]...)
					n = append(n, in.Sel...)
					n = append(n, (*sels)[i+1:]...)
					*sels = n
				})
				if in.On != "" && cond == parent {
					out = append(out, func() { in.On = "" })
				}
				removeDir(&in.Dirs)
				walk(&in.Sel, cond)
			case x.Spread != nil:
				sp := x.Spread
				removeDir(&sp.Dirs)
				for _, fr := range doc.Frags {
					if fr.Name == sp.Name {
						fr := fr
						out = append(out, func() {
							(*sels)[i] = &gen.Sel{Inline: &gen.InlineFrag{On: fr.On, Dirs: sp.Dirs, Sel: gen.CloneSels(fr.Sel), Parent: parent}}
						})
					}
				}
			}
		}
	}
	root := s.Query
	if doc.Ops[0].Kind == "mutation" {
		root = s.Mutation
	}
	walk(&doc.Ops[0].Sel, root)
	for _, fr := range doc.Frags {
		walk(&fr.Sel, fr.On)
	}
	return out
}

type MinResult struct {
	Doc   *gen.Doc
	Vals  map[string]*gen.Val
	Tests int
	V     Verdict
}

// Minimise shrinks the operation while Judge still reports class `target` and keep(doc) holds
// (keep = input facts that must stay, e.g. "no union fragment in a non-union parent").
func (c *Case) Minimise(op GenOp, target string, budget int, keep func(*gen.Doc) bool) MinResult {
	tests := 0
	var last Verdict
	fails := func(d *gen.Doc, vals map[string]*gen.Val) bool {
		if keep != nil && !keep(d) {
			return false
		}
		tests++
		v := c.Judge(d.String(), VarsJSON(vals))
		if v.Invalid != "" {
			return false
		}
		if v.Has(target) {
			last = v
			return true
		}
		return false
	}
	cur := op.Doc.Clone()
	curVals := Cleanup(cur, op.Vals)
	if !fails(cur, curVals) {
		return MinResult{Doc: cur, Vals: curVals, Tests: tests}
	}
	for improved := true; improved && tests < budget; {
		improved = false
		n := len(edits(c.L.Super, cur.Clone(), curVals))
		for i := 0; i < n && tests < budget; i++ {
			cand := cur.Clone()
			es := edits(c.L.Super, cand, curVals)
			if i >= len(es) {
				break
			}
			es[i]()
			vals := Cleanup(cand, curVals)
			if cand.String() == cur.String() {
				continue
			}
			if fails(cand, vals) {
				cur, curVals, improved = cand, vals, true
				n = len(edits(c.L.Super, cur.Clone(), curVals))
				i--
			}
		}
	}
	return MinResult{Doc: cur, Vals: curVals, Tests: tests, V: last}
}
