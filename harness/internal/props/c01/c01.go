// Package c01: federated execution equals monolithic execution of the supergraph.
package c01

import (
	"context"
	"encoding/json"
	"fmt"
	"runtime/debug"
	"strings"
	"verifharness/internal/props/c01/triage"

	"github.com/vektah/gqlparser/v2"
	gast "github.com/vektah/gqlparser/v2/ast"

	"verifharness/internal/fed"
	"verifharness/internal/fw"
	"verifharness/internal/gen"
	"verifharness/internal/ref"
	"verifharness/internal/rig"
)

type c01 struct{ fw.Base }

func init() { fw.Register(c01{}) }

func (c01) ID() string { return "C01" }

// richCases: cases with the "rich" operation profile (several fragments per selection set, fragment
// bodies that re-select fields of the enclosing level); they follow the base cases in the index space.
func richCases(tier string) int {
	if tier == fw.Thorough {
		return 12000
	}
	return 600
}
func baseCases(tier string) int {
	if tier == fw.Thorough {
		return 40000
	}
	return 2000
}
func (c01) NumCases(tier string) int { return baseCases(tier) + richCases(tier) }
func (c01) CaseTimeout(string) int   { return 180 }
func (c01) Rule() string {
	return "case = generated federation layout (2-3 subgraphs; entities with keys resolvable in every defining subgraph, single-owner and @shareable fields, value types, @requires, @provides, interfaces and unions over entities, lookup / list / abstract root fields, mutations; every feature individually switchable) x " + fmt.Sprint(opsPerCase) + " valid-by-construction operations (fragments on abstract types, aliases, duplicates, arguments by literal and variable, @skip/@include) x coercible variables, executed by a real ExecutionEngine whose subgraphs are in-process semantic GraphQL servers over one hash-defined universe. Oracles: data == reference executor on the supergraph (independent parser), errors empty on both sides, planning never fails, every subgraph request valid for the subgraph schema (gqlparser), variables coercible, every selected field owned by that subgraph (or key / provided / required input). Non-trivial = >=2 subgraph requests incl. >=1 _entities request; distinct by hash of (layout, operation, variables)."
}
func (c01) Assumptions() []string {
	return []string{"layouts follow the composition conventions of the repository's composed router config and federation fixtures (entity types = RootNodes, value types / interfaces = ChildNodes, keys listed even when external, FieldArgumentSource for every argument)", "not generated: @interfaceObject / entity interfaces, @override, @inaccessible, non-resolvable keys, compound keys", "clean universes only in this tier (nullable positions may be null, non-null positions never)"}
}
func (c01) RequiredCounters(string) []string {
	return []string{"operations", "responses_compared", "subgraph_requests", "entity_requests", "layouts"}
}

const opsPerCase = 12

func varsJSON(vals map[string]*gen.Val) []byte {
	m := map[string]any{}
	for k, v := range vals {
		x, _ := v.JSON(nil)
		m[k] = x
	}
	b, _ := json.Marshal(m)
	return b
}

func entitySet(l *fed.Layout) map[string]bool {
	m := map[string]bool{}
	for e := range l.Entities {
		m[e] = true
	}
	return m
}

func (p c01) Run(c *fw.Ctx, idx int) fw.Result {
	res := fw.Result{}
	r := c.Rng(idx, "c01")
	prof := fed.RandomProfile(r)
	if idx >= baseCases(c.Tier) {
		prof.IfaceRel = idx%2 == 0
		prof.Requires2 = idx%3 == 0
	}
	l := fed.GenLayout(r, prof)
	layoutDetail := func() map[string]any {
		d := map[string]any{"supergraph": l.SuperSDL, "layout": l.Describe}
		for _, sg := range l.Subgraphs {
			d["sdl_"+sg.Name] = sg.SDL
		}
		return d
	}
	superGql, err := gqlparser.LoadSchema(&gast.Source{Name: "super", Input: l.SuperSDL})
	if err != nil {
		res.Broken("supergraph self-check: "+err.Error(), layoutDetail())
		return res
	}
	u := &ref.Universe{Seed: r.Uint64(), Schema: superGql, NullRate: 2, Entities: entitySet(l), PoolSize: 4, MaxList: 2}
	gw, err := fed.NewGateway(l, superGql, u, fed.GatewayOptions{})
	if err != nil {
		res.Broken("gateway construction (generator self-check): "+err.Error(), layoutDetail())
		return res
	}
	defer gw.Close()
	res.Count("layouts", 1)
	res.Observe("layout_features", featureString(prof))
	var keys []string
	var directed []*gen.Doc
	if prof.IfaceRel {
		directed = directedIfaceRelDocs(l.Super)
	}
	for k := 0; k < opsPerCase+len(directed); k++ {
		if k >= opsPerCase {
			// directed operations run through the same oracles (see directedIfaceRelDocs)
			res.Count("directed_operations", 1)
			res.Count("directed_operations_"+directed[k-opsPerCase].Ops[0].Name, 1)
		}
		op := gen.DefaultOpProfile(r)
		op.MaxDepth = 2 + r.IntN(3)
		op.NoSingletonVars = true
		if idx >= baseCases(c.Tier) {
			op.Echo = k%2 == 1
			op.MultiFrag = k%3 != 2
		}
		if l.Super.Mutation != "" && k%6 == 5 {
			op.Kind = "mutation"
		}
		doc, vals := gen.GenOperation(r, l.Super, op)
		if k >= opsPerCase {
			doc, vals = directed[k-opsPerCase], map[string]*gen.Val{}
		}
		text := doc.String()
		if len(text) > 20000 {
			// Echo + MultiFrag + Duplicates occasionally explode (operations of several 100 KB); all PRNG
			// draws of this operation have happened, so skipping keeps the case deterministic
			res.Count("oversized_operations_skipped", 1)
			continue
		}
		vars := varsJSON(vals)
		detail := func(extra map[string]any) map[string]any {
			d := layoutDetail()
			d["operation"], d["variables"] = text, string(vars)
			for k, v := range extra {
				d[k] = v
			}
			return d
		}
		fw.SetContext(detail(nil))
		qd, gerrs := gqlparser.LoadQuery(superGql, text)
		if gerrs != nil {
			res.Broken("operation self-check: "+gerrs.Error(), detail(nil))
			continue
		}
		gop := qd.Operations[0]
		vm, _ := ref.DecodeJSON(vars)
		vmm, _ := vm.(map[string]any)
		root := &ref.Obj{Type: "Query", ID: "root"}
		if gop.Operation == gast.Mutation {
			root.Type = "Mutation"
		}
		want, werrs, cerr := rig.RefExec(superGql, gop, vmm, fed.NewReferenceResolver(l, u), root, nil)
		if cerr != nil {
			res.Broken("variables self-check: "+cerr.Error(), detail(nil))
			continue
		}
		res.Count("operations", 1)
		got, panicked := safeExecute(gw, text, vars)
		if panicked != nil {
			m := map[string]string{"features": featureString(prof), "operation_kind": string(gop.Operation), "union_fragment_in_non_union_parent": fmt.Sprint(gen.UnionFragmentInNonUnionParent(l.Super, doc)), "incomparable_type_condition_chains": fmt.Sprint(triage.IncomparableTypeConditionChains(superGql, qd, gop)), "panic": panicked.sig}
			res.Violate("panic", "the engine panicked on a valid operation: "+panicked.msg, m, detail(map[string]any{"stack": panicked.stack}))
			continue
		}
		nEnt := 0
		var reqDump []map[string]any
		for _, rq := range got.Requests {
			if strings.Contains(rq.Query, "_entities") {
				nEnt++
			}
			reqDump = append(reqDump, map[string]any{"subgraph": rq.Subgraph, "query": rq.Query, "variables": rq.Variables, "response": truncate(rq.Response, 600)})
		}
		res.Count("subgraph_requests", int64(len(got.Requests)))
		res.Count("entity_requests", int64(nEnt))
		match := map[string]string{"features": featureString(prof), "operation_kind": string(gop.Operation), "union_fragment_in_non_union_parent": fmt.Sprint(gen.UnionFragmentInNonUnionParent(l.Super, doc)), "incomparable_type_condition_chains": fmt.Sprint(triage.IncomparableTypeConditionChains(superGql, qd, gop)), "narrowed_at_ancestor_and_not_below_abstract_parent": fmt.Sprint(triage.NarrowedAtAncestorAndNotBelowAbstractParent(superGql, qd, gop))}
		full := func(extra map[string]any) map[string]any {
			d := detail(map[string]any{"requests": reqDump, "gateway_response": truncate(got.Raw, 3000)})
			for k, v := range extra {
				d[k] = v
			}
			return d
		}
		if got.Err != nil {
			res.Violate("execute-error", "ExecutionEngine.Execute fails on a valid operation: "+got.Err.Error(), withFact(match, "error_class", classifyErr(got.Err.Error())), full(nil))
			continue
		}
		// subgraph request validity / ownership
		for _, rq := range got.Requests {
			for _, pr := range rq.Problems {
				res.Violate("subgraph-request", "subgraph "+rq.Subgraph+" received a bad request: "+pr, withFact(match, "problem", classifyProblem(pr)), full(map[string]any{"bad_request": rq.Query, "bad_request_variables": rq.Variables}))
				break
			}
		}
		res.Count("responses_compared", 1)
		if k := duplicateKey(got.Raw); k != "" {
			// a JSON object with the same key twice has no single value (readers differ in which one wins)
			res.Violate("duplicate-response-key", "the gateway's response contains an object with the key "+k+" twice", match, full(map[string]any{"gateway_response": truncate(got.Raw, 3000)}))
		}
		wantCanon := ref.Canon(anyOf(want))
		gotCanon := ref.Canon(got.Data)
		if !got.HasData {
			gotCanon = "<no data>"
		}
		if gotCanon != wantCanon {
			res.Violate("data-mismatch", "gateway data differs from the monolithic reference", match, full(map[string]any{"expected": truncate(wantCanon, 3000), "observed": truncate(gotCanon, 3000), "first_difference": firstDiff(wantCanon, gotCanon)}))
		}
		if (len(got.Errors) > 0) != (len(werrs) > 0) {
			res.Violate("errors-mismatch", fmt.Sprintf("gateway reports %d errors, the reference %d", len(got.Errors), len(werrs)), match, full(map[string]any{"gateway_errors": got.Errors, "reference_errors": fmt.Sprint(werrs)}))
		}
		// the same operation text again on the same gateway with every Boolean variable flipped (another
		// @skip/@include outcome): the statement holds for every variable assignment, whatever the
		// gateway has planned before (plan cache)
		if len(res.Violations) == 0 {
			flipped := map[string]any{}
			nflip := 0
			for k, v := range vmm {
				if b, ok := v.(bool); ok {
					flipped[k] = !b
					nflip++
				} else {
					flipped[k] = v
				}
			}
			if nflip > 0 {
				fv, _ := json.Marshal(flipped)
				if want2, werrs2, cerr2 := rig.RefExec(superGql, gop, flipped, fed.NewReferenceResolver(l, u), root, nil); cerr2 == nil {
					if got2, p2 := safeExecute(gw, text, fv); p2 == nil && got2.Err == nil {
						res.Count("flipped_boolean_reexecutions", 1)
						w2, g2 := ref.Canon(anyOf(want2)), ref.Canon(got2.Data)
						if !got2.HasData {
							g2 = "<no data>"
						}
						if w2 != g2 || (len(got2.Errors) > 0) != (len(werrs2) > 0) {
							// history or input? the same text and flipped variables on a FRESH gateway: when that differs from
							// the reference in the same way, the flipped assignment is simply another input that violates the
							// statement (kind data-mismatch, judged like any other input); only a difference that needs the
							// earlier plan is reported as history-dependent
							reproduced := false
							if gwf, errf := fed.NewGateway(l, superGql, u, fed.GatewayOptions{}); errf == nil {
								got3, p3 := safeExecute(gwf, text, fv)
								gwf.Close()
								if p3 == nil && got3.Err == nil {
									g3 := ref.Canon(got3.Data)
									if !got3.HasData {
										g3 = "<no data>"
									}
									if g3 == g2 && (len(got3.Errors) > 0) == (len(got2.Errors) > 0) {
										res.Count("flipped_boolean_mismatches_reproduced_on_fresh_gateway", 1)
										res.Violate("data-mismatch", "gateway data differs from the monolithic reference (operation of this case with its Boolean variables flipped; same result on a fresh gateway)", match, full(map[string]any{"flipped_variables": string(fv), "expected": truncate(w2, 3000), "observed": truncate(g2, 3000), "first_difference": firstDiff(w2, g2)}))
										reproduced = true
									}
								}
							}
							if !reproduced {
								res.Violate("data-mismatch-after-flip", "the same operation with its Boolean variables flipped, executed on the same gateway, differs from the monolithic reference (and not so on a fresh gateway)", withFact(match, "history", "same-text-other-booleans"), full(map[string]any{"flipped_variables": string(fv), "expected": truncate(w2, 3000), "observed": truncate(g2, 3000), "first_difference": firstDiff(w2, g2)}))
							}
						}
					}
				}
			}
		}
		if len(got.Requests) >= 2 && nEnt >= 1 {
			keys = append(keys, fw.HashKey(l.SuperSDL, l.Describe, text, vars))
			if res.Sample == nil {
				res.Sample = map[string]any{"layout": l.Describe, "operation": text, "variables": string(vars), "subgraph_requests": reqDump}
			}
		}
	}
	res.Keys = keys
	res.Key = fw.HashKey("c01", idx)
	res.Nontrivial = len(keys) > 0
	return res
}

func anyOf(m map[string]any) any {
	if m == nil {
		return nil
	}
	return m
}

func withFact(m map[string]string, k, v string) map[string]string {
	out := map[string]string{k: v}
	for a, b := range m {
		out[a] = b
	}
	return out
}

func featureString(p fed.Profile) string {
	var fs []string
	add := func(b bool, s string) {
		if b {
			fs = append(fs, s)
		}
	}
	add(p.Interface, "interface")
	add(p.Union, "union")
	add(p.Requires, "requires")
	add(p.Provides, "provides")
	add(p.Shareable, "shareable")
	add(p.Mutation, "mutation")
	return fmt.Sprintf("s%d:", p.Subgraphs) + strings.Join(fs, "+")
}

func truncate(s string, n int) string {
	if len(s) > n {
		return s[:n] + "…"
	}
	return s
}

func firstDiff(a, b string) string {
	i := 0
	for i < len(a) && i < len(b) && a[i] == b[i] {
		i++
	}
	lo := i - 120
	if lo < 0 {
		lo = 0
	}
	cut := func(s string) string {
		hi := i + 160
		if hi > len(s) {
			hi = len(s)
		}
		if lo > len(s) {
			return ""
		}
		return s[lo:hi]
	}
	return "expected: …" + cut(a) + "\nobserved: …" + cut(b)
}

func classifyErr(msg string) string {
	switch {
	case strings.Contains(msg, "printOperation") && (strings.Contains(msg, "conflicting types") || strings.Contains(msg, "differing types")):
		return "planned-operation-merge-conflict"
	case strings.Contains(msg, "could not plan") || strings.Contains(msg, "planner") || strings.Contains(msg, "plan"):
		return "planning"
	case strings.Contains(msg, "internal"):
		return "internal"
	}
	return "other"
}

func classifyProblem(p string) string {
	for _, k := range []string{"not valid for the subgraph schema", "not coercible", "is not owned", "outside a @provides path", "lacks the @requires input", "lacks the key field", "not an entity of subgraph", "not valid JSON"} {
		if strings.Contains(p, k) {
			return k
		}
	}
	return "other"
}

type panicInfo struct{ msg, sig, stack string }

func safeExecute(gw *fed.Gateway, text string, vars []byte) (res *fed.Result, p *panicInfo) {
	defer func() {
		if r := recover(); r != nil {
			st := string(debug.Stack())
			p = &panicInfo{msg: fmt.Sprint(r), sig: fw.PanicSignature(fmt.Sprint(r), st), stack: truncate(st, 5000)}
		}
	}()
	return gw.Execute(context.Background(), text, "", vars), nil
}

// directedIfaceRelDocs builds, for layouts whose interface Node declares relOwner, one operation per
// implementer T that selects the same entity field on the interface and again under `... on T`:
//
//	{ nodes { __typename relOwner { <leaves> } ... on T { relOwner { <leaves> } } } someNode { … same … } }
//
// (the generator's Echo option produces this shape too, but a case also needs a universe in which
// the list holds items of several types; the directed form makes the shape present in every such layout).
func directedIfaceRelDocs(s *gen.Schema) []*gen.Doc {
	node := s.Type("Node")
	q := s.Type(s.Query)
	if node == nil || q == nil || node.Field("relOwner") == nil {
		return nil
	}
	target := s.Type(node.Field("relOwner").Type.NamedType())
	leaves := func() []*gen.Sel {
		var out []*gen.Sel
		for _, f := range target.Fields {
			required := false
			for _, a := range f.Args {
				if a.Type.NonNull && a.Default == nil {
					required = true
				}
			}
			if !required && s.IsLeaf(f.Type.NamedType()) {
				out = append(out, &gen.Sel{Field: &gen.FieldSel{Name: f.Name, Def: f, Parent: target.Name}})
			}
		}
		return out
	}
	rel := func(parent string, def *gen.Field) *gen.Sel {
		return &gen.Sel{Field: &gen.FieldSel{Name: "relOwner", Def: def, Parent: parent, Sel: leaves()}}
	}
	var docs []*gen.Doc
	// (a) no fragment at all: the field directly on the interface-typed parent
	{
		var roots []*gen.Sel
		for _, rf := range []string{"nodes", "someNode"} {
			if def := q.Field(rf); def != nil {
				roots = append(roots, &gen.Sel{Field: &gen.FieldSel{Name: rf, Def: def, Parent: s.Query, Sel: []*gen.Sel{
					{Field: &gen.FieldSel{Name: "__typename", Parent: "Node"}},
					rel("Node", node.Field("relOwner")),
				}}})
			}
		}
		if len(roots) > 0 {
			docs = append(docs, &gen.Doc{Ops: []*gen.Op{{Kind: "query", Name: "D0", Sel: roots}}})
		}
	}
	// split the leaves of the target into three groups for (c)
	part := func(k int, parent string, def *gen.Field) *gen.Sel {
		all := leaves()
		var mine []*gen.Sel
		for i, l := range all {
			if i%3 == k || len(all) < 3 {
				mine = append(mine, l)
			}
		}
		if len(mine) == 0 {
			mine = all
		}
		return &gen.Sel{Field: &gen.FieldSel{Name: "relOwner", Def: def, Parent: parent, Sel: mine}}
	}
	for _, t := range s.Types {
		if t.Kind != gen.Object || !s.Overlap(t.Name, "Node") || t.Field("relOwner") == nil {
			continue
		}
		// (c) the same object field reached through three type conditions that all apply to T:
		// the parent itself, `... on Node` and `... on T`, each with other sub-fields
		{
			var roots []*gen.Sel
			for _, rf := range []string{"nodes", "someNode"} {
				if def := q.Field(rf); def != nil {
					roots = append(roots, &gen.Sel{Field: &gen.FieldSel{Name: rf, Def: def, Parent: s.Query, Sel: []*gen.Sel{
						{Field: &gen.FieldSel{Name: "__typename", Parent: "Node"}},
						part(0, "Node", node.Field("relOwner")),
						{Inline: &gen.InlineFrag{On: "Node", Parent: "Node", Sel: []*gen.Sel{part(1, "Node", node.Field("relOwner"))}}},
						{Inline: &gen.InlineFrag{On: t.Name, Parent: "Node", Sel: []*gen.Sel{part(2, t.Name, t.Field("relOwner"))}}},
					}}})
				}
			}
			if len(roots) > 0 {
				docs = append(docs, &gen.Doc{Ops: []*gen.Op{{Kind: "query", Name: "D3", Sel: roots}}})
			}
		}
		// (d) the same with a second interface in the middle: parent, `... on Owned`, `... on T`
		if ow := s.Type("Owned"); ow != nil && s.Overlap(t.Name, "Owned") {
			var roots []*gen.Sel
			for _, rf := range []string{"nodes", "someNode"} {
				if def := q.Field(rf); def != nil {
					roots = append(roots, &gen.Sel{Field: &gen.FieldSel{Name: rf, Def: def, Parent: s.Query, Sel: []*gen.Sel{
						{Field: &gen.FieldSel{Name: "__typename", Parent: "Node"}},
						part(0, "Node", node.Field("relOwner")),
						{Inline: &gen.InlineFrag{On: "Owned", Parent: "Node", Sel: []*gen.Sel{part(1, "Owned", ow.Field("relOwner"))}}},
						{Inline: &gen.InlineFrag{On: t.Name, Parent: "Node", Sel: []*gen.Sel{part(2, t.Name, t.Field("relOwner"))}}},
					}}})
				}
			}
			if len(roots) > 0 {
				docs = append(docs, &gen.Doc{Ops: []*gen.Op{{Kind: "query", Name: "D4", Sel: roots}}})
			}
		}
		// (f) below the interface Node: `... on Owned`, `... on Tagged`, `... on T` (three conditions that apply to T)
		if ow, tg := s.Type("Owned"), s.Type("Tagged"); ow != nil && tg != nil && s.Overlap(t.Name, "Owned") && s.Overlap(t.Name, "Tagged") {
			var roots []*gen.Sel
			for _, rf := range []string{"nodes", "someNode"} {
				if def := q.Field(rf); def != nil {
					roots = append(roots, &gen.Sel{Field: &gen.FieldSel{Name: rf, Def: def, Parent: s.Query, Sel: []*gen.Sel{
						{Field: &gen.FieldSel{Name: "__typename", Parent: "Node"}},
						{Inline: &gen.InlineFrag{On: "Owned", Parent: "Node", Sel: []*gen.Sel{part(0, "Owned", ow.Field("relOwner"))}}},
						{Inline: &gen.InlineFrag{On: "Tagged", Parent: "Node", Sel: []*gen.Sel{part(1, "Tagged", tg.Field("relOwner"))}}},
						{Inline: &gen.InlineFrag{On: t.Name, Parent: "Node", Sel: []*gen.Sel{part(2, t.Name, t.Field("relOwner"))}}},
					}}})
				}
			}
			if len(roots) > 0 {
				docs = append(docs, &gen.Doc{Ops: []*gen.Op{{Kind: "query", Name: "D6", Sel: roots}}})
			}
		}
		// (g) a field due under "condition at the outer level OR condition at the inner level" (open finding C01-F6):
		// nodes { relOwner { relNode { ... on T { id } } } ... on T { relOwner { relNode { id } } } }
		if rn := target.Field("relNode"); rn != nil {
			idSel := func(parent string) *gen.Sel {
				return &gen.Sel{Field: &gen.FieldSel{Name: "id", Def: node.Field("id"), Parent: parent}}
			}
			inner := func(parent string, def *gen.Field, cond bool) *gen.Sel {
				var sub []*gen.Sel
				if cond {
					sub = []*gen.Sel{{Inline: &gen.InlineFrag{On: t.Name, Parent: "Node", Sel: []*gen.Sel{idSel(t.Name)}}}}
				} else {
					sub = []*gen.Sel{idSel("Node")}
				}
				return &gen.Sel{Field: &gen.FieldSel{Name: "relOwner", Def: def, Parent: parent, Sel: []*gen.Sel{{Field: &gen.FieldSel{Name: "relNode", Def: rn, Parent: target.Name, Sel: sub}}}}}
			}
			var roots []*gen.Sel
			for _, rf := range []string{"nodes", "someNode"} {
				if def := q.Field(rf); def != nil {
					roots = append(roots, &gen.Sel{Field: &gen.FieldSel{Name: rf, Def: def, Parent: s.Query, Sel: []*gen.Sel{
						{Field: &gen.FieldSel{Name: "__typename", Parent: "Node"}},
						inner("Node", node.Field("relOwner"), true),
						{Inline: &gen.InlineFrag{On: t.Name, Parent: "Node", Sel: []*gen.Sel{inner(t.Name, t.Field("relOwner"), false)}}},
					}}})
				}
			}
			if len(roots) > 0 {
				docs = append(docs, &gen.Doc{Ops: []*gen.Op{{Kind: "query", Name: "D7", Sel: roots}}})
			}
		}
		// (e) below a union-typed parent all three are real type conditions: `... on Node`, `... on Owned`, `... on T`
		if ow, sr := s.Type("Owned"), s.Type("SearchResult"); ow != nil && sr != nil && s.Overlap(t.Name, "Owned") && s.Overlap(t.Name, "SearchResult") {
			if def := q.Field("search"); def != nil {
				root := &gen.Sel{Field: &gen.FieldSel{Name: "search", Def: def, Parent: s.Query, Sel: []*gen.Sel{
					{Field: &gen.FieldSel{Name: "__typename", Parent: "SearchResult"}},
					{Inline: &gen.InlineFrag{On: "Node", Parent: "SearchResult", Sel: []*gen.Sel{part(0, "Node", node.Field("relOwner"))}}},
					{Inline: &gen.InlineFrag{On: "Owned", Parent: "SearchResult", Sel: []*gen.Sel{part(1, "Owned", ow.Field("relOwner"))}}},
					{Inline: &gen.InlineFrag{On: t.Name, Parent: "SearchResult", Sel: []*gen.Sel{part(2, t.Name, t.Field("relOwner"))}}},
				}}}
				docs = append(docs, &gen.Doc{Ops: []*gen.Op{{Kind: "query", Name: "D5", Sel: []*gen.Sel{root}}}})
			}
		}
		var roots []*gen.Sel
		for _, rf := range []string{"nodes", "someNode"} {
			def := q.Field(rf)
			if def == nil {
				continue
			}
			roots = append(roots, &gen.Sel{Field: &gen.FieldSel{Name: rf, Def: def, Parent: s.Query, Sel: []*gen.Sel{
				{Field: &gen.FieldSel{Name: "__typename", Parent: "Node"}},
				rel("Node", node.Field("relOwner")),
				{Inline: &gen.InlineFrag{On: t.Name, Parent: "Node", Sel: []*gen.Sel{rel(t.Name, t.Field("relOwner"))}}},
			}}})
		}
		if len(roots) > 0 {
			docs = append(docs, &gen.Doc{Ops: []*gen.Op{{Kind: "query", Name: "D", Sel: roots}}})
		}
	}
	return docs
}

// duplicateKey returns a key that occurs twice in one object of the JSON text ("" = none / not JSON).
func duplicateKey(raw string) string {
	dec := json.NewDecoder(strings.NewReader(raw))
	dec.UseNumber()
	type frame struct {
		obj  bool
		keys map[string]bool
		key  bool // next token in an object is a key
	}
	var st []*frame
	for {
		tok, err := dec.Token()
		if err != nil {
			return ""
		}
		top := func() *frame {
			if len(st) == 0 {
				return nil
			}
			return st[len(st)-1]
		}
		switch t := tok.(type) {
		case json.Delim:
			switch t {
			case '{':
				if f := top(); f != nil && f.obj {
					f.key = true
				}
				st = append(st, &frame{obj: true, keys: map[string]bool{}, key: true})
			case '[':
				if f := top(); f != nil && f.obj {
					f.key = true
				}
				st = append(st, &frame{})
			case '}', ']':
				st = st[:len(st)-1]
			}
		default:
			f := top()
			if f != nil && f.obj {
				if f.key {
					k, _ := tok.(string)
					if f.keys[k] {
						return k
					}
					f.keys[k] = true
					f.key = false
				} else {
					f.key = true
				}
			}
		}
	}
}
