package c10

import (
	"encoding/json"
	"fmt"
	"runtime"
	"strings"
	"sync"
	"sync/atomic"

	"verifharness/internal/ref"
)

// recWriter is the client boundary: it implements resolve.SubscriptionResponseWriter (what
// ExecutionEngine.Execute takes; a superset of DeferResponseWriter) and records every call. A frame
// is what was written between two Flush calls. Calls that overlap in time are counted (two groups
// writing at once would interleave their frames); Write yields the processor so that an
// unserialised second writer gets a chance to run in between.
type recWriter struct {
	busy     atomic.Int32
	overlaps atomic.Int64
	flushes  atomic.Int64
	progress *atomic.Int64

	mu             sync.Mutex
	cur            []byte
	frames         []string
	writes         int
	completes      int
	afterComplete  []string // calls observed after Complete()
	completedAfter int      // number of flushes seen when Complete() was (first) called
	heartbeats     int
	errorCalls     []string
}

func newRecWriter(progress *atomic.Int64) *recWriter { return &recWriter{progress: progress} }

func (w *recWriter) enter() {
	if !w.busy.CompareAndSwap(0, 1) {
		w.overlaps.Add(1)
	}
	if w.progress != nil {
		w.progress.Add(1)
	}
}
func (w *recWriter) leave() { w.busy.Store(0) }

func (w *recWriter) Write(p []byte) (int, error) {
	w.enter()
	runtime.Gosched()
	w.mu.Lock()
	if w.completes > 0 {
		w.afterComplete = append(w.afterComplete, "Write")
	}
	w.cur = append(w.cur, p...)
	w.writes++
	w.mu.Unlock()
	w.leave()
	return len(p), nil
}

func (w *recWriter) Flush() error {
	w.enter()
	w.mu.Lock()
	if w.completes > 0 {
		w.afterComplete = append(w.afterComplete, "Flush")
	}
	w.frames = append(w.frames, string(w.cur))
	w.cur = w.cur[:0]
	w.mu.Unlock()
	w.flushes.Add(1)
	w.leave()
	return nil
}

func (w *recWriter) Complete() {
	w.enter()
	w.mu.Lock()
	if w.completes == 0 {
		w.completedAfter = len(w.frames)
	}
	w.completes++
	w.mu.Unlock()
	w.leave()
}

func (w *recWriter) Heartbeat() error {
	w.mu.Lock()
	w.heartbeats++
	w.mu.Unlock()
	return nil
}

func (w *recWriter) Error(data []byte) {
	w.mu.Lock()
	w.errorCalls = append(w.errorCalls, string(data))
	w.mu.Unlock()
}

// record is the immutable copy of what a writer saw, taken after the execution returned.
type record struct {
	Frames        []string // flushed frames
	Tail          string   // bytes written and never flushed (the whole response of a non-streamed execution)
	Completes     int
	CompletedAt   int
	AfterComplete []string
	Overlaps      int64
	Writes        int
	ErrorCalls    []string
}

func (w *recWriter) snapshot() *record {
	w.mu.Lock()
	defer w.mu.Unlock()
	return &record{Frames: append([]string(nil), w.frames...), Tail: string(w.cur), Completes: w.completes, CompletedAt: w.completedAfter,
		AfterComplete: append([]string(nil), w.afterComplete...), Overlaps: w.overlaps.Load(), Writes: w.writes, ErrorCalls: append([]string(nil), w.errorCalls...)}
}

// ---------------------------------------------------------------------------------------------
// oracle 2: stream grammar; oracle 1: reconstruction

type problem struct {
	kind string // stable oracle name
	msg  string
}

type pendingInfo struct {
	path  []any
	label string
	frame int
}

// analysis is the outcome of both oracles over one recorded execution.
type analysis struct {
	streamed            bool // at least one Flush
	problems            []problem
	data                any // reconstructed data (nil,false when no initial data)
	hasData             bool
	announced           []string // ids in announcement order
	completed           []string // ids in completion order
	incremental         int      // incremental items applied
	withSubPath         int
	lazyPending         int // ids announced in a frame other than the first
	errFrames           int // frames carrying errors anywhere (top level, incremental item, completed entry)
	completedWithErrors int
	labels              int
	nFrames             int
}

func (a *analysis) add(kind, format string, args ...any) {
	a.problems = append(a.problems, problem{kind, fmt.Sprintf(format, args...)})
}

func asIndex(v any) (int, bool) {
	switch x := ref.NormalizeJSON(v).(type) {
	case int64:
		return int(x), true
	}
	return 0, false
}

func pathString(p []any) string {
	b, _ := json.Marshal(p)
	return string(b)
}

// locate walks doc along path (strings = object keys, integers = list indices).
func locate(doc any, path []any) (any, string) {
	cur := doc
	for i, seg := range path {
		switch s := seg.(type) {
		case string:
			m, ok := cur.(map[string]any)
			if !ok {
				return nil, fmt.Sprintf("segment %d (%q): not an object but %s", i, s, kindOf(cur))
			}
			nx, ok := m[s]
			if !ok {
				return nil, fmt.Sprintf("segment %d (%q): key absent", i, s)
			}
			cur = nx
		default:
			idx, ok := asIndex(seg)
			if !ok {
				return nil, fmt.Sprintf("segment %d: neither a string nor an integer (%v)", i, seg)
			}
			l, ok := cur.([]any)
			if !ok {
				return nil, fmt.Sprintf("segment %d ([%d]): not a list but %s", i, idx, kindOf(cur))
			}
			if idx < 0 || idx >= len(l) {
				return nil, fmt.Sprintf("segment %d ([%d]): index out of range (len %d)", i, idx, len(l))
			}
			cur = l[idx]
		}
	}
	return cur, ""
}

func kindOf(v any) string {
	switch v.(type) {
	case nil:
		return "null"
	case map[string]any:
		return "an object"
	case []any:
		return "a list"
	}
	return "a scalar"
}

// deepMerge merges src into dst (both objects). Objects merge recursively, lists of equal length
// merge item-wise, equal leaves are accepted, anything else is a conflict.
func deepMerge(dst, src map[string]any, at string, conflicts *[]string) {
	for k, sv := range src {
		dv, exists := dst[k]
		if !exists {
			dst[k] = sv
			continue
		}
		mergeValue(dst, k, dv, sv, at+"."+k, conflicts)
	}
}

func mergeValue(holder map[string]any, key string, dv, sv any, at string, conflicts *[]string) {
	switch d := dv.(type) {
	case map[string]any:
		if s, ok := sv.(map[string]any); ok {
			deepMerge(d, s, at, conflicts)
			return
		}
	case []any:
		if s, ok := sv.([]any); ok && len(s) == len(d) {
			for i := range d {
				dm, dok := d[i].(map[string]any)
				sm, sok := s[i].(map[string]any)
				if dok && sok {
					deepMerge(dm, sm, fmt.Sprintf("%s[%d]", at, i), conflicts)
				} else if ref.Canon(d[i]) != ref.Canon(s[i]) {
					*conflicts = append(*conflicts, fmt.Sprintf("%s[%d]: have %s, delivered %s", at, i, clip(ref.Canon(d[i]), 120), clip(ref.Canon(s[i]), 120)))
				}
			}
			return
		}
	}
	if ref.Canon(dv) != ref.Canon(sv) {
		*conflicts = append(*conflicts, fmt.Sprintf("%s: have %s, delivered %s", at, clip(ref.Canon(dv), 120), clip(ref.Canon(sv), 120)))
	}
}

func clip(s string, n int) string {
	if len(s) > n {
		return s[:n] + "…"
	}
	return s
}

func hasErrors(m map[string]any) bool {
	e, ok := m["errors"].([]any)
	return ok && len(e) > 0
}

// analyse runs the stream grammar and the reconstruction over a record.
//
// Grammar (statement of C10, incremental-delivery format of docs/defer/design.md): every frame is
// one JSON object; frame 0 carries `data`; `pending` entries announce ids (once); an `incremental`
// item is delivered only for an id that is announced and not yet completed; a `completed` entry
// names an announced id that has not been completed before; `hasNext` is false on the last frame
// and only there; at the end every announced id is completed; the stream is terminated by exactly
// one Complete() after the last frame and nothing is written afterwards; writer calls never
// overlap. A frame's `pending` list is taken as announced for that same frame (the format allows
// announcing and delivering in one payload). An execution that never flushes is the degenerate
// stream: one JSON object, no `pending`, `hasNext` absent or false.
//
// Reconstruction: doc = frame0.data; every incremental item's `data` is deep-merged into the object
// found at pending[id].path ++ item.subPath.
func analyse(rec *record) *analysis {
	a := &analysis{}
	frames := rec.Frames
	a.streamed = len(frames) > 0
	if rec.Overlaps > 0 {
		a.add("writer-calls-overlap", "%d writer calls started while another call was still running (frames can interleave)", rec.Overlaps)
	}
	if len(rec.ErrorCalls) > 0 {
		a.add("writer-error-call", "writer.Error called: %s", clip(strings.Join(rec.ErrorCalls, " | "), 300))
	}
	if !a.streamed {
		if rec.Completes > 0 && len(rec.AfterComplete) > 0 {
			a.add("write-after-complete", "calls after Complete(): %v", rec.AfterComplete)
		}
		v, err := ref.DecodeJSON([]byte(rec.Tail))
		if err != nil {
			a.add("frame-not-json", "the non-streamed response is not one JSON document: %v", err)
			return a
		}
		m, ok := v.(map[string]any)
		if !ok {
			a.add("frame-not-object", "the non-streamed response is not a JSON object")
			return a
		}
		a.nFrames = 1
		if _, ok := m["pending"]; ok {
			a.add("pending-without-stream", "a response that is never flushed announces pending ids (they can never be completed)")
		}
		if hn, ok := m["hasNext"]; ok {
			if b, isB := hn.(bool); !isB || b {
				a.add("hasnext-true-on-last", "the only (never flushed) payload has hasNext=%v", hn)
			}
		}
		if hasErrors(m) {
			a.errFrames++
		}
		a.data, a.hasData = m["data"]
		return a
	}
	// streamed
	if rec.Tail != "" {
		a.add("unflushed-bytes", "%d bytes were written after the last Flush and never flushed: %s", len(rec.Tail), clip(rec.Tail, 200))
	}
	switch {
	case rec.Completes == 0:
		a.add("complete-missing", "Complete() was never called after %d flushed frames (the stream is never terminated)", len(frames))
	case rec.Completes > 1:
		a.add("complete-twice", "Complete() was called %d times", rec.Completes)
	}
	if rec.Completes > 0 && rec.CompletedAt != len(frames) {
		a.add("write-after-complete", "Complete() was called after %d frames, but %d frames were flushed", rec.CompletedAt, len(frames))
	} else if len(rec.AfterComplete) > 0 {
		a.add("write-after-complete", "calls after Complete(): %v", rec.AfterComplete)
	}
	pend := map[string]*pendingInfo{}
	done := map[string]int{}
	var doc any
	a.nFrames = len(frames)
	for fi, raw := range frames {
		v, err := ref.DecodeJSON([]byte(raw))
		if err != nil {
			a.add("frame-not-json", "frame %d is not one JSON document (%v): %s", fi, err, clip(raw, 300))
			continue
		}
		m, ok := v.(map[string]any)
		if !ok {
			a.add("frame-not-object", "frame %d is not a JSON object: %s", fi, clip(raw, 200))
			continue
		}
		frameErr := hasErrors(m)
		if fi == 0 {
			d, ok := m["data"]
			if !ok {
				a.add("initial-without-data", "frame 0 has no `data`: %s", clip(raw, 300))
			} else {
				doc, a.hasData = d, true
			}
		}
		// pending first: the format allows announcing and delivering in one payload
		if p, ok := m["pending"]; ok {
			list, isList := p.([]any)
			if !isList {
				a.add("pending-malformed", "frame %d: `pending` is not a list", fi)
			}
			for _, e := range list {
				em, _ := e.(map[string]any)
				id, idOK := em["id"].(string)
				path, pathOK := em["path"].([]any)
				if em == nil || !idOK || !pathOK {
					a.add("pending-malformed", "frame %d: pending entry without string id / path list: %s", fi, clip(ref.Canon(e), 200))
					continue
				}
				if _, dup := pend[id]; dup {
					a.add("pending-twice", "frame %d announces id %q again (first in frame %d)", fi, id, pend[id].frame)
					continue
				}
				pi := &pendingInfo{path: path, frame: fi}
				if l, ok := em["label"].(string); ok {
					pi.label = l
					a.labels++
				}
				pend[id] = pi
				a.announced = append(a.announced, id)
				if fi > 0 {
					a.lazyPending++
				}
			}
		}
		if inc, ok := m["incremental"]; ok {
			list, isList := inc.([]any)
			if !isList {
				a.add("incremental-malformed", "frame %d: `incremental` is not a list", fi)
			}
			for ii, e := range list {
				em, _ := e.(map[string]any)
				id, idOK := em["id"].(string)
				if em == nil || !idOK {
					a.add("incremental-malformed", "frame %d item %d: no string id: %s", fi, ii, clip(ref.Canon(e), 200))
					continue
				}
				if hasErrors(em) {
					frameErr = true
				}
				pi, announced := pend[id]
				if !announced {
					a.add("incremental-unannounced", "frame %d item %d is delivered for id %q which was never announced as pending", fi, ii, id)
					continue
				}
				if df, isDone := done[id]; isDone {
					a.add("incremental-after-completed", "frame %d item %d is delivered for id %q which was completed in frame %d", fi, ii, id, df)
					continue
				}
				if _, isStream := em["items"]; isStream {
					a.add("incremental-items", "frame %d item %d carries `items` (@stream) for a deferred id", fi, ii)
					continue
				}
				dv, hasD := em["data"]
				dm, isObj := dv.(map[string]any)
				if !hasD || !isObj {
					a.add("incremental-malformed", "frame %d item %d (id %q): `data` is not an object: %s", fi, ii, id, clip(ref.Canon(e), 200))
					continue
				}
				loc := append([]any(nil), pi.path...)
				if sp, ok := em["subPath"]; ok {
					spl, isL := sp.([]any)
					if !isL {
						a.add("incremental-malformed", "frame %d item %d: subPath is not a list", fi, ii)
						continue
					}
					loc = append(loc, spl...)
					a.withSubPath++
				}
				if !a.hasData {
					continue
				}
				target, why := locate(doc, loc)
				if why != "" {
					a.add("merge-target-missing", "frame %d item %d (id %q): nothing to merge into at the announced path %s ++ subPath = %s: %s", fi, ii, id, pathString(pi.path), pathString(loc), why)
					continue
				}
				tm, isObj := target.(map[string]any)
				if !isObj {
					a.add("merge-target-not-object", "frame %d item %d (id %q): the value at %s is %s, not an object", fi, ii, id, pathString(loc), kindOf(target))
					continue
				}
				var conflicts []string
				deepMerge(tm, dm, pathString(loc), &conflicts)
				for _, c := range conflicts {
					a.add("merge-conflict", "frame %d item %d (id %q): %s", fi, ii, id, c)
				}
				a.incremental++
			}
		}
		if comp, ok := m["completed"]; ok {
			list, isList := comp.([]any)
			if !isList {
				a.add("completed-malformed", "frame %d: `completed` is not a list", fi)
			}
			for _, e := range list {
				em, _ := e.(map[string]any)
				id, idOK := em["id"].(string)
				if em == nil || !idOK {
					a.add("completed-malformed", "frame %d: completed entry without string id: %s", fi, clip(ref.Canon(e), 200))
					continue
				}
				if hasErrors(em) {
					frameErr = true
					a.completedWithErrors++
				}
				if _, announced := pend[id]; !announced {
					a.add("completed-unannounced", "frame %d completes id %q which was never announced as pending", fi, id)
					continue
				}
				if df, isDone := done[id]; isDone {
					a.add("completed-twice", "frame %d completes id %q again (first completed in frame %d)", fi, id, df)
					continue
				}
				done[id] = fi
				a.completed = append(a.completed, id)
			}
		}
		hn, hasHN := m["hasNext"]
		b, isB := hn.(bool)
		switch {
		case !hasHN || !isB:
			a.add("hasnext-missing", "frame %d of a flushed stream has no boolean hasNext: %s", fi, clip(raw, 200))
		case !b:
			if fi != len(frames)-1 {
				a.add("hasnext-false-before-last", "frame %d has hasNext=false but %d more frame(s) follow", fi, len(frames)-1-fi)
			}
		case b && fi == len(frames)-1:
			a.add("hasnext-true-on-last", "the last frame (%d) has hasNext=true", fi)
		}
		if frameErr {
			a.errFrames++
		}
	}
	for _, id := range a.announced {
		if _, ok := done[id]; !ok {
			a.add("pending-never-completed", "id %q (announced in frame %d, path %s) is never completed", id, pend[id].frame, pathString(pend[id].path))
		}
	}
	a.data = doc
	return a
}

// ---------------------------------------------------------------------------------------------
// structural difference between the expected data and the reconstruction (facts for the match)

type diffItem struct {
	path  string
	class string // missing-key | extra-key | null-instead-of-value | value-instead-of-null | requires-input-missing | leaf-differs | shape-differs | list-length
}

func diffData(exp, got any, path string, out *[]diffItem) {
	if len(*out) >= 40 {
		return
	}
	add := func(class string) { *out = append(*out, diffItem{path, class}) }
	switch e := exp.(type) {
	case map[string]any:
		g, ok := got.(map[string]any)
		if !ok {
			if got == nil {
				add("null-instead-of-value")
			} else {
				add("shape-differs")
			}
			return
		}
		keys := make([]string, 0, len(e))
		for k := range e {
			keys = append(keys, k)
		}
		sortStrings(keys)
		for _, k := range keys {
			gv, ok := g[k]
			if !ok {
				*out = append(*out, diffItem{path + "." + k, "missing-key"})
				continue
			}
			diffData(e[k], gv, path+"."+k, out)
		}
		var extra []string
		for k := range g {
			if _, ok := e[k]; !ok {
				extra = append(extra, k)
			}
		}
		sortStrings(extra)
		for _, k := range extra {
			*out = append(*out, diffItem{path + "." + k, "extra-key"})
		}
	case []any:
		g, ok := got.([]any)
		if !ok {
			if got == nil {
				add("null-instead-of-value")
			} else {
				add("shape-differs")
			}
			return
		}
		if len(g) != len(e) {
			add("list-length")
			return
		}
		for i := range e {
			diffData(e[i], g[i], fmt.Sprintf("%s[%d]", path, i), out)
		}
	default:
		if ref.Canon(exp) == ref.Canon(got) {
			return
		}
		switch {
		case exp == nil:
			add("value-instead-of-null")
		case got == nil:
			add("null-instead-of-value")
		case strings.Contains(ref.Canon(got), "MISSING-REQUIRES-INPUT"):
			add("requires-input-missing")
		default:
			switch got.(type) {
			case map[string]any, []any:
				add("shape-differs")
			default:
				add("leaf-differs")
			}
		}
	}
}

func sortStrings(s []string) {
	for i := 1; i < len(s); i++ {
		for j := i; j > 0 && s[j] < s[j-1]; j-- {
			s[j], s[j-1] = s[j-1], s[j]
		}
	}
}

func diffClasses(items []diffItem) string {
	set := map[string]bool{}
	for _, it := range items {
		set[it.class] = true
	}
	var ks []string
	for k := range set {
		ks = append(ks, k)
	}
	sortStrings(ks)
	return strings.Join(ks, "+")
}

func diffList(items []diffItem) []string {
	var out []string
	for i, it := range items {
		if i >= 12 {
			out = append(out, "…")
			break
		}
		out = append(out, it.class+" at "+it.path)
	}
	return out
}
