package c10

import (
	"bytes"
	"context"
	"fmt"
	"runtime/debug"
	"sort"
	"strings"
	"sync"
	"sync/atomic"
	"time"

	"github.com/wundergraph/graphql-go-tools/execution/engine"
	"github.com/wundergraph/graphql-go-tools/execution/graphql"
	"github.com/wundergraph/graphql-go-tools/v2/pkg/astprinter"
	"github.com/wundergraph/graphql-go-tools/v2/pkg/engine/resolve"

	"verifharness/internal/fed"
	"verifharness/internal/fw"
	"verifharness/internal/ref"
)

// chooser decides which parked request is released next. A prefix of choices is replayed
// (exhaustive enumeration of the decision tree by an odometer), beyond it the choice is 0 or drawn
// from the case PRNG.
type chooser struct {
	prefix []int
	rnd    func(n int) int
	taken  []int
	opts   []int
}

func (c *chooser) next(n int) int {
	i := len(c.taken)
	ch := 0
	switch {
	case i < len(c.prefix):
		ch = c.prefix[i] % n
	case c.rnd != nil:
		ch = c.rnd(n)
	}
	c.taken = append(c.taken, ch)
	c.opts = append(c.opts, n)
	return ch
}

// nextPrefix gives the successor of the executed choice sequence in the odometer order (nil = tree exhausted).
func (c *chooser) nextPrefix() []int {
	for i := len(c.taken) - 1; i >= 0; i-- {
		if c.taken[i]+1 < c.opts[i] {
			p := append([]int(nil), c.taken[:i]...)
			return append(p, c.taken[i]+1)
		}
	}
	return nil
}

func (c *chooser) treeSize() int {
	n := 1
	for _, o := range c.opts {
		n *= o
		if n > 1<<20 {
			return n
		}
	}
	return n
}

func (c *chooser) signature() string {
	parts := make([]string, len(c.taken))
	for i := range c.taken {
		parts[i] = fmt.Sprintf("%d/%d", c.taken[i], c.opts[i])
	}
	return strings.Join(parts, " ")
}

type parkedReq struct {
	rec *fed.Request
	key string
	ch  chan struct{}
	no  int
}

// sched controls the subgraph requests that arrive after the initial frame was flushed (the
// deferred groups' requests). Modes: "free" (count only), "perm" (hold everything, release one at
// a time as chosen), "batch" (hold, release everything parked at once).
type sched struct {
	mode     string
	w        *recWriter
	progress *atomic.Int64
	choose   *chooser

	mu        sync.Mutex
	parked    []*parkedReq
	arrivals  int
	open      bool
	maxParked int
	releases  []string
	// fault: kind to inject into the faultNth (0-based) deferred request
	faultKind string
	faultNth  int
	faultSeen int
	faulted   string
}

func reqKey(rec *fed.Request) string {
	return rec.Subgraph + "\x00" + rec.Query + "\x00" + ref.Canon(rec.Variables)
}

func (s *sched) gate(rec *fed.Request) {
	if s.w.flushes.Load() == 0 {
		return // request of the initial response
	}
	s.progress.Add(1)
	s.mu.Lock()
	s.arrivals++
	if s.mode == "free" || s.open {
		s.mu.Unlock()
		return
	}
	p := &parkedReq{rec: rec, key: reqKey(rec), ch: make(chan struct{}), no: s.arrivals}
	s.parked = append(s.parked, p)
	if len(s.parked) > s.maxParked {
		s.maxParked = len(s.parked)
	}
	s.mu.Unlock()
	<-p.ch
}

// faultFor is called by the transport under its own lock; it must not block.
func (s *sched) faultFor(arrival int, subgraph, query string) *fed.Fault {
	if s.faultKind == "" || s.w.flushes.Load() == 0 {
		return nil
	}
	s.mu.Lock()
	defer s.mu.Unlock()
	n := s.faultSeen
	s.faultSeen++
	if n == s.faultNth {
		s.faulted = subgraph + ": " + query
		return &fed.Fault{Kind: s.faultKind}
	}
	return nil
}

func (s *sched) releaseOne() {
	s.mu.Lock()
	if len(s.parked) == 0 {
		s.mu.Unlock()
		return
	}
	sort.SliceStable(s.parked, func(i, j int) bool {
		if s.parked[i].key != s.parked[j].key {
			return s.parked[i].key < s.parked[j].key
		}
		return s.parked[i].no < s.parked[j].no
	})
	var out []*parkedReq
	if s.mode == "batch" {
		out, s.parked = s.parked, nil
	} else {
		i := s.choose.next(len(s.parked))
		out = []*parkedReq{s.parked[i]}
		s.parked = append(s.parked[:i:i], s.parked[i+1:]...)
	}
	for _, p := range out {
		s.releases = append(s.releases, p.rec.Subgraph+" "+clip(p.rec.Query, 160))
	}
	s.mu.Unlock()
	s.progress.Add(1)
	for _, p := range out {
		close(p.ch)
	}
}

func (s *sched) openAll() {
	s.mu.Lock()
	s.open = true
	out := s.parked
	s.parked = nil
	s.mu.Unlock()
	for _, p := range out {
		close(p.ch)
	}
}

func (s *sched) parkedCount() int {
	s.mu.Lock()
	defer s.mu.Unlock()
	return len(s.parked)
}

// run is one execution through the real ExecutionEngine with what was observed at the boundaries.
type run struct {
	rec       *record
	err       error
	panicMsg  string
	panicSig  string
	stack     string
	requests  []*fed.Request
	deferred  int // requests that arrived after the initial frame was flushed
	maxParked int
	releases  []string
	choice    string
	faulted   string
	hung      bool
}

const (
	pollInterval = 100 * time.Microsecond
	settlePolls  = 12
	// bounded progress: with every gate open and nothing observed at any boundary for this long the
	// execution is taken as wedged; the verdict is left to the framework's watchdog (isolated re-run).
	hangAfter = 40 * time.Second
)

// execute runs one operation. The scheduler only decides the order in which held requests are
// released; it never times the engine. Settling (no boundary activity for a few polls before the
// next release) only serves to get several deferred requests parked together.
func execute(gw *fed.Gateway, text string, vars []byte, mode string, ch *chooser, faultKind string, faultNth int, opts ...engine.ExecutionOptions) *run {
	return executeWith(gw, mode, ch, faultKind, faultNth, func(w *recWriter) error {
		req := &graphql.Request{Query: text, Variables: vars}
		return gw.Engine.Execute(context.Background(), req, w, opts...)
	})
}

// captured is what the engine hands to the planner and the resolver for one request: the
// normalised operation (exactly what the plan cache key is computed from) and the request context.
type captured struct {
	Norm    string
	Vars    []byte
	Remap   map[string]string
	Request resolve.Request
	ok      bool
}

// executeCapturing is execute (un-gated) that also captures the normalised operation and context.
func executeCapturing(gw *fed.Gateway, text string, vars []byte, cp *captured) *run {
	return executeWith(gw, "free", nil, "", 0, func(w *recWriter) error {
		req := &graphql.Request{Query: text, Variables: vars}
		capture := engine.VerifWithResolveContext(func(rc *resolve.Context) {
			var buf bytes.Buffer
			if err := astprinter.Print(req.Document(), &buf); err != nil {
				return
			}
			cp.Norm = buf.String()
			if rc.Variables != nil {
				cp.Vars = rc.Variables.MarshalTo(nil)
			}
			cp.Remap = map[string]string{}
			for k, v := range rc.RemapVariables {
				cp.Remap[k] = v
			}
			cp.Request = rc.Request
			cp.ok = true
		})
		return gw.Engine.Execute(context.Background(), req, w, capture)
	})
}

// executeWith runs fn (which drives the system under test with the recording writer) under the
// scheduler.
func executeWith(gw *fed.Gateway, mode string, ch *chooser, faultKind string, faultNth int, fn func(w *recWriter) error) *run {
	progress := &atomic.Int64{}
	w := newRecWriter(progress)
	if ch == nil {
		ch = &chooser{}
	}
	s := &sched{mode: mode, w: w, progress: progress, choose: ch, faultKind: faultKind, faultNth: faultNth}
	gw.Transport.Reset()
	gw.Transport.Gate = s.gate
	gw.Transport.FaultFor = nil
	if faultKind != "" {
		gw.Transport.FaultFor = s.faultFor
	}
	out := &run{}
	done := make(chan struct{})
	go func() {
		defer close(done)
		defer func() {
			if r := recover(); r != nil {
				st := string(debug.Stack())
				out.panicMsg, out.panicSig, out.stack = fmt.Sprint(r), fw.PanicSignature(fmt.Sprint(r), st), clip(st, 5000)
			}
		}()
		out.err = fn(w)
	}()
	last := progress.Load()
	lastChange := time.Now()
	stable := 0
loop:
	for {
		select {
		case <-done:
			break loop
		default:
		}
		time.Sleep(pollInterval)
		if p := progress.Load(); p != last {
			last, lastChange, stable = p, time.Now(), 0
			continue
		}
		stable++
		if s.parkedCount() == 0 {
			if time.Since(lastChange) > hangAfter {
				out.hung = true
				break loop
			}
			continue
		}
		if stable < settlePolls {
			continue
		}
		s.releaseOne()
		stable = 0
	}
	s.openAll()
	if !out.hung {
		<-done
	}
	out.rec = w.snapshot()
	out.requests = gw.Transport.Log()
	s.mu.Lock()
	out.deferred, out.maxParked, out.releases, out.faulted = s.arrivals, s.maxParked, append([]string(nil), s.releases...), s.faulted
	s.mu.Unlock()
	out.choice = ch.signature()
	return out
}
