package c10

import (
	"fmt"
	"math/rand/v2"
	"sort"
	"strings"

	"verifharness/internal/gen"
)

// deferizer rewrites a generated (defer-free) query into one that uses @defer in many shapes. The
// rewrite only wraps existing selections into fragments (inline, typed inline, named spreads) that
// carry @defer, adds @defer to existing fragments and duplicates a deferred field next to its
// fragment, so the operation without the directives selects exactly what the original selected.
type deferizer struct {
	r   *rand.Rand
	s   *gen.Schema
	doc *gen.Doc
	op  *gen.Op

	labelN, fragN, varN int
	// variables introduced for `if:` (name → value; absent value = omitted, the default applies)
	ifVars    map[string]bool
	ifVarVals map[string]any
	nDefer    int // directives written
	nActive   int // directives whose `if` evaluates to true
	shapes    map[string]bool
	doneFrag  map[string]bool
}

type dctx struct {
	underDefer    bool
	underList     bool
	underAbstract bool
	depth         int
}

func (d *deferizer) shape(s string) { d.shapes[s] = true }

func (d *deferizer) isAbstract(t string) bool {
	k := d.s.KindOf(t)
	return k == gen.Interface || k == gen.Union
}

// deferDir builds one @defer directive; active reports whether it defers for the case's variables.
func (d *deferizer) deferDir() (*gen.Dir, bool) {
	dir := &gen.Dir{Name: "defer"}
	active := true
	if d.r.IntN(2) == 0 {
		d.labelN++
		dir.Args = append(dir.Args, &gen.ArgVal{Name: "label", Val: gen.StrV(fmt.Sprintf("L%d", d.labelN))})
		d.shape("label")
	}
	switch x := d.r.IntN(20); {
	case x < 2:
		dir.Args = append(dir.Args, &gen.ArgVal{Name: "if", Val: gen.BoolV(true)})
		d.shape("if-literal-true")
	case x < 4:
		dir.Args = append(dir.Args, &gen.ArgVal{Name: "if", Val: gen.BoolV(false)})
		d.shape("if-literal-false")
		active = false
	case x < 8:
		name, val := d.ifVar()
		dir.Args = append(dir.Args, &gen.ArgVal{Name: "if", Val: gen.VarV(name)})
		active = val
		if val {
			d.shape("if-variable-true")
		} else {
			d.shape("if-variable-false")
		}
	}
	if d.r.IntN(3) == 0 && len(dir.Args) == 2 {
		dir.Args[0], dir.Args[1] = dir.Args[1], dir.Args[0]
	}
	d.nDefer++
	if active {
		d.nActive++
	}
	return dir, active
}

// ifVar returns a Boolean variable for `if:` and the value it evaluates to. Sometimes an existing
// one is reused. Forms: `$d: Boolean!` given; `$d: Boolean! = x` given or omitted; `$d: Boolean = x`
// given (non-null) or omitted.
func (d *deferizer) ifVar() (string, bool) {
	if len(d.ifVars) > 0 && d.r.IntN(3) == 0 {
		names := make([]string, 0, len(d.ifVars))
		for n := range d.ifVars {
			names = append(names, n)
		}
		sort.Strings(names)
		n := names[d.r.IntN(len(names))]
		return n, d.ifVars[n]
	}
	d.varN++
	name := fmt.Sprintf("d%d", d.varN)
	val := d.r.IntN(3) != 0
	vd := &gen.VarDef{Name: name, Type: gen.Named("Boolean", true)}
	switch d.r.IntN(5) {
	case 0, 1: // Boolean! given
		d.ifVarVals[name] = val
	case 2: // Boolean! = default, omitted
		vd.Default = gen.BoolV(val)
		d.shape("if-variable-default-only")
	case 3: // Boolean! = other default, given
		vd.Default = gen.BoolV(!val)
		d.ifVarVals[name] = val
	case 4: // Boolean = default, omitted
		vd.Type = gen.Named("Boolean", false)
		vd.Default = gen.BoolV(val)
		d.shape("if-variable-default-only")
	}
	d.op.Vars = append(d.op.Vars, vd)
	d.ifVars[name] = val
	return name, val
}

func hasDeferDir(dirs []*gen.Dir) bool {
	for _, x := range dirs {
		if x.Name == "defer" {
			return true
		}
	}
	return false
}

func (d *deferizer) frag(name string) *gen.Frag {
	for _, f := range d.doc.Frags {
		if f.Name == name {
			return f
		}
	}
	return nil
}

// noteDefer records the shape facts of a defer written at a site.
func (d *deferizer) noteDefer(active bool, c dctx, parent, cond string, kind string) {
	if !active {
		return
	}
	d.shape(kind)
	if c.underDefer {
		d.shape("nested")
	}
	if c.underList {
		d.shape("in-list")
	}
	if c.depth == 0 {
		d.shape("at-root")
	}
	if c.underAbstract || d.isAbstract(parent) || (cond != "" && cond != parent) {
		d.shape("under-abstract")
	}
}

func (d *deferizer) walk(sels []*gen.Sel, parent string, c dctx) []*gen.Sel {
	// 1. existing fragments: maybe defer them; children first (with the context they will have)
	deferredHere := 0
	for _, x := range sels {
		switch {
		case x.Inline != nil:
			in := x.Inline
			cond := in.On
			if cond == "" {
				cond = parent
			}
			cc := c
			if !hasDeferDir(in.Dirs) && d.r.IntN(100) < 40 {
				dir, active := d.deferDir()
				in.Dirs = append(in.Dirs, dir)
				d.noteDefer(active, c, parent, in.On, "inline-fragment")
				if active {
					cc.underDefer = true
					deferredHere++
				}
			}
			if cond != parent || d.isAbstract(parent) {
				cc.underAbstract = true
			}
			in.Sel = d.walk(in.Sel, cond, cc)
		case x.Spread != nil:
			sp := x.Spread
			fr := d.frag(sp.Name)
			cc := c
			if !hasDeferDir(sp.Dirs) && d.r.IntN(100) < 40 {
				dir, active := d.deferDir()
				sp.Dirs = append(sp.Dirs, dir)
				cond := ""
				if fr != nil {
					cond = fr.On
				}
				d.noteDefer(active, c, parent, cond, "fragment-spread")
				if active {
					cc.underDefer = true
					deferredHere++
				}
			}
			if fr != nil && !d.doneFrag[fr.Name] {
				d.doneFrag[fr.Name] = true
				if fr.On != parent || d.isAbstract(parent) {
					cc.underAbstract = true
				}
				fr.Sel = d.walk(fr.Sel, fr.On, cc)
			}
		}
	}
	// 2. wrap groups of selections into new deferred fragments
	type group struct {
		idx    []int
		active bool
		sel    *gen.Sel
		multi  bool // every member is a composite field that is also selected (thinly) outside the fragment
	}
	var groups []group
	taken := map[int]bool{}
	wrap := func(body []*gen.Sel) (*gen.Sel, bool) {
		dir, active := d.deferDir()
		if d.r.IntN(3) == 0 {
			d.fragN++
			fr := &gen.Frag{Name: fmt.Sprintf("DF%d", d.fragN), On: parent, Sel: body}
			d.doc.Frags = append(d.doc.Frags, fr)
			d.doneFrag[fr.Name] = true
			d.noteDefer(active, c, parent, parent, "fragment-spread")
			return &gen.Sel{Spread: &gen.Spread{Name: fr.Name, Parent: parent, Dirs: []*gen.Dir{dir}}}, active
		}
		in := &gen.InlineFrag{Parent: parent, Sel: body, Dirs: []*gen.Dir{dir}}
		if d.r.IntN(2) == 0 {
			in.On = parent
			d.shape("typed-inline")
		} else {
			d.shape("untyped-inline")
		}
		d.noteDefer(active, c, parent, in.On, "inline-fragment")
		return &gen.Sel{Inline: in}, active
	}
	// 2a. one fragment over 2-3 DIFFERENT composite fields, each of which is also selected outside
	// the fragment: the fragment's leaves are mounted below several sibling objects of the initial
	// response and nowhere at the parent itself
	if d.r.IntN(100) < 16 {
		var comps []int
		seenKey := map[string]bool{}
		for i, x := range sels {
			if x.Field != nil && len(x.Field.Sel) > 0 && x.Field.Def != nil && !seenKey[x.Field.Key()] {
				seenKey[x.Field.Key()] = true
				comps = append(comps, i)
			}
		}
		if len(comps) >= 2 {
			d.r.Shuffle(len(comps), func(i, j int) { comps[i], comps[j] = comps[j], comps[i] })
			k := 2
			if len(comps) >= 3 && d.r.IntN(2) == 0 {
				k = 3
			}
			idx := append([]int(nil), comps[:k]...)
			sort.Ints(idx)
			var body []*gen.Sel
			for _, i := range idx {
				taken[i] = true
				body = append(body, sels[i])
			}
			wrapped, active := wrap(body)
			if active {
				deferredHere++
				d.shape("several-composites-of-one-defer-also-outside")
				if c.underList {
					d.shape("several-composites-of-one-defer-also-outside:in-list")
				}
				if c.depth == 0 {
					d.shape("several-composites-of-one-defer-also-outside:at-root")
				} else {
					d.shape("several-composites-of-one-defer-also-outside:nested")
				}
			}
			groups = append(groups, group{idx: idx, active: active, sel: wrapped, multi: true})
		}
	}
	maxGroups := 1
	if d.r.IntN(3) == 0 {
		maxGroups = 2 + d.r.IntN(2)
	}
	pWrap := 45
	if c.depth == 0 {
		pWrap = 30
	}
	for g := 0; g < maxGroups && d.r.IntN(100) < pWrap; g++ {
		var free []int
		for i := range sels {
			if !taken[i] {
				free = append(free, i)
			}
		}
		if len(free) == 0 {
			break
		}
		k := 1 + d.r.IntN(len(free))
		if k > 3 {
			k = 1 + d.r.IntN(3)
		}
		d.r.Shuffle(len(free), func(i, j int) { free[i], free[j] = free[j], free[i] })
		idx := append([]int(nil), free[:k]...)
		sort.Ints(idx)
		var body []*gen.Sel
		for _, i := range idx {
			taken[i] = true
			body = append(body, sels[i])
		}
		wrapped, active := wrap(body)
		if active {
			deferredHere++
		}
		groups = append(groups, group{idx: idx, active: active, sel: wrapped})
	}
	if deferredHere >= 2 {
		d.shape("sibling")
	}
	// 3. recurse into the fields (fields inside a new active group are under that defer)
	groupOf := map[int]int{}
	for gi, g := range groups {
		for _, i := range g.idx {
			groupOf[i] = gi
		}
	}
	for i, x := range sels {
		if x.Field == nil || len(x.Field.Sel) == 0 || x.Field.Def == nil {
			continue
		}
		cc := c
		cc.depth++
		if gi, ok := groupOf[i]; ok && groups[gi].active {
			cc.underDefer = true
		}
		if x.Field.Def.Type.IsList() {
			cc.underList = true
		}
		cc.underAbstract = false
		x.Field.Sel = d.walk(x.Field.Sel, x.Field.Def.Type.NamedType(), cc)
	}
	if len(groups) == 0 {
		return sels
	}
	// 4. rebuild: each group sits where its first member was; sometimes a member is duplicated
	// outside the fragment (the same field deferred and not deferred)
	var out []*gen.Sel
	for i, x := range sels {
		gi, in := groupOf[i]
		if !in {
			out = append(out, x)
			continue
		}
		g := groups[gi]
		if g.idx[0] != i {
			continue
		}
		if g.multi {
			var before, after []*gen.Sel
			for _, j := range g.idx {
				cp := d.thinCopy(sels[j])
				if d.r.IntN(2) == 0 {
					before = append(before, cp)
				} else {
					after = append(after, cp)
				}
			}
			out = append(out, before...)
			out = append(out, g.sel)
			out = append(out, after...)
			continue
		}
		var dup *gen.Sel
		if d.r.IntN(100) < 22 {
			var cands []*gen.Sel
			for _, j := range g.idx {
				if sels[j].Field != nil {
					cands = append(cands, sels[j])
				}
			}
			if len(cands) > 0 {
				src := cands[d.r.IntN(len(cands))]
				dup = d.undeferredCopy(src)
				if g.active {
					d.shape("deferred-field-also-in-initial-selection")
				}
			}
		}
		if dup != nil && d.r.IntN(2) == 0 {
			out = append(out, dup, g.sel)
		} else if dup != nil {
			out = append(out, g.sel, dup)
		} else {
			out = append(out, g.sel)
		}
	}
	return out
}

// undeferredCopy clones a field selection without any @defer below it; for a composite field
// sometimes only a part of the sub-selection is kept (partial overlap).
func (d *deferizer) undeferredCopy(src *gen.Sel) *gen.Sel {
	cp := gen.CloneSels([]*gen.Sel{src})[0]
	stripDeferSels(cp.Field.Sel)
	if len(cp.Field.Sel) > 1 && d.r.IntN(2) == 0 {
		keep := 1 + d.r.IntN(len(cp.Field.Sel)-1)
		cp.Field.Sel = cp.Field.Sel[:keep]
		d.shape("partial-overlap")
	}
	return cp
}

// thinCopy clones a composite field selection without any @defer below it and keeps only a strict
// part of its sub-selection (a proper prefix, or just __typename), so that the original keeps
// fields of its own below the shared object.
func (d *deferizer) thinCopy(src *gen.Sel) *gen.Sel {
	cp := gen.CloneSels([]*gen.Sel{src})[0]
	stripDeferSels(cp.Field.Sel)
	if len(cp.Field.Sel) > 1 && d.r.IntN(2) == 0 {
		cp.Field.Sel = cp.Field.Sel[:1+d.r.IntN(len(cp.Field.Sel)-1)]
	} else {
		t := ""
		if cp.Field.Def != nil {
			t = cp.Field.Def.Type.NamedType()
		}
		cp.Field.Sel = []*gen.Sel{{Field: &gen.FieldSel{Name: "__typename", Parent: t}}}
	}
	return cp
}

func stripDeferDirs(dirs []*gen.Dir) []*gen.Dir {
	var out []*gen.Dir
	for _, x := range dirs {
		if x.Name != "defer" {
			out = append(out, x)
		}
	}
	return out
}

func stripDeferSels(sels []*gen.Sel) {
	for _, x := range sels {
		switch {
		case x.Field != nil:
			stripDeferSels(x.Field.Sel)
		case x.Inline != nil:
			x.Inline.Dirs = stripDeferDirs(x.Inline.Dirs)
			stripDeferSels(x.Inline.Sel)
		case x.Spread != nil:
			x.Spread.Dirs = stripDeferDirs(x.Spread.Dirs)
		}
	}
}

func forEachDefer(doc *gen.Doc, f func(dir *gen.Dir)) {
	var walk func(sels []*gen.Sel)
	visit := func(dirs []*gen.Dir) {
		for _, x := range dirs {
			if x.Name == "defer" {
				f(x)
			}
		}
	}
	walk = func(sels []*gen.Sel) {
		for _, x := range sels {
			switch {
			case x.Field != nil:
				walk(x.Field.Sel)
			case x.Inline != nil:
				visit(x.Inline.Dirs)
				walk(x.Inline.Sel)
			case x.Spread != nil:
				visit(x.Spread.Dirs)
			}
		}
	}
	for _, op := range doc.Ops {
		walk(op.Sel)
	}
	for _, fr := range doc.Frags {
		walk(fr.Sel)
	}
}

type deferred struct {
	doc     *gen.Doc
	vars    map[string]any // all variables (original + if-variables)
	ifVars  map[string]bool
	nDefer  int
	nActive int
	shapes  []string
}

// deferize rewrites doc in place (callers pass a clone) and returns the deferred form.
func deferize(r *rand.Rand, s *gen.Schema, doc *gen.Doc, baseVars map[string]any) *deferred {
	d := &deferizer{r: r, s: s, doc: doc, op: doc.Ops[0], ifVars: map[string]bool{}, ifVarVals: map[string]any{}, shapes: map[string]bool{}, doneFrag: map[string]bool{}}
	d.op.Sel = d.walk(d.op.Sel, s.Query, dctx{})
	if d.nDefer == 0 {
		// force one: wrap the whole root selection or the first composite field's selection
		dir, active := d.deferDir()
		target := &d.op.Sel
		parent := s.Query
		c := dctx{}
		for _, x := range d.op.Sel {
			if x.Field != nil && len(x.Field.Sel) > 0 && x.Field.Def != nil && d.r.IntN(2) == 0 {
				target = &x.Field.Sel
				parent = x.Field.Def.Type.NamedType()
				c.depth = 1
				c.underList = x.Field.Def.Type.IsList()
				break
			}
		}
		in := &gen.InlineFrag{Parent: parent, Sel: *target, Dirs: []*gen.Dir{dir}}
		*target = []*gen.Sel{{Inline: in}}
		d.noteDefer(active, c, parent, "", "inline-fragment")
		d.shape("untyped-inline")
	}
	vars := map[string]any{}
	for k, v := range baseVars {
		vars[k] = v
	}
	for k, v := range d.ifVarVals {
		vars[k] = v
	}
	if len(d.op.Vars) > 0 && d.op.Name == "" && r.IntN(2) == 0 {
		d.op.Name = "Q"
	}
	var shapes []string
	for k := range d.shapes {
		shapes = append(shapes, k)
	}
	sort.Strings(shapes)
	return &deferred{doc: doc, vars: vars, ifVars: d.ifVars, nDefer: d.nDefer, nActive: d.nActive, shapes: shapes}
}

func dropVars(doc *gen.Doc, vars map[string]any, drop map[string]bool) map[string]any {
	for _, op := range doc.Ops {
		var keep []*gen.VarDef
		for _, v := range op.Vars {
			if _, dropIt := drop[v.Name]; !dropIt {
				keep = append(keep, v)
			}
		}
		op.Vars = keep
	}
	out := map[string]any{}
	for k, v := range vars {
		if _, dropIt := drop[k]; !dropIt {
			out[k] = v
		}
	}
	return out
}

// withoutDefer: the same document with every @defer removed (and the variables only they used).
func (d *deferred) withoutDefer() (*gen.Doc, map[string]any) {
	c := d.doc.Clone()
	for _, op := range c.Ops {
		stripDeferSels(op.Sel)
	}
	for _, fr := range c.Frags {
		stripDeferSels(fr.Sel)
	}
	return c, dropVars(c, d.vars, d.ifVars)
}

// allIfFalse: the same document with `if: false` on every @defer, as a literal or through one
// Boolean variable given as false.
func (d *deferred) allIfFalse(viaVariable bool) (*gen.Doc, map[string]any) {
	c := d.doc.Clone()
	forEachDefer(c, func(dir *gen.Dir) {
		var args []*gen.ArgVal
		for _, a := range dir.Args {
			if a.Name != "if" {
				args = append(args, a)
			}
		}
		v := gen.BoolV(false)
		if viaVariable {
			v = gen.VarV("dOff")
		}
		dir.Args = append(args, &gen.ArgVal{Name: "if", Val: v})
	})
	vars := dropVars(c, d.vars, d.ifVars)
	if viaVariable {
		c.Ops[0].Vars = append(c.Ops[0].Vars, &gen.VarDef{Name: "dOff", Type: gen.Named("Boolean", true)})
		vars["dOff"] = false
		if c.Ops[0].Name == "" {
			c.Ops[0].Name = "Q"
		}
	}
	return c, vars
}

func shapeString(shapes []string) string { return strings.Join(shapes, "+") }
