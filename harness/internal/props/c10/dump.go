package c10

import (
	"fmt"
	"reflect"
	"sort"
	"strings"
)

// (copied from internal/props/c09/dump.go)
//
// dumper prints a plan (any Go value) as a canonical text: every field of every struct, exported or
// not, pointers followed (no addresses), maps with sorted keys, byte slices as strings. Run-time
// objects that are not part of the plan's content (data source instances, traces, functions,
// channels, locks) are printed by type name only. Pointer cycles are cut.
//
// The dump is only ever compared with another dump of the same kind, so the exact format does not
// matter; what matters is that nothing of the plan is left out and nothing address-like gets in.
type dumper struct {
	sb      strings.Builder
	onStack map[uintptr]bool
	limit   int
}

// opaque: field names whose values are run-time wiring, not plan content.
var opaqueFields = map[string]bool{
	"DataSource": true, // the data source instance (always a different instance per planner)
	"Source":     true, // subscription data source instance
	"Trace":      true, // filled while loading
}

func dumpValue(v any) string {
	d := &dumper{onStack: map[uintptr]bool{}, limit: 4 << 20}
	d.val(reflect.ValueOf(v), 0)
	return d.sb.String()
}

func (d *dumper) nl(depth int) {
	d.sb.WriteByte('\n')
	for i := 0; i < depth; i++ {
		d.sb.WriteByte(' ')
	}
}

func opaqueType(t reflect.Type) bool {
	p := t.PkgPath()
	if t.Kind() == reflect.Pointer {
		p = t.Elem().PkgPath()
	}
	switch {
	case strings.HasPrefix(p, "sync"), strings.HasPrefix(p, "net/"), strings.HasPrefix(p, "context"), strings.HasPrefix(p, "time"):
		return true
	case strings.Contains(p, "/datasource/"):
		return true
	}
	return false
}

func (d *dumper) val(v reflect.Value, depth int) {
	if d.sb.Len() > d.limit {
		return
	}
	if !v.IsValid() {
		d.sb.WriteString("<nil>")
		return
	}
	if depth > 200 {
		d.sb.WriteString("<too deep>")
		return
	}
	t := v.Type()
	switch v.Kind() {
	case reflect.Bool:
		fmt.Fprint(&d.sb, v.Bool())
	case reflect.Int, reflect.Int8, reflect.Int16, reflect.Int32, reflect.Int64:
		fmt.Fprint(&d.sb, v.Int())
	case reflect.Uint, reflect.Uint8, reflect.Uint16, reflect.Uint32, reflect.Uint64, reflect.Uintptr:
		fmt.Fprint(&d.sb, v.Uint())
	case reflect.Float32, reflect.Float64:
		fmt.Fprint(&d.sb, v.Float())
	case reflect.Complex64, reflect.Complex128:
		fmt.Fprint(&d.sb, v.Complex())
	case reflect.String:
		fmt.Fprintf(&d.sb, "%q", v.String())
	case reflect.Func, reflect.Chan, reflect.UnsafePointer:
		if v.IsNil() {
			d.sb.WriteString("<nil " + t.Kind().String() + ">")
		} else {
			d.sb.WriteString("<" + t.Kind().String() + ">")
		}
	case reflect.Interface:
		if v.IsNil() {
			d.sb.WriteString("<nil>")
			return
		}
		e := v.Elem()
		d.sb.WriteString("(" + e.Type().String() + ")")
		if opaqueType(e.Type()) {
			d.sb.WriteString("<opaque>")
			return
		}
		d.val(e, depth)
	case reflect.Pointer:
		if v.IsNil() {
			d.sb.WriteString("<nil>")
			return
		}
		if opaqueType(t) {
			d.sb.WriteString("&<opaque " + t.String() + ">")
			return
		}
		p := v.Pointer()
		if d.onStack[p] {
			d.sb.WriteString("<cycle>")
			return
		}
		d.onStack[p] = true
		d.sb.WriteByte('&')
		d.val(v.Elem(), depth)
		delete(d.onStack, p)
	case reflect.Slice, reflect.Array:
		if v.Kind() == reflect.Slice && v.IsNil() {
			// nil and empty slices are the same plan content
			d.sb.WriteString("[]")
			return
		}
		if t.Elem().Kind() == reflect.Uint8 {
			b := make([]byte, v.Len())
			for i := range b {
				b[i] = byte(v.Index(i).Uint())
			}
			fmt.Fprintf(&d.sb, "b%q", string(b))
			return
		}
		if v.Len() == 0 {
			d.sb.WriteString("[]")
			return
		}
		d.sb.WriteByte('[')
		for i := 0; i < v.Len(); i++ {
			d.nl(depth + 1)
			d.val(v.Index(i), depth+1)
		}
		d.nl(depth)
		d.sb.WriteByte(']')
	case reflect.Map:
		if v.Len() == 0 {
			d.sb.WriteString("map{}")
			return
		}
		type kv struct {
			k string
			v reflect.Value
		}
		var items []kv
		it := v.MapRange()
		for it.Next() {
			kd := &dumper{onStack: map[uintptr]bool{}, limit: 1 << 16}
			kd.val(it.Key(), 0)
			items = append(items, kv{kd.sb.String(), it.Value()})
		}
		sort.Slice(items, func(i, j int) bool { return items[i].k < items[j].k })
		d.sb.WriteString("map{")
		for _, x := range items {
			d.nl(depth + 1)
			d.sb.WriteString(x.k + ": ")
			d.val(x.v, depth+1)
		}
		d.nl(depth)
		d.sb.WriteByte('}')
	case reflect.Struct:
		if opaqueType(t) {
			d.sb.WriteString("<opaque " + t.String() + ">")
			return
		}
		d.sb.WriteString(t.Name() + "{")
		n := 0
		for i := 0; i < t.NumField(); i++ {
			f := t.Field(i)
			fv := v.Field(i)
			d.nl(depth + 1)
			d.sb.WriteString(f.Name + ": ")
			if opaqueFields[f.Name] {
				switch fv.Kind() {
				case reflect.Interface, reflect.Pointer:
					if fv.IsNil() {
						d.sb.WriteString("<nil>")
					} else if fv.Kind() == reflect.Interface {
						d.sb.WriteString("<opaque " + fv.Elem().Type().String() + ">")
					} else {
						d.sb.WriteString("<opaque " + fv.Type().String() + ">")
					}
				default:
					d.sb.WriteString("<opaque>")
				}
			} else {
				d.val(fv, depth+1)
			}
			n++
		}
		if n > 0 {
			d.nl(depth)
		}
		d.sb.WriteByte('}')
	default:
		d.sb.WriteString("<" + t.Kind().String() + ">")
	}
}
