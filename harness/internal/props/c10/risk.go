package c10

import (
	"fmt"
	"strings"

	"verifharness/internal/fed"
	"verifharness/internal/gen"
)

// Static shape facts of a deferred query (computed from the query, its variables and the layout,
// never from a finding): they go into the match facts of every violation so that a known defect
// can be listed with the shape it needs, and they steer half of the generated queries away from
// the shapes that trip over already known defects ("plain" queries), so that the check keeps its
// power for everything else.
type riskFacts struct {
	// an active @defer lies in (or contains) a fragment branch no runtime type can take
	// (e.g. `product { ... on Node { ... on User @defer { … } } }`)
	ImpossibleBranch bool
	// a composite field at one response position (path of response keys) is selected in two
	// different DEFER scopes (scope = innermost active @defer): two sibling defers, or a defer and
	// a defer nested in it
	CompositeInSeveralScopes bool
	// a composite field at one response position is selected inside an active @defer and also
	// outside every @defer (in the initial selection): the fragment's fields below it are
	// mounted under an object the initial response already delivers
	CompositeDeferredAndNot bool
	// an active @defer has no leaf field of its own: every leaf it selects directly (not through
	// a nested @defer; __typename not counted, it belongs to the enclosing object) is also
	// selected at the same response position in another scope
	DeferWithoutOwnFields bool
	// a leaf field is selected at one response position in two scopes (deferred and not, or in
	// two defers); by itself not known to misbehave (evidence counter only)
	LeafInSeveralScopes bool
	// a field with @requires is selected inside an active @defer
	DeferredRequires bool
	// an active @defer sits below a list field while an ancestor field is only defined on a type
	// condition's type, not on the declared type of the field above it
	ListBelowNarrowedField bool
	// a fragment on an abstract type sits inside a different abstract parent type (e.g.
	// `search { ... on Node { … } }` with search: [SearchResult union]) and is deferred, inside a
	// defer, or contains one
	AbstractInAbstractWithDefer bool
	// an active @defer nested in another active @defer is mounted outside the place where the
	// enclosing defer's own fields sit: the enclosing defer's fields (those not merged into a copy
	// selected outside of it) all lie below some object P, the nested defer's fields do not lie
	// below P (e.g. `x { id } ... @defer { x { name } ... @defer { y } }`: the outer defer is
	// announced at x, the inner one at the root)
	NestedDeferOutsideParentMount bool
	LabelsUnique                  bool
}

func (f riskFacts) any() bool {
	// only the shapes of OPEN findings steer (C10-F3, F4, F8); the others are kept as facts
	return f.CompositeInSeveralScopes || f.DeferredRequires || f.AbstractInAbstractWithDefer
}

func (f riskFacts) addTo(m map[string]string) {
	m["defer_in_impossible_type_branch"] = fmt.Sprint(f.ImpossibleBranch)
	m["composite_field_in_several_defer_scopes"] = fmt.Sprint(f.CompositeInSeveralScopes)
	m["composite_field_deferred_and_not_deferred"] = fmt.Sprint(f.CompositeDeferredAndNot)
	m["defer_without_own_fields"] = fmt.Sprint(f.DeferWithoutOwnFields)
	m["deferred_requires_field"] = fmt.Sprint(f.DeferredRequires)
	m["defer_below_list_below_narrowed_field"] = fmt.Sprint(f.ListBelowNarrowedField)
	m["abstract_fragment_in_other_abstract_parent_with_defer"] = fmt.Sprint(f.AbstractInAbstractWithDefer)
	m["nested_defer_mounted_outside_parent_defers_fields"] = fmt.Sprint(f.NestedDeferOutsideParentMount)
}

type ancestor struct {
	field  string
	parent string // type the field was selected on (innermost type condition)
	list   bool
}

type riskWalker struct {
	s           *gen.Schema
	l           *fed.Layout
	doc         *gen.Doc
	vars        map[string]any
	facts       riskFacts
	scopeN      int
	scopeParent map[int]int
	scopeOcc    map[int][][2]string // per scope: (position, key) of its field occurrences
	occ         map[string]map[int]bool
	isLeaf      map[string]bool
	labels      map[string]int
	seenDir     map[*gen.Dir]bool
}

func (w *riskWalker) boolArg(v *gen.Val) (bool, bool) {
	if v == nil {
		return false, false
	}
	switch v.Kind {
	case gen.VBool:
		return v.Bool, true
	case gen.VVar:
		if x, ok := w.vars[v.Str].(bool); ok {
			return x, true
		}
		for _, vd := range w.doc.Ops[0].Vars {
			if vd.Name == v.Str && vd.Default != nil && vd.Default.Kind == gen.VBool {
				return vd.Default.Bool, true
			}
		}
	}
	return false, false
}

func (w *riskWalker) included(dirs []*gen.Dir) bool {
	for _, d := range dirs {
		if d.Name != "skip" && d.Name != "include" {
			continue
		}
		for _, a := range d.Args {
			if a.Name != "if" {
				continue
			}
			b, ok := w.boolArg(a.Val)
			if !ok {
				continue
			}
			if (d.Name == "skip" && b) || (d.Name == "include" && !b) {
				return false
			}
		}
	}
	return true
}

func (w *riskWalker) activeDefer(dirs []*gen.Dir) bool {
	for _, d := range dirs {
		if d.Name != "defer" {
			continue
		}
		active := true
		for _, a := range d.Args {
			switch a.Name {
			case "if":
				if b, ok := w.boolArg(a.Val); ok {
					active = b
				} else {
					active = false
				}
			case "label":
				if !w.seenDir[d] { // a directive node counts once (a fragment may be spread twice)
					w.seenDir[d] = true
					w.labels[a.Val.Str]++
				}
			}
		}
		return active
	}
	return false
}

func intersect(a []string, b []string) []string {
	set := map[string]bool{}
	for _, x := range b {
		set[x] = true
	}
	var out []string
	for _, x := range a {
		if set[x] {
			out = append(out, x)
		}
	}
	return out
}

// narrowedListMiss mimics plan.deferInfoCollector.outermostListFieldIndex: fields are looked up on
// the declared type of the field above, type conditions are ignored; the scan gives up at the
// first field it cannot find. True when it gives up before reaching a list field that is there.
func (w *riskWalker) narrowedListMiss(chain []ancestor) bool {
	parent := w.s.Query
	for i, a := range chain {
		td := w.s.Type(parent)
		var f *gen.Field
		if td != nil {
			f = td.Field(a.field)
		}
		if f == nil {
			for _, rest := range chain[i:] {
				if rest.list {
					return true
				}
			}
			return false
		}
		if f.Type.IsList() {
			return false
		}
		parent = f.Type.NamedType()
	}
	return false
}

// walk returns whether the subtree contains an active defer.
func (w *riskWalker) walk(sels []*gen.Sel, parent string, possible []string, scope int, pos string, chain []ancestor, impossible bool, seenFrag map[string]bool) bool {
	contains := false
	fragment := func(cond string, dirs []*gen.Dir, body []*gen.Sel) {
		if !w.included(dirs) {
			return
		}
		p, poss := parent, possible
		if cond != "" {
			p = cond
			poss = intersect(possible, w.s.PossibleTypes(cond))
		}
		imp := impossible || len(poss) == 0
		sc := scope
		isDefer := w.activeDefer(dirs)
		if isDefer {
			w.scopeN++
			sc = w.scopeN
			w.scopeParent[sc] = scope
			contains = true
			if w.narrowedListMiss(chain) {
				w.facts.ListBelowNarrowedField = true
			}
		}
		sub := w.walk(body, p, poss, sc, pos, chain, imp, seenFrag)
		if sub {
			contains = true
		}
		if imp && (sc != 0 || sub) {
			w.facts.ImpossibleBranch = true
		}
		if cond != "" && cond != parent && w.abstract(cond) && w.abstract(parent) && (sc != 0 || sub) {
			w.facts.AbstractInAbstractWithDefer = true
		}
	}
	for _, x := range sels {
		switch {
		case x.Field != nil:
			f := x.Field
			if !w.included(f.Dirs) {
				continue
			}
			key := pos + "/" + f.Key()
			if w.occ[key] == nil {
				w.occ[key] = map[int]bool{}
			}
			w.occ[key][scope] = true
			w.scopeOcc[scope] = append(w.scopeOcc[scope], [2]string{pos, key})
			if len(f.Sel) == 0 && f.Name != "__typename" {
				w.isLeaf[key] = true
			}
			if scope != 0 && f.Name != "__typename" {
				for _, t := range append([]string{parent}, possible...) {
					if fi := w.l.Fields[t+"."+f.Name]; fi != nil && fi.Requires != "" {
						w.facts.DeferredRequires = true
					}
				}
			}
			if len(f.Sel) > 0 && f.Def != nil {
				nt := f.Def.Type.NamedType()
				ch := append(append([]ancestor(nil), chain...), ancestor{field: f.Name, parent: parent, list: f.Def.Type.IsList()})
				if w.walk(f.Sel, nt, w.s.PossibleTypes(nt), scope, key, ch, impossible, seenFrag) {
					contains = true
				}
			}
		case x.Inline != nil:
			fragment(x.Inline.On, x.Inline.Dirs, x.Inline.Sel)
		case x.Spread != nil:
			for _, fr := range w.doc.Frags {
				if fr.Name == x.Spread.Name && !seenFrag[fr.Name] {
					seenFrag[fr.Name] = true
					fragment(fr.On, x.Spread.Dirs, fr.Sel)
					delete(seenFrag, fr.Name)
				}
			}
		}
	}
	return contains
}

func analyseRisk(l *fed.Layout, doc *gen.Doc, vars map[string]any) riskFacts {
	w := &riskWalker{s: l.Super, l: l, doc: doc, vars: vars, scopeParent: map[int]int{}, scopeOcc: map[int][][2]string{}, occ: map[string]map[int]bool{}, isLeaf: map[string]bool{}, seenDir: map[*gen.Dir]bool{}, labels: map[string]int{}}
	w.walk(doc.Ops[0].Sel, l.Super.Query, []string{l.Super.Query}, 0, "", nil, false, map[string]bool{})
	hasOwn := map[int]bool{}
	for key, scopes := range w.occ {
		if len(scopes) > 1 {
			if w.isLeaf[key] {
				w.facts.LeafInSeveralScopes = true
			} else {
				// a composite, or __typename (which follows its object)
				if !isTypenameKey(key) {
					deferScopes := 0
					for sc := range scopes {
						if sc != 0 {
							deferScopes++
						}
					}
					if deferScopes >= 2 {
						w.facts.CompositeInSeveralScopes = true
					}
					if scopes[0] && deferScopes >= 1 {
						w.facts.CompositeDeferredAndNot = true
					}
				}
			}
			continue
		}
		if w.isLeaf[key] {
			for sc := range scopes {
				hasOwn[sc] = true
			}
		}
	}
	for sc := 1; sc <= w.scopeN; sc++ {
		if !hasOwn[sc] {
			w.facts.DeferWithoutOwnFields = true
		}
	}
	// where each defer is mounted: common prefix of the positions of its own field occurrences (an
	// occurrence also selected outside every defer or in an enclosing defer belongs to that scope)
	isAncestor := func(a, d int) bool {
		for x := w.scopeParent[d]; ; x = w.scopeParent[x] {
			if x == a {
				return true
			}
			if x == 0 {
				return false
			}
		}
	}
	mount := map[int][]string{}
	for sc := 1; sc <= w.scopeN; sc++ {
		var path []string
		first := true
		for _, pk := range w.scopeOcc[sc] {
			owned := !isTypenameKey(pk[1]) // __typename follows its object, not the defer it is written in
			for other := range w.occ[pk[1]] {
				if other != sc && (other == 0 || isAncestor(other, sc)) {
					owned = false
				}
			}
			if !owned {
				continue
			}
			segs := strings.Split(strings.TrimPrefix(pk[0], "/"), "/")
			if pk[0] == "" {
				segs = nil
			}
			if first {
				path, first = segs, false
				continue
			}
			n := 0
			for n < len(path) && n < len(segs) && path[n] == segs[n] {
				n++
			}
			path = path[:n]
		}
		if !first {
			mount[sc] = path
		}
	}
	for sc, path := range mount {
		for a := w.scopeParent[sc]; a != 0; a = w.scopeParent[a] {
			ap, ok := mount[a]
			if !ok {
				continue
			}
			if len(path) < len(ap) || strings.Join(path[:len(ap)], "/") != strings.Join(ap, "/") {
				w.facts.NestedDeferOutsideParentMount = true
			}
			break
		}
	}
	w.facts.LabelsUnique = true
	for _, n := range w.labels {
		if n > 1 {
			w.facts.LabelsUnique = false
		}
	}
	return w.facts
}

func isTypenameKey(key string) bool {
	const t = "/__typename"
	return len(key) >= len(t) && key[len(key)-len(t):] == t
}

func (w *riskWalker) abstract(t string) bool {
	k := w.s.KindOf(t)
	return k == gen.Interface || k == gen.Union
}
