package c10

import (
	"context"
	"fmt"
	"runtime/debug"
	"strings"

	"github.com/wundergraph/astjson"

	"github.com/wundergraph/graphql-go-tools/execution/graphql"
	"github.com/wundergraph/graphql-go-tools/v2/pkg/astparser"
	"github.com/wundergraph/graphql-go-tools/v2/pkg/engine/plan"
	"github.com/wundergraph/graphql-go-tools/v2/pkg/engine/postprocess"
	"github.com/wundergraph/graphql-go-tools/v2/pkg/engine/resolve"
	"github.com/wundergraph/graphql-go-tools/v2/pkg/operationreport"

	"verifharness/internal/fw"
	"verifharness/internal/ref"
)

// Planner re-use family (history trigger).
//
// ExecutionEngine builds a fresh plan.Planner for every plan it does not find in its cache, so at
// engine level every plan is made by a planner without history. A plan.Planner is re-usable by
// contract (the repository keeps its Visitor safe for re-use), and integrators plan with pooled
// planners and cache the plans. Here the deferred queries of a case - exactly the normalised
// operations and request contexts the engine produced for them - are planned one after the other
// by ONE planner (+ postprocess), followed by a defer-free operation; then
//
//	(1) every plan must still be what it was when Planner.Plan returned it: canonical reflection
//	    dump (every field, exported or not) taken right after planning == dump taken after all
//	    later operations were planned;
//	(2) every plan, executed now through the engine's resolver (ResolveGraphQLDeferResponse /
//	    ResolveGraphQLResponse) with the captured context, must still satisfy the stream grammar
//	    and reconstruct the data of the query without @defer - judged only for queries whose
//	    engine-level execution (fresh planner) was clean, so that only the history is to blame.
type reuseItem struct {
	vD      variant
	cp      *captured
	b       *baseline
	shapes  string
	cleanAt bool // the engine-level un-gated run had no finding
}

type plannedItem struct {
	it          *reuseItem
	p           plan.Plan
	dump        string
	descriptors string
	tree        string
	err, panic  string
}

func deferParts(p plan.Plan) (descriptors, tree string) {
	if dp, ok := p.(*plan.DeferResponsePlan); ok && dp.Response != nil {
		return dumpValue(dp.Response.DeferDescriptors), dumpValue(dp.Response.DeferTree)
	}
	return "", ""
}

func planWith(pl *plan.Planner, def *graphql.Schema, norm string) (p plan.Plan, errMsg, panicSig string) {
	defer func() {
		if r := recover(); r != nil {
			panicSig = fw.PanicSignature(fmt.Sprint(r), string(debug.Stack()))
		}
	}()
	doc, rep := astparser.ParseGraphqlDocumentString(norm)
	if rep.HasErrors() {
		return nil, "normalised operation does not parse: " + rep.Error(), ""
	}
	var report operationreport.Report
	p = pl.Plan(&doc, def.Document(), "", &report)
	if report.HasErrors() {
		return nil, report.Error(), ""
	}
	postprocess.NewProcessor().Process(p)
	return p, "", ""
}

func firstDiffLines(a, b string) string {
	la, lb := strings.Split(a, "\n"), strings.Split(b, "\n")
	i := 0
	for i < len(la) && i < len(lb) && la[i] == lb[i] {
		i++
	}
	cut := func(l []string) string {
		lo, hi := i-6, i+10
		if lo < 0 {
			lo = 0
		}
		if hi > len(l) {
			hi = len(l)
		}
		if lo > hi {
			return ""
		}
		return strings.Join(l[lo:hi], "\n")
	}
	return fmt.Sprintf("first difference at dump line %d\nwhen returned:\n%s\nafter later operations were planned:\n%s", i+1, clip(cut(la), 1500), clip(cut(lb), 1500))
}

func (e *env) reusePhase(res *fw.Result, items []*reuseItem, detail func(extra map[string]any) map[string]any) {
	if len(items) == 0 {
		return
	}
	schema, err := graphql.NewSchemaFromString(e.l.SuperSDL)
	if err != nil {
		res.Broken("supergraph rejected by the repository in the re-use phase: "+err.Error(), nil)
		return
	}
	pl, err := plan.NewPlanner(*e.gD.Engine.VerifPlannerConfiguration())
	if err != nil {
		res.Broken("plan.NewPlanner: "+err.Error(), nil)
		return
	}
	res.Count("reuse_planners", 1)
	var planned []*plannedItem
	for _, it := range items {
		fw.SetContext(detail(map[string]any{"phase": "planner re-use: planning", "normalised_operation": it.cp.Norm}))
		pi := &plannedItem{it: it}
		pi.p, pi.err, pi.panic = planWith(pl, schema, it.cp.Norm)
		switch {
		case pi.panic != "":
			// a planner that panics on an operation the engine planned is C09's subject (plan determinism)
			res.Count("reuse_plan_panics_left_to_c09", 1)
			continue
		case pi.err != "":
			res.Count("reuse_plan_errors_left_to_c09", 1)
			continue
		}
		pi.dump = dumpValue(pi.p)
		pi.descriptors, pi.tree = deferParts(pi.p)
		planned = append(planned, pi)
		res.Count("reuse_operations_planned", 1)
		if _, ok := pi.p.(*plan.DeferResponsePlan); ok {
			res.Count("reuse_defer_plans", 1)
		}
	}
	// one more operation without any @defer, so that also the last deferred plan has a successor
	planWith(pl, schema, "{__typename}")
	for i, pi := range planned {
		after := dumpValue(pi.p)
		res.Count("reuse_plans_compared_with_their_dump_when_returned", 1)
		later := len(planned) - 1 - i
		if after != pi.dump {
			d2, t2 := deferParts(pi.p)
			changed := "other"
			switch {
			case d2 != pi.descriptors:
				changed = "defer-descriptors"
			case t2 != pi.tree:
				changed = "defer-tree"
			}
			res.Violate("planner-reuse.plan-changed-after-return", "a plan returned by Planner.Plan changed when the same planner planned later operations ("+changed+")",
				map[string]string{"changed": changed},
				detail(map[string]any{"query_with_defer": pi.it.vD.text, "variables": string(pi.it.vD.vars), "normalised_operation": pi.it.cp.Norm, "later_operations_planned": later + 1,
					"defer_descriptors_when_returned": clip(pi.descriptors, 2000), "defer_descriptors_now": clip(d2, 2000), "difference": firstDiffLines(pi.dump, after)}))
		}
	}
	// execute every plan now (after all planning) through the engine's resolver
	resolver := e.gD.Engine.VerifResolver()
	for _, pi := range planned {
		it := pi.it
		if !it.cleanAt {
			res.Count("reuse_executions_skipped_engine_level_run_not_clean", 1)
			continue
		}
		fw.SetContext(detail(map[string]any{"phase": "planner re-use: executing a plan made by a re-used planner", "query_with_defer": it.vD.text, "variables": string(it.vD.vars)}))
		rn := executeWith(e.gD, "free", nil, "", 0, func(w *recWriter) error {
			rc := resolve.NewContext(context.Background())
			if len(it.cp.Vars) > 0 {
				v, perr := astjson.ParseBytes(it.cp.Vars)
				if perr != nil {
					return fmt.Errorf("harness: captured variables do not parse: %v", perr)
				}
				rc.Variables = v
			}
			rc.RemapVariables = it.cp.Remap
			rc.Request = it.cp.Request
			switch p := pi.p.(type) {
			case *plan.DeferResponsePlan:
				_, err := resolver.ResolveGraphQLDeferResponse(rc, p.Response, w)
				return err
			case *plan.SynchronousResponsePlan:
				_, err := resolver.ResolveGraphQLResponse(rc, p.Response, nil, w)
				return err
			}
			return fmt.Errorf("harness: unexpected plan type %T", pi.p)
		})
		det := func(extra map[string]any) map[string]any {
			d := detail(map[string]any{"query_with_defer": it.vD.text, "variables": string(it.vD.vars), "normalised_operation": it.cp.Norm, "frames": rn.rec.Frames, "unflushed": clip(rn.rec.Tail, 2000),
				"expected_data": clip(it.b.canon, 4000), "defer_descriptors_when_returned": clip(pi.descriptors, 1500), "subgraph_requests": requestDump(rn.requests)})
			for k, v := range extra {
				d[k] = v
			}
			return d
		}
		if rn.hung {
			hang("plan made by a re-used planner", det(nil))
		}
		res.Count("reuse_plans_executed", 1)
		switch {
		case rn.panicMsg != "":
			res.Violate("planner-reuse.panic", "executing a plan made by a re-used planner panics: "+rn.panicMsg, map[string]string{"panic": rn.panicSig}, det(map[string]any{"stack": rn.stack}))
			continue
		case rn.err != nil:
			res.Violate("planner-reuse.execute-error", "executing a plan made by a re-used planner fails although the engine (fresh planner) executes the query: "+rn.err.Error(), map[string]string{"error_class": classifyErr(rn.err.Error())}, det(nil))
			continue
		}
		an := analyse(rn.rec)
		seen := map[string]bool{}
		for _, pr := range an.problems {
			if seen[pr.kind] {
				continue
			}
			seen[pr.kind] = true
			res.Violate("planner-reuse.stream."+pr.kind, "plan made by a re-used planner, executed after later operations were planned: "+pr.msg, map[string]string{"stream_problems": problemKinds(an.problems)}, det(nil))
		}
		got := "<no data>"
		if an.hasData {
			got = ref.Canon(an.data)
		}
		res.Count("reuse_reconstructions_compared", 1)
		if got != it.b.canon {
			var diffs []diffItem
			diffData(it.b.data, an.data, "data", &diffs)
			res.Violate("planner-reuse.reconstruction-mismatch", "a plan made by a re-used planner, executed after later operations were planned, no longer reconstructs the data of the query without @defer (the engine's own plan of the same normalised operation does)",
				map[string]string{"difference": diffClasses(diffs), "stream_problems": problemKinds(an.problems), "streamed": fmt.Sprint(an.streamed)},
				det(map[string]any{"reconstructed_data": clip(got, 4000), "differences": diffList(diffs), "first_difference": firstDiff(it.b.canon, got)}))
		}
	}
}
