// Package c10: @defer delivers the same data incrementally with a well-formed stream.
//
// Every case builds a federation layout and a hash-defined universe, generates valid queries,
// rewrites them to use @defer in many shapes (deferize.go) and executes, through the real
// execution/engine.ExecutionEngine over in-process semantic subgraphs,
//
//	D  the query with @defer under many completion orders of the deferred subgraph requests
//	   (gated transport: exhaustive enumeration of the release orders when the tree is small,
//	   PRNG-sampled otherwise; one all-at-once release; un-gated free runs),
//	A  the same query with every @defer removed,
//	B  the same query with @defer(if: false) everywhere (literal or one variable),
//
// each on its own gateway over the same universe. Oracle 1 merges every incremental payload of D
// into the initial data at pending.path ++ subPath and compares with data(A) and data(B); oracle 2
// is the pending/completed stream grammar over what the writer saw (stream.go).
package c10

import (
	"encoding/json"
	"fmt"
	"math/rand/v2"
	"os"
	"sort"
	"strings"

	"github.com/vektah/gqlparser/v2"
	gast "github.com/vektah/gqlparser/v2/ast"

	"verifharness/internal/fed"
	"verifharness/internal/fw"
	"verifharness/internal/gen"
	"verifharness/internal/ref"
	"verifharness/internal/rig"
)

type c10 struct{ fw.Base }

func init() { fw.Register(c10{}) }

func (c10) ID() string             { return "C10" }
func (c10) Race() bool             { return true }
func (c10) CrashIsViolation() bool { return true }
func (c10) CaseTimeout(string) int { return 240 }
func (c10) NumCases(tier string) int {
	if tier == fw.Thorough {
		return 2400
	}
	return 256
}

func (c10) Rule() string {
	return "case = generated federation layout (1-3 subgraphs: entities, keys, @requires/@provides/@shareable, interfaces, unions, lists; 1 in 8 a single plain subgraph) + hash-defined universe (nullable positions null at rate 2/16, lists of 0-3 items) x " + fmt.Sprint(opsPerCase) + " valid-by-construction queries rewritten to use @defer: new untyped / typed inline fragments and named fragment spreads around random groups of selections (nested, sibling groups in one selection set, inside lists, at the root), @defer on the generator's own type-conditioned fragments under interfaces/unions, labels, if: true / false / variable (given, default only), a deferred field repeated outside its fragment (fully or partly). Also: one deferred fragment over 2-3 different composite fields each of which is also selected (thinly) outside the fragment, at the root, nested and in lists (the fragment is mounted below several sibling objects of the initial response). Every second query is 'plain': re-drawn until it is free of the statically recognisable shapes of OPEN findings (risk.go: composite field shared between two defer scopes, deferred @requires field, abstract fragment inside another abstract parent); the others are unrestricted; all shape facts (also: defer in an impossible type branch, defer without own leaf fields, defer below a list below a type-narrowed field, composite field deferred and also not deferred) go into the match of every violation. HISTORY family (reuse.go): the normalised operations and request contexts the engine produced for the case's deferred queries are planned one after the other by ONE re-used plan.Planner (+postprocess), followed by a defer-free operation; every plan must equal its own canonical reflection dump taken when Planner.Plan returned it, and, executed afterwards through the engine's resolver (ResolveGraphQLDeferResponse), must still satisfy the grammar and reconstruct (judged for queries whose engine-level run was clean). Each query runs (D) deferred on one gateway under a gated transport that holds every subgraph request arriving after the initial frame and releases them one at a time in every order (odometer over the decision tree when it has <= maxSchedules leaves, PRNG-drawn orders otherwise), once releasing all parked requests together and twice un-gated, all under -race; (A) with every @defer removed and (B) with if:false everywhere (literal / one variable) on two further gateways; plus fault runs (one deferred request fails in one of 7 ways) judged by the stream grammar and termination only. Oracles: reconstruction merge(initial, incrementals at pending.path++subPath) == data(A) == data(B) (canonical JSON, key order ignored); stream grammar over the writer calls (one JSON object per flush, ids announced once, delivered only while pending, completed exactly once and only after announced, hasNext false exactly on the last frame, Complete() once after the last frame, nothing written afterwards, no overlapping writer calls); termination = bounded progress after all gates are open, left to the framework watchdog. Non-trivial query = its stream announced >= 1 id, delivered >= 1 incremental payload in >= 2 frames and the reconstruction was compared; distinct by hash of (layout, query, variables)."
}

func (c10) Assumptions() []string {
	return []string{
		"clean universes in the reconstruction tier: subgraphs answer without errors, non-null positions are never null (under errors the statement's equality cannot hold by the design of @defer: null propagation stops at the fragment); fault runs are judged by the stream grammar and termination only",
		"the incremental format is the one of docs/defer/design.md: pending{id,path,label}, incremental{id,data,subPath,errors}, completed{id,errors}; an item is merged at pending.path ++ subPath (the repository truncates pending.path at the outermost list field and puts indices and the remainder into subPath)",
		"a frame's pending list counts as announced for the same frame; object key order is not compared",
		"operations with a union-typed fragment inside a non-union parent (known finding C01-F1) are not generated; an operation whose non-deferred form fails to execute or differs from the monolithic reference is another property's finding (C01): the deferred form is still compared engine-vs-engine and the case counts it",
		"layouts as in C01 (no @interfaceObject, @override, compound keys)",
	}
}

func (c10) RequiredCounters(string) []string {
	return []string{"queries", "deferred_executions", "streams_with_pending", "frames", "ids_announced", "ids_completed", "incremental_items_merged", "reconstructions_compared", "iffalse_compared", "gated_schedules", "schedules_with_2plus_requests_parked", "queries_with_2plus_completion_orders", "free_runs", "fault_runs", "lazy_pending_announcements", "items_with_subpath", "queries_plain", "batch_release_runs", "labels_on_pending", "reuse_planners", "reuse_defer_plans", "reuse_plans_compared_with_their_dump_when_returned", "reuse_plans_executed", "reuse_reconstructions_compared", "shape:several-composites-of-one-defer-also-outside"}
}

const opsPerCase = 4

func maxSchedules(tier string) int {
	if tier == fw.Thorough {
		return 24
	}
	return 6
}

type variant struct {
	text string
	vars []byte
}

func mkVariant(doc *gen.Doc, vars map[string]any) variant {
	b, _ := json.Marshal(vars)
	return variant{doc.String(), b}
}

func valsToMap(vals map[string]*gen.Val) map[string]any {
	m := map[string]any{}
	for k, v := range vals {
		x, _ := v.JSON(nil)
		m[k] = x
	}
	return m
}

func truncate(s string, n int) string { return clip(s, n) }

func firstDiff(a, b string) string {
	i := 0
	for i < len(a) && i < len(b) && a[i] == b[i] {
		i++
	}
	lo := i - 150
	if lo < 0 {
		lo = 0
	}
	cut := func(s string) string {
		hi := i + 200
		if hi > len(s) {
			hi = len(s)
		}
		if lo > len(s) {
			return ""
		}
		return s[lo:hi]
	}
	return "expected: …" + cut(a) + "\nobserved: …" + cut(b)
}

func classifyErr(msg string) string {
	switch {
	case strings.Contains(msg, "label") && strings.Contains(msg, "must be unique"):
		return "defer-label-must-be-unique"
	case strings.Contains(msg, "conflicting types") || strings.Contains(msg, "conflict because"):
		return "planned-operation-merge-conflict"
	case strings.Contains(msg, "plan"):
		return "planning"
	case strings.Contains(msg, "internal"):
		return "internal"
	}
	return "other"
}

func problemKinds(ps []problem) string {
	set := map[string]bool{}
	for _, p := range ps {
		set[p.kind] = true
	}
	var ks []string
	for k := range set {
		ks = append(ks, k)
	}
	sort.Strings(ks)
	return strings.Join(ks, "+")
}

func featureString(p fed.Profile) string {
	var fs []string
	add := func(b bool, s string) {
		if b {
			fs = append(fs, s)
		}
	}
	add(p.Single, "single")
	add(p.Interface, "interface")
	add(p.Union, "union")
	add(p.Requires, "requires")
	add(p.Provides, "provides")
	add(p.Shareable, "shareable")
	return fmt.Sprintf("s%d:", p.Subgraphs) + strings.Join(fs, "+")
}

// hang: the execution made no progress with every gate open. The statement promises termination;
// the verdict is the framework's (watchdog, isolated re-run): leave the witness on stderr and wait.
func hang(what string, detail map[string]any) {
	b, _ := json.Marshal(detail)
	fmt.Fprintf(os.Stderr, "C10 NO-TERMINATION (%s): the execution did not return although every gate is open and nothing was observed at any boundary for %s; witness: %s\n", what, hangAfter, clip(string(b), 6000))
	fw.AddContext("c10_no_termination", detail)
	select {}
}

// finding is one refuting observation of a query (turned into fw violations by the caller).
type finding struct {
	kind   string
	msg    string
	match  map[string]string
	detail map[string]any
}

// sig is what the minimiser preserves: the oracle kind plus the facts that name the failure class.
func (f finding) sig() string {
	keys := []string{"variant", "tier", "error_class", "difference", "panic", "never_completed_announced_in", "stream_problems"}
	s := f.kind
	for _, k := range keys {
		if v, ok := f.match[k]; ok {
			s += "|" + k + "=" + v
		}
	}
	return s
}

// env is what a query is executed against.
type env struct {
	l          *fed.Layout
	superGql   *gast.Schema
	u          *ref.Universe
	gD, gA, gB *fed.Gateway
	detail     func() map[string]any
}

// baseline is the outcome of A (the query without @defer).
type baseline struct {
	skip   string // reason the query is not judged ("" = usable)
	canon  string
	data   any
	refOK  int // 1 equals the monolithic reference, -1 differs, 0 not compared
	errCls string
}

func (e *env) runBase(vA variant) *baseline {
	b := &baseline{}
	runA := execute(e.gA, vA.text, vA.vars, "free", nil, "", 0)
	if runA.hung {
		hang("query without @defer", map[string]any{"query_without_defer": vA.text, "variables": string(vA.vars)})
	}
	switch {
	case runA.panicMsg != "":
		b.skip = "skipped_base_panics"
		return b
	case runA.err != nil:
		b.skip, b.errCls = "skipped_base_execute_error", classifyErr(runA.err.Error())
		return b
	}
	anA := analyse(runA.rec)
	if len(anA.problems) > 0 || !anA.hasData || anA.streamed {
		b.skip = "skipped_base_malformed"
		return b
	}
	if anA.errFrames > 0 {
		// a subgraph error in a clean universe is not expected; the equality is not defined then
		b.skip = "skipped_base_has_errors"
		return b
	}
	b.canon, b.data = ref.Canon(anA.data), anA.data
	return b
}

// compareReference: evidence only (a difference is C01's finding).
func (e *env) compareReference(vA variant, b *baseline) error {
	qd, gerrs := gqlparser.LoadQuery(e.superGql, vA.text)
	if gerrs != nil {
		return nil
	}
	vm, _ := ref.DecodeJSON(vA.vars)
	vmm, _ := vm.(map[string]any)
	want, _, cerr := rig.RefExec(e.superGql, qd.Operations[0], vmm, fed.NewReferenceResolver(e.l, e.u), &ref.Obj{Type: "Query", ID: "root"}, nil)
	if cerr != nil {
		return fmt.Errorf("variables self-check: %s", cerr.Error())
	}
	var wantAny any
	if want != nil {
		wantAny = want
	}
	if ref.Canon(wantAny) == b.canon {
		b.refOK = 1
	} else {
		b.refOK = -1
	}
	return nil
}

// judgeIfFalse runs B and compares.
func (e *env) judgeIfFalse(vB variant, viaVar bool, b *baseline) (fs []finding, compared, streamed bool) {
	runB := execute(e.gB, vB.text, vB.vars, "free", nil, "", 0)
	if runB.hung {
		hang("query with @defer(if:false)", map[string]any{"query_if_false": vB.text, "variables": string(vB.vars)})
	}
	det := func(extra map[string]any) map[string]any {
		d := map[string]any{"query_if_false": vB.text, "variables_if_false": string(vB.vars), "frames_if_false": runB.rec.Frames, "response_if_false": truncate(runB.rec.Tail, 3000), "expected_data": truncate(b.canon, 3000)}
		for k, v := range extra {
			d[k] = v
		}
		return d
	}
	ifForm := "literal"
	if viaVar {
		ifForm = "variable"
	}
	switch {
	case runB.panicMsg != "":
		return []finding{{"panic", "the engine panicked on the query with @defer(if:false): " + runB.panicMsg, map[string]string{"variant": "if-false", "panic": runB.panicSig}, det(map[string]any{"stack": runB.stack})}}, false, false
	case runB.err != nil:
		return []finding{{"defer-execute-error", "Execute fails with @defer(if:false) although the query without @defer succeeds: " + runB.err.Error(), map[string]string{"variant": "if-false", "if_form": ifForm, "error_class": classifyErr(runB.err.Error())}, det(nil)}}, false, false
	}
	anB := analyse(runB.rec)
	for _, pr := range anB.problems {
		fs = append(fs, finding{"stream." + pr.kind, "@defer(if:false): " + pr.msg, map[string]string{"variant": "if-false", "if_form": ifForm, "tier": "clean"}, det(nil)})
	}
	if len(anB.problems) > 0 {
		return fs, false, anB.streamed
	}
	canonB := "<no data>"
	if anB.hasData {
		canonB = ref.Canon(anB.data)
	}
	if canonB != b.canon {
		var items []diffItem
		diffData(b.data, anB.data, "data", &items)
		fs = append(fs, finding{"if-false-mismatch", "data with @defer(if:false) differs from data without @defer", map[string]string{"if_form": ifForm, "difference": diffClasses(items)}, det(map[string]any{"observed_data": truncate(canonB, 3000), "differences": diffList(items), "first_difference": firstDiff(b.canon, canonB)})})
	}
	return fs, true, anB.streamed
}

type schedPlan struct {
	mode   string
	prefix []int
	random bool
}

// runDeferred executes D once under a schedule and applies both oracles (reconstruction only when
// no fault is injected).
func (e *env) runDeferred(vD variant, sp schedPlan, rnd func(int) int, faultKind string, faultNth int, b *baseline) (*run, *analysis, []finding) {
	ch := &chooser{prefix: sp.prefix}
	if sp.random {
		ch.rnd = rnd
	}
	rn := execute(e.gD, vD.text, vD.vars, sp.mode, ch, faultKind, faultNth)
	det := func(extra map[string]any) map[string]any {
		d := map[string]any{"subgraph_requests": requestDump(rn.requests), "schedule_mode": sp.mode, "release_order": rn.releases, "choices": rn.choice, "frames": rn.rec.Frames, "unflushed": truncate(rn.rec.Tail, 2000), "expected_data": truncate(b.canon, 4000), "deferred_subgraph_requests": rn.deferred, "max_parked": rn.maxParked}
		if faultKind != "" {
			d["fault"] = faultKind + " on deferred request: " + rn.faulted
		}
		for k, v := range extra {
			d[k] = v
		}
		return d
	}
	if rn.hung {
		d := det(nil)
		d["query_with_defer"], d["variables"] = vD.text, string(vD.vars)
		hang("query with @defer", d)
	}
	tier := "clean"
	if faultKind != "" {
		tier = "fault"
	}
	if rn.panicMsg != "" {
		return rn, nil, []finding{{"panic", "the engine panicked on a query with @defer: " + rn.panicMsg, map[string]string{"variant": "defer", "tier": tier, "panic": rn.panicSig}, det(map[string]any{"stack": rn.stack})}}
	}
	if rn.err != nil && faultKind == "" {
		return rn, nil, []finding{{"defer-execute-error", "Execute fails on the query with @defer although the same query without @defer succeeds: " + rn.err.Error(), map[string]string{"variant": "defer", "error_class": classifyErr(rn.err.Error()), "frames_flushed": fmt.Sprint(len(rn.rec.Frames) > 0)}, det(nil)}}
	}
	an := analyse(rn.rec)
	var fs []finding
	for _, pr := range an.problems {
		if faultKind != "" && strings.HasPrefix(pr.kind, "merge-") {
			continue // reconstruction is not judged under faults
		}
		m := map[string]string{"variant": "defer", "tier": tier}
		if pr.kind == "hasnext-true-on-last" {
			// false: ids are still pending (the stream is cut short); true: the flag itself is wrong
			m["all_announced_completed"] = fmt.Sprint(len(an.announced) == len(an.completed))
		}
		if pr.kind == "pending-never-completed" {
			m["never_completed_announced_in"] = "initial-frame"
			if strings.Contains(pr.msg, "announced in frame ") && !strings.Contains(pr.msg, "announced in frame 0,") {
				m["never_completed_announced_in"] = "later-frame"
			}
		}
		fs = append(fs, finding{"stream." + pr.kind, pr.msg, m, det(map[string]any{"all_problems": problemKinds(an.problems)})})
	}
	if faultKind == "" {
		got := "<no data>"
		if an.hasData {
			got = ref.Canon(an.data)
		}
		if got != b.canon {
			var items []diffItem
			diffData(b.data, an.data, "data", &items)
			fs = append(fs, finding{"reconstruction-mismatch", "merging the incremental payloads into the initial data at their announced paths does not give the data of the same query without @defer",
				map[string]string{"difference": diffClasses(items), "stream_problems": problemKinds(an.problems), "internal_key_leaked": fmt.Sprint(strings.Contains(got, "__internal_")), "streamed": fmt.Sprint(an.streamed)},
				det(map[string]any{"reconstructed_data": truncate(got, 4000), "differences": diffList(items), "first_difference": firstDiff(b.canon, got)})})
		}
	}
	return rn, an, fs
}

// requestDump lists the recorded subgraph requests (arrival order) for the witness.
func requestDump(reqs []*fed.Request) []map[string]any {
	var out []map[string]any
	for i, rq := range reqs {
		if i >= 16 {
			out = append(out, map[string]any{"more": len(reqs) - i})
			break
		}
		m := map[string]any{"subgraph": rq.Subgraph, "query": clip(rq.Query, 700), "variables": clip(ref.Canon(rq.Variables), 500), "response": clip(rq.Response, 500)}
		if len(rq.Problems) > 0 {
			m["problems"] = rq.Problems
		}
		out = append(out, m)
	}
	return out
}

func stripLabels(doc *gen.Doc) {
	forEachDefer(doc, func(dir *gen.Dir) {
		var args []*gen.ArgVal
		for _, a := range dir.Args {
			if a.Name != "label" {
				args = append(args, a)
			}
		}
		dir.Args = args
	})
}

func (p c10) Run(c *fw.Ctx, idx int) fw.Result {
	res := fw.Result{}
	r := c.Rng(idx, "c10")
	prof := fed.RandomProfile(r)
	prof.Mutation = false
	if r.IntN(8) == 0 {
		prof.Single = true
	}
	l := fed.GenLayout(r, prof)
	layoutDetail := func() map[string]any {
		d := map[string]any{"supergraph": l.SuperSDL, "layout": l.Describe}
		for _, sg := range l.Subgraphs {
			d["sdl_"+sg.Name] = sg.SDL
		}
		return d
	}
	superGql, err := gqlparser.LoadSchema(&gast.Source{Name: "super", Input: l.SuperSDL})
	if err != nil {
		res.Broken("supergraph self-check: "+err.Error(), layoutDetail())
		return res
	}
	ents := map[string]bool{}
	for e := range l.Entities {
		ents[e] = true
	}
	u := &ref.Universe{Seed: r.Uint64(), Schema: superGql, NullRate: 2, Entities: ents, PoolSize: 4, MaxList: 3}
	var gws [3]*fed.Gateway // D, A, B
	for i := range gws {
		g, err := fed.NewGateway(l, superGql, u, fed.GatewayOptions{})
		if err != nil {
			res.Broken("gateway construction (generator self-check): "+err.Error(), layoutDetail())
			return res
		}
		defer g.Close()
		gws[i] = g
	}
	e := &env{l: l, superGql: superGql, u: u, gD: gws[0], gA: gws[1], gB: gws[2], detail: layoutDetail}
	res.Count("layouts", 1)
	res.Observe("layout_features", featureString(prof))
	maxSched := maxSchedules(c.Tier)
	var keys []string
	var reuse []*reuseItem
	for k := 0; k < opsPerCase; k++ {
		op := gen.DefaultOpProfile(r)
		op.MaxDepth = 2 + r.IntN(3)
		op.MaxFields = 2 + r.IntN(3)
		op.NoSingletonVars = true
		op.Defer = false
		if k%2 == 0 {
			op.Duplicates = false
		}
		base, vals := gen.GenOperation(r, l.Super, op)
		if gen.UnionFragmentInNonUnionParent(l.Super, base) {
			res.Count("skipped_known_c01_f1_shape", 1)
			continue
		}
		// half of the queries are "plain": re-drawn until no shape known to trip over an already
		// listed defect is present (risk.go), so that anything new stands out
		plain := k%2 == 0
		var df *deferred
		var facts riskFacts
		for attempt := 0; attempt < 12; attempt++ {
			sub := rand.New(rand.NewPCG(r.Uint64(), r.Uint64()))
			df = deferize(sub, l.Super, base.Clone(), valsToMap(vals))
			facts = analyseRisk(l, df.doc, df.vars)
			if !plain || !facts.any() {
				break
			}
		}
		if plain && facts.any() {
			res.Count("plain_query_not_found_ran_as_wild", 1)
		}
		viaVar := r.IntN(2) == 0
		schedRng := rand.New(rand.NewPCG(r.Uint64(), r.Uint64()))
		key, ok, ri := p.checkQuery(c, e, &res, df, facts, viaVar, schedRng, maxSched, featureString(prof))
		if ri != nil {
			reuse = append(reuse, ri)
		}
		if ok {
			keys = append(keys, key)
		}
	}
	// history trigger: the case's deferred operations planned by ONE re-used planner (reuse.go)
	e.reusePhase(&res, reuse, func(extra map[string]any) map[string]any {
		d := layoutDetail()
		for k, v := range extra {
			d[k] = v
		}
		return d
	})
	res.Keys = keys
	res.Key = fw.HashKey("c10", idx)
	res.Nontrivial = len(keys) > 0
	return res
}

// checkQuery runs every variant and schedule of one deferred query and records the verdicts.
func (p c10) checkQuery(c *fw.Ctx, e *env, res *fw.Result, df *deferred, facts riskFacts, viaVar bool, schedRng *rand.Rand, maxSched int, features string) (string, bool, *reuseItem) {
	vD := mkVariant(df.doc, df.vars)
	docA, varsA := df.withoutDefer()
	vA := mkVariant(docA, varsA)
	docB, varsB := df.allIfFalse(viaVar)
	vB := mkVariant(docB, varsB)
	detail := func(extra map[string]any) map[string]any {
		d := e.detail()
		d["query_with_defer"], d["variables"] = vD.text, string(vD.vars)
		d["query_without_defer"], d["variables_without_defer"] = vA.text, string(vA.vars)
		d["shapes"], d["layout_features"] = shapeString(df.shapes), features
		for k, v := range extra {
			d[k] = v
		}
		return d
	}
	fw.SetContext(detail(nil))
	for _, v := range []variant{vD, vA, vB} {
		if _, gerrs := gqlparser.LoadQuery(e.superGql, v.text); gerrs != nil {
			res.Broken("operation self-check: "+gerrs.Error(), detail(map[string]any{"rejected": v.text}))
			return "", false, nil
		}
	}
	res.Count("queries", 1)
	res.Count("defer_directives", int64(df.nDefer))
	res.Count("defer_directives_active", int64(df.nActive))
	for _, s := range df.shapes {
		res.Observe("defer_shapes", s)
		res.Count("shape:"+s, 1)
	}
	if facts.any() {
		res.Count("queries_with_known_trigger_shapes", 1)
	} else {
		res.Count("queries_plain", 1)
	}
	for name, on := range map[string]bool{"defer_in_impossible_type_branch": facts.ImpossibleBranch, "composite_field_in_several_defer_scopes": facts.CompositeInSeveralScopes, "composite_field_deferred_and_not_deferred": facts.CompositeDeferredAndNot, "defer_without_own_fields": facts.DeferWithoutOwnFields, "leaf_field_in_several_defer_scopes(not a risk)": facts.LeafInSeveralScopes, "deferred_requires_field": facts.DeferredRequires, "defer_below_list_below_narrowed_field": facts.ListBelowNarrowedField, "abstract_fragment_in_other_abstract_parent_with_defer": facts.AbstractInAbstractWithDefer, "nested_defer_mounted_outside_parent_defers_fields": facts.NestedDeferOutsideParentMount} {
		if on {
			res.Count("trigger:"+name, 1)
		}
	}
	reported := map[string]bool{}
	cleanStreamFinding := false
	anyDeferFinding := false
	report := func(fs []finding) {
		for _, f := range fs {
			s := f.sig()
			if reported[s] {
				continue
			}
			reported[s] = true
			if f.match["variant"] == "defer" || f.kind == "reconstruction-mismatch" {
				facts.addTo(f.match)
			}
			if f.match["error_class"] == "defer-label-must-be-unique" {
				f.match["labels_unique_in_document"] = fmt.Sprint(facts.LabelsUnique)
			}
			if strings.HasPrefix(f.kind, "stream.") && f.match["tier"] == "clean" {
				cleanStreamFinding = true
			}
			if f.match["tier"] != "fault" {
				anyDeferFinding = true
			}
			d := detail(f.detail)
			if c.Replay {
				if min := e.minimise(df, viaVar, s); min != nil {
					d["minimised"] = min
				}
			}
			res.Violate(f.kind, f.msg, f.match, d)
		}
	}

	// ---- A: without @defer
	b := e.runBase(vA)
	if b.skip != "" {
		res.Count(b.skip, 1)
		if b.errCls != "" {
			res.Observe("base_execute_error_classes", b.errCls)
		}
		return "", false, nil
	}
	if err := e.compareReference(vA, b); err != nil {
		res.Broken(err.Error(), detail(nil))
		return "", false, nil
	}
	switch b.refOK {
	case 1:
		res.Count("base_equals_monolithic_reference", 1)
	case -1:
		res.Count("base_differs_from_monolithic_reference_c01", 1)
	}

	// ---- B: @defer(if:false) everywhere
	fsB, compared, streamedB := e.judgeIfFalse(vB, viaVar, b)
	report(fsB)
	if compared {
		res.Count("iffalse_compared", 1)
		if viaVar {
			res.Count("iffalse_compared_via_variable", 1)
		} else {
			res.Count("iffalse_compared_via_literal", 1)
		}
	}
	if streamedB {
		res.Count("iffalse_streamed", 1)
	}

	// ---- D: deferred, many schedules
	orders := map[string]bool{}
	seenChoice := map[string]bool{}
	nontrivial := false
	var sample map[string]any
	deferredReqs := 0
	count := func(rn *run, an *analysis) {
		res.Count("deferred_executions", 1)
		res.Count("frames", int64(an.nFrames))
		res.Count("writer_calls", int64(rn.rec.Writes))
		res.Count("ids_announced", int64(len(an.announced)))
		res.Count("ids_completed", int64(len(an.completed)))
		res.Count("lazy_pending_announcements", int64(an.lazyPending))
		res.Count("items_with_subpath", int64(an.withSubPath))
		res.Count("labels_on_pending", int64(an.labels))
		res.Count("frames_with_errors", int64(an.errFrames))
		res.Count("completed_with_errors", int64(an.completedWithErrors))
		res.Count("deferred_subgraph_requests", int64(rn.deferred))
		if an.streamed && len(an.announced) > 0 {
			res.Count("streams_with_pending", 1)
		}
		if !an.streamed {
			res.Count("deferred_executions_not_streamed", 1)
		}
	}
	judge := func(sp schedPlan) (*run, *analysis) {
		rn, an, fs := e.runDeferred(vD, sp, schedRng.IntN, "", 0, b)
		report(fs)
		if an == nil {
			return rn, nil
		}
		count(rn, an)
		res.Count("incremental_items_merged", int64(an.incremental))
		res.Count("reconstructions_compared", 1)
		if an.streamed && len(an.announced) > 0 {
			orders[strings.Join(an.completed, ">")] = true
			if len(an.completed) <= 4 {
				res.Observe("completion_orders", strings.Join(an.completed, ">"))
			}
			if an.incremental > 0 && an.nFrames >= 2 {
				nontrivial = true
				if sample == nil {
					sample = map[string]any{"layout": e.l.Describe, "query_with_defer": vD.text, "variables": string(vD.vars), "shapes": shapeString(df.shapes), "frames": rn.rec.Frames, "release_order": rn.releases}
				}
			}
		}
		if rn.deferred > deferredReqs {
			deferredReqs = rn.deferred
		}
		return rn, an
	}
	// free run first (it also tells whether anything is deferred at all)
	rn0, an0 := judge(schedPlan{mode: "free"})
	if os.Getenv("C10_TRACE") != "" {
		fmt.Fprintf(os.Stderr, "C10_TRACE query:\n%svariables: %s\nframes: %q\nunflushed: %s\nexpected: %s\n", vD.text, vD.vars, rn0.rec.Frames, clip(rn0.rec.Tail, 2000), clip(b.canon, 2000))
	}
	res.Count("free_runs", 1)
	if an0 == nil && rn0.err != nil && classifyErr(rn0.err.Error()) == "defer-label-must-be-unique" {
		// reported above; go on without labels so that the query is still judged
		stripLabels(df.doc)
		vD = mkVariant(df.doc, df.vars)
		res.Count("retried_without_labels", 1)
		rn0, an0 = judge(schedPlan{mode: "free"})
		res.Count("free_runs", 1)
	}
	if an0 == nil {
		return "", false, nil
	}
	if an0.streamed && deferredReqs > 0 {
		gated := func(sp schedPlan) (*run, bool) {
			rn, an := judge(sp)
			if an == nil {
				return rn, false
			}
			res.Count("gated_schedules", 1)
			if rn.maxParked >= 2 {
				res.Count("schedules_with_2plus_requests_parked", 1)
			}
			if !seenChoice[rn.choice] {
				seenChoice[rn.choice] = true
				res.Count("distinct_release_orders", 1)
			}
			return rn, true
		}
		// the all-zero path first, then enumerate the tree (odometer) or sample it
		if rn, ok := gated(schedPlan{mode: "perm"}); ok {
			nGated := 1
			ch := parseChoice(rn.choice)
			exhaustive := ch.treeSize() <= maxSched
			exhausted := false
			for nGated < maxSched {
				sp := schedPlan{mode: "perm", random: true}
				if exhaustive {
					nx := ch.nextPrefix()
					if nx == nil {
						exhausted = true
						break
					}
					sp = schedPlan{mode: "perm", prefix: nx}
				}
				rn, ok = gated(sp)
				if !ok {
					break
				}
				nGated++
				ch = parseChoice(rn.choice)
			}
			if exhausted && len(seenChoice) > 1 {
				res.Count("queries_with_all_release_orders_enumerated", 1)
			}
			if len(seenChoice) > 1 {
				// all parked requests released together: the groups contend for the render lock
				if rb, ab := judge(schedPlan{mode: "batch"}); ab != nil {
					res.Count("batch_release_runs", 1)
					if rb.maxParked >= 2 {
						res.Count("schedules_with_2plus_requests_parked", 1)
					}
				}
				judge(schedPlan{mode: "free"})
				res.Count("free_runs", 1)
			}
		}
		if len(orders) >= 2 {
			res.Count("queries_with_2plus_completion_orders", 1)
		}
		if len(orders) > 0 {
			res.Observe("completion_orders_per_query", fmt.Sprint(len(orders)))
		}
		// fault tier: one deferred request fails; grammar + termination only (not for a query whose
		// fault-free stream is already malformed: the same defect would be reported twice)
		nf := 1
		if cleanStreamFinding {
			nf = 0
			res.Count("fault_runs_skipped_clean_stream_already_malformed", 1)
		}
		if deferredReqs >= 2 && nf > 0 {
			nf = 2
		}
		for f := 0; f < nf; f++ {
			kind := fed.FaultKinds[schedRng.IntN(7)]
			mode := "perm"
			if schedRng.IntN(3) == 0 {
				mode = "free"
			}
			rn, an, fs := e.runDeferred(vD, schedPlan{mode: mode, random: true}, schedRng.IntN, kind, schedRng.IntN(deferredReqs), b)
			report(fs)
			if an != nil {
				count(rn, an)
				res.Count("fault_runs", 1)
				res.Observe("fault_kinds", kind)
				if rn.err != nil {
					res.Count("fault_runs_execute_error", 1)
				}
			}
		}
	}
	if nontrivial && res.Sample == nil {
		res.Sample = sample
	}
	// for the planner re-use phase: the normalised operation and request context of this query
	var ri *reuseItem
	cp := &captured{}
	if rc := executeCapturing(e.gD, vD.text, vD.vars, cp); !rc.hung && rc.err == nil && rc.panicMsg == "" && cp.ok {
		ri = &reuseItem{vD: vD, cp: cp, b: b, shapes: shapeString(df.shapes), cleanAt: !anyDeferFinding}
	}
	return fw.HashKey(e.l.SuperSDL, e.l.Describe, vD.text, vD.vars), nontrivial, ri
}

// parseChoice rebuilds a chooser's executed sequence from its signature ("c/n c/n …").
func parseChoice(sig string) *chooser {
	ch := &chooser{}
	for _, f := range strings.Fields(sig) {
		var c, n int
		if _, err := fmt.Sscanf(f, "%d/%d", &c, &n); err == nil && n > 0 {
			ch.taken = append(ch.taken, c)
			ch.opts = append(ch.opts, n)
		}
	}
	return ch
}
