package c10

import (
	"strings"

	"github.com/vektah/gqlparser/v2"

	"verifharness/internal/gen"
)

// Witness minimisation (replay mode only): greedy removal of selections, directives, arguments,
// aliases and fragment wrappers from the deferred query while a finding with the same signature
// is still observed. It never influences a verdict; it only adds "minimised" to the detail.

func collectValVars(v *gen.Val, out map[string]bool) {
	if v == nil {
		return
	}
	if v.Kind == gen.VVar {
		out[v.Str] = true
	}
	for _, it := range v.Items {
		collectValVars(it, out)
	}
	for _, f := range v.Fields {
		collectValVars(f.Val, out)
	}
}

func collectDirVars(ds []*gen.Dir, out map[string]bool) {
	for _, d := range ds {
		for _, a := range d.Args {
			collectValVars(a.Val, out)
		}
	}
}

func collectUse(doc *gen.Doc, sels []*gen.Sel, vars, frags map[string]bool) {
	for _, x := range sels {
		switch {
		case x.Field != nil:
			for _, a := range x.Field.Args {
				collectValVars(a.Val, vars)
			}
			collectDirVars(x.Field.Dirs, vars)
			collectUse(doc, x.Field.Sel, vars, frags)
		case x.Inline != nil:
			collectDirVars(x.Inline.Dirs, vars)
			collectUse(doc, x.Inline.Sel, vars, frags)
		case x.Spread != nil:
			collectDirVars(x.Spread.Dirs, vars)
			if !frags[x.Spread.Name] {
				frags[x.Spread.Name] = true
				for _, fr := range doc.Frags {
					if fr.Name == x.Spread.Name {
						collectUse(doc, fr.Sel, vars, frags)
					}
				}
			}
		}
	}
}

// cleanup drops fragments that are no longer spread and variables that are no longer used.
func cleanup(doc *gen.Doc, vars map[string]any) map[string]any {
	usedVars, usedFrags := map[string]bool{}, map[string]bool{}
	op := doc.Ops[0]
	collectUse(doc, op.Sel, usedVars, usedFrags)
	var frs []*gen.Frag
	for _, fr := range doc.Frags {
		if usedFrags[fr.Name] {
			frs = append(frs, fr)
		}
	}
	doc.Frags = frs
	var vds []*gen.VarDef
	out := map[string]any{}
	for _, v := range op.Vars {
		if usedVars[v.Name] {
			vds = append(vds, v)
			if x, ok := vars[v.Name]; ok {
				out[v.Name] = x
			}
		}
	}
	op.Vars = vds
	return out
}

// edits lists the single-step reductions applicable to doc (closures over doc's own nodes).
func edits(s *gen.Schema, doc *gen.Doc) []func() {
	var out []func()
	removeDir := func(dirs *[]*gen.Dir) {
		for i := range *dirs {
			i := i
			out = append(out, func() { *dirs = append((*dirs)[:i:i], (*dirs)[i+1:]...) })
			d := (*dirs)[i]
			if d.Name == "defer" {
				for j := range d.Args {
					j := j
					out = append(out, func() { d.Args = append(d.Args[:j:j], d.Args[j+1:]...) })
				}
			}
		}
	}
	var walk func(sels *[]*gen.Sel, parent string)
	walk = func(sels *[]*gen.Sel, parent string) {
		for i := range *sels {
			i := i
			x := (*sels)[i]
			if len(*sels) > 1 {
				out = append(out, func() { *sels = append((*sels)[:i:i], (*sels)[i+1:]...) })
			}
			switch {
			case x.Field != nil:
				f := x.Field
				if f.Alias != "" {
					out = append(out, func() { f.Alias = "" })
				}
				removeDir(&f.Dirs)
				for j := range f.Args {
					j := j
					if f.Def != nil {
						if a := f.Def.Arg(f.Args[j].Name); a != nil && (!a.Type.NonNull || a.Default != nil) {
							out = append(out, func() { f.Args = append(f.Args[:j:j], f.Args[j+1:]...) })
						}
					}
				}
				if len(f.Sel) > 0 && f.Def != nil {
					walk(&f.Sel, f.Def.Type.NamedType())
				}
			case x.Inline != nil:
				in := x.Inline
				cond := in.On
				if cond == "" {
					cond = parent
				}
				if cond == parent {
					// unwrap (dropping its directives)
					out = append(out, func() {
						var n []*gen.Sel
						n = append(n, (*sels)[:i]...)
						n = append(n, in.Sel...)
						n = append(n, (*sels)[i+1:]...)
						*sels = n
					})
					if in.On != "" {
						out = append(out, func() { in.On = "" })
					}
				}
				removeDir(&in.Dirs)
				walk(&in.Sel, cond)
			case x.Spread != nil:
				sp := x.Spread
				removeDir(&sp.Dirs)
				for _, fr := range doc.Frags {
					if fr.Name == sp.Name {
						fr := fr
						out = append(out, func() {
							(*sels)[i] = &gen.Sel{Inline: &gen.InlineFrag{On: fr.On, Dirs: sp.Dirs, Sel: gen.CloneSels(fr.Sel), Parent: parent}}
						})
					}
				}
			}
		}
	}
	walk(&doc.Ops[0].Sel, s.Query)
	for _, fr := range doc.Frags {
		walk(&fr.Sel, fr.On)
	}
	return out
}

// sigMatches: same oracle kind and failure class (for data differences the candidate's classes
// must be among the target's).
func sigMatches(target, cand string) bool {
	if target == cand {
		return true
	}
	tp, cp := strings.Split(target, "|"), strings.Split(cand, "|")
	if tp[0] != cp[0] || len(tp) != len(cp) {
		return false
	}
	for i := 1; i < len(tp); i++ {
		if tp[i] == cp[i] {
			continue
		}
		tk, tv, _ := strings.Cut(tp[i], "=")
		ck, cv, _ := strings.Cut(cp[i], "=")
		if tk != ck || (tk != "difference" && tk != "stream_problems") || cv == "" {
			return false
		}
		have := map[string]bool{}
		for _, c := range strings.Split(tv, "+") {
			have[c] = true
		}
		for _, c := range strings.Split(cv, "+") {
			if !have[c] {
				return false
			}
		}
	}
	return true
}

func (e *env) minimise(df *deferred, viaVar bool, target string) map[string]any {
	tests := 0
	var lastFrames []string
	var lastRequests any
	var lastExpected, lastMsg string
	fails := func(d *deferred) bool {
		vD := mkVariant(d.doc, d.vars)
		docA, varsA := d.withoutDefer()
		vA := mkVariant(docA, varsA)
		docB, varsB := d.allIfFalse(viaVar)
		vB := mkVariant(docB, varsB)
		for _, v := range []variant{vD, vA, vB} {
			if _, gerrs := gqlparser.LoadQuery(e.superGql, v.text); gerrs != nil {
				return false
			}
		}
		tests++
		b := e.runBase(vA)
		if b.skip != "" {
			return false
		}
		var fs []finding
		if strings.Contains(target, "if-false") {
			f, _, _ := e.judgeIfFalse(vB, viaVar, b)
			fs = append(fs, f...)
		} else {
			for _, sp := range []schedPlan{{mode: "free"}, {mode: "perm"}, {mode: "batch"}} {
				rn, _, f := e.runDeferred(vD, sp, nil, "", 0, b)
				for _, x := range f {
					if sigMatches(target, x.sig()) {
						lastFrames, lastExpected, lastMsg, lastRequests = rn.rec.Frames, b.canon, x.msg, requestDump(rn.requests)
						return true
					}
				}
			}
		}
		for _, x := range fs {
			if sigMatches(target, x.sig()) {
				lastExpected, lastMsg = b.canon, x.msg
				if fr, ok := x.detail["frames_if_false"].([]string); ok {
					lastFrames = fr
				}
				return true
			}
		}
		return false
	}
	cur := &deferred{doc: df.doc.Clone(), vars: df.vars, ifVars: df.ifVars}
	if !fails(cur) {
		return map[string]any{"note": "the finding did not reproduce under the minimiser's schedules (free, first gated order, batch)"}
	}
	const budget = 600
	for improved := true; improved && tests < budget; {
		improved = false
		n := len(edits(e.l.Super, cur.doc.Clone()))
		for i := 0; i < n && tests < budget; i++ {
			cand := cur.doc.Clone()
			es := edits(e.l.Super, cand)
			if i >= len(es) {
				break
			}
			es[i]()
			vars := cleanup(cand, cur.vars)
			d := &deferred{doc: cand, vars: vars, ifVars: df.ifVars}
			if fails(d) {
				cur, improved = d, true
				n = len(edits(e.l.Super, cur.doc.Clone()))
				i--
			}
		}
	}
	fails(cur)
	vD := mkVariant(cur.doc, cur.vars)
	return map[string]any{"query_with_defer": vD.text, "variables": string(vD.vars), "frames": lastFrames, "expected_data": truncate(lastExpected, 3000), "finding": lastMsg, "executions": tests, "subgraph_requests": lastRequests}
}
