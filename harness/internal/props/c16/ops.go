package c16

import (
	"encoding/json"
	"fmt"
	"math/rand/v2"
	"sort"

	"verifharness/internal/fed"
	"verifharness/internal/gen"
)

// Operation families: a history is built from a few generated base operations and requests
// DERIVED from earlier requests of the same history, so that later requests meet entities an
// earlier one stored — under the same selection (hit), another selection (must miss), another
// representation set or an overlapping batch (partial hit).

type request struct {
	Doc    *gen.Doc
	Vals   map[string]*gen.Val
	Text   string
	Vars   []byte
	Deriv  string // base | repeat | reids | revalue | addleaf | dropleaf | reroot | nullflip
	Parent int    // index of the request it was derived from (-1 base)
}

func varsJSON(vals map[string]*gen.Val) []byte {
	m := map[string]any{}
	for k, v := range vals {
		x, _ := v.JSON(nil)
		m[k] = x
	}
	b, _ := json.Marshal(m)
	return b
}

func cloneDirs(ds []*gen.Dir) []*gen.Dir {
	if ds == nil {
		return nil
	}
	out := make([]*gen.Dir, len(ds))
	for i, d := range ds {
		nd := &gen.Dir{Name: d.Name}
		for _, a := range d.Args {
			nd.Args = append(nd.Args, &gen.ArgVal{Name: a.Name, Val: a.Val})
		}
		out[i] = nd
	}
	return out
}

func cloneSels(ss []*gen.Sel) []*gen.Sel {
	if ss == nil {
		return nil
	}
	out := make([]*gen.Sel, len(ss))
	for i, s := range ss {
		ns := &gen.Sel{}
		switch {
		case s.Field != nil:
			f := s.Field
			nf := &gen.FieldSel{Alias: f.Alias, Name: f.Name, Def: f.Def, Parent: f.Parent, Dirs: cloneDirs(f.Dirs), Sel: cloneSels(f.Sel)}
			for _, a := range f.Args {
				nf.Args = append(nf.Args, &gen.ArgVal{Name: a.Name, Val: a.Val})
			}
			ns.Field = nf
		case s.Inline != nil:
			ns.Inline = &gen.InlineFrag{On: s.Inline.On, Parent: s.Inline.Parent, Dirs: cloneDirs(s.Inline.Dirs), Sel: cloneSels(s.Inline.Sel)}
		case s.Spread != nil:
			ns.Spread = &gen.Spread{Name: s.Spread.Name, Parent: s.Spread.Parent, Dirs: cloneDirs(s.Spread.Dirs)}
		}
		out[i] = ns
	}
	return out
}

func cloneDoc(d *gen.Doc) *gen.Doc {
	nd := &gen.Doc{}
	for _, op := range d.Ops {
		nop := &gen.Op{Kind: op.Kind, Name: op.Name, Dirs: cloneDirs(op.Dirs), Sel: cloneSels(op.Sel)}
		for _, v := range op.Vars {
			nop.Vars = append(nop.Vars, &gen.VarDef{Name: v.Name, Type: v.Type, Default: v.Default, Dirs: cloneDirs(v.Dirs)})
		}
		nd.Ops = append(nd.Ops, nop)
	}
	for _, f := range d.Frags {
		nd.Frags = append(nd.Frags, &gen.Frag{Name: f.Name, On: f.On, Dirs: cloneDirs(f.Dirs), Sel: cloneSels(f.Sel)})
	}
	return nd
}

func cloneVals(v map[string]*gen.Val) map[string]*gen.Val {
	out := make(map[string]*gen.Val, len(v))
	for k, x := range v {
		out[k] = x
	}
	return out
}

// walkFields visits every field selection of the document (operations and fragments).
func walkFields(d *gen.Doc, fn func(f *gen.FieldSel, set *[]*gen.Sel)) {
	var walk func(ss *[]*gen.Sel)
	walk = func(ss *[]*gen.Sel) {
		for _, s := range *ss {
			switch {
			case s.Field != nil:
				fn(s.Field, ss)
				if len(s.Field.Sel) > 0 {
					walk(&s.Field.Sel)
				}
			case s.Inline != nil:
				walk(&s.Inline.Sel)
			}
		}
	}
	for _, op := range d.Ops {
		walk(&op.Sel)
	}
	for _, f := range d.Frags {
		walk(&f.Sel)
	}
}

type famGen struct {
	r      *rand.Rand
	l      *fed.Layout
	pool   int
	aliasN int
}

func (g *famGen) poolID() *gen.Val {
	id := fmt.Sprint(g.r.IntN(g.pool))
	if g.r.IntN(4) == 0 {
		return gen.IntV(int64(g.r.IntN(g.pool)))
	}
	return gen.StrV(id)
}

// reids gives every lookup field (root field whose id argument is the identity of the returned
// entity) an id from the universe's small pool, so that looked-up entities recur.
func (g *famGen) reids(rq *request) {
	// identical old literal -> identical new literal, so fields that must merge keep identical arguments
	byOld := map[string]*gen.Val{}
	walkFields(rq.Doc, func(f *gen.FieldSel, _ *[]*gen.Sel) {
		if f.Def == nil || !g.l.LookupFields[f.Parent+"."+f.Name] {
			return
		}
		for _, a := range f.Args {
			if a.Name != "id" {
				continue
			}
			if a.Val.Kind == gen.VVar {
				if _, done := byOld["$"+a.Val.Str]; !done {
					byOld["$"+a.Val.Str] = g.poolID()
					rq.Vals[a.Val.Str] = byOld["$"+a.Val.Str]
				}
			} else {
				old := a.Val.Literal()
				if _, done := byOld[old]; !done {
					byOld[old] = g.poolID()
				}
				a.Val = byOld[old]
			}
		}
	})
}

func (g *famGen) lookupVars(rq *request) map[string]bool {
	m := map[string]bool{}
	walkFields(rq.Doc, func(f *gen.FieldSel, _ *[]*gen.Sel) {
		if f.Def == nil || !g.l.LookupFields[f.Parent+"."+f.Name] {
			return
		}
		for _, a := range f.Args {
			if a.Name == "id" && a.Val.Kind == gen.VVar {
				m[a.Val.Str] = true
			}
		}
	})
	return m
}

func (g *famGen) revalue(rq *request) {
	lv := g.lookupVars(rq)
	for _, v := range rq.Doc.Ops[0].Vars {
		if lv[v.Name] {
			continue
		}
		if (!v.Type.NonNull || v.Default != nil) && g.r.IntN(4) == 0 {
			delete(rq.Vals, v.Name)
			continue
		}
		nv := gen.GenValue(g.r, g.l.Super, v.Type, 0, gen.ValueOpts{Const: true, JSONMode: true, NoSingleton: true})
		if v.Type.NonNull && nv.Kind == gen.VNull {
			nv = gen.GenValue(g.r, g.l.Super, v.Type.Required(), 0, gen.ValueOpts{Const: true, NoSingleton: true})
		}
		rq.Vals[v.Name] = nv
	}
}

// nullflip toggles one nullable variable without default between "omitted" and "explicit null".
func (g *famGen) nullflip(rq *request) bool {
	lv := g.lookupVars(rq)
	var cands []*gen.VarDef
	for _, v := range rq.Doc.Ops[0].Vars {
		if !v.Type.NonNull && !lv[v.Name] {
			cands = append(cands, v)
		}
	}
	if len(cands) == 0 {
		return false
	}
	v := cands[g.r.IntN(len(cands))]
	cur, has := rq.Vals[v.Name]
	switch {
	case !has:
		rq.Vals[v.Name] = gen.Null()
	case cur.Kind == gen.VNull:
		delete(rq.Vals, v.Name)
	default:
		if g.r.IntN(2) == 0 {
			rq.Vals[v.Name] = gen.Null()
		} else {
			delete(rq.Vals, v.Name)
		}
	}
	return true
}

// addleaf adds an argument-free leaf field (fresh alias, so no merge conflict) or __typename to a
// random object-typed selection set below the root.
func (g *famGen) addleaf(rq *request) bool {
	var sites []*gen.FieldSel
	walkFields(rq.Doc, func(f *gen.FieldSel, _ *[]*gen.Sel) {
		if f.Def != nil && len(f.Sel) > 0 {
			if td := g.l.Super.Type(f.Def.Type.NamedType()); td != nil && td.Kind == gen.Object {
				sites = append(sites, f)
			}
		}
	})
	if len(sites) == 0 {
		return false
	}
	f := sites[g.r.IntN(len(sites))]
	td := g.l.Super.Type(f.Def.Type.NamedType())
	var leaves []*gen.Field
	for _, x := range td.Fields {
		if g.l.Super.IsLeaf(x.Type.NamedType()) && len(x.Args) == 0 {
			leaves = append(leaves, x)
		}
	}
	g.aliasN++
	alias := fmt.Sprintf("z%d", g.aliasN)
	if len(leaves) == 0 || g.r.IntN(5) == 0 {
		f.Sel = append(f.Sel, &gen.Sel{Field: &gen.FieldSel{Alias: alias, Name: "__typename", Parent: td.Name}})
		return true
	}
	x := leaves[g.r.IntN(len(leaves))]
	f.Sel = append(f.Sel, &gen.Sel{Field: &gen.FieldSel{Alias: alias, Name: x.Name, Def: x, Parent: td.Name}})
	return true
}

// dropleaf removes one plain leaf field (no arguments, no directives) from a selection set that
// keeps at least one other entry; nothing it removes can leave a variable or fragment unused.
func (g *famGen) dropleaf(rq *request) bool {
	type site struct {
		set *[]*gen.Sel
		f   *gen.FieldSel
	}
	var sites []site
	walkFields(rq.Doc, func(f *gen.FieldSel, set *[]*gen.Sel) {
		if len(f.Sel) == 0 && len(f.Args) == 0 && len(f.Dirs) == 0 && len(*set) >= 2 && f.Parent != "Query" && f.Parent != "Mutation" {
			sites = append(sites, site{set, f})
		}
	})
	if len(sites) == 0 {
		return false
	}
	s := sites[g.r.IntN(len(sites))]
	out := (*s.set)[:0:0]
	for _, x := range *s.set {
		if x.Field != s.f {
			out = append(out, x)
		}
	}
	*s.set = out
	return true
}

// reroot changes only the root of the operation: the order of the root selections, or one more
// root field under a fresh alias (the entity fetches below stay textually the same).
func (g *famGen) reroot(rq *request) bool {
	op := rq.Doc.Ops[0]
	if op.Kind != "query" {
		return false
	}
	if len(op.Sel) >= 2 && g.r.IntN(2) == 0 {
		g.r.Shuffle(len(op.Sel), func(i, j int) { op.Sel[i], op.Sel[j] = op.Sel[j], op.Sel[i] })
		return true
	}
	q := g.l.Super.Type("Query")
	if f := q.Field("version"); f != nil {
		g.aliasN++
		op.Sel = append(op.Sel, &gen.Sel{Field: &gen.FieldSel{Alias: fmt.Sprintf("z%d", g.aliasN), Name: "version", Def: f, Parent: "Query"}})
		return true
	}
	return false
}

func (rq *request) finish() {
	rq.Text = rq.Doc.String()
	rq.Vars = varsJSON(rq.Vals)
}

var derivKinds = []string{"repeat", "repeat", "reids", "reids", "revalue", "addleaf", "dropleaf", "reroot", "nullflip", "reids+addleaf"}

// derive makes a new request from an earlier one.
func (g *famGen) derive(from *request, parent int) *request {
	rq := &request{Doc: cloneDoc(from.Doc), Vals: cloneVals(from.Vals), Parent: parent}
	kind := derivKinds[g.r.IntN(len(derivKinds))]
	ok := true
	switch kind {
	case "repeat":
	case "reids":
		g.reids(rq)
	case "revalue":
		g.revalue(rq)
	case "addleaf":
		ok = g.addleaf(rq)
	case "dropleaf":
		ok = g.dropleaf(rq)
	case "reroot":
		ok = g.reroot(rq)
	case "nullflip":
		ok = g.nullflip(rq)
	case "reids+addleaf":
		g.reids(rq)
		ok = g.addleaf(rq)
	}
	if !ok {
		kind = "repeat"
	}
	rq.Deriv = kind
	rq.finish()
	return rq
}

// undefinedNullTwin: two variable sets of the same operation text that differ only in a variable
// being omitted in one and explicitly null in the other.
func undefinedNullTwin(a, b map[string]*gen.Val) bool {
	differs := false
	names := map[string]bool{}
	for k := range a {
		names[k] = true
	}
	for k := range b {
		names[k] = true
	}
	var ks []string
	for k := range names {
		ks = append(ks, k)
	}
	sort.Strings(ks)
	for _, k := range ks {
		x, hx := a[k]
		y, hy := b[k]
		switch {
		case hx && hy:
			jx, _ := x.JSON(nil)
			jy, _ := y.JSON(nil)
			bx, _ := json.Marshal(jx)
			by, _ := json.Marshal(jy)
			if string(bx) != string(by) {
				return false
			}
		case hx && !hy:
			if x.Kind != gen.VNull {
				return false
			}
			differs = true
		case !hx && hy:
			if y.Kind != gen.VNull {
				return false
			}
			differs = true
		}
	}
	return differs
}
