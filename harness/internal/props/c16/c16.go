// Package c16: entity response caching is transparent and honours Cache-Control.
package c16

import (
	"context"
	"encoding/json"
	"fmt"
	"hash/fnv"
	"math/rand/v2"
	"net/http"
	"runtime/debug"
	"sort"
	"strings"
	"sync"
	"sync/atomic"
	"time"

	"github.com/vektah/gqlparser/v2"
	gast "github.com/vektah/gqlparser/v2/ast"

	"github.com/wundergraph/graphql-go-tools/execution/engine"
	"github.com/wundergraph/graphql-go-tools/v2/pkg/engine/postprocess"
	"github.com/wundergraph/graphql-go-tools/v2/pkg/engine/resolve"

	"verifharness/internal/fed"
	"verifharness/internal/fw"
	"verifharness/internal/gen"
	"verifharness/internal/ref"
)

type c16 struct{ fw.Base }

func init() { fw.Register(c16{}) }

func (c16) ID() string             { return "C16" }
func (c16) Race() bool             { return true }
func (c16) CaseTimeout(string) int { return 300 }
func (c16) NumCases(tier string) int {
	if tier == fw.Thorough {
		return 8000
	}
	return 500
}

func (c16) Rule() string {
	return "four case kinds by idx%10. [6-9] TRANSPARENCY history: generated federation layout (as C01, no mutations) over a hash-defined universe with an entity id pool of 2-5; two real ExecutionEngines over identical semantic subgraphs, one given a recording in-memory caching.Cache through resolve.Context.SetResponseCache, one without; a history of 10-16 requests = 2-3 generated base operations (each sends >=1 _entities request) plus requests DERIVED from earlier ones (exact repeat; new lookup ids from the pool -> other / overlapping representation sets; new variable values; one leaf added / dropped in a nested selection -> other selection; root reordered / extended; a nullable variable flipped between omitted and explicit null); every subgraph response carries a Cache-Control header drawn from a generated grammar (85% storable) or from a plain storable list; the cache misbehaves by rotating policy (none | GetMany errors, also with an answer attached | SetMany errors with nothing / everything / a prefix written | withheld keys and empty answers = partial hits | evictions between requests | all mixed). Option dimension: in the histories with idx%10 = 9 (transparency), 5 (storability) and every second idx%10 = 2 (concurrent) the cache is attached with a NIL error callback while GetMany / SetMany errors (15% each at least) and, where the kind has them, unusable entity answers are injected; both engines of such a history plan without parallel fetch nodes, so that a panic on the cache path surfaces on the calling goroutine, is recovered and reported as violation `panic` (match on_error_callback=nil) and the history ends. Nothing is asserted about how many reports a non-nil callback receives. In every second history (and all concurrent ones) each subgraph answer of the cached gateway is delayed 40-200us so that parallel fetches overlap (schedule only, no verdict depends on it). Oracle: canonical JSON of response i with cache == response i without cache (re-checked for instability of the cache-less run), Execute never fails or panics when the cache-less run does not. [3-5] STORABILITY history: same, 50% storable headers, and subgraph faults per (request, subgraph, operation): semantic body under status 201/203/206/300/304/399/400/404/500/503, body with data AND errors, errors without data, empty 500, first entity null (not found), and 2xx answers to entity fetches that are unusable (non-JSON, truncated JSON, {\"data\":null}, {\"data\":{}}, one entity too few / too many; also alone in a third of the transparency histories) — under a content-altering fault response i is compared (error entries as a multiset) whenever both gateways sent the same requests and so received the same faulted answers, the rendered error response of the cache-less engine being the reference, and Execute returning an error only with the cache is a violation; every SetMany item is attributed to the subgraph response(s) of the same gateway request whose _entities values it carries (positions through the preceding GetMany key list) and must come from a 2xx, error-free response whose header — read by an independent RFC 9111 reference tokeniser — has `public`, none of no-store/no-cache/private, and ttl <= first s-maxage else first max-age (1*DIGIT, token or quoted, saturating) else the request's default TTL; malformed headers are judged in the safe direction only (refusal word or no `public` anywhere), invalid delta-seconds by the weak bound max(named lifetimes, default). [1-2] CONCURRENT history: 3-6 goroutines execute rotations of one history against one shared cache (header a function of the response body, light cache faults), responses compared with the sequential cache-less run, all stores judged, -race. [0] PARSER corpus: 4000 generated header values (+ the exhaustive set of all ordered subsets of {public, private, no-store, no-cache, max-age=60, s-maxage=30} in the first case) straight through caching.TTL against the reference. Non-trivial: history = >=1 response compared after a full cache hit was served (storability: >=1 store judged and >=1 unstorable entity response); parser = both decisions seen. Distinct by hash of (layout, request text, variables, position) resp. header value."
}

func (c16) Assumptions() []string {
	return []string{
		"subgraph data is static (hash-defined universe), so the cache-less engine over the same subgraphs is the reference; cache entries never expire in the recording cache (TTLs are recorded, not enforced)",
		"a subgraph fault that changes the content of a response (errors, empty / unusable body) makes response i incomparable only when the cached gateway did not send exactly the requests the cache-less gateway sent (a hit spared it the faulted request); otherwise both received the same faulted answers and the comparison is kept; faults that only change the HTTP status always keep the comparison",
		"successful = HTTP 2xx; 1xx statuses are not generated (net/http never returns them as final responses)",
		"header field lines are combined with \", \" (RFC 9110 §5.3); where the combined value is not a well-formed #cache-directive list only the safe direction is demanded; a deciding s-maxage/max-age with invalid delta-seconds is judged by the weak bound only; duplicates: the first occurrence decides (RFC 9111 §4.2.1)",
		"operations steer away from C01-F1 (union fragment in non-union parent); requests whose cache-less run fails to plan/execute (e.g. C01-F2) are skipped and counted",
		"the recording cache stays inside the caching.Cache contract (it never invents entries or returns foreign keys)",
	}
}

func (c16) RequiredCounters(string) []string {
	return []string{
		"requests", "responses_compared", "responses_compared_after_full_hit", "responses_compared_under_cache_fault",
		"cache_get_calls", "cache_full_hits", "cache_partial_hits", "cache_misses", "cache_set_calls", "cache_items_stored",
		"subgraph_requests_saved", "hits_on_entries_stored_by_other_request",
		"get_errors_injected", "set_errors_injected", "partial_answers_injected", "evicted_entries",
		"store_items_judged_ok", "entity_responses_unstorable", "entity_responses_unstorable_not_stored",
		"concurrent_executions", "concurrent_responses_compared",
		"histories_with_nil_error_callback", "requests_with_cache_failure_under_nil_error_callback",
		"responses_compared_under_same_content_altering_subgraph_fault", "unusable_2xx_entity_answers_with_cache", "unusable_2xx_entity_answers_on_batch_fetch", "unusable_2xx_entity_answers_on_single_fetch",
		"parser_headers", "parser_positive_decisions", "parser_negative_decisions",
	}
}

func caseKind(idx int) string {
	switch idx % 10 {
	case 0:
		return "parser"
	case 1, 2:
		return "concurrent"
	case 3, 4, 5:
		return "storability"
	}
	return "transparency"
}

func (p c16) Run(c *fw.Ctx, idx int) fw.Result {
	if caseKind(idx) == "parser" {
		return runParser(c, idx)
	}
	return runHistory(c, idx, caseKind(idx))
}

// ---------------------------------------------------------------------------------------------

type panicInfo struct{ msg, sig, stack string }

func truncate(s string, n int) string {
	if len(s) > n {
		return s[:n] + "…"
	}
	return s
}

func safeExec(gw *fed.Gateway, ctx context.Context, rq *request, opts ...engine.ExecutionOptions) (res *fed.Result, p *panicInfo) {
	defer func() {
		if r := recover(); r != nil {
			st := string(debug.Stack())
			p = &panicInfo{msg: fmt.Sprint(r), sig: fw.PanicSignature(fmt.Sprint(r), st), stack: truncate(st, 5000)}
		}
	}()
	return gw.Execute(ctx, rq.Text, "", rq.Vars, opts...), nil
}

func canonResponse(res *fed.Result) string {
	v, err := ref.DecodeJSON([]byte(res.Raw))
	if err != nil {
		return "<not JSON> " + truncate(res.Raw, 500)
	}
	return ref.Canon(v)
}

// canonResponseSortedErrors: canonical response with the errors array sorted (a multiset).
func canonResponseSortedErrors(res *fed.Result) string {
	v, err := ref.DecodeJSON([]byte(res.Raw))
	if err != nil {
		return "<not JSON> " + truncate(res.Raw, 500)
	}
	if m, ok := v.(map[string]any); ok {
		if es, ok := m["errors"].([]any); ok {
			cs := make([]string, len(es))
			for i, e := range es {
				cs[i] = ref.Canon(e)
			}
			sort.Strings(cs)
			out := make([]any, len(cs))
			for i, c := range cs {
				out[i] = c
			}
			m["errors"] = out
		}
	}
	return ref.Canon(v)
}

// sameRequests: both gateways sent the same multiset of (subgraph, body) and got the same fault on each.
func sameRequests(a, b []*fed.Request) bool {
	if len(a) != len(b) {
		return false
	}
	cnt := map[string]int{}
	for _, q := range a {
		cnt[q.Subgraph+"|"+q.RawBody+"|"+q.Faulted]++
	}
	for _, q := range b {
		k := q.Subgraph + "|" + q.RawBody + "|" + q.Faulted
		cnt[k]--
		if cnt[k] < 0 {
			return false
		}
	}
	return true
}

func firstDiff(a, b string) string {
	i := 0
	for i < len(a) && i < len(b) && a[i] == b[i] {
		i++
	}
	lo := i - 120
	if lo < 0 {
		lo = 0
	}
	cut := func(s string) string {
		hi := i + 160
		if hi > len(s) {
			hi = len(s)
		}
		if lo > len(s) {
			return ""
		}
		return s[lo:hi]
	}
	return "without cache: …" + cut(a) + "\nwith cache:    …" + cut(b)
}

// dupKeys reports whether some JSON object of the document repeats a key (which decoding into maps hides).
func dupKeys(raw string) bool {
	dec := json.NewDecoder(strings.NewReader(raw))
	type frame struct {
		obj  bool
		keys map[string]bool
		key  bool // next string token is a key
	}
	var st []*frame
	for {
		t, err := dec.Token()
		if err != nil {
			return false
		}
		top := func() *frame {
			if len(st) == 0 {
				return nil
			}
			return st[len(st)-1]
		}
		switch x := t.(type) {
		case json.Delim:
			switch x {
			case '{':
				st = append(st, &frame{obj: true, keys: map[string]bool{}, key: true})
			case '[':
				st = append(st, &frame{})
			case '}', ']':
				st = st[:len(st)-1]
				if f := top(); f != nil && f.obj {
					f.key = true
				}
			}
		case string:
			if f := top(); f != nil && f.obj && f.key {
				if f.keys[x] {
					return true
				}
				f.keys[x] = true
				f.key = false
				continue
			}
			if f := top(); f != nil && f.obj {
				f.key = true
			}
		default:
			if f := top(); f != nil && f.obj {
				f.key = true
			}
		}
	}
}

// violate reports at most maxPerClass violations of one (kind, match) class per case; the rest is counted.
const maxPerClass = 2

type capper struct{ n map[string]int }

func (c *capper) violate(res *fw.Result, kind, msg string, match map[string]string, detail func() any) {
	if c.n == nil {
		c.n = map[string]int{}
	}
	keys := make([]string, 0, len(match))
	for k := range match {
		keys = append(keys, k)
	}
	sort.Strings(keys)
	cls := kind
	for _, k := range keys {
		cls += "|" + k + "=" + match[k]
	}
	c.n[cls]++
	if c.n[cls] > maxPerClass {
		res.Count("violations_of_an_already_reported_class_in_the_same_case", 1)
		return
	}
	res.Violate(kind, msg, match, detail())
}

func h64(parts ...string) uint64 {
	h := fnv.New64a()
	for _, p := range parts {
		h.Write([]byte(p))
		h.Write([]byte{0})
	}
	return h.Sum64()
}

// respRec is one subgraph response the cached gateway received, with the header it carried.
type respRec struct {
	Tag int // gateway request index in sequential mode, -1 in concurrent mode
	Rec *fed.Request
	Hdr hdrChoice

	decoded  bool
	entities []any
	isEntity bool
	hasErr   bool
}

func (rr *respRec) decode() {
	if rr.decoded {
		return
	}
	rr.decoded = true
	v, err := ref.DecodeJSON([]byte(rr.Rec.Response))
	if err != nil {
		return
	}
	m, _ := v.(map[string]any)
	if m == nil {
		return
	}
	if es, ok := m["errors"].([]any); ok && len(es) > 0 {
		rr.hasErr = true
	}
	if d, ok := m["data"].(map[string]any); ok {
		if e, ok := d["_entities"].([]any); ok {
			rr.entities, rr.isEntity = e, true
		}
	}
}

var statusFaults = []int{201, 203, 206, 300, 304, 399, 400, 404, 500, 503}
var defaultTTLs = []time.Duration{5 * time.Minute, time.Minute, 30 * time.Second, time.Second, time.Hour, 0, -time.Second, 24 * time.Hour}
var plainHeaders = [][]string{{"public, max-age=60"}, {"public"}, {"public, s-maxage=10, max-age=100"}, {"max-age=300, public"}, {"public", "max-age=5"}}

func contentAltering(kind string) bool {
	switch kind {
	case "", "status-keep-body":
		return false
	}
	return true
}

type history struct {
	inflight atomic.Int64
	overlaps atomic.Int64
	cap      capper
	res      *fw.Result
	kind     string
	l        *fed.Layout
	seq      []*request
	salt     string
	cur      atomic.Int64
	mu       sync.Mutex
	resps    []*respRec
	pStor    int
	plain    bool
	subFault bool
	// nilCB: SetResponseCache(cache, ttl, nil)
	nilCB   bool
	stopped atomic.Bool
	// unusableOnly: (transparency histories) the only subgraph faults are unusable 2xx answers to entity fetches
	unusableOnly bool
	bodyHdr      bool // header is a function of (subgraph, body) only (concurrent mode)
	cache        *recCache
	defTTL       []time.Duration
}

// unusable2xx: 2xx answers to an entity fetch that the engine cannot use (and the cache collector
// cannot read): the cache-less engine renders a "Failed to fetch" error entry (or a benign null), and
// so must the engine with a cache.
var unusable2xx = []string{"ok-nonjson", "ok-truncated", "data-null", "data-empty", "fewer-entities", "more-entities"}

func (h *history) faultFor(_ int, sub, query string) *fed.Fault {
	if !h.subFault {
		return nil
	}
	i := h.cur.Load()
	x := h64(h.salt, "fault", fmt.Sprint(i), sub, query)
	roll := int(x % 100)
	isEnt := strings.Contains(query, "_entities")
	if h.unusableOnly {
		if isEnt && roll < 12 {
			return &fed.Fault{Kind: unusable2xx[int((x>>16)%uint64(len(unusable2xx)))]}
		}
		return nil
	}
	if isEnt && roll >= 60 && roll < 78 {
		return &fed.Fault{Kind: unusable2xx[int((x>>16)%uint64(len(unusable2xx)))]}
	}
	switch {
	case roll < 25:
		return &fed.Fault{Kind: "status-keep-body", Status: statusFaults[int((x>>16)%uint64(len(statusFaults)))]}
	case roll < 40:
		return &fed.Fault{Kind: "data-and-errors"}
	case roll < 44:
		return &fed.Fault{Kind: "errors-no-data"}
	case roll < 48:
		return &fed.Fault{Kind: "status-500-empty"}
	case roll < 60:
		if strings.Contains(query, "_entities") {
			return &fed.Fault{Kind: "null-entity"}
		}
	}
	return nil
}

func (h *history) chooseHeader(rec *fed.Request) hdrChoice {
	i := h.cur.Load()
	tag := fmt.Sprint(i)
	if h.bodyHdr {
		tag = "*"
	}
	x := h64(h.salt, "hdr", tag, rec.Subgraph, rec.RawBody)
	if h.plain {
		lines := plainHeaders[int(x%uint64(len(plainHeaders)))]
		return hdrChoice{Lines: lines, Intent: "storable", J: judgeHeader(lines)}
	}
	return genHeader(rand.New(rand.NewPCG(x, 16)), h.pStor)
}

func (h *history) headersFor(record bool) func(rec *fed.Request) http.Header {
	return func(rec *fed.Request) http.Header {
		hc := h.chooseHeader(rec)
		if record {
			tag := int(h.cur.Load())
			if h.bodyHdr {
				tag = -1
			}
			h.mu.Lock()
			h.resps = append(h.resps, &respRec{Tag: tag, Rec: rec, Hdr: hc})
			h.mu.Unlock()
		}
		if hc.Lines == nil {
			return nil
		}
		return http.Header{"Cache-Control": append([]string(nil), hc.Lines...)}
	}
}

func (h *history) responses() []*respRec {
	h.mu.Lock()
	defer h.mu.Unlock()
	return append([]*respRec(nil), h.resps...)
}

func (h *history) withCache(i int) engine.ExecutionOptions {
	d := h.defTTL[i%len(h.defTTL)]
	return engine.VerifWithResolveContext(func(rc *resolve.Context) {
		var cb func(error)
		if !h.nilCB {
			cb = h.cache.onError
		}
		rc.SetResponseCache(h.cache, d, cb)
	})
}

func (h *history) cbFact() string {
	if h.nilCB {
		return "nil"
	}
	return "set"
}

func statusClass(s int) string { return fmt.Sprintf("%dxx", s/100) }

// judgeStores attributes every SetMany call among calls to the subgraph response(s) it was taken
// from and applies the storability rule. tagOf(call) selects the candidate responses.
func (h *history) judgeStores(calls []*cacheCall, resps []*respRec, defaultOf func(tag int) time.Duration, detail func(extra map[string]any) map[string]any) (judged int) {
	res := h.res
	for ci, call := range calls {
		if call.Get || len(call.Items) == 0 {
			continue
		}
		res.Count("cache_set_calls", 1)
		res.Count("cache_items_offered", int64(len(call.Items)))
		res.Count("cache_items_stored", int64(call.Stored))
		if call.Fault == "contract-nonpositive-ttl" {
			res.Count("set_calls_with_nonpositive_ttl", 1)
		}
		// the lookups this store may belong to: every earlier GetMany of the same request that asked for every
		// stored key (parallel fetches interleave, so the latest one is not necessarily the right one)
		var gets []*cacheCall
		for k := ci - 1; k >= 0; k-- {
			g := calls[k]
			if !g.Get || g.Tag != call.Tag {
				continue
			}
			idx := map[string]bool{}
			for _, key := range g.Keys {
				idx[key] = true
			}
			all := true
			for _, it := range call.Items {
				if !idx[it.Key] {
					all = false
					break
				}
			}
			if all {
				gets = append(gets, g)
			}
		}
		vals := make([]string, len(call.Items))
		for j, it := range call.Items {
			v, err := ref.DecodeJSON(it.Value)
			if err != nil {
				vals[j] = "<not JSON> " + string(it.Value)
			} else {
				vals[j] = ref.Canon(v)
			}
		}
		matchesAt := func(rr *respRec, get *cacheCall) bool {
			if len(rr.entities) != len(get.Keys) {
				return false
			}
			pos := map[string]int{}
			for p, key := range get.Keys {
				pos[key] = p
			}
			used := map[int]bool{}
			for j, it := range call.Items {
				p := pos[it.Key]
				used[p] = true
				if _, isObj := rr.entities[p].(map[string]any); !isObj || ref.Canon(rr.entities[p]) != vals[j] {
					return false
				}
			}
			for p := range rr.entities {
				if _, isObj := rr.entities[p].(map[string]any); isObj && !used[p] {
					return false
				}
			}
			return true
		}
		matchesInOrder := func(rr *respRec) bool {
			var objs []any
			for _, e := range rr.entities {
				if _, isObj := e.(map[string]any); isObj {
					objs = append(objs, e)
				}
			}
			if len(objs) != len(vals) {
				return false
			}
			for j := range objs {
				if ref.Canon(objs[j]) != vals[j] {
					return false
				}
			}
			return true
		}
		var cands []*respRec
		for _, rr := range resps {
			if !h.bodyHdr && rr.Tag != call.Tag {
				continue
			}
			rr.decode()
			if !rr.isEntity {
				continue
			}
			ok := false
			if len(gets) == 0 {
				ok = matchesInOrder(rr)
			}
			for _, g := range gets {
				if matchesAt(rr, g) {
					ok = true
					break
				}
			}
			if ok {
				cands = append(cands, rr)
			}
		}
		var get *cacheCall
		if len(gets) > 0 {
			get = gets[0]
		}
		if get == nil {
			res.Count("stores_without_preceding_lookup", 1)
		}
		itemsDump := func() []map[string]any {
			var out []map[string]any
			for _, it := range call.Items {
				out = append(out, map[string]any{"key": it.Key, "ttl": it.TTL.String(), "value": truncate(string(it.Value), 300)})
			}
			return out
		}
		if len(cands) == 0 {
			res.Violate("store-without-source", "a SetMany call stores entity values that no subgraph response of the same gateway request delivered at those positions", map[string]string{"concurrent": fmt.Sprint(h.bodyHdr)}, detail(map[string]any{"set_many": itemsDump(), "request_tag": call.Tag}))
			continue
		}
		def := defaultOf(call.Tag)
		type verdict struct{ kind, why, notJudged string }
		judge := func(rr *respRec, ttl time.Duration) verdict {
			if rr.Rec.Status < 200 || rr.Rec.Status > 299 {
				return verdict{kind: "store-from-non-2xx", why: fmt.Sprintf("the source response has HTTP status %d", rr.Rec.Status)}
			}
			if rr.hasErr {
				return verdict{kind: "store-from-error-response", why: "the source response carries a non-empty errors array"}
			}
			k, w, nj := rr.Hdr.J.storeVerdict(ttl, def)
			return verdict{k, w, nj}
		}
		for _, it := range call.Items {
			var first *verdict
			var firstRR *respRec
			okFound, njFound := false, ""
			for _, rr := range cands {
				v := judge(rr, it.TTL)
				if v.kind == "" && v.notJudged == "" {
					okFound = true
					break
				}
				if v.kind == "" {
					njFound = v.notJudged
					continue
				}
				if first == nil {
					vv := v
					first, firstRR = &vv, rr
				}
			}
			switch {
			case okFound:
				res.Count("store_items_judged_ok", 1)
				judged++
			case njFound != "":
				res.Count("store_items_not_judged_"+njFound, 1)
			default:
				j := firstRR.Hdr.J
				m := map[string]string{"status_class": statusClass(firstRR.Rec.Status), "source_has_errors": fmt.Sprint(firstRR.hasErr), "header_wellformed": fmt.Sprint(j.WellFormed), "refusal": j.Refusal, "public": fmt.Sprint(j.Public), "lifetime_source": j.Source, "duplicate_lifetime_differs": fmt.Sprint(j.DupDiffers), "refusal_word_preceded_by": j.RefusalAfter, "concurrent": fmt.Sprint(h.bodyHdr), "candidates": fmt.Sprint(len(cands))}
				fr, fv, item := firstRR, first, it
				h.cap.violate(res, fv.kind, "an entity was stored although "+fv.why, m, func() any {
					firstRR, first, it := fr, fv, item
					_ = first
					return detail(map[string]any{
						"stored_item": map[string]any{"key": it.Key, "ttl": it.TTL.String(), "value": truncate(string(it.Value), 400)}, "default_ttl": def.String(),
						"source_response":   map[string]any{"subgraph": firstRR.Rec.Subgraph, "status": firstRR.Rec.Status, "fault": firstRR.Rec.Faulted, "cache_control_lines": firstRR.Hdr.Lines, "cache_control_combined": j.Raw, "query": truncate(firstRR.Rec.Query, 600), "variables": truncate(fmt.Sprint(firstRR.Rec.Variables), 400), "body": truncate(firstRR.Rec.Response, 800)},
						"reference_reading": map[string]any{"well_formed": j.WellFormed, "public": j.Public, "refusal": j.Refusal, "lifetime_source": j.Source, "lifetime_seconds": fmt.Sprint(j.Lifetime)},
					})
				})
				judged++
			}
		}
	}
	return judged
}

// classifyEntityResponses counts, for the evidence, how many entity responses were (un)storable by
// the oracle and whether something was stored from them (value-level attribution).
func (h *history) classifyEntityResponses(calls []*cacheCall, resps []*respRec, defaultOf func(tag int) time.Duration) {
	stored := map[string]bool{}
	for _, c := range calls {
		if c.Get {
			continue
		}
		for _, it := range c.Items {
			if v, err := ref.DecodeJSON(it.Value); err == nil {
				stored[fmt.Sprint(c.Tag)+"|"+ref.Canon(v)] = true
			}
		}
	}
	for _, rr := range resps {
		rr.decode()
		if !rr.isEntity {
			continue
		}
		nObj := 0
		anyStored := false
		for _, e := range rr.entities {
			if _, ok := e.(map[string]any); ok {
				nObj++
				tag := fmt.Sprint(rr.Tag)
				if h.bodyHdr {
					// concurrent: any request may have stored it
					for k := range stored {
						if strings.HasSuffix(k, "|"+ref.Canon(e)) {
							anyStored = true
						}
					}
				} else if stored[tag+"|"+ref.Canon(e)] {
					anyStored = true
				}
			}
		}
		if nObj == 0 {
			continue
		}
		h.res.Count("entity_responses", 1)
		h.res.Observe("header_intents", rr.Hdr.Intent)
		h.res.Observe("response_statuses", fmt.Sprint(rr.Rec.Status))
		def := defaultOf(rr.Tag)
		reason := ""
		j := rr.Hdr.J
		switch {
		case rr.Rec.Status < 200 || rr.Rec.Status > 299:
			reason = "status"
		case rr.hasErr:
			reason = "errors"
		case j.Refusal != "":
			reason = "refusal"
		case !j.Public:
			reason = "non-public"
		case !j.WellFormed:
			reason = "malformed"
		case j.LifetimeJudged && !j.FromDefault && j.Lifetime.Sign() == 0:
			reason = "zero-lifetime"
		case j.LifetimeJudged && j.FromDefault && def <= 0:
			reason = "no-default"
		}
		if reason == "" {
			h.res.Count("entity_responses_storable", 1)
			if anyStored {
				h.res.Count("entity_responses_storable_stored", 1)
			} else {
				h.res.Count("entity_responses_storable_not_stored", 1)
			}
			continue
		}
		h.res.Count("entity_responses_unstorable", 1)
		h.res.Count("entity_responses_unstorable_"+reason, 1)
		if !anyStored {
			h.res.Count("entity_responses_unstorable_not_stored", 1)
		}
	}
}

func (h *history) countGets(calls []*cacheCall) (fullHit bool, faults []string) {
	fs := map[string]bool{}
	for _, c := range calls {
		if c.Fault != "" {
			fs[c.Fault] = true
		}
		if !c.Get {
			if c.Fault == "set-error" {
				h.res.Count("set_errors_injected", 1)
			}
			continue
		}
		h.res.Count("cache_get_calls", 1)
		switch c.Class {
		case "full-hit":
			h.res.Count("cache_full_hits", 1)
			fullHit = true
			if len(c.Keys) > 1 {
				h.res.Count("cache_full_hits_batch", 1)
			}
			other := false
			for _, t := range c.StoredBy {
				if t != c.Tag && t >= 0 {
					other = true
				}
			}
			if other {
				h.res.Count("hits_on_entries_stored_by_other_request", 1)
			}
		case "partial-hit":
			h.res.Count("cache_partial_hits", 1)
		case "miss":
			h.res.Count("cache_misses", 1)
			some := false
			for _, p := range c.Present {
				some = some || p
			}
			if some {
				h.res.Count("cache_misses_with_entries_present", 1)
			}
		case "error":
			h.res.Count("get_errors_injected", 1)
		}
		if c.Fault == "partial-answer" || c.Fault == "answer-nothing" {
			h.res.Count("partial_answers_injected", 1)
		}
		nPresent := 0
		for _, p := range c.Present {
			if p {
				nPresent++
			}
		}
		if nPresent > 0 && nPresent < len(c.Keys) {
			h.res.Count("lookups_with_part_of_batch_cached", 1)
		}
	}
	for f := range fs {
		faults = append(faults, f)
	}
	sort.Strings(faults)
	return
}

func dumpRequests(rs []*fed.Request, hdr map[*fed.Request]hdrChoice) []map[string]any {
	var out []map[string]any
	for _, rq := range rs {
		m := map[string]any{"subgraph": rq.Subgraph, "query": truncate(rq.Query, 500), "variables": truncate(fmt.Sprint(rq.Variables), 300), "status": rq.Status, "fault": rq.Faulted, "response": truncate(rq.Response, 500)}
		if hc, ok := hdr[rq]; ok {
			m["cache_control"] = hc.String()
		}
		out = append(out, m)
	}
	return out
}

func dumpCalls(calls []*cacheCall) []map[string]any {
	var out []map[string]any
	for _, c := range calls {
		if c.Get {
			out = append(out, map[string]any{"op": "GetMany", "keys": c.Keys, "present": fmt.Sprint(c.Present), "returned": fmt.Sprint(c.Returned), "answered_as": c.Class, "fault": c.Fault, "stored_by_request": fmt.Sprint(c.StoredBy)})
			continue
		}
		var items []string
		for _, it := range c.Items {
			items = append(items, it.Key+" ttl="+it.TTL.String()+" "+truncate(string(it.Value), 160))
		}
		out = append(out, map[string]any{"op": "SetMany", "items": items, "fault": c.Fault, "written": c.Stored})
	}
	return out
}

func runHistory(c *fw.Ctx, idx int, kind string) fw.Result {
	res := fw.Result{Key: fw.HashKey("c16", idx)}
	r := c.Rng(idx, "c16")
	prof := fed.RandomProfile(r)
	prof.Mutation = false
	l := fed.GenLayout(r, prof)
	layoutDetail := func() map[string]any {
		d := map[string]any{"supergraph": l.SuperSDL, "case_kind": kind}
		for _, sg := range l.Subgraphs {
			d["sdl_"+sg.Name] = sg.SDL
		}
		return d
	}
	superGql, err := gqlparser.LoadSchema(&gast.Source{Name: "super", Input: l.SuperSDL})
	if err != nil {
		res.Broken("supergraph self-check: "+err.Error(), layoutDetail())
		return res
	}
	ents := map[string]bool{}
	for e := range l.Entities {
		ents[e] = true
	}
	pool := 2 + r.IntN(4)
	u := &ref.Universe{Seed: r.Uint64(), Schema: superGql, NullRate: r.IntN(3), Entities: ents, PoolSize: pool, MaxList: 2 + r.IntN(3)}
	gopts := fed.GatewayOptions{MultiFetch: r.IntN(10) == 0, ScheduleFetch: r.IntN(10) == 0}
	// option dimension: the cache is attached with a nil error callback (a supported configuration) while cache
	// failures are injected. Chosen by idx only (no random draw, the other cases stay what they were).
	nilCB := (kind == "transparency" && idx%10 == 9) || (kind == "storability" && idx%10 == 5) || (kind == "concurrent" && idx%10 == 2 && (idx/10)%2 == 0)
	gwN, err := fed.NewGateway(l, superGql, u, gopts)
	if err != nil {
		res.Broken("gateway construction: "+err.Error(), layoutDetail())
		return res
	}
	defer gwN.Close()
	gwC, err := fed.NewGateway(l, superGql, u, gopts)
	if err != nil {
		res.Broken("gateway construction: "+err.Error(), layoutDetail())
		return res
	}
	defer gwC.Close()
	if nilCB {
		// a panic raised in one of the engine's own fetch goroutines cannot be recovered by the harness and would
		// take the worker down; with parallel fetch nodes off every fetch runs on the goroutine that called Execute,
		// so a panic on the cache path is recovered and reported as a violation of this case
		gwN.Engine.VerifSetPostProcessorOptions(postprocess.DisableCreateParallelNodes())
		gwC.Engine.VerifSetPostProcessorOptions(postprocess.DisableCreateParallelNodes())
	}

	h := &history{nilCB: nilCB, res: &res, kind: kind, l: l, salt: fmt.Sprintf("%d/%d", c.Seed, idx), cache: newRecCache(r.Uint64())}
	var faults cacheFaults
	policy := "none"
	switch kind {
	case "transparency":
		h.plain = r.IntN(2) == 0
		h.pStor = 85
		if r.IntN(3) == 0 {
			h.subFault, h.unusableOnly = true, true
		}
		switch (idx / 10) % 6 {
		case 1:
			faults, policy = cacheFaults{GetErr: 300}, "get-errors"
		case 2:
			faults, policy = cacheFaults{SetErr: 350}, "set-errors"
		case 3:
			faults, policy = cacheFaults{DropKey: 250, MissAll: 80}, "partial-answers"
		case 4:
			faults, policy = cacheFaults{EvictPct: 40}, "evictions"
		case 5:
			faults, policy = cacheFaults{GetErr: 120, SetErr: 120, DropKey: 120, MissAll: 40, EvictPct: 20}, "mixed"
		}
	case "storability":
		h.pStor = 50
		h.subFault = true
		if r.IntN(3) == 0 {
			faults, policy = cacheFaults{EvictPct: 30}, "evictions"
		}
	case "concurrent":
		h.bodyHdr = true
		h.plain = r.IntN(2) == 0
		h.pStor = 85
		if r.IntN(2) == 0 {
			faults, policy = cacheFaults{GetErr: 80, SetErr: 80, DropKey: 120, MissAll: 30}, "mixed"
		}
	}
	if nilCB {
		if faults.GetErr == 0 {
			faults.GetErr = 150
		}
		if faults.SetErr == 0 {
			faults.SetErr = 150
		}
		policy += "+get/set-errors(nil callback)"
		res.Count("histories_with_nil_error_callback", 1)
	}
	h.cache.setFaults(faults)
	res.Observe("cache_fault_policies", kind+":"+policy)
	nd := 1 + r.IntN(3)
	for k := 0; k < nd; k++ {
		h.defTTL = append(h.defTTL, defaultTTLs[r.IntN(len(defaultTTLs))])
	}
	if r.IntN(3) != 0 {
		h.defTTL[0] = defaultTTLs[r.IntN(5)] // mostly a usable default
	}
	gwN.Transport.FaultFor, gwC.Transport.FaultFor = h.faultFor, h.faultFor
	gwN.Transport.HeadersFor, gwC.Transport.HeadersFor = h.headersFor(false), h.headersFor(true)
	if kind == "concurrent" || idx%2 == 0 {
		// hostile schedule only (no verdict depends on it): every subgraph answer of the cached gateway is
		// held back a little, so that the parallel fetches of one request and concurrent requests overlap
		gwC.Transport.Gate = func(rec *fed.Request) {
			if h.inflight.Add(1) > 1 {
				h.overlaps.Add(1)
			}
			time.Sleep(time.Duration(40+h64(h.salt, "gate", rec.RawBody)%160) * time.Microsecond)
			h.inflight.Add(-1)
		}
		res.Count("histories_with_delayed_subgraph_answers", 1)
	}

	// ---- the history
	fg := &famGen{r: r, l: l, pool: pool}
	h.cur.Store(-1)
	nBase := 2 + r.IntN(2)
	saveFault := h.subFault
	h.subFault = false
	for attempt := 0; attempt < 14 && len(h.seq) < nBase; attempt++ {
		op := gen.DefaultOpProfile(r)
		op.MaxDepth = 2 + r.IntN(3)
		op.NoSingletonVars = true
		op.VarBias = 3 + r.IntN(4)
		doc, vals := gen.GenOperation(r, l.Super, op)
		if gen.UnionFragmentInNonUnionParent(l.Super, doc) {
			continue
		}
		rq := &request{Doc: doc, Vals: vals, Deriv: "base", Parent: -1}
		fg.reids(rq)
		rq.finish()
		if _, gerrs := gqlparser.LoadQuery(superGql, rq.Text); gerrs != nil {
			if strings.Contains(gerrs.Error(), "conflict") {
				// re-drawing the lookup ids gave two selections of one response key different id
				// arguments (the generator had emitted them as duplicates): not a usable base operation
				res.Count("base_operations_skipped_lookup_ids_conflict", 1)
				continue
			}
			res.Broken("operation self-check: "+gerrs.Error(), map[string]any{"operation": rq.Text})
			return res
		}
		probe, pi := safeExec(gwN, context.Background(), rq)
		if pi != nil || probe.Err != nil {
			res.Count("base_operations_skipped_cacheless_run_fails", 1)
			continue
		}
		nEnt := 0
		for _, q := range probe.Requests {
			if strings.Contains(q.Query, "_entities") {
				nEnt++
			}
		}
		if nEnt == 0 {
			continue
		}
		h.seq = append(h.seq, rq)
	}
	h.subFault = saveFault
	if len(h.seq) == 0 {
		res.Inconclusive = "no-entity-operation: no generated operation sent an _entities request"
		return res
	}
	n := 10 + r.IntN(7)
	if kind == "concurrent" {
		n = 6 + r.IntN(4)
	}
	for tries := 0; len(h.seq) < n && tries < 4*n; tries++ {
		from := r.IntN(len(h.seq))
		rq := fg.derive(h.seq[from], from)
		if _, gerrs := gqlparser.LoadQuery(superGql, rq.Text); gerrs != nil {
			res.Count("derived_requests_invalid_dropped", 1)
			res.Observe("derived_invalid", rq.Deriv+": "+truncate(gerrs.Error(), 120))
			continue
		}
		res.Observe("derivations", rq.Deriv)
		h.seq = append(h.seq, rq)
	}
	historyDump := func(upto int) []map[string]any {
		var out []map[string]any
		for i, rq := range h.seq {
			if i > upto {
				break
			}
			out = append(out, map[string]any{"i": i, "derived": fmt.Sprintf("%s of %d", rq.Deriv, rq.Parent), "operation": truncate(rq.Text, 900), "variables": string(rq.Vars)})
		}
		return out
	}
	defaultOf := func(tag int) time.Duration {
		if tag < 0 {
			tag = 0
		}
		return h.defTTL[(tag%1000)%len(h.defTTL)]
	}
	var keys []string
	if kind == "concurrent" {
		keys = h.runConcurrent(r, gwN, gwC, layoutDetail, historyDump, defaultOf)
	} else {
		keys = h.runSequential(gwN, gwC, layoutDetail, historyDump, defaultOf)
	}
	if m := h.cache.takeMutated(); len(m) > 0 {
		res.Violate("stored-bytes-mutated", "the byte slice handed to SetMany was modified by the engine afterwards (an in-memory cache that keeps the slice would serve corrupted entities)", map[string]string{"concurrent": fmt.Sprint(h.bodyHdr)}, layoutDetail())
	}
	res.Count("cache_errors_reported_to_callback", int64(h.cache.reported()))
	res.Count("subgraph_answers_overlapping_another_in_flight", h.overlaps.Load())
	res.Keys = keys
	res.Nontrivial = len(keys) > 0
	return res
}

// nullAbsent tracks entity fetches (subgraph, operation text, representation, other variables) of
// the cache-less runs that differ from another fetch of the history ONLY in a variable being
// explicitly null in one and absent in the other.
type nullAbsent struct {
	seen map[string]map[string]bool
}

func entityFetchSigs(reqs []*fed.Request) (out [][2]string) {
	for _, rq := range reqs {
		if !strings.Contains(rq.Query, "_entities") {
			continue
		}
		exact, stripped := map[string]any{}, map[string]any{}
		for k, v := range rq.Variables {
			if k == "representations" {
				continue
			}
			exact[k] = v
			if v != nil {
				stripped[k] = v
			}
		}
		ex := ref.Canon(exact)
		st := ref.Canon(stripped)
		for _, rep := range rq.Reps {
			out = append(out, [2]string{rq.Subgraph + "|" + rq.Query + "|" + ref.Canon(rep) + "|" + st, ex})
		}
	}
	return out
}

func (n *nullAbsent) add(reqs []*fed.Request) {
	if n.seen == nil {
		n.seen = map[string]map[string]bool{}
	}
	for _, s := range entityFetchSigs(reqs) {
		if n.seen[s[0]] == nil {
			n.seen[s[0]] = map[string]bool{}
		}
		n.seen[s[0]][s[1]] = true
	}
}

// collides: some entity fetch of reqs has a twin (recorded earlier) with another null/absent pattern.
func (n *nullAbsent) collides(reqs []*fed.Request) bool {
	for _, s := range entityFetchSigs(reqs) {
		for ex := range n.seen[s[0]] {
			if ex != s[1] {
				return true
			}
		}
	}
	return false
}

func (h *history) runSequential(gwN, gwC *fed.Gateway, layoutDetail func() map[string]any, historyDump func(int) []map[string]any, defaultOf func(int) time.Duration) (keys []string) {
	res := h.res
	storesJudged, unstorableSeen := 0, false
	na := &nullAbsent{}
	for i, rq := range h.seq {
		h.cur.Store(int64(i))
		res.Count("requests", 1)
		fw.SetContext(map[string]any{"case_kind": h.kind, "request_index": i, "history": historyDump(i), "supergraph": h.l.SuperSDL})
		rn, pn := safeExec(gwN, context.Background(), rq)
		if pn != nil || rn.Err != nil {
			// the cache-less engine already fails on this request: other properties judge that
			res.Count("requests_skipped_cacheless_run_fails", 1)
			continue
		}
		altered := false
		for _, q := range rn.Requests {
			if contentAltering(q.Faulted) {
				altered = true
			}
		}
		before := h.cache.numCalls()
		respBefore := len(h.responses())
		rc, pc := safeExec(gwC, withReqTag(context.Background(), i), rq, h.withCache(i))
		calls := h.cache.callsSince(before)
		resps := h.responses()[respBefore:]
		hdrOf := map[*fed.Request]hdrChoice{}
		for _, rr := range resps {
			hdrOf[rr.Rec] = rr.Hdr
		}
		fullHit, faults := h.countGets(calls)
		faultStr := "none"
		if len(faults) > 0 {
			faultStr = strings.Join(faults, "+")
		}
		twin := na.collides(rn.Requests)
		na.add(rn.Requests)
		if twin {
			res.Count("requests_with_entity_fetch_twin_null_vs_absent_variable", 1)
		}
		match := map[string]string{"hit_served": fmt.Sprint(fullHit), "cache_faults": faultStr, "concurrent": "false", "derivation": rq.Deriv, "entity_fetch_differs_from_another_only_in_null_vs_absent_variable": fmt.Sprint(twin), "subgraph_faults": fmt.Sprint(h.subFault), "on_error_callback": h.cbFact()}
		if h.nilCB {
			res.Count("requests_under_nil_error_callback", 1)
			nf := 0
			for _, c := range calls {
				if c.Fault == "get-error" || c.Fault == "set-error" {
					nf++
				}
			}
			for _, q := range resps {
				for _, k := range unusable2xx {
					if q.Rec.Faulted == k {
						nf++
					}
				}
			}
			if nf > 0 {
				res.Count("requests_with_cache_failure_under_nil_error_callback", 1)
				res.Count("cache_failures_under_nil_error_callback", int64(nf))
			}
		}
		detail := func(extra map[string]any) map[string]any {
			d := layoutDetail()
			d["request_index"], d["history"] = i, historyDump(i)
			d["default_ttl"] = defaultOf(i).String()
			d["cache_calls_of_this_request"] = dumpCalls(calls)
			if rc != nil {
				d["subgraph_requests_with_cache"] = dumpRequests(rc.Requests, hdrOf)
				d["response_with_cache"] = truncate(rc.Raw, 2500)
			}
			d["subgraph_requests_without_cache"] = dumpRequests(rn.Requests, nil)
			d["response_without_cache"] = truncate(rn.Raw, 2500)
			for k, v := range extra {
				d[k] = v
			}
			return d
		}
		if pc != nil {
			res.Violate("panic", "the engine panicked with a response cache attached (error callback "+h.cbFact()+"): "+pc.msg, withFact(match, "panic", pc.sig), detail(map[string]any{"stack": pc.stack}))
			// the engine may be left with resources held by the aborted request: the history ends here
			res.Count("histories_ended_by_a_panic", 1)
			break
		}
		if rc.Err != nil {
			res.Violate("execute-error-with-cache", "Execute fails with the cache attached although the same request succeeds without: "+rc.Err.Error(), match, detail(nil))
			continue
		}
		res.Count("subgraph_requests_without_cache", int64(len(rn.Requests)))
		res.Count("subgraph_requests_with_cache", int64(len(rc.Requests)))
		if d := len(rn.Requests) - len(rc.Requests); d > 0 {
			res.Count("subgraph_requests_saved", int64(d))
		}
		// ---- storability of everything this request stored
		storesJudged += h.judgeStores(calls, resps, defaultOf, detail)
		h.classifyEntityResponses(calls, resps, defaultOf)
		// ---- transparency
		sameReqs := sameRequests(rn.Requests, rc.Requests)
		if altered && !sameReqs {
			// the cached gateway was spared a faulted request (or sent other requests): its response may legitimately differ
			res.Count("responses_not_compared_content_altering_subgraph_fault", 1)
		} else {
			want, got := canonResponse(rn), canonResponse(rc)
			if altered {
				// both gateways received the same faulted answers: the rendered error response of the cache-less
				// engine IS the reference (error entries compared as a multiset: parallel fetches may reorder them)
				want, got = canonResponseSortedErrors(rn), canonResponseSortedErrors(rc)
				res.Count("responses_compared_under_same_content_altering_subgraph_fault", 1)
				for _, q := range rc.Requests {
					for _, k := range unusable2xx {
						if q.Faulted == k {
							res.Count("unusable_2xx_entity_answers_with_cache", 1)
							res.Observe("unusable_2xx_kinds_x_header", k+" / "+hdrOf[q].Intent)
							if len(q.Reps) > 1 {
								res.Count("unusable_2xx_entity_answers_on_batch_fetch", 1)
							} else {
								res.Count("unusable_2xx_entity_answers_on_single_fetch", 1)
							}
						}
					}
				}
			}
			res.Count("responses_compared", 1)
			if rn.Raw == rc.Raw {
				res.Count("responses_byte_identical", 1)
			} else if want == got {
				res.Count("responses_equal_as_json_but_not_bytewise", 1)
				if dupKeys(rc.Raw) {
					res.Count("responses_with_duplicate_object_keys", 1)
				}
				res.Observe("bytewise_difference_samples", truncate(firstDiff(rn.Raw, rc.Raw), 420))
			}
			if fullHit {
				res.Count("responses_compared_after_full_hit", 1)
				keys = append(keys, fw.HashKey(h.l.SuperSDL, rq.Text, rq.Vars, i))
				if res.Sample == nil {
					res.Sample = map[string]any{"case_kind": h.kind, "request_index": i, "history": historyDump(i), "cache_calls_of_this_request": dumpCalls(calls), "subgraph_requests_without_cache": len(rn.Requests), "subgraph_requests_with_cache": len(rc.Requests)}
				}
			}
			if len(faults) > 0 {
				res.Count("responses_compared_under_cache_fault", 1)
			}
			if want != got {
				// is the cache-less run itself stable?
				stable := true
				for k := 0; k < 2; k++ {
					again, pa := safeExec(gwN, context.Background(), rq)
					if pa != nil || again.Err != nil || (canonResponse(again) != want && canonResponseSortedErrors(again) != want) {
						stable = false
					}
				}
				if !stable {
					res.Count("responses_not_judged_cacheless_run_unstable", 1)
				} else {
					h.cap.violate(res, "response-mismatch", "the response with the entity cache attached differs from the response of the same request without a cache", match, func() any { return detail(map[string]any{"first_difference": firstDiff(want, got)}) })
				}
			}
		}
		res.Count("evicted_entries", int64(h.cache.evict(i)))
	}
	for _, k := range []string{"entity_responses_unstorable"} {
		if res.Counters[k] > 0 {
			unstorableSeen = true
		}
	}
	if h.kind == "storability" {
		if storesJudged > 0 && unstorableSeen {
			keys = append(keys, fw.HashKey(h.l.SuperSDL, "storability", h.salt))
		} else {
			keys = nil
		}
	}
	return keys
}

func withFact(m map[string]string, k, v string) map[string]string {
	out := map[string]string{k: v}
	for a, b := range m {
		out[a] = b
	}
	return out
}

func (h *history) runConcurrent(r *rand.Rand, gwN, gwC *fed.Gateway, layoutDetail func() map[string]any, historyDump func(int) []map[string]any, defaultOf func(int) time.Duration) (keys []string) {
	res := h.res
	h.cur.Store(0)
	// expected responses: the cache-less engine, sequentially
	want := make([]string, len(h.seq))
	usable := make([]bool, len(h.seq))
	nReq := make([]int, len(h.seq))
	na := &nullAbsent{}
	sigReqs := make([][]*fed.Request, len(h.seq))
	for i, rq := range h.seq {
		rn, pn := safeExec(gwN, context.Background(), rq)
		if pn != nil || rn.Err != nil {
			res.Count("requests_skipped_cacheless_run_fails", 1)
			continue
		}
		again, pa := safeExec(gwN, context.Background(), rq)
		if pa != nil || again.Err != nil || canonResponse(again) != canonResponse(rn) {
			res.Count("responses_not_judged_cacheless_run_unstable", 1)
			continue
		}
		want[i], usable[i], nReq[i] = canonResponse(rn), true, len(rn.Requests)
		sigReqs[i] = rn.Requests
		na.add(rn.Requests)
	}
	G := 3 + r.IntN(4)
	type out struct {
		g, k, i int
		rc      *fed.Result
		pi      *panicInfo
	}
	results := make([][]out, G)
	var wg sync.WaitGroup
	start := make(chan struct{})
	for g := 0; g < G; g++ {
		g := g
		off := g * len(h.seq) / G
		wg.Add(1)
		go func() {
			defer wg.Done()
			<-start
			for k := 0; k < len(h.seq); k++ {
				i := (off + k) % len(h.seq)
				if !usable[i] {
					continue
				}
				if h.stopped.Load() {
					return
				}
				tag := g*1000 + i
				rc, pi := safeExec(gwC, withReqTag(context.Background(), tag), h.seq[i], h.withCache(i))
				results[g] = append(results[g], out{g, k, i, rc, pi})
				if pi != nil {
					h.stopped.Store(true)
				}
			}
		}()
	}
	close(start)
	wg.Wait()
	calls := h.cache.allCalls()
	resps := h.responses()
	fullHitAny, _ := h.countGets(calls)
	hitByTag := map[int]bool{}
	faultByTag := map[int]string{}
	for _, c := range calls {
		if c.Get && c.Class == "full-hit" {
			hitByTag[c.Tag] = true
		}
		if c.Fault != "" {
			faultByTag[c.Tag] = c.Fault
		}
	}
	detail := func(extra map[string]any) map[string]any {
		d := layoutDetail()
		d["history"] = historyDump(len(h.seq))
		d["goroutines"] = G
		for k, v := range extra {
			d[k] = v
		}
		return d
	}
	for g := range results {
		for _, o := range results[g] {
			res.Count("requests", 1)
			res.Count("concurrent_executions", 1)
			tag := o.g*1000 + o.i
			rq := h.seq[o.i]
			fs := faultByTag[tag]
			if fs == "" {
				fs = "none"
			}
			match := map[string]string{"hit_served": fmt.Sprint(hitByTag[tag]), "cache_faults": fs, "concurrent": "true", "derivation": rq.Deriv, "entity_fetch_differs_from_another_only_in_null_vs_absent_variable": fmt.Sprint(na.collides(sigReqs[o.i])), "subgraph_faults": "false", "on_error_callback": h.cbFact()}
			if h.nilCB {
				res.Count("requests_under_nil_error_callback", 1)
				if fs == "get-error" || fs == "set-error" {
					res.Count("requests_with_cache_failure_under_nil_error_callback", 1)
					res.Count("cache_failures_under_nil_error_callback", 1)
				}
			}
			var myCalls []*cacheCall
			for _, c := range calls {
				if c.Tag == tag {
					myCalls = append(myCalls, c)
				}
			}
			wd := func(extra map[string]any) map[string]any {
				d := detail(map[string]any{"request_index": o.i, "goroutine": o.g, "operation": rq.Text, "variables": string(rq.Vars), "cache_calls_of_this_request": dumpCalls(myCalls)})
				for k, v := range extra {
					d[k] = v
				}
				return d
			}
			if o.pi != nil {
				res.Violate("panic", "the engine panicked with a shared response cache attached (error callback "+h.cbFact()+"): "+o.pi.msg, withFact(match, "panic", o.pi.sig), wd(map[string]any{"stack": o.pi.stack}))
				continue
			}
			if o.rc.Err != nil {
				res.Violate("execute-error-with-cache", "Execute fails with the cache attached although the same request succeeds without: "+o.rc.Err.Error(), match, wd(nil))
				continue
			}
			got := canonResponse(o.rc)
			res.Count("responses_compared", 1)
			res.Count("concurrent_responses_compared", 1)
			if hitByTag[tag] {
				res.Count("responses_compared_after_full_hit", 1)
				keys = append(keys, fw.HashKey(h.l.SuperSDL, rq.Text, rq.Vars, tag))
			}
			if faultByTag[tag] != "" {
				res.Count("responses_compared_under_cache_fault", 1)
			}
			if got != want[o.i] {
				o := o
				h.cap.violate(res, "response-mismatch", "the response with the shared entity cache attached differs from the response of the same request without a cache", match, func() any {
					return wd(map[string]any{"first_difference": firstDiff(want[o.i], got), "response_with_cache": truncate(o.rc.Raw, 2500)})
				})
			}
		}
	}
	h.judgeStores(calls, resps, defaultOf, detail)
	h.classifyEntityResponses(calls, resps, defaultOf)
	total := 0
	for i := range h.seq {
		if usable[i] {
			total += nReq[i] * G
		}
	}
	if d := total - len(resps); d > 0 {
		// includes requests coalesced by the subgraph single flight
		res.Count("subgraph_requests_saved", int64(d))
	}
	if fullHitAny && res.Sample == nil {
		res.Sample = map[string]any{"case_kind": "concurrent", "goroutines": G, "history": historyDump(len(h.seq)), "cache_calls": len(calls)}
	}
	return keys
}
