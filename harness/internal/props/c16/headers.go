package c16

import (
	"fmt"
	"math/rand/v2"
	"strings"
)

// Generated grammar of Cache-Control response header values: a directive list is chosen first
// (so which directives are meant is known), then rendered with random case, whitespace, argument
// form, duplicates, several field lines, and — for the malformed class — one deliberate defect.

type hdrChoice struct {
	Lines  []string // nil = no Cache-Control header at all
	Intent string   // storable | refusal | non-public | malformed | absent
	J      ccJudgement
}

var ageValues = []string{"0", "1", "5", "30", "60", "300", "3600", "86400", "007", "2147483647", "2147483648", "4294967296", "99999999999999999999", "9223372036854775808"}
var badAgeValues = []string{"-1", "-60", "+60", "1.5", "1e3", "abc", "60s", "0x10", "", "６０", "1_000", "--5"}

func randCase(r *rand.Rand, s string) string {
	switch r.IntN(4) {
	case 0:
		return strings.ToUpper(s)
	case 1:
		b := []byte(s)
		for i := range b {
			if r.IntN(2) == 0 && b[i] >= 'a' && b[i] <= 'z' {
				b[i] -= 32
			}
		}
		return string(b)
	case 2:
		if len(s) > 0 {
			return strings.ToUpper(s[:1]) + s[1:]
		}
	}
	return s
}

func ageDirective(r *rand.Rand, name, val string) string {
	n := randCase(r, name)
	switch r.IntN(6) {
	case 0:
		return n + `="` + val + `"` // quoted form: recipients ought to accept both (RFC 9111 §5.2)
	}
	return n + "=" + val
}

var innocuous = []string{"must-revalidate", "proxy-revalidate", "no-transform", "immutable", "stale-while-revalidate=30", "stale-if-error=600", "must-understand", "x-ext", "x-ext=1", `x-ext="a b"`, `community="UCI"`, `x-note="no-store, private"`, `ext="max-age=1"`, `x="pub\"lic"`, "publicity", "not-private", "xno-store", "no-storey", "max-agee=1", "s-max-age=1"}

var seps = []string{",", ", ", ", ", ", ", " ,", " , ", ",\t", ",,", ", ,", ",  "}

func renderList(r *rand.Rand, ds []string) []string {
	if len(ds) == 0 {
		return []string{""}
	}
	nLines := 1
	if len(ds) > 1 && r.IntN(4) == 0 {
		nLines = 2 + r.IntN(2)
	}
	lines := make([]string, 0, nLines)
	per := (len(ds) + nLines - 1) / nLines
	for i := 0; i < len(ds); i += per {
		end := i + per
		if end > len(ds) {
			end = len(ds)
		}
		var sb strings.Builder
		if r.IntN(8) == 0 {
			sb.WriteString(" ")
		}
		if r.IntN(12) == 0 {
			sb.WriteString(",")
		}
		for k, d := range ds[i:end] {
			if k > 0 {
				sb.WriteString(seps[r.IntN(len(seps))])
			}
			sb.WriteString(d)
		}
		if r.IntN(12) == 0 {
			sb.WriteString(", ")
		}
		if r.IntN(10) == 0 {
			sb.WriteString(" ")
		}
		lines = append(lines, sb.String())
	}
	return lines
}

func malform(r *rand.Rand, lines []string) []string {
	out := append([]string(nil), lines...)
	k := r.IntN(len(out))
	s := out[k]
	switch r.IntN(14) {
	case 12, 13:
		// a character that cannot start a token, glued in front of a directive
		bad := string(";/(@[?{:<\\"[r.IntN(10)])
		parts := strings.Split(s, ",")
		q := r.IntN(len(parts))
		trim := strings.TrimLeft(parts[q], " \t")
		parts[q] = parts[q][:len(parts[q])-len(trim)] + bad + trim
		s = strings.Join(parts, ",")
	case 0:
		s += `, x="unterminated`
	case 1:
		s = strings.Replace(s, ",", ";", 1)
		if !strings.Contains(s, ";") {
			s += "; x"
		}
	case 2:
		s = strings.Replace(s, ",", " ", 1)
		if !strings.Contains(s, " ") {
			s += " x"
		}
	case 3:
		s = strings.Replace(s, "=", " = ", 1)
		if !strings.Contains(s, " = ") {
			s += ", x = 1"
		}
	case 4:
		s += ", =5"
	case 5:
		s += ", x="
	case 6:
		s = "\x01" + s
	case 7:
		s += ", x\x7fy"
	case 8:
		s += ", caf\xc3\xa9"
	case 9:
		s += `, "quoted-directive"`
	case 10:
		s += ", a=b=c"
	case 11:
		s += ",\r\n x"
	}
	out[k] = s
	return out
}

// genHeader draws one header. pStorable in percent steers the share of plainly storable headers.
func genHeader(r *rand.Rand, pStorable int) hdrChoice {
	roll := r.IntN(100)
	var ds []string
	intent := ""
	lifetime := func() {
		switch r.IntN(8) {
		case 0, 1:
			// default applies
		case 2, 3, 4:
			ds = append(ds, ageDirective(r, "max-age", ageValues[r.IntN(len(ageValues))]))
		case 5:
			ds = append(ds, ageDirective(r, "s-maxage", ageValues[r.IntN(len(ageValues))]))
		case 6:
			a, b := ageValues[r.IntN(len(ageValues))], ageValues[r.IntN(len(ageValues))]
			ds = append(ds, ageDirective(r, "s-maxage", a), ageDirective(r, "max-age", b))
		case 7:
			// duplicate with another value
			n := []string{"max-age", "s-maxage"}[r.IntN(2)]
			ds = append(ds, ageDirective(r, n, ageValues[r.IntN(len(ageValues))]), ageDirective(r, n, ageValues[r.IntN(len(ageValues))]))
		}
		if r.IntN(12) == 0 {
			n := []string{"max-age", "s-maxage"}[r.IntN(2)]
			ds = append(ds, n+"="+badAgeValues[r.IntN(len(badAgeValues))])
		}
		if r.IntN(25) == 0 {
			ds = append(ds, randCase(r, []string{"max-age", "s-maxage"}[r.IntN(2)]))
		}
	}
	extras := func() {
		for r.IntN(3) == 0 {
			ds = append(ds, innocuous[r.IntN(len(innocuous))])
		}
	}
	public := func() {
		p := randCase(r, "public")
		switch r.IntN(20) {
		case 0:
			p += "=1"
		case 1:
			p += `="x"`
		}
		ds = append(ds, p)
		if r.IntN(10) == 0 {
			ds = append(ds, randCase(r, "public"))
		}
	}
	refusal := func() {
		switch r.IntN(9) {
		case 0, 1:
			ds = append(ds, randCase(r, "no-store"))
		case 2, 3:
			ds = append(ds, randCase(r, "private"))
		case 4, 5:
			ds = append(ds, randCase(r, "no-cache"))
		case 6:
			ds = append(ds, randCase(r, "private")+`="Set-Cookie"`)
		case 7:
			ds = append(ds, randCase(r, "no-cache")+`="X-A, X-B"`)
		case 8:
			ds = append(ds, randCase(r, []string{"no-store", "private", "no-cache"}[r.IntN(3)])+"="+[]string{"1", "x", `""`, "0"}[r.IntN(4)])
		}
	}
	switch {
	case roll < pStorable:
		intent = "storable"
		public()
		lifetime()
		extras()
	case roll < pStorable+(100-pStorable)*35/100:
		intent = "refusal"
		if r.IntN(5) != 0 {
			public()
		}
		lifetime()
		refusal()
		if r.IntN(6) == 0 {
			refusal()
		}
		extras()
	case roll < pStorable+(100-pStorable)*60/100:
		intent = "non-public"
		lifetime()
		extras()
		if r.IntN(8) == 0 {
			return hdrChoice{Lines: nil, Intent: "absent", J: judgeHeader(nil)}
		}
	default:
		intent = "malformed"
		switch r.IntN(3) {
		case 0:
			public()
			lifetime()
		case 1:
			public()
			lifetime()
			refusal()
		case 2:
			lifetime()
		}
		extras()
	}
	r.Shuffle(len(ds), func(i, j int) { ds[i], ds[j] = ds[j], ds[i] })
	lines := renderList(r, ds)
	if intent == "malformed" {
		lines = malform(r, lines)
	}
	return hdrChoice{Lines: lines, Intent: intent, J: judgeHeader(lines)}
}

func (h hdrChoice) String() string {
	if h.Lines == nil {
		return "<no Cache-Control header>"
	}
	return fmt.Sprintf("%q", h.Lines)
}
