package c16

import (
	"bytes"
	"context"
	"errors"
	"hash/fnv"
	"sort"
	"sync"
	"time"

	"github.com/wundergraph/graphql-go-tools/v2/pkg/caching"
)

// recCache is the harness's own implementation of caching.Cache: an in-memory map that records
// every call and can misbehave within the interface contract (errors, partial answers, lost
// writes, evictions). All state is guarded by mu; it never calls back into the engine.

type reqTagKey struct{}

func withReqTag(ctx context.Context, tag int) context.Context {
	return context.WithValue(ctx, reqTagKey{}, tag)
}

type cacheFaults struct {
	GetErr   int // per mille of GetMany calls that fail
	SetErr   int // per mille of SetMany calls that fail
	DropKey  int // per mille of present keys withheld from a GetMany answer (partial hit)
	MissAll  int // per mille of GetMany calls answered with nothing
	EvictPct int // percent of entries evicted between two requests
}

func (f cacheFaults) any() bool { return f != cacheFaults{} }

type setItem struct {
	Key   string
	Value []byte // snapshot
	TTL   time.Duration
}

type cacheCall struct {
	Seq      int
	Tag      int // gateway request the call belongs to (-1 unknown)
	Get      bool
	Keys     []string  // GetMany: keys asked, in order
	Present  []bool    // GetMany: per key, in the store at that time
	Returned []bool    // GetMany: per key, part of the answer
	StoredBy []int     // GetMany: per key, tag of the request that stored the entry (-2 absent)
	Err      string    // injected error ("" none)
	Items    []setItem // SetMany
	Stored   int       // SetMany: items really written
	Class    string    // GetMany: full-hit | partial-hit | miss | error ; as ANSWERED
	Fault    string    // which fault was injected ("" none)
}

type entry struct {
	served []byte // the slice handed in by the engine (served as is, like an in-memory cache would)
	snap   []byte // private copy taken at store time
	ttl    time.Duration
	byTag  int // request that stored it
}

type recCache struct {
	mu     sync.Mutex
	m      map[string]*entry
	calls  []*cacheCall
	faults cacheFaults
	salt   uint64
	nth    map[string]int // per call-signature counter: fault decisions are a function of (salt, signature, n)
	// mutated: keys whose served bytes no longer equal the snapshot
	mutated        []string
	errorsReported int
}

func newRecCache(salt uint64) *recCache {
	return &recCache{m: map[string]*entry{}, salt: salt, nth: map[string]int{}}
}

var errInjectedGet = errors.New("injected cache lookup failure")
var errInjectedSet = errors.New("injected cache write failure")

func (c *recCache) setFaults(f cacheFaults) {
	c.mu.Lock()
	c.faults = f
	c.mu.Unlock()
}

// roll: deterministic per (salt, what, signature, occurrence) decision in [0,1000).
func (c *recCache) roll(what, sig string) int {
	k := what + "|" + sig
	n := c.nth[k]
	c.nth[k] = n + 1
	h := fnv.New64a()
	var b [8]byte
	for i := 0; i < 8; i++ {
		b[i] = byte(c.salt >> (8 * i))
	}
	h.Write(b[:])
	h.Write([]byte(k))
	h.Write([]byte{byte(n), byte(n >> 8)})
	return int(h.Sum64() % 1000)
}

func tagOf(ctx context.Context) int {
	if ctx == nil {
		return -1
	}
	if t, ok := ctx.Value(reqTagKey{}).(int); ok {
		return t
	}
	return -1
}

func (c *recCache) GetMany(ctx context.Context, keys []string) (map[string]caching.Item, error) {
	c.mu.Lock()
	defer c.mu.Unlock()
	call := &cacheCall{Seq: len(c.calls), Tag: tagOf(ctx), Get: true, Keys: append([]string(nil), keys...), Present: make([]bool, len(keys)), Returned: make([]bool, len(keys)), StoredBy: make([]int, len(keys))}
	c.calls = append(c.calls, call)
	sig := ""
	for _, k := range keys {
		sig += k + ","
	}
	out := map[string]caching.Item{}
	nPresent := 0
	for i, k := range keys {
		call.StoredBy[i] = -2
		if e, ok := c.m[k]; ok {
			call.Present[i] = true
			call.StoredBy[i] = e.byTag
			nPresent++
			if !bytes.Equal(e.served, e.snap) {
				c.mutated = append(c.mutated, k)
			}
		}
	}
	if c.faults.GetErr > 0 && c.roll("geterr", sig) < c.faults.GetErr {
		call.Err, call.Class, call.Fault = errInjectedGet.Error(), "error", "get-error"
		if c.roll("geterr-partial", sig) < 500 {
			// an error together with a (complete) answer: the answer must not be trusted
			for i, k := range keys {
				if call.Present[i] {
					e := c.m[k]
					out[k] = caching.Item{Key: k, Value: e.served, TTL: e.ttl}
				}
			}
			return out, errInjectedGet
		}
		return nil, errInjectedGet
	}
	if c.faults.MissAll > 0 && c.roll("missall", sig) < c.faults.MissAll {
		call.Class = "miss"
		if nPresent > 0 {
			call.Fault = "answer-nothing"
		}
		return out, nil
	}
	nRet := 0
	for i, k := range keys {
		if !call.Present[i] {
			continue
		}
		if c.faults.DropKey > 0 && c.roll("drop", k) < c.faults.DropKey {
			call.Fault = "partial-answer"
			continue
		}
		e := c.m[k]
		out[k] = caching.Item{Key: k, Value: e.served, TTL: e.ttl}
		call.Returned[i] = true
		nRet++
	}
	switch {
	case nRet == len(keys) && len(keys) > 0:
		call.Class = "full-hit"
	case nRet == 0:
		call.Class = "miss"
	default:
		call.Class = "partial-hit"
	}
	return out, nil
}

func (c *recCache) SetMany(ctx context.Context, items []caching.Item) error {
	c.mu.Lock()
	defer c.mu.Unlock()
	call := &cacheCall{Seq: len(c.calls), Tag: tagOf(ctx)}
	c.calls = append(c.calls, call)
	sig := ""
	for _, it := range items {
		call.Items = append(call.Items, setItem{Key: it.Key, Value: append([]byte(nil), it.Value...), TTL: it.TTL})
		sig += it.Key + ","
	}
	for _, it := range items {
		if it.TTL <= 0 {
			call.Err, call.Fault = caching.ErrMissingTTL.Error(), "contract-nonpositive-ttl"
			return caching.ErrMissingTTL
		}
	}
	store := func(it caching.Item) {
		c.m[it.Key] = &entry{served: it.Value, snap: append([]byte(nil), it.Value...), ttl: it.TTL, byTag: call.Tag}
		call.Stored++
	}
	if c.faults.SetErr > 0 && c.roll("seterr", sig) < c.faults.SetErr {
		call.Err, call.Fault = errInjectedSet.Error(), "set-error"
		switch c.roll("seterr-how", sig) % 3 {
		case 0: // nothing written
			return errInjectedSet
		case 1: // everything written, the acknowledgement was lost
			for _, it := range items {
				store(it)
			}
			return errInjectedSet
		default: // a prefix written
			var known []string
			for i, it := range items {
				if i%2 == 0 {
					store(it)
					known = append(known, it.Key)
				}
			}
			return &caching.SetManyError{KnownStoredKeys: known, Err: errInjectedSet}
		}
	}
	for _, it := range items {
		store(it)
	}
	return nil
}

// evict drops a deterministic subset between two requests; returns the number evicted.
func (c *recCache) evict(round int) int {
	c.mu.Lock()
	defer c.mu.Unlock()
	if c.faults.EvictPct <= 0 {
		return 0
	}
	keys := make([]string, 0, len(c.m))
	for k := range c.m {
		keys = append(keys, k)
	}
	sort.Strings(keys)
	n := 0
	for _, k := range keys {
		if c.roll("evict", k)%100 < c.faults.EvictPct {
			delete(c.m, k)
			n++
		}
	}
	return n
}

func (c *recCache) callsSince(seq int) []*cacheCall {
	c.mu.Lock()
	defer c.mu.Unlock()
	return append([]*cacheCall(nil), c.calls[seq:]...)
}

func (c *recCache) numCalls() int {
	c.mu.Lock()
	defer c.mu.Unlock()
	return len(c.calls)
}

func (c *recCache) allCalls() []*cacheCall { return c.callsSince(0) }

func (c *recCache) storedBy(key string) (int, bool) {
	c.mu.Lock()
	defer c.mu.Unlock()
	e, ok := c.m[key]
	if !ok {
		return 0, false
	}
	return e.byTag, true
}

func (c *recCache) takeMutated() []string {
	c.mu.Lock()
	defer c.mu.Unlock()
	m := c.mutated
	c.mutated = nil
	return m
}

func (c *recCache) onError(error) {
	c.mu.Lock()
	c.errorsReported++
	c.mu.Unlock()
}

func (c *recCache) reported() int {
	c.mu.Lock()
	defer c.mu.Unlock()
	return c.errorsReported
}
