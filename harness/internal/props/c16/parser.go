package c16

import (
	"fmt"
	"net/http"
	"strings"
	"time"

	"github.com/wundergraph/graphql-go-tools/v2/pkg/caching"
	rcache "github.com/wundergraph/graphql-go-tools/v2/pkg/engine/cache"

	"verifharness/internal/fw"
)

// runParser drives the deciding unit of the storability rule — caching.TTL over
// cache.ParseCacheControlResponse — directly with the generated header corpus.

func permutations(xs []string, fn func([]string)) {
	var rec func(cur []string, used []bool)
	rec = func(cur []string, used []bool) {
		fn(cur)
		for i, x := range xs {
			if used[i] {
				continue
			}
			used[i] = true
			rec(append(cur, x), used)
			used[i] = false
		}
	}
	rec(nil, make([]bool, len(xs)))
}

func runParser(c *fw.Ctx, idx int) fw.Result {
	res := fw.Result{Key: fw.HashKey("c16-parser", idx)}
	r := c.Rng(idx, "c16-parser")
	n := 4000
	pos, neg := 0, 0
	var keys []string
	seen := map[string]bool{}
	var cp capper
	check := func(hc hdrChoice, def time.Duration, enumerated bool) {
		hdr := http.Header{}
		if hc.Lines != nil {
			hdr["Cache-Control"] = append([]string(nil), hc.Lines...)
		}
		fw.SetContext(map[string]any{"cache_control_lines": hc.Lines, "default_ttl": def.String()})
		ttl, ok := caching.TTL(hdr, def)
		cc, perr := rcache.ParseCacheControlResponse(hdr)
		res.Count("parser_headers", 1)
		if enumerated {
			res.Count("parser_headers_enumerated", 1)
		}
		res.Observe("parser_header_intents", hc.Intent)
		j := hc.J
		if !j.WellFormed {
			res.Count("parser_headers_malformed_by_reference", 1)
			if perr == nil {
				res.Count("parser_malformed_by_reference_but_parsed", 1)
			}
		} else if perr != nil {
			res.Count("parser_wellformed_by_reference_but_rejected", 1)
			res.Observe("parser_wellformed_rejected_samples", truncate(j.Raw, 80))
		}
		if perr == nil && j.WellFormed && cc != nil {
			refRefusal := j.Refusal != ""
			repoRefusal := cc.NoStore || cc.NoCache != nil || cc.Private != nil
			if cc.Public == j.Public && refRefusal == repoRefusal {
				res.Count("parser_directive_presence_agrees", 1)
			} else {
				res.Count("parser_directive_presence_differs", 1)
				res.Observe("parser_presence_differs_samples", truncate(j.Raw, 80))
			}
		}
		k := fw.HashKey(j.Raw, def.String(), hc.Lines == nil)
		if !seen[k] {
			seen[k] = true
			keys = append(keys, k)
		}
		if !ok {
			neg++
			res.Count("parser_negative_decisions", 1)
			if j.WellFormed && j.Public && j.Refusal == "" && j.LifetimeJudged && ((j.FromDefault && def > 0) || (!j.FromDefault && j.Lifetime.Sign() > 0)) {
				res.Count("parser_refused_although_storable", 1) // allowed: refusing is never a violation
				res.Observe("parser_refused_storable_samples", truncate(j.Raw, 80))
			}
			if ttl != 0 {
				res.Count("parser_nonzero_ttl_with_refusal", 1)
			}
			return
		}
		pos++
		res.Count("parser_positive_decisions", 1)
		if ttl <= 0 {
			res.Count("parser_positive_decision_nonpositive_ttl", 1)
		}
		kind, why, nj := j.storeVerdict(ttl, def)
		if kind == "" {
			if nj != "" {
				res.Count("parser_positive_not_judged_"+nj, 1)
			} else {
				res.Count("parser_positive_judged_ok", 1)
				res.Observe("parser_lifetime_sources", j.Source)
			}
			return
		}
		m := map[string]string{"header_wellformed": fmt.Sprint(j.WellFormed), "refusal": j.Refusal, "public": fmt.Sprint(j.Public), "lifetime_source": j.Source, "duplicate_lifetime_differs": fmt.Sprint(j.DupDiffers), "refusal_word_preceded_by": j.RefusalAfter, "unit": "caching.TTL"}
		cp.violate(&res, "ttl-decision."+strings.TrimPrefix(kind, "store-"), "caching.TTL declares a response storable although "+why, m, func() any {
			return map[string]any{
				"cache_control_lines": hc.Lines, "cache_control_combined": j.Raw, "default_ttl": def.String(), "ttl_returned": ttl.String(),
				"reference_reading": map[string]any{"well_formed": j.WellFormed, "public": j.Public, "refusal": j.Refusal, "lifetime_source": j.Source, "lifetime_seconds": fmt.Sprint(j.Lifetime)},
			}
		})
	}
	if idx == 0 {
		base := []string{"public", "private", "no-store", "no-cache", "max-age=60", "s-maxage=30"}
		permutations(base, func(ds []string) {
			for _, form := range []int{0, 1} {
				xs := append([]string(nil), ds...)
				if form == 1 {
					for i := range xs {
						xs[i] = strings.ToUpper(xs[i])
					}
				}
				var lines []string
				if len(xs) > 0 {
					lines = []string{strings.Join(xs, ", ")}
				}
				check(hdrChoice{Lines: lines, Intent: "enumerated", J: judgeHeader(lines)}, 5*time.Minute, true)
			}
		})
	}
	for k := 0; k < n; k++ {
		hc := genHeader(r, 40)
		check(hc, defaultTTLs[r.IntN(len(defaultTTLs))], false)
	}
	res.Keys = keys
	res.Nontrivial = pos > 0 && neg > 0
	res.Sample = map[string]any{"case_kind": "parser", "headers": n, "positive": pos, "negative": neg}
	return res
}
