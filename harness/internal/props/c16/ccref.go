package c16

import (
	"math/big"
	"strings"
	"time"
)

// Independent reference reading of a Cache-Control response field, as far as property C16 needs it
// (RFC 9111 §5.2, list syntax of RFC 9110 §5.6.1, token / quoted-string of RFC 9110 §5.6.2/§5.6.4).
// It shares nothing with the repository's lexer.

type ccDirective struct {
	name   string // lower case
	hasArg bool
	arg    string // unquoted / unescaped argument
	quoted bool
}

func isTchar(b byte) bool {
	switch {
	case b >= '0' && b <= '9', b >= 'a' && b <= 'z', b >= 'A' && b <= 'Z':
		return true
	}
	return strings.IndexByte("!#$%&'*+-.^_`|~", b) >= 0
}

// refTokenise reads the combined field value. ok=false: the value is not a well-formed
// #cache-directive list.
func refTokenise(v string) (dirs []ccDirective, ok bool) {
	i, n := 0, len(v)
	ows := func() {
		for i < n && (v[i] == ' ' || v[i] == '\t') {
			i++
		}
	}
	for {
		ows()
		if i >= n {
			return dirs, true
		}
		if v[i] == ',' {
			i++
			continue
		}
		st := i
		for i < n && isTchar(v[i]) {
			i++
		}
		if i == st {
			return dirs, false
		}
		d := ccDirective{name: strings.ToLower(v[st:i])}
		if i < n && v[i] == '=' {
			i++
			d.hasArg = true
			switch {
			case i < n && v[i] == '"':
				i++
				var sb strings.Builder
				closed := false
				for i < n {
					c := v[i]
					if c == '"' {
						i++
						closed = true
						break
					}
					if c == '\\' {
						if i+1 >= n {
							return dirs, false
						}
						e := v[i+1]
						if !(e == '\t' || e == ' ' || (e >= 0x21 && e <= 0x7e) || e >= 0x80) {
							return dirs, false
						}
						sb.WriteByte(e)
						i += 2
						continue
					}
					// qdtext
					if !(c == '\t' || c == ' ' || c == 0x21 || (c >= 0x23 && c <= 0x5b) || (c >= 0x5d && c <= 0x7e) || c >= 0x80) {
						return dirs, false
					}
					sb.WriteByte(c)
					i++
				}
				if !closed {
					return dirs, false
				}
				d.arg, d.quoted = sb.String(), true
			default:
				as := i
				for i < n && isTchar(v[i]) {
					i++
				}
				if i == as {
					return dirs, false
				}
				d.arg = v[as:i]
			}
		}
		dirs = append(dirs, d)
		ows()
		if i < n && v[i] != ',' {
			return dirs, false
		}
	}
}

// lenientWords lists (lower case) every maximal run of token characters of a value that is NOT a
// well-formed directive list, skipping the content of quoted-strings that are properly closed. An
// unterminated quote hides nothing.
type lword struct {
	w  string
	at int
}

func lenientWords(v string) []lword {
	var out []lword
	i, n := 0, len(v)
	for i < n {
		c := v[i]
		switch {
		case c == '"':
			k := i + 1
			closed := false
			for k < n {
				if v[k] == '\\' && k+1 < n {
					k += 2
					continue
				}
				if v[k] == '"' {
					closed = true
					break
				}
				k++
			}
			if closed {
				i = k + 1
			} else {
				i++
			}
		case isTchar(c):
			st := i
			for i < n && isTchar(v[i]) {
				i++
			}
			out = append(out, lword{strings.ToLower(v[st:i]), st})
		default:
			i++
		}
	}
	return out
}

// deltaSeconds: 1*DIGIT, saturating at 2^31 (RFC 9111 §1.2.2).
func deltaSeconds(s string) (*big.Int, bool) {
	if s == "" {
		return nil, false
	}
	for i := 0; i < len(s); i++ {
		if s[i] < '0' || s[i] > '9' {
			return nil, false
		}
	}
	x, ok := new(big.Int).SetString(s, 10)
	if !ok {
		return nil, false
	}
	limit := new(big.Int).Lsh(big.NewInt(1), 31)
	if x.Cmp(limit) > 0 {
		x = limit
	}
	return x, true
}

// ccJudgement is what the statement lets the oracle demand for one response header.
type ccJudgement struct {
	Raw        string
	WellFormed bool
	Public     bool   // a `public` directive is present (well-formed) / the word occurs at all (malformed)
	Refusal    string // "" or the first of no-store / no-cache / private present (directive when well-formed; word outside closed quoted-strings when malformed)
	// RefusalAfter (malformed only): what precedes the refusal word: start | delimiter | equals | quote | invalid-token-char
	RefusalAfter string
	// LifetimeJudged: the statement determines the lifetime: first s-maxage, else first max-age (valid
	// delta-seconds), else the default. Otherwise only WeakBound applies.
	LifetimeJudged bool
	Lifetime       *big.Int // seconds (when judged and from a directive)
	FromDefault    bool
	Source         string   // s-maxage | max-age | default | unjudged
	DupDiffers     bool     // the deciding directive occurs again with another value
	WeakBound      *big.Int // max of every valid s-maxage / max-age number in the header (nil: none)
}

func joinLines(lines []string) string { return strings.Join(lines, ", ") }

func judgeHeader(lines []string) ccJudgement {
	raw := joinLines(lines)
	j := ccJudgement{Raw: raw, Source: "unjudged"}
	dirs, ok := refTokenise(raw)
	j.WellFormed = ok
	if !ok {
		// safe direction only: does the word occur as a token anywhere outside a closed quoted-string?
		for _, lw := range lenientWords(raw) {
			switch lw.w {
			case "public":
				j.Public = true
			case "no-store", "no-cache", "private":
				if j.Refusal == "" {
					j.Refusal = lw.w
					switch {
					case lw.at == 0:
						j.RefusalAfter = "start"
					case strings.IndexByte(", \t", raw[lw.at-1]) >= 0:
						j.RefusalAfter = "delimiter"
					case raw[lw.at-1] == '=':
						j.RefusalAfter = "equals"
					case raw[lw.at-1] == '"':
						j.RefusalAfter = "quote"
					default:
						j.RefusalAfter = "invalid-token-char"
					}
				}
			}
		}
		return j
	}
	var smax, mage []ccDirective
	for _, d := range dirs {
		switch d.name {
		case "public":
			j.Public = true
		case "no-store", "no-cache", "private":
			if j.Refusal == "" {
				j.Refusal = d.name
			}
		case "s-maxage":
			smax = append(smax, d)
		case "max-age":
			mage = append(mage, d)
		}
	}
	for _, d := range append(append([]ccDirective{}, smax...), mage...) {
		if x, ok := deltaSeconds(d.arg); ok && d.hasArg {
			if j.WeakBound == nil || x.Cmp(j.WeakBound) > 0 {
				j.WeakBound = x
			}
		}
	}
	decide := func(name string, occ []ccDirective) {
		x, ok := deltaSeconds(occ[0].arg)
		if !ok || !occ[0].hasArg {
			return // invalid freshness information: the statement does not say which lifetime applies
		}
		j.LifetimeJudged, j.Lifetime, j.Source = true, x, name
		for _, o := range occ[1:] {
			if y, ok := deltaSeconds(o.arg); !ok || y.Cmp(x) != 0 {
				j.DupDiffers = true
			}
		}
	}
	switch {
	case len(smax) > 0:
		decide("s-maxage", smax)
	case len(mage) > 0:
		decide("max-age", mage)
	default:
		j.LifetimeJudged, j.FromDefault, j.Source = true, true, "default"
	}
	return j
}

// storeVerdict judges one stored item against the header of its source response.
// kind "" = allowed (or not judged: see notJudged).
func (j ccJudgement) storeVerdict(ttl, defaultTTL time.Duration) (kind, why string, notJudged string) {
	if j.Refusal != "" {
		return "store-with-refusal", "the source response carries " + j.Refusal, ""
	}
	if !j.Public {
		return "store-non-public", "the source response is not explicitly public", ""
	}
	if !j.WellFormed {
		return "", "", "malformed-header"
	}
	t := big.NewInt(int64(ttl))
	sec := big.NewInt(int64(time.Second))
	if j.LifetimeJudged {
		var bound *big.Int
		if j.FromDefault {
			bound = big.NewInt(int64(defaultTTL))
		} else {
			bound = new(big.Int).Mul(j.Lifetime, sec)
		}
		if t.Cmp(bound) > 0 {
			return "store-ttl-exceeds-lifetime", "ttl " + ttl.String() + " exceeds the lifetime given by " + j.Source, ""
		}
		return "", "", ""
	}
	// invalid number in the deciding directive: only the weak bound (some lifetime named by the response or the default)
	bound := big.NewInt(int64(defaultTTL))
	if j.WeakBound != nil {
		if b := new(big.Int).Mul(j.WeakBound, sec); b.Cmp(bound) > 0 {
			bound = b
		}
	}
	if t.Cmp(bound) > 0 {
		return "store-ttl-exceeds-lifetime", "ttl " + ttl.String() + " exceeds every lifetime the response names and the default", ""
	}
	return "", "", "invalid-delta-seconds"
}
