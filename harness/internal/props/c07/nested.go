package c07

// Nested-@requires layouts with PARTIAL subgraph failures: the second case kind of C07.
//
// internal/fed only knows flat @requires (a leaf of the same entity) and its transport only injects
// whole-request faults. Here an entity A has a field computed from
//
//	@requires(fields: "b { x }")      or      @requires(fields: "b { c { y } }")
//
// where b / c are entities (resolved by their own entity fetches, possibly in a third / fourth
// subgraph) or value objects, single or lists, and the required leaf is owned by another subgraph than
// the computed field. The subgraphs are semantic (a tiny data model, every value is a tagged string
// that is a pure function of (type, object id, field)) and can fail PER POSITION: one field of one
// object answers null + an error with the exact path, or one entity of an _entities answer is null +
// an error with path ["_entities", i]. Whole-request faults (the nine kinds of the first case kind)
// are enumerated as well. Every layout is run with the engine option ValidateRequiredExternalFields
// on or off (PRNG).
//
// Everything is PRNG-parameterised: names, number of hops, entity / value object / list per hop,
// which subgraph owns which field (2-4 subgraphs), nullability of the leaf / hops / computed field /
// root list, sharing of nested entities between parents, the operation.

import (
	"bytes"
	"context"
	"encoding/json"
	"fmt"
	"io"
	"math/rand/v2"
	"net/http"
	"runtime/debug"
	"sort"
	"strings"
	"sync"
	"sync/atomic"
	"time"

	"github.com/jensneuse/abstractlogger"
	"github.com/vektah/gqlparser/v2"
	gast "github.com/vektah/gqlparser/v2/ast"

	"github.com/wundergraph/graphql-go-tools/execution/engine"
	"github.com/wundergraph/graphql-go-tools/execution/graphql"
	"github.com/wundergraph/graphql-go-tools/v2/pkg/engine/datasource/graphql_datasource"
	"github.com/wundergraph/graphql-go-tools/v2/pkg/engine/plan"
	"github.com/wundergraph/graphql-go-tools/v2/pkg/engine/resolve"

	"verifharness/internal/fed"
	"verifharness/internal/fw"
	"verifharness/internal/ref"
)

// number of cases of this kind per tier (appended after the cases of the first kind)
func nestedCases(tier string) int {
	if tier == fw.Thorough {
		return 1500
	}
	return 120
}

const nrPrelude = `
scalar _Any
scalar _FieldSet
directive @key(fields: _FieldSet!, resolvable: Boolean = true) repeatable on OBJECT | INTERFACE
directive @external on FIELD_DEFINITION | OBJECT
directive @requires(fields: _FieldSet!) on FIELD_DEFINITION
directive @provides(fields: _FieldSet!) on FIELD_DEFINITION
directive @shareable on FIELD_DEFINITION | OBJECT
`

type nrField struct {
	On       int    // index of the type the field is defined on
	Name     string // field name
	Type     string // GraphQL type text
	Owner    int    // index of the owning subgraph
	Kind     string // leaf | hop | computed
	Target   int    // hop: index of the returned type
	List     bool   // hop: list of objects
	Shared   bool   // hop to an entity: several parents point to the same child
	Requires string // computed: the field set
}

type nrType struct {
	Name   string
	Entity bool
	Fields []*nrField // without the key field id
}

type nrSub struct {
	Name     string
	SDL      string
	meta     *plan.DataSourceMetadata
	entities []string
	hasQuery bool
}

type nrLayout struct {
	Types      []*nrType
	Subs       []*nrSub
	RootList   string // Query field returning the list of A
	RootListT  string // its type text
	RootSingle string // Query field returning one A
	// RootHead: only set by the post-fault phase of the response-cache cases (cache.go): a second list root
	// returning the first headN entities of RootList ("" = absent, nothing is rendered for it)
	RootHead        string
	headN           int
	root, fullOwner int // subgraph indexes (as handed to render)
	IDs             []string
	SingleID        string
	Path            []*nrField // the @requires path: hops, then the leaf
	Full            *nrField
	Validate        bool // ValidateRequiredExternalFields (+ BuildFetchReasons / PropagateFetchReasons)
	Reasons         bool // BuildFetchReasons / PropagateFetchReasons without validation
	SuperSDL        string
	Describe        string
	byCoord         map[string]*nrField
}

var (
	nrTypeNames  = [][]string{{"User", "Account", "Member", "Owner"}, {"Address", "Profile", "Wallet", "Team"}, {"Region", "Plan", "Depot", "Vendor"}}
	nrHopNames   = [][]string{{"address", "profile", "home", "primary"}, {"region", "tier", "source", "origin"}}
	nrLeafNames  = []string{"zip", "code", "label", "rank", "tag"}
	nrExtraNames = []string{"note", "hint", "memo", "mark"}
	nrFullNames  = []string{"full", "summary", "digest", "caption"}
	nrSubNames   = []string{"first", "second", "third", "fourth", "accounts", "places", "billing", "search"}
	nrListNames  = []string{"accounts", "members", "everyone", "recent"}
	nrOneNames   = []string{"me", "viewer", "featured"}
)

func nrPick(r *rand.Rand, pool []string) string { return pool[r.IntN(len(pool))] }

func nrCoord(t, f string) string { return t + "." + f }

// genNrLayout builds one nested-@requires configuration.
func genNrLayout(r *rand.Rand) *nrLayout {
	l := &nrLayout{byCoord: map[string]*nrField{}}
	depth := 1 + r.IntN(2)
	for k := 0; k <= depth; k++ {
		l.Types = append(l.Types, &nrType{Name: nrPick(r, nrTypeNames[k]), Entity: k == 0 || r.IntN(3) != 0})
	}
	subNames := append([]string{}, nrSubNames...)
	r.Shuffle(len(subNames), func(i, j int) { subNames[i], subNames[j] = subNames[j], subNames[i] })
	newSub := func() int {
		l.Subs = append(l.Subs, &nrSub{Name: subNames[len(l.Subs)]})
		return len(l.Subs) - 1
	}
	root := newSub()
	fullOwner := root
	if r.IntN(3) == 0 {
		fullOwner = newSub()
	}
	// a subgraph other than the owner of the computed field: an existing one or (while < 4) a new one
	other := func() int {
		var cands []int
		for i := range l.Subs {
			if i != fullOwner {
				cands = append(cands, i)
			}
		}
		if len(l.Subs) < 4 && (len(cands) == 0 || r.IntN(3) != 0) {
			return newSub()
		}
		return cands[r.IntN(len(cands))]
	}
	add := func(f *nrField) *nrField {
		t := l.Types[f.On]
		t.Fields = append(t.Fields, f)
		l.byCoord[nrCoord(t.Name, f.Name)] = f
		return f
	}
	null := func(s string, oneIn int) string {
		if r.IntN(oneIn) == 0 {
			return s + "!"
		}
		return s
	}
	// independent field of A in the root subgraph
	add(&nrField{On: 0, Name: "name", Type: "String", Owner: root, Kind: "leaf"})
	// the path
	owner := other() // owner of the first hop
	for k := 1; k <= depth; k++ {
		t := l.Types[k]
		hop := &nrField{On: k - 1, Name: nrPick(r, nrHopNames[k-1]), Owner: owner, Kind: "hop", Target: k, List: r.IntN(4) == 0}
		// every field on the @requires path is nullable: a failing non-null field would make the subgraph
		// null the enclosing entity, which is the separate per-entity fault
		if hop.List {
			hop.Type = "[" + null(t.Name, 2) + "]"
		} else {
			hop.Type = t.Name
			hop.Shared = t.Entity && r.IntN(3) == 0
		}
		l.Path = append(l.Path, add(hop))
		// an independent sibling of the hop, resolved by the same request
		if r.IntN(3) == 0 {
			add(&nrField{On: k - 1, Name: nrExtraNames[k-1], Type: "String", Owner: owner, Kind: "leaf"})
		}
		// the owner of the next path field on t: value objects stay in the subgraph of the hop
		if t.Entity && r.IntN(4) != 0 {
			owner = other()
		}
	}
	leaf := &nrField{On: depth, Name: nrPick(r, nrLeafNames), Type: "String", Owner: owner, Kind: "leaf"}
	l.Path = append(l.Path, add(leaf))
	if r.IntN(2) == 0 {
		add(&nrField{On: depth, Name: nrExtraNames[2], Type: "String", Owner: owner, Kind: "leaf"})
	}
	var req strings.Builder
	for i, f := range l.Path {
		if i > 0 {
			req.WriteString(" { ")
		}
		req.WriteString(f.Name)
	}
	req.WriteString(strings.Repeat(" }", len(l.Path)-1))
	l.Full = add(&nrField{On: 0, Name: nrPick(r, nrFullNames), Type: null("String", 5), Owner: fullOwner, Kind: "computed", Requires: req.String()})
	// roots and ids
	l.RootList, l.RootSingle = nrPick(r, nrListNames), nrPick(r, nrOneNames)
	a := l.Types[0].Name
	l.RootListT = []string{"[" + a + "!]!", "[" + a + "!]!", "[" + a + "]", "[" + a + "!]", "[" + a + "]!"}[r.IntN(5)]
	n := 1 + r.IntN(4)
	base := 1 + r.IntN(80)
	for i := 0; i < n; i++ {
		l.IDs = append(l.IDs, fmt.Sprint(base+i))
	}
	// the id of the entity behind the single root field carries the marker S, and so does every object below it
	l.SingleID = "S" + fmt.Sprint(base+n+r.IntN(5))
	switch r.IntN(5) {
	case 0:
	case 1:
		l.Reasons = true
	default:
		l.Validate, l.Reasons = true, true
	}
	l.root, l.fullOwner = root, fullOwner
	l.render(root, fullOwner)
	return l
}

func (l *nrLayout) onPath(f *nrField) bool {
	for _, p := range l.Path {
		if p == f {
			return true
		}
	}
	return false
}

// render writes the supergraph, the subgraph SDLs and the planner metadata.
func (l *nrLayout) render(root, fullOwner int) {
	var super strings.Builder
	head := ""
	if l.RootHead != "" {
		head = fmt.Sprintf("  %s: %s\n", l.RootHead, l.RootListT)
	}
	fmt.Fprintf(&super, "type Query {\n  %s: %s\n  %s: %s\n%s}\n", l.RootList, l.RootListT, l.RootSingle, l.Types[0].Name, head)
	for _, t := range l.Types {
		fmt.Fprintf(&super, "type %s {\n", t.Name)
		if t.Entity {
			super.WriteString("  id: ID!\n")
		}
		for _, f := range t.Fields {
			fmt.Fprintf(&super, "  %s: %s\n", f.Name, f.Type)
		}
		super.WriteString("}\n")
	}
	l.SuperSDL = super.String()
	for si, sg := range l.Subs {
		var sb strings.Builder
		meta := &plan.DataSourceMetadata{}
		sg.entities = nil
		if si == root {
			sg.hasQuery = true
			fmt.Fprintf(&sb, "type Query {\n  %s: %s\n  %s: %s\n%s}\n", l.RootList, l.RootListT, l.RootSingle, l.Types[0].Name, head)
			rootFields := []string{l.RootList, l.RootSingle}
			if l.RootHead != "" {
				rootFields = append(rootFields, l.RootHead)
			}
			meta.RootNodes = append(meta.RootNodes, plan.TypeField{TypeName: "Query", FieldNames: rootFields})
		}
		for ti, t := range l.Types {
			var owned, external []*nrField
			for _, f := range t.Fields {
				switch {
				case f.Owner == si:
					owned = append(owned, f)
				case si == fullOwner && l.onPath(f):
					external = append(external, f)
				}
			}
			returned := ti == 0 && si == root
			for _, ot := range l.Types {
				for _, f := range ot.Fields {
					if f.Kind == "hop" && f.Target == ti && f.Owner == si {
						returned = true
					}
				}
			}
			if len(owned) == 0 && len(external) == 0 && !returned {
				continue
			}
			tf := plan.TypeField{TypeName: t.Name}
			if t.Entity {
				stub := len(owned) == 0 && !returned
				fmt.Fprintf(&sb, "type %s @key(fields: \"id\") {\n", t.Name)
				if stub {
					sb.WriteString("  id: ID! @external\n")
					tf.ExternalFieldNames = append(tf.ExternalFieldNames, "id")
				} else {
					sb.WriteString("  id: ID!\n")
					tf.FieldNames = append(tf.FieldNames, "id")
				}
				meta.Keys = append(meta.Keys, plan.FederationFieldConfiguration{TypeName: t.Name, SelectionSet: "id"})
				sg.entities = append(sg.entities, t.Name)
			} else {
				fmt.Fprintf(&sb, "type %s {\n", t.Name)
			}
			for _, f := range t.Fields {
				switch {
				case f.Owner == si && f.Kind == "computed":
					fmt.Fprintf(&sb, "  %s: %s @requires(fields: %q)\n", f.Name, f.Type, f.Requires)
					tf.FieldNames = append(tf.FieldNames, f.Name)
					meta.Requires = append(meta.Requires, plan.FederationFieldConfiguration{TypeName: t.Name, FieldName: f.Name, SelectionSet: f.Requires})
				case f.Owner == si:
					fmt.Fprintf(&sb, "  %s: %s\n", f.Name, f.Type)
					tf.FieldNames = append(tf.FieldNames, f.Name)
				case si == fullOwner && l.onPath(f):
					fmt.Fprintf(&sb, "  %s: %s @external\n", f.Name, f.Type)
					tf.ExternalFieldNames = append(tf.ExternalFieldNames, f.Name)
				}
			}
			sb.WriteString("}\n")
			if t.Entity {
				meta.RootNodes = append(meta.RootNodes, tf)
			} else {
				meta.ChildNodes = append(meta.ChildNodes, tf)
			}
		}
		sg.SDL, sg.meta = sb.String(), meta
	}
	var d strings.Builder
	fmt.Fprintf(&d, "nested @requires: %s.%s @requires(%q) in %s; ", l.Types[0].Name, l.Full.Name, l.Full.Requires, l.Subs[fullOwner].Name)
	for _, f := range l.Path {
		t := l.Types[f.On]
		fmt.Fprintf(&d, "%s.%s: %s in %s", t.Name, f.Name, f.Type, l.Subs[f.Owner].Name)
		if f.Kind == "hop" {
			if l.Types[f.Target].Entity {
				d.WriteString(" (entity")
				if f.Shared {
					d.WriteString(", shared")
				}
				d.WriteString(")")
			} else {
				d.WriteString(" (value object)")
			}
		}
		d.WriteString("; ")
	}
	fmt.Fprintf(&d, "root %s: %s in %s, %d entities; ValidateRequiredExternalFields=%v fetch reasons=%v", l.RootList, l.RootListT, l.Subs[root].Name, len(l.IDs), l.Validate, l.Reasons)
	l.Describe = d.String()
}

// fetchKind: root (no representations), single-entity (the entity is reached without passing a list: the
// planner uses a single entity fetch) or batch-entity. Objects below the single root field carry the id marker S.
func (l *nrLayout) fetchKind(rq *nrRequest) string {
	if len(rq.Reps) == 0 || len(rq.EntIDs) == 0 {
		return "root"
	}
	if !strings.Contains(rq.EntIDs[0], "S") {
		return "batch-entity"
	}
	if rq.EntTypes[0] == l.Types[0].Name {
		return "single-entity"
	}
	for _, f := range l.Path {
		if f.Kind == "hop" && f.List {
			return "batch-entity" // a list between the single root and the entity
		}
		if f.Kind == "hop" && l.Types[f.Target].Name == rq.EntTypes[0] {
			break
		}
	}
	return "single-entity"
}

func (l *nrLayout) hopKinds() string {
	var ks []string
	for _, f := range l.Path {
		if f.Kind != "hop" {
			continue
		}
		k := "value"
		if l.Types[f.Target].Entity {
			k = "entity"
		}
		if f.List {
			k += "-list"
		}
		ks = append(ks, k)
	}
	return strings.Join(ks, ">")
}

// ---- the data model (shared by the semantic subgraphs and the reference)

func (l *nrLayout) leafValue(obj *ref.Obj, f *nrField) string {
	return "v:" + obj.Type + "." + f.Name + "#" + obj.ID
}

// children of obj through a hop field (one element for a single object).
func (l *nrLayout) children(obj *ref.Obj, f *nrField) []*ref.Obj {
	t := l.Types[f.Target]
	n := 1
	if f.List {
		n = 1 + int(ref.H("n", obj.ID, f.Name)%2)
	}
	out := make([]*ref.Obj, n)
	for i := range out {
		var id string
		switch {
		case !t.Entity:
			id = obj.ID + "." + f.Name
		case f.Shared:
			id = strings.ToLower(t.Name[:1]) + fmt.Sprint(ref.H("s", obj.ID, f.Name)%2)
			if strings.Contains(obj.ID, "S") {
				id += "S"
			}
		default:
			id = strings.ToLower(t.Name[:1]) + "-" + obj.ID
		}
		if f.List {
			id += fmt.Sprintf("-%d", i)
		}
		out[i] = &ref.Obj{Type: t.Name, ID: id}
	}
	return out
}

func (l *nrLayout) hopValue(obj *ref.Obj, f *nrField) any {
	cs := l.children(obj, f)
	if !f.List {
		return cs[0]
	}
	out := make([]any, len(cs))
	for i, c := range cs {
		out[i] = c
	}
	return out
}

// input: the @requires input of obj from path position k on, as the data model defines it.
func (l *nrLayout) input(obj *ref.Obj, k int) map[string]any {
	f := l.Path[k]
	if f.Kind == "leaf" {
		return map[string]any{f.Name: l.leafValue(obj, f)}
	}
	cs := l.children(obj, f)
	if !f.List {
		return map[string]any{f.Name: l.input(cs[0], k+1)}
	}
	out := make([]any, len(cs))
	for i, c := range cs {
		out[i] = l.input(c, k+1)
	}
	return map[string]any{f.Name: out}
}

// inputKeys: the field positions the @requires input of obj is read from.
func (l *nrLayout) inputKeys(obj *ref.Obj, k int, into *[]string) {
	f := l.Path[k]
	*into = append(*into, fed.ProvKey(obj.Type, obj.ID, f.Name, nil))
	if f.Kind == "leaf" {
		return
	}
	for _, c := range l.children(obj, f) {
		l.inputKeys(c, k+1, into)
	}
}

// extract: the @requires input a representation carries (ok=false: an input is missing or has the wrong shape).
// A null the representation carries for a hop or the leaf is kept as null.
func (l *nrLayout) extract(rep map[string]any, k int) (map[string]any, bool) {
	f := l.Path[k]
	v, has := rep[f.Name]
	if !has {
		return nil, false
	}
	if f.Kind == "leaf" || v == nil {
		return map[string]any{f.Name: ref.NormalizeJSON(v)}, true
	}
	one := func(x any) (any, bool) {
		if x == nil {
			return nil, true
		}
		m, isObj := x.(map[string]any)
		if !isObj {
			return nil, false
		}
		e, ok := l.extract(m, k+1)
		if !ok {
			return nil, false
		}
		return e, true
	}
	if f.List {
		arr, isList := v.([]any)
		if !isList {
			return nil, false
		}
		out := make([]any, len(arr))
		for i, x := range arr {
			e, ok := one(x)
			if !ok {
				return nil, false
			}
			out[i] = e
		}
		return map[string]any{f.Name: out}, true
	}
	e, ok := one(v)
	if !ok {
		return nil, false
	}
	return map[string]any{f.Name: e}, true
}

// ---- partial faults

// nrFaults is the fault plan of one run.
type nrFaults struct {
	whole  map[reqID]string // (subgraph, operation text) -> whole-request fault kind
	fields map[string]bool  // sub|Type|id|field: the subgraph cannot resolve this field of this object
	ents   map[string]bool  // sub|Type|id: the subgraph answers null for this entity in _entities
}

func nrFieldFault(sub, typ, id, field string) string { return sub + "|" + typ + "|" + id + "|" + field }
func nrEntFault(sub, typ, id string) string          { return sub + "|" + typ + "|" + id }

type nrPos struct {
	path  []any
	key   string // fed.ProvKey
	typ   string
	id    string
	field string
}

type nrResolver struct {
	l         *nrLayout
	sub       int // -1: the monolithic reference
	faults    *nrFaults
	dead      func(key string) bool // reference: this field position was delivered by no successful request
	mu        sync.Mutex
	problems  []string
	positions []nrPos
	triggered int
}

func (r *nrResolver) problem(format string, a ...any) {
	r.mu.Lock()
	if len(r.problems) < 10 {
		r.problems = append(r.problems, fmt.Sprintf(format, a...))
	}
	r.mu.Unlock()
}

func (r *nrResolver) Resolve(obj *ref.Obj, _ *gast.Definition, fd *gast.FieldDefinition, _ map[string]any, path []any) (any, error) {
	l := r.l
	if obj.Type == "Query" {
		if r.sub >= 0 && !l.Subs[r.sub].hasQuery {
			r.problem("root field %s is not resolved by subgraph %s", fd.Name, l.Subs[r.sub].Name)
		}
		key := fed.ProvKey("Query", "root", fd.Name, nil)
		if r.sub < 0 && r.dead(key) {
			return nil, fmt.Errorf("not delivered")
		}
		r.record(path, key, "Query", "root", fd.Name)
		switch fd.Name {
		case l.RootList:
			out := make([]any, len(l.IDs))
			for i, id := range l.IDs {
				out[i] = &ref.Obj{Type: l.Types[0].Name, ID: id}
			}
			return out, nil
		case l.RootSingle:
			return &ref.Obj{Type: l.Types[0].Name, ID: l.SingleID}, nil
		}
		if l.RootHead != "" && fd.Name == l.RootHead {
			out := make([]any, l.headN)
			for i := range out {
				out[i] = &ref.Obj{Type: l.Types[0].Name, ID: l.IDs[i]}
			}
			return out, nil
		}
		return nil, nil
	}
	key := fed.ProvKey(obj.Type, obj.ID, fd.Name, nil)
	if fd.Name == "id" {
		if r.sub < 0 && r.dead(key) {
			return nil, fmt.Errorf("not delivered")
		}
		r.record(path, key, obj.Type, obj.ID, "id")
		return obj.ID, nil
	}
	f := l.byCoord[nrCoord(obj.Type, fd.Name)]
	if f == nil {
		r.problem("unknown field %s.%s", obj.Type, fd.Name)
		return nil, nil
	}
	if r.sub >= 0 {
		if f.Owner != r.sub {
			r.problem("field %s.%s is not resolved by subgraph %s", obj.Type, fd.Name, l.Subs[r.sub].Name)
		}
		if r.faults != nil && r.faults.fields[nrFieldFault(l.Subs[r.sub].Name, obj.Type, obj.ID, fd.Name)] {
			r.mu.Lock()
			r.triggered++
			r.mu.Unlock()
			return nil, fmt.Errorf("injected partial failure: cannot resolve %s.%s of %s [%s]", obj.Type, fd.Name, obj.ID, nrFieldFault(l.Subs[r.sub].Name, obj.Type, obj.ID, fd.Name))
		}
	} else if r.dead(key) {
		return nil, fmt.Errorf("not delivered")
	}
	r.record(path, key, obj.Type, obj.ID, fd.Name)
	switch f.Kind {
	case "leaf":
		return l.leafValue(obj, f), nil
	case "hop":
		return l.hopValue(obj, f), nil
	}
	// computed from the @requires input
	if r.sub < 0 {
		var keys []string
		l.inputKeys(obj, 0, &keys)
		for _, k := range keys {
			if r.dead(k) {
				return nil, fmt.Errorf("a required input was not delivered")
			}
		}
		return fed.RequiresValue(obj.Type, fd.Name, obj.ID, l.input(obj, 0)), nil
	}
	in, ok := l.extract(obj.Rep, 0)
	if !ok {
		r.problem("representation of %s %s lacks the @requires input %q of %s: %s", obj.Type, obj.ID, f.Requires, fd.Name, ref.Canon(anyOf(obj.Rep)))
		return "MISSING-REQUIRES-INPUT", nil
	}
	return fed.RequiresValue(obj.Type, fd.Name, obj.ID, in), nil
}

func (r *nrResolver) record(path []any, key, typ, id, field string) {
	if r.sub < 0 {
		return
	}
	r.mu.Lock()
	r.positions = append(r.positions, nrPos{path: append([]any{}, path...), key: key, typ: typ, id: id, field: field})
	r.mu.Unlock()
}

// nrRequest: one recorded subgraph request (fed.Request plus what this family needs).
type nrRequest struct {
	fed.Request
	// Delivered: the positions whose value is non-null in the semantic answer (key -> position)
	Delivered []nrPos
	// Triggered: number of partial faults that hit this request
	Triggered int
	// Shapes: how each partial fault that hit shows in the answer: "field-null" (the error path addresses a
	// field that is null inside an object that is present), "null-bubbled" (a non-null type made the null
	// propagate upwards inside the subgraph, the error path points below the null), "entity-null"
	Shapes   []string
	HitKeys  []string // the fault (nrFieldFault / nrEntFault key) behind each entry of Shapes
	EntTypes []string // per representation: typename
	EntIDs   []string // per representation: id
}

type nrServer struct {
	l      *nrLayout
	sub    int
	schema *gast.Schema
}

func newNrServer(l *nrLayout, si int) (*nrServer, error) {
	sg := l.Subs[si]
	sdl := sg.SDL + nrPrelude
	switch {
	case len(sg.entities) > 0 && sg.hasQuery:
		sdl += "union _Entity = " + strings.Join(sg.entities, " | ") + "\nextend type Query { _entities(representations: [_Any!]!): [_Entity]! }\n"
	case len(sg.entities) > 0:
		sdl += "union _Entity = " + strings.Join(sg.entities, " | ") + "\ntype Query { _entities(representations: [_Any!]!): [_Entity]! }\n"
	case !sg.hasQuery:
		sdl += "type Query { _noop: Boolean }\n"
	}
	s, err := gqlparser.LoadSchema(&gast.Source{Name: sg.Name, Input: sdl})
	if err != nil {
		return nil, fmt.Errorf("nested-requires subgraph %s SDL rejected by gqlparser: %v\n%s", sg.Name, err, sdl)
	}
	return &nrServer{l: l, sub: si, schema: s}, nil
}

func nrAt(v any, path []any) any {
	for _, p := range path {
		switch k := p.(type) {
		case string:
			m, ok := v.(map[string]any)
			if !ok {
				return nil
			}
			v = m[k]
		case int:
			a, ok := v.([]any)
			if !ok || k < 0 || k >= len(a) {
				return nil
			}
			v = a[k]
		default:
			return nil
		}
	}
	return v
}

// handle answers one subgraph request semantically under the partial faults of the run.
func (s *nrServer) handle(body []byte, faults *nrFaults) ([]byte, *nrRequest) {
	name := s.l.Subs[s.sub].Name
	rec := &nrRequest{}
	rec.Subgraph, rec.RawBody, rec.Status = name, string(body), 200
	var in struct {
		Query     string         `json:"query"`
		Variables map[string]any `json:"variables"`
	}
	dec := json.NewDecoder(bytes.NewReader(body))
	dec.UseNumber()
	if err := dec.Decode(&in); err != nil {
		rec.Problems = append(rec.Problems, "request body is not valid JSON: "+err.Error())
		return []byte(`{"errors":[{"message":"bad request"}]}`), rec
	}
	rec.Query, rec.Variables = in.Query, in.Variables
	doc, gerrs := gqlparser.LoadQuery(s.schema, in.Query)
	if gerrs != nil {
		rec.Problems = append(rec.Problems, "operation is not valid for the subgraph schema: "+gerrs.Error())
		return []byte(`{"errors":[{"message":"invalid operation"}]}`), rec
	}
	op := doc.Operations[0]
	co := ref.Coercer{Schema: s.schema}
	vars, cerr := co.CoerceVariableValues(op, in.Variables)
	if cerr != nil {
		rec.Problems = append(rec.Problems, "variables are not coercible for the subgraph operation: "+cerr.Error())
		return []byte(`{"errors":[{"message":"invalid variables"}]}`), rec
	}
	rs := &nrResolver{l: s.l, sub: s.sub, faults: faults}
	ex := &ref.Executor{Schema: s.schema, Resolver: rs, Vars: vars}
	data := map[string]any{}
	var extraErrs []map[string]any
	var plain gast.SelectionSet
	isEntity := map[string]bool{}
	for _, e := range s.l.Subs[s.sub].entities {
		isEntity[e] = true
	}
	for _, sel := range op.SelectionSet {
		f, ok := sel.(*gast.Field)
		if !ok || f.Name != "_entities" {
			plain = append(plain, sel)
			continue
		}
		var reps []any
		if a := f.Arguments.ForName("representations"); a != nil {
			if v, err := a.Value.Value(in.Variables); err == nil {
				reps, _ = v.([]any)
			}
		}
		key := f.Alias
		if key == "" {
			key = f.Name
		}
		out := make([]any, 0, len(reps))
		for i, rp := range reps {
			rep, _ := rp.(map[string]any)
			rec.Reps = append(rec.Reps, rep)
			tn, _ := rep["__typename"].(string)
			id := ""
			switch x := rep["id"].(type) {
			case string:
				id = x
			case json.Number:
				id = string(x)
			}
			rec.EntTypes, rec.EntIDs = append(rec.EntTypes, tn), append(rec.EntIDs, id)
			if !isEntity[tn] {
				rs.problem("representation %d has typename %q which is not an entity of subgraph %s", i, tn, name)
				out = append(out, nil)
				continue
			}
			if _, hasID := rep["id"]; !hasID || id == "" {
				rs.problem("representation %d of %s lacks the key field id", i, tn)
				out = append(out, nil)
				continue
			}
			if faults != nil && faults.ents[nrEntFault(name, tn, id)] {
				rec.Triggered++
				rec.Shapes, rec.HitKeys = append(rec.Shapes, "entity-null"), append(rec.HitKeys, nrEntFault(name, tn, id))
				out = append(out, nil)
				extraErrs = append(extraErrs, map[string]any{"message": fmt.Sprintf("injected partial failure: entity %s %s unavailable", tn, id), "path": []any{key, i}})
				continue
			}
			res, ok := ex.ExecuteSelection(&ref.Obj{Type: tn, ID: id, Rep: rep}, f.SelectionSet, []any{key, i})
			if !ok {
				out = append(out, nil)
				continue
			}
			out = append(out, res)
		}
		data[key] = out
	}
	var dataOut any = data
	if len(plain) > 0 {
		res, ok := ex.ExecuteSelection(&ref.Obj{Type: "Query", ID: "root"}, plain, nil)
		if !ok {
			dataOut = nil
		} else {
			for k, v := range res {
				data[k] = v
			}
		}
	}
	rec.Problems = append(rec.Problems, rs.problems...)
	rec.Triggered += rs.triggered
	rec.Resolved = map[string]bool{}
	for _, p := range rs.positions {
		if dataOut != nil && nrAt(dataOut, p.path) != nil {
			rec.Resolved[p.key] = true
			rec.Delivered = append(rec.Delivered, p)
		}
	}
	out := map[string]any{"data": dataOut}
	es := extraErrs
	for _, e := range ex.Errors {
		es = append(es, map[string]any{"message": e.Message, "path": e.Path})
		if strings.HasPrefix(e.Message, "injected partial failure") && len(e.Path) > 0 {
			shape := "null-bubbled"
			if m, ok := nrAt(dataOut, e.Path[:len(e.Path)-1]).(map[string]any); ok && m != nil {
				if k, isKey := e.Path[len(e.Path)-1].(string); isKey {
					if v, has := m[k]; has && v == nil {
						shape = "field-null"
					}
				}
			}
			hk := e.Message[strings.LastIndex(e.Message, "[")+1:]
			rec.Shapes, rec.HitKeys = append(rec.Shapes, shape), append(rec.HitKeys, strings.TrimSuffix(hk, "]"))
		}
	}
	if len(es) > 0 {
		out["errors"] = es
	}
	b, err := json.Marshal(out)
	if err != nil {
		rec.Problems = append(rec.Problems, "response not serialisable: "+err.Error())
		return []byte(`{"errors":[{"message":"internal"}]}`), rec
	}
	return b, rec
}

// nrTransport: recording / fault-injecting round tripper over the semantic subgraphs.
type nrTransport struct {
	servers map[string]*nrServer
	clock   atomic.Int64
	mu      sync.Mutex
	log     []*nrRequest
	faults  *nrFaults
	// cacheable: every answer carries a storable Cache-Control header (response-cache cases only)
	cacheable bool
}

func nrResize(resp []byte, more bool) []byte {
	var m map[string]any
	if json.Unmarshal(resp, &m) != nil {
		return resp
	}
	data, _ := m["data"].(map[string]any)
	ents, ok := data["_entities"].([]any)
	if !ok {
		return resp
	}
	if more {
		if len(ents) > 0 {
			ents = append(ents, ents[0])
		} else {
			ents = append(ents, map[string]any{"__typename": "Unknown"})
		}
	} else if len(ents) > 0 {
		ents = ents[:len(ents)-1]
	}
	data["_entities"] = ents
	b, _ := json.Marshal(m)
	return b
}

func (t *nrTransport) RoundTrip(req *http.Request) (*http.Response, error) {
	body, _ := io.ReadAll(req.Body)
	req.Body.Close()
	srv := t.servers[req.URL.Host]
	if srv == nil {
		return nil, fmt.Errorf("no such subgraph %q", req.URL.Host)
	}
	t.mu.Lock()
	faults, cacheable := t.faults, t.cacheable
	t.mu.Unlock()
	resp, rec := srv.handle(body, faults)
	rec.Arrival = t.clock.Add(1)
	status := 200
	var terr error
	if faults != nil {
		if k, ok := faults.whole[reqID{rec.Subgraph, rec.Query}]; ok {
			rec.Faulted = k
			rec.Resolved, rec.Delivered = map[string]bool{}, nil
			switch k {
			case "transport-error":
				terr = fmt.Errorf("injected transport error")
			case "status-500-empty":
				status, resp = 500, []byte{}
			case "status-503-nonjson":
				status, resp = 503, []byte("<html>service unavailable</html>")
			case "ok-empty":
				resp = []byte{}
			case "ok-nonjson":
				resp = []byte("<html>not json</html>")
			case "errors-no-data":
				resp = []byte(`{"errors":[{"message":"injected failure"}]}`)
			case "data-null-errors":
				resp = []byte(`{"data":null,"errors":[{"message":"injected failure"}]}`)
			case "fewer-entities", "more-entities":
				resp = nrResize(resp, k == "more-entities")
			case "fewer-entities-first": // response-cache cases only: the FIRST entity is left out
				resp = nrDropFirst(resp)
			}
		}
	}
	rec.Response, rec.Status = string(resp), status
	t.mu.Lock()
	rec.Seq = len(t.log)
	t.log = append(t.log, rec)
	t.mu.Unlock()
	if terr != nil {
		return nil, terr
	}
	hdr := http.Header{"Content-Type": []string{"application/json"}}
	if cacheable {
		hdr["Cache-Control"] = []string{"public, max-age=60"}
	}
	return &http.Response{StatusCode: status, Status: fmt.Sprintf("%d", status), Body: io.NopCloser(bytes.NewReader(resp)), Header: hdr, ContentLength: int64(len(resp)), Request: req}, nil
}

type nrRig struct {
	eng   *engine.ExecutionEngine
	t     *nrTransport
	close func()
}

// newNrRig builds a real ExecutionEngine over the layout (same construction as fed.NewGateway).
func newNrRig(l *nrLayout) (*nrRig, error) {
	t := &nrTransport{servers: map[string]*nrServer{}}
	for si, sg := range l.Subs {
		srv, err := newNrServer(l, si)
		if err != nil {
			return nil, err
		}
		t.servers[sg.Name] = srv
	}
	ctx, cancel := context.WithCancel(context.Background())
	client := &http.Client{Transport: t}
	factory, err := graphql_datasource.NewFactory(ctx, client, graphql_datasource.NewGraphQLSubscriptionClient(ctx, graphql_datasource.WithUpgradeClient(client), graphql_datasource.WithStreamingClient(client)))
	if err != nil {
		cancel()
		return nil, err
	}
	var dss []plan.DataSource
	for _, sg := range l.Subs {
		sc, err := graphql_datasource.NewSchemaConfiguration(sg.SDL, &graphql_datasource.FederationConfiguration{Enabled: true, ServiceSDL: sg.SDL})
		if err != nil {
			cancel()
			return nil, fmt.Errorf("schema configuration of %s: %v\n%s", sg.Name, err, sg.SDL)
		}
		cfg, err := graphql_datasource.NewConfiguration(graphql_datasource.ConfigurationInput{
			Fetch:               &graphql_datasource.FetchConfiguration{URL: "http://" + sg.Name + "/", Method: "POST"},
			SchemaConfiguration: sc,
		})
		if err != nil {
			cancel()
			return nil, err
		}
		meta := *sg.meta
		d, err := plan.NewDataSourceConfigurationWithName[graphql_datasource.Configuration](sg.Name, sg.Name, factory, &meta, cfg)
		if err != nil {
			cancel()
			return nil, fmt.Errorf("datasource %s: %v", sg.Name, err)
		}
		dss = append(dss, d)
	}
	schema, err := graphql.NewSchemaFromString(l.SuperSDL)
	if err != nil {
		cancel()
		return nil, fmt.Errorf("supergraph rejected by the repository: %v\n%s", err, l.SuperSDL)
	}
	conf := engine.NewConfiguration(schema)
	conf.SetDataSources(dss)
	pc := conf.VerifPlannerConfiguration()
	pc.BuildFetchReasons = l.Reasons
	pc.ValidateRequiredExternalFields = l.Validate
	eng, err := engine.NewExecutionEngine(ctx, abstractlogger.NoopLogger, conf, resolve.ResolverOptions{MaxConcurrency: 64, PropagateFetchReasons: l.Reasons, ValidateRequiredExternalFields: l.Validate})
	if err != nil {
		cancel()
		return nil, fmt.Errorf("engine: %v", err)
	}
	return &nrRig{eng: eng, t: t, close: cancel}, nil
}

type nrRun struct {
	Raw                            string
	Err                            error
	Data                           any
	HasData                        bool
	Errors                         []any
	Requests                       []*nrRequest
	panicMsg, panicSig, panicStack string
}

// exec runs one execution under the given faults with a generous watchdog (nil = did not return).
func (g *nrRig) exec(text string, faults *nrFaults) *nrRun { return g.execWith(text, faults) }

func (g *nrRig) execWith(text string, faults *nrFaults, opts ...engine.ExecutionOptions) *nrRun {
	g.t.mu.Lock()
	g.t.log, g.t.faults = nil, faults
	g.t.mu.Unlock()
	done := make(chan *nrRun, 1)
	ctx, cancel := context.WithCancel(context.Background())
	defer cancel()
	go func() {
		out := &nrRun{}
		defer func() {
			if r := recover(); r != nil {
				st := string(debug.Stack())
				out.panicMsg, out.panicSig, out.panicStack = fmt.Sprint(r), fw.PanicSignature(fmt.Sprint(r), st), truncate(st, 4000)
			}
			done <- out
		}()
		w := graphql.NewEngineResultWriter()
		out.Err = g.eng.Execute(ctx, &graphql.Request{Query: text, Variables: []byte(`{}`)}, &w, opts...)
		out.Raw = w.String()
	}()
	var out *nrRun
	select {
	case out = <-done:
	case <-time.After(60 * time.Second):
		return nil
	}
	g.t.mu.Lock()
	out.Requests = append([]*nrRequest(nil), g.t.log...)
	g.t.mu.Unlock()
	if out.Err == nil && out.panicMsg == "" {
		v, err := ref.DecodeJSON([]byte(out.Raw))
		if err != nil {
			out.Err = fmt.Errorf("response is not valid JSON: %v", err)
			return out
		}
		if m, ok := v.(map[string]any); ok {
			out.Data, out.HasData = m["data"]
			out.Errors, _ = m["errors"].([]any)
		}
	}
	return out
}

// ---- operations

func genNrOperation(r *rand.Rand, l *nrLayout) string {
	aliasN := 0
	alias := func(f string) string {
		if r.IntN(6) == 0 {
			aliasN++
			return fmt.Sprintf("x%d: %s", aliasN, f)
		}
		return f
	}
	var sel func(ti int, top bool) string
	sel = func(ti int, top bool) string {
		t := l.Types[ti]
		var fs []string
		if t.Entity && r.IntN(2) == 0 {
			fs = append(fs, "id")
		}
		if r.IntN(5) == 0 {
			fs = append(fs, "__typename")
		}
		for _, f := range t.Fields {
			switch {
			case f.Kind == "computed":
				if top {
					fs = append(fs, alias(f.Name))
				}
			case f.Kind == "leaf":
				if r.IntN(2) == 0 {
					fs = append(fs, alias(f.Name))
				}
			case f.Kind == "hop":
				if r.IntN(2) == 0 {
					// (no alias on a hop: the planner would fetch the aliased copy with a request of its own)
					fs = append(fs, f.Name+" "+sel(f.Target, false))
				}
			}
		}
		if len(fs) == 0 {
			if t.Entity {
				fs = append(fs, "id")
			} else {
				fs = append(fs, "__typename")
			}
		}
		r.Shuffle(len(fs), func(i, j int) { fs[i], fs[j] = fs[j], fs[i] })
		return "{ " + strings.Join(fs, " ") + " }"
	}
	var roots []string
	switch r.IntN(6) {
	case 0:
		roots = []string{l.RootSingle + " " + sel(0, true)}
	case 1:
		roots = []string{l.RootList + " " + sel(0, true), l.RootSingle + " " + sel(0, true)}
	default:
		roots = []string{l.RootList + " " + sel(0, true)}
	}
	text := "{ " + strings.Join(roots, " ") + " }"
	if r.IntN(3) == 0 {
		text = "query Q " + text
	}
	return text
}

// ---- the case

type nrPlan struct {
	faults nrFaults
	desc   map[string]string
	kinds  []string
	role   string            // what the partial faults hit: required-input | computed | independent | "" (whole-request faults only)
	roles  map[string]string // per partial fault (nrFieldFault / nrEntFault key): its role
}

func (p c07) runNested(c *fw.Ctx, idx int) fw.Result {
	res := fw.Result{}
	r := c.Rng(idx, "c07-nested")
	l := genNrLayout(r)
	superGql, err := gqlparser.LoadSchema(&gast.Source{Name: "super", Input: l.SuperSDL})
	if err != nil {
		res.Broken("nested-requires supergraph self-check: "+err.Error(), map[string]any{"supergraph": l.SuperSDL})
		return res
	}
	layoutDetail := func() map[string]any {
		d := map[string]any{"supergraph": l.SuperSDL, "layout": l.Describe}
		for _, sg := range l.Subs {
			d["sdl_"+sg.Name] = sg.SDL
		}
		return d
	}
	g, err := newNrRig(l)
	if err != nil {
		res.Broken("nested-requires gateway construction: "+err.Error(), layoutDetail())
		return res
	}
	defer g.close()
	text := genNrOperation(r, l)
	qd, gerrs := gqlparser.LoadQuery(superGql, text)
	if gerrs != nil {
		res.Broken("nested-requires operation self-check: "+gerrs.Error(), map[string]any{"operation": text})
		return res
	}
	gop := qd.Operations[0]
	detail := func(extra map[string]any) map[string]any {
		d := layoutDetail()
		d["operation"] = text
		for k, v := range extra {
			d[k] = v
		}
		return d
	}
	fw.SetContext(detail(nil))
	res.Count("nested_cases", 1)
	res.Observe("nested_shapes", fmt.Sprintf("%s validate=%v subgraphs=%d", l.hopKinds(), l.Validate, len(l.Subs)))
	res.Key = fw.HashKey("c07-nested", idx)
	run0 := g.exec(text, nil)
	if run0 == nil || run0.panicMsg != "" || run0.Err != nil || len(run0.Errors) > 0 {
		why := "no return"
		if run0 != nil {
			why = truncate(run0.panicMsg+fmt.Sprint(run0.Err)+" "+run0.Raw, 300)
		}
		res.Count("nested_fault_free_run_failed", 1)
		res.Inconclusive = "nested-fault-free-run-failed: judged by C01 (" + truncate(why, 120) + ")"
		return res
	}
	// the reference: the monolithic executor over the supergraph; dead(key) = not delivered
	reference := func(avail map[string]bool) any {
		rs := &nrResolver{l: l, sub: -1, dead: func(k string) bool { return avail != nil && !avail[k] }}
		ex := &ref.Executor{Schema: superGql, Resolver: rs, Vars: map[string]any{}}
		return anyOf(ex.ExecuteOperation(gop, &ref.Obj{Type: "Query", ID: "root"}))
	}
	want0 := reference(nil)
	for _, rq := range run0.Requests {
		if len(rq.Problems) > 0 {
			res.Count("nested_fault_free_run_bad_request", 1)
			res.Inconclusive = "nested-fault-free-run-bad-subgraph-request: judged by C01 (" + truncate(rq.Problems[0], 160) + ")"
			return res
		}
	}
	if ref.Canon(want0) != ref.Canon(run0.Data) {
		res.Count("nested_fault_free_run_differs", 1)
		res.Inconclusive = "nested-fault-free-run-differs-from-reference: judged by C01"
		return res
	}
	// fault-free request set, dependencies between the requests
	type r0info struct {
		id   reqID
		reps map[string]bool
		in   map[string]bool
		out  map[string]bool
		deps map[int]bool
	}
	var R0 []r0info
	byID := map[reqID][]int{}
	for _, rq := range run0.Requests {
		ri := r0info{id: reqID{rq.Subgraph, rq.Query}, reps: map[string]bool{}, in: map[string]bool{}, out: map[string]bool{}, deps: map[int]bool{}}
		for _, rep := range rq.Reps {
			ri.reps[repKey(rep)] = true
			scalars(rep, ri.in)
		}
		if v, err := ref.DecodeJSON([]byte(rq.Response)); err == nil {
			scalars(v, ri.out)
		}
		byID[ri.id] = append(byID[ri.id], len(R0))
		R0 = append(R0, ri)
	}
	for b := range R0 {
		for a := range R0 {
			if a == b || run0.Requests[a].Arrival >= run0.Requests[b].Arrival {
				continue
			}
			for v := range R0[b].in {
				if R0[a].out[v] {
					R0[b].deps[a] = true
					break
				}
			}
		}
	}
	for changed := true; changed; {
		changed = false
		for b := range R0 {
			for a := range R0[b].deps {
				for x := range R0[a].deps {
					if !R0[b].deps[x] {
						R0[b].deps[x] = true
						changed = true
					}
				}
			}
		}
	}
	var ids []reqID
	for id := range byID {
		ids = append(ids, id)
	}
	sort.Slice(ids, func(i, j int) bool {
		if ids[i].sub != ids[j].sub {
			return ids[i].sub < ids[j].sub
		}
		return ids[i].query < ids[j].query
	})
	res.Count("nested_fault_free_requests", int64(len(run0.Requests)))
	// ---- fault plans
	inputKey := map[string]bool{} // positions some computed field takes its input from
	a0 := l.Types[0].Name
	for _, id := range append(append([]string{}, l.IDs...), l.SingleID) {
		var ks []string
		l.inputKeys(&ref.Obj{Type: a0, ID: id}, 0, &ks)
		for _, k := range ks {
			inputKey[k] = true
		}
	}
	roleOf := func(ps []nrPos) string {
		role := "independent"
		for _, p := range ps {
			if inputKey[p.key] {
				return "required-input"
			}
			if p.typ == a0 && p.field == l.Full.Name {
				role = "computed"
			}
		}
		return role
	}
	var plans []*nrPlan
	kindsFor := func(id reqID) []string {
		if strings.Contains(id.query, "_entities") {
			return fed.FaultKinds
		}
		return fed.FaultKinds[:7]
	}
	short := func(id reqID) string { return id.sub + ": " + truncate(id.query, 160) }
	for _, id := range ids {
		for _, k := range kindsFor(id) {
			plans = append(plans, &nrPlan{faults: nrFaults{whole: map[reqID]string{id: k}}, desc: map[string]string{short(id): k}, kinds: []string{k}})
		}
	}
	var partial []*nrPlan
	seenFault := map[string]bool{}
	for _, rq := range run0.Requests {
		for _, p := range rq.Delivered {
			if p.field == "id" || p.typ == "Query" {
				continue
			}
			fk := nrFieldFault(rq.Subgraph, p.typ, p.id, p.field)
			if seenFault["f"+fk] {
				continue
			}
			seenFault["f"+fk] = true
			partial = append(partial, &nrPlan{faults: nrFaults{fields: map[string]bool{fk: true}}, desc: map[string]string{rq.Subgraph + ": field " + p.typ + "." + p.field + " of " + p.id: "partial-field-error"}, kinds: []string{"partial-field-error"}, role: roleOf([]nrPos{p}), roles: map[string]string{fk: roleOf([]nrPos{p})}})
		}
		for i := range rq.Reps {
			if i >= len(rq.EntIDs) {
				break
			}
			tn, id := rq.EntTypes[i], rq.EntIDs[i]
			ek := nrEntFault(rq.Subgraph, tn, id)
			if seenFault["e"+ek] {
				continue
			}
			seenFault["e"+ek] = true
			var ps []nrPos
			for _, p := range rq.Delivered {
				if len(p.path) >= 2 && p.path[1] == i {
					ps = append(ps, p)
				}
			}
			partial = append(partial, &nrPlan{faults: nrFaults{ents: map[string]bool{ek: true}}, desc: map[string]string{rq.Subgraph + ": entity " + tn + " " + id: "partial-entity-null"}, kinds: []string{"partial-entity-null"}, role: roleOf(ps), roles: map[string]string{ek: roleOf(ps)}})
		}
	}
	// (the order of the fault-free requests depends on scheduling: a fixed order for the seeded pairs below)
	sort.Slice(partial, func(i, j int) bool { return fmt.Sprint(partial[i].desc) < fmt.Sprint(partial[j].desc) })
	nWhole := len(plans)
	plans = append(plans, partial...)
	// pairs: two partial faults, and one partial fault with one whole-request fault
	merge := func(a, b *nrPlan) *nrPlan {
		m := &nrPlan{faults: nrFaults{whole: map[reqID]string{}, fields: map[string]bool{}, ents: map[string]bool{}}, desc: map[string]string{}, roles: map[string]string{}}
		for _, x := range []*nrPlan{a, b} {
			for k, v := range x.roles {
				m.roles[k] = v
			}
			for k, v := range x.faults.whole {
				m.faults.whole[k] = v
			}
			for k := range x.faults.fields {
				m.faults.fields[k] = true
			}
			for k := range x.faults.ents {
				m.faults.ents[k] = true
			}
			for k, v := range x.desc {
				m.desc[k] = v
			}
			m.kinds = append(m.kinds, x.kinds...)
			if x.role == "required-input" || m.role == "" || (m.role == "independent" && x.role != "") {
				m.role = x.role
			}
		}
		sort.Strings(m.kinds)
		return m
	}
	if len(partial) >= 2 {
		for n := 0; n < 4; n++ {
			i, j := r.IntN(len(partial)), r.IntN(len(partial))
			if i != j {
				plans = append(plans, merge(partial[i], partial[j]))
			}
		}
		for n := 0; n < 2 && nWhole > 0; n++ {
			plans = append(plans, merge(partial[r.IntN(len(partial))], plans[r.IntN(nWhole)]))
		}
	}
	sameReq := map[reqID]struct{ kind, canon string }{}
	var keys []string
	for _, pl := range plans {
		got := g.exec(text, &pl.faults)
		res.Count("fault_runs", 1)
		res.Count("nested_fault_runs", 1)
		isPartial := len(pl.faults.fields)+len(pl.faults.ents) > 0
		if isPartial {
			res.Count("nested_partial_fault_runs", 1)
		}
		singleRep, countOnSingle := false, false
		for id, k := range pl.faults.whole {
			for _, i := range byID[id] {
				if len(R0[i].reps) == 1 {
					singleRep = true
					if k == "fewer-entities" || k == "more-entities" {
						countOnSingle = true
					}
				}
			}
		}
		match := map[string]string{
			"family":                            "nested-requires",
			"validate_required_external_fields": fmt.Sprint(l.Validate),
			"fault_kinds":                       strings.Join(pl.kinds, "+"),
			"faults":                            fmt.Sprint(len(pl.kinds)),
			"operation_kind":                    "query",
			"faulted_request_has_single_representation":   fmt.Sprint(singleRep),
			"entity_count_fault_on_single_entity_request": fmt.Sprint(countOnSingle),
			"partial_fault_hits":                          pl.role,
			"requires_path":                               l.hopKinds(),
		}
		fdetail := func(extra map[string]any) map[string]any {
			d := detail(map[string]any{"fault_plan": pl.desc, "fault_free_response": truncate(run0.Raw, 2500)})
			if got != nil {
				var reqDump []map[string]any
				for _, rq := range got.Requests {
					reqDump = append(reqDump, map[string]any{"subgraph": rq.Subgraph, "query": rq.Query, "representations": truncate(ref.Canon(anyOf(rq.Variables)), 600), "faulted": rq.Faulted, "partial_faults_hit": rq.Triggered, "response": truncate(rq.Response, 400)})
				}
				d["requests_under_fault"] = reqDump
				d["gateway_response"] = truncate(got.Raw, 2500)
			}
			for k, v := range extra {
				d[k] = v
			}
			return d
		}
		if got == nil {
			res.Violate("no-return", "the gateway did not return under a subgraph fault (watchdog)", match, fdetail(nil))
			continue
		}
		if got.panicMsg != "" {
			res.Violate("panic", "the engine panicked under a subgraph fault: "+got.panicMsg, withFact(match, "panic", got.panicSig), fdetail(map[string]any{"stack": got.panicStack}))
			continue
		}
		if got.Err != nil {
			res.Violate("execute-error", "Execute returns an error instead of a response under a subgraph fault: "+got.Err.Error(), match, fdetail(nil))
			continue
		}
		// (1) request rule
		avail := map[string]bool{}
		faultsHit := 0
		subsetSent := false
		// how the partial failures of REQUIRED INPUTS present themselves to the gateway (input facts: the kind of
		// fetch the failing answer belongs to and the shape of the failure in that answer); several: the first
		// of this list
		{
			classes := map[string]bool{}
			for _, rq := range got.Requests {
				for i, sh := range rq.Shapes {
					if pl.roles[rq.HitKeys[i]] != "required-input" {
						continue
					}
					switch fk := l.fetchKind(rq); fk {
					case "batch-entity":
						classes[sh+"-in-batch-entity-fetch"] = true
					default:
						classes["in-"+fk+"-fetch"] = true
					}
				}
			}
			match["required_input_failure"], match["required_input_failed"] = "", fmt.Sprint(len(classes) > 0)
			for _, cl := range []string{"in-root-fetch", "in-single-entity-fetch", "entity-null-in-batch-entity-fetch", "null-bubbled-in-batch-entity-fetch", "field-null-in-batch-entity-fetch"} {
				if classes[cl] {
					match["required_input_failure"] = cl
					res.Count("nested_required_input_failure_"+cl, 1)
					if l.Validate && cl == "field-null-in-batch-entity-fetch" {
						res.Count("nested_validating_runs_with_required_input_failure_the_option_tracks", 1)
					}
					break
				}
			}
		}
		for _, rq := range got.Requests {
			res.Count("request_rule_checked", 1)
			id := reqID{rq.Subgraph, rq.Query}
			idxs, known := byID[id]
			if !known {
				res.Violate("fabricated-request", "a request sent under faults has no counterpart in the fault-free run (subgraph "+rq.Subgraph+")", match, fdetail(map[string]any{"request": rq.Query, "request_variables": rq.Variables}))
				continue
			}
			all := map[string]bool{}
			for _, i := range idxs {
				for k := range R0[i].reps {
					all[k] = true
				}
			}
			for _, rep := range rq.Reps {
				if !all[repKey(rep)] {
					res.Violate("fabricated-representation", "a request sent under faults carries an entity representation the fault-free run never sent to that subgraph", match, fdetail(map[string]any{"request": rq.Query, "representation": rep}))
					break
				}
			}
			if len(rq.Reps) > 0 && len(rq.Reps) < len(all) {
				subsetSent = true
			}
			for _, pr := range rq.Problems {
				res.Violate("subgraph-request", "bad subgraph request under faults: "+pr, match, fdetail(map[string]any{"request": rq.Query}))
				break
			}
			faultsHit += rq.Triggered
			if rq.Faulted != "" {
				faultsHit++
				continue
			}
			for k := range rq.Resolved {
				avail[k] = true
			}
		}
		if subsetSent {
			res.Count("nested_dependent_request_sent_with_subset_of_entities", 1)
		}
		// independence: a fault-free request that neither fails (wholly or partially) nor takes input from
		// one that does must still be sent, byte-identical
		{
			hit := map[int]bool{}
			for i, rq := range run0.Requests {
				if _, f := pl.faults.whole[R0[i].id]; f {
					hit[i] = true
				}
				for _, p := range rq.Delivered {
					if pl.faults.fields[nrFieldFault(rq.Subgraph, p.typ, p.id, p.field)] {
						hit[i] = true
					}
				}
				for j := range rq.EntIDs {
					if pl.faults.ents[nrEntFault(rq.Subgraph, rq.EntTypes[j], rq.EntIDs[j])] {
						hit[i] = true
					}
				}
			}
			sent := map[string]bool{}
			for _, rq := range got.Requests {
				sent[rq.Subgraph+"\x00"+rq.RawBody] = true
			}
			for i, ri := range R0 {
				if hit[i] {
					continue
				}
				dependent := false
				for a := range ri.deps {
					if hit[a] {
						dependent = true
					}
				}
				if dependent {
					continue
				}
				res.Count("independent_requests_checked", 1)
				if !sent[run0.Requests[i].Subgraph+"\x00"+run0.Requests[i].RawBody] {
					res.Violate("independent-request-not-sent", "a request that does not depend on any failed request was not sent unchanged under faults (subgraph "+ri.id.sub+")", match, fdetail(map[string]any{"request": ri.id.query, "request_body": truncate(run0.Requests[i].RawBody, 600)}))
					break
				}
			}
		}
		res.Count("faulted_requests_sent", int64(faultsHit))
		if len(got.Requests) < len(run0.Requests) {
			res.Count("dependent_requests_skipped", int64(len(run0.Requests)-len(got.Requests)))
		}
		// (3) at least one error
		if faultsHit > 0 && len(got.Errors) == 0 {
			res.Violate("no-error-reported", "a subgraph request failed (wholly or for one entity) but the response reports no error", match, fdetail(nil))
		}
		// (2) data: exactly the reference response over what the successful requests delivered
		res.Count("responses_compared", 1)
		var gotData any = got.Data
		if !got.HasData {
			gotData = nil
		}
		want := reference(avail)
		if faultsHit == 0 {
			want = want0
		}
		wc, gc := ref.Canon(want), ref.Canon(gotData)
		if wc != gc {
			class, path := nrDiff(nil, ref.NormalizeJSON(want), ref.NormalizeJSON(gotData))
			res.Violate("isolation", "data under faults is not the fault-free data with exactly the undelivered positions null-propagated ("+class+" at "+path+")", withFact(match, "problem", class), fdetail(map[string]any{"position": path, "expected_data": truncate(wc, 2500), "data_under_fault": truncate(gc, 2500)}))
		}
		nulled, kept := nrCount(ref.NormalizeJSON(want0), ref.NormalizeJSON(gotData))
		res.Count("positions_nulled_by_taint", int64(nulled))
		res.Count("positions_kept", int64(kept))
		if isPartial && faultsHit > 0 && pl.role == "required-input" {
			res.Count("nested_partial_fault_on_required_input_runs", 1)
			if l.Validate {
				res.Count("nested_partial_fault_on_required_input_runs_validating", 1)
			}
		}
		if len(pl.faults.whole) == 1 && !isPartial {
			for id, k := range pl.faults.whole {
				if prev, ok := sameReq[id]; ok && prev.canon != gc {
					res.Violate("kind-dependent", "two total-loss fault kinds on the same request yield different data ("+prev.kind+" vs "+k+")", withFact(match, "other_kind", prev.kind), fdetail(map[string]any{"data_other_kind": truncate(prev.canon, 2000), "data_this_kind": truncate(gc, 2000)}))
				} else if !ok {
					sameReq[id] = struct{ kind, canon string }{k, gc}
				}
				res.Count("kind_equivalence_checked", 1)
			}
		}
		if faultsHit > 0 && (len(got.Requests) < len(run0.Requests) || subsetSent || (nulled > 0 && kept > 0)) {
			keys = append(keys, fw.HashKey(l.SuperSDL, text, pl.desc))
			if res.Sample == nil && isPartial && subsetSent {
				res.Sample = map[string]any{"layout": l.Describe, "operation": text, "fault_plan": pl.desc, "requests_fault_free": len(run0.Requests), "requests_under_fault": len(got.Requests), "response": truncate(got.Raw, 600)}
			}
		}
	}
	res.Keys = keys
	res.Nontrivial = len(keys) > 0
	// option dimension: every fourth case also runs the post-fault phase with a response cache (cache.go); the
	// phase comes after everything else and uses a gateway of its own, so the part above is the same in all cases
	if (idx-firstKindCases(c.Tier))%4 == 3 {
		p.nestedPostFault(&res, l)
	}
	return res
}

// nrDiff: first difference between the expected and the observed data.
func nrDiff(path []any, want, got any) (class, at string) {
	switch {
	case want == nil && got == nil:
		return "", ""
	case want == nil:
		return "undelivered-data-present", ref.PathKey(path)
	case got == nil:
		return "independent-data-lost", ref.PathKey(path)
	}
	switch a := want.(type) {
	case map[string]any:
		b, ok := got.(map[string]any)
		if !ok || len(a) != len(b) {
			return "shape", ref.PathKey(path)
		}
		ks := make([]string, 0, len(a))
		for k := range a {
			ks = append(ks, k)
		}
		sort.Strings(ks)
		for _, k := range ks {
			bv, has := b[k]
			if !has {
				return "shape", ref.PathKey(path)
			}
			if c, p := nrDiff(append(append([]any{}, path...), k), a[k], bv); c != "" {
				return c, p
			}
		}
	case []any:
		b, ok := got.([]any)
		if !ok || len(a) != len(b) {
			return "shape", ref.PathKey(path)
		}
		for i := range a {
			if c, p := nrDiff(append(append([]any{}, path...), i), a[i], b[i]); c != "" {
				return c, p
			}
		}
	default:
		if ref.Canon(want) != ref.Canon(got) {
			return "fabricated", ref.PathKey(path)
		}
	}
	return "", ""
}

// nrCount: positions of the fault-free data that are null / still present under faults.
func nrCount(d0, df any) (nulled, kept int) {
	if d0 == nil {
		return 0, 0
	}
	if df == nil {
		return 1, 0
	}
	kept = 1
	switch a := d0.(type) {
	case map[string]any:
		b, _ := df.(map[string]any)
		for k, v := range a {
			n, kp := nrCount(v, b[k])
			nulled, kept = nulled+n, kept+kp
		}
	case []any:
		b, _ := df.([]any)
		for i := range a {
			if i < len(b) {
				n, kp := nrCount(a[i], b[i])
				nulled, kept = nulled+n, kept+kp
			}
		}
	}
	return nulled, kept
}
