package c07

// Post-fault phase of the second case kind (every fourth nested case): a failure must not corrupt the
// data of a LATER, fault-free request on the same gateway. A later request can only see an earlier one
// through shared state, and the state the engine offers is the entity response cache handed in through
// resolve.Context.SetResponseCache. So: a gateway of its own over the same layout (plus a second list
// root that returns a PREFIX of the list, so that its entity fetches ask for a subset of the entities of
// the first request with the same operation text), every subgraph answer storable (Cache-Control:
// public, max-age=60), and per fault one fresh in-memory cache:
//
//	request 1: { list SEL }      under one fault on one entity request (fresh cache attached)
//	request 2: { listHead SEL }  WITHOUT faults, same gateway, same cache
//
// Oracle: response 2 = the reference response of { listHead SEL } (data equal, no errors), whatever the
// fault of request 1 was. Precondition checked first (otherwise the phase is not judged, the cache's own
// transparency is C16's property): the same pair without any fault gives the reference response.

import (
	"context"
	"encoding/json"
	"fmt"
	"sort"
	"strings"
	"sync"
	"time"

	"github.com/vektah/gqlparser/v2"
	gast "github.com/vektah/gqlparser/v2/ast"

	"github.com/wundergraph/graphql-go-tools/execution/engine"
	"github.com/wundergraph/graphql-go-tools/v2/pkg/caching"
	"github.com/wundergraph/graphql-go-tools/v2/pkg/engine/resolve"

	"verifharness/internal/fw"
	"verifharness/internal/ref"
)

// nrCache: a plain in-memory caching.Cache.
type nrCache struct {
	mu     sync.Mutex
	items  map[string][]byte
	hits   int // keys answered
	stored int
	errs   int // errors reported through the callback
}

func newNrCache() *nrCache { return &nrCache{items: map[string][]byte{}} }

func (c *nrCache) GetMany(_ context.Context, keys []string) (map[string]caching.Item, error) {
	c.mu.Lock()
	defer c.mu.Unlock()
	out := map[string]caching.Item{}
	for _, k := range keys {
		if v, ok := c.items[k]; ok {
			out[k] = caching.Item{Key: k, Value: append([]byte(nil), v...), TTL: time.Minute}
			c.hits++
		}
	}
	return out, nil
}

func (c *nrCache) SetMany(_ context.Context, items []caching.Item) error {
	c.mu.Lock()
	defer c.mu.Unlock()
	for _, it := range items {
		if it.TTL <= 0 {
			return caching.ErrMissingTTL
		}
	}
	for _, it := range items {
		c.items[it.Key] = append([]byte(nil), it.Value...)
		c.stored++
	}
	return nil
}

func (c *nrCache) attach() engine.ExecutionOptions {
	return engine.VerifWithResolveContext(func(rc *resolve.Context) {
		rc.SetResponseCache(c, time.Minute, func(error) {
			c.mu.Lock()
			c.errs++
			c.mu.Unlock()
		})
	})
}

func (c *nrCache) counts() (hits, stored int) {
	c.mu.Lock()
	defer c.mu.Unlock()
	return c.hits, c.stored
}

// nrDropFirst: the _entities answer without its first entity.
func nrDropFirst(resp []byte) []byte {
	v, err := ref.DecodeJSON(resp)
	if err != nil {
		return resp
	}
	m, _ := v.(map[string]any)
	data, _ := m["data"].(map[string]any)
	ents, ok := data["_entities"].([]any)
	if !ok || len(ents) == 0 {
		return resp
	}
	data["_entities"] = ents[1:]
	b, err := json.Marshal(m)
	if err != nil {
		return resp
	}
	return b
}

// fullSelection: every field of the type (no aliases, PRNG-free).
func (l *nrLayout) fullSelection(ti int, top bool) string {
	t := l.Types[ti]
	var fs []string
	if t.Entity {
		fs = append(fs, "id")
	}
	for _, f := range t.Fields {
		switch f.Kind {
		case "leaf":
			fs = append(fs, f.Name)
		case "computed":
			if top {
				fs = append(fs, f.Name)
			}
		case "hop":
			fs = append(fs, f.Name+" "+l.fullSelection(f.Target, false))
		}
	}
	if len(fs) == 0 {
		fs = append(fs, "__typename")
	}
	return "{ " + strings.Join(fs, " ") + " }"
}

func (p c07) nestedPostFault(res *fw.Result, l *nrLayout) {
	res.Count("nested_cache_cases", 1)
	if len(l.IDs) < 2 {
		// one entity in the list: a too-short answer carries nothing that could be stored
		res.Count("nested_cache_cases_list_of_one_not_run", 1)
		return
	}
	l.RootHead, l.headN = l.RootList+"Head", len(l.IDs)-1
	l.render(l.root, l.fullOwner)
	superGql, err := gqlparser.LoadSchema(&gast.Source{Name: "super", Input: l.SuperSDL})
	if err != nil {
		res.Broken("nested-requires (cache phase) supergraph self-check: "+err.Error(), map[string]any{"supergraph": l.SuperSDL})
		return
	}
	layoutDetail := func() map[string]any {
		d := map[string]any{"supergraph": l.SuperSDL, "layout": l.Describe + "; response cache attached, every answer `Cache-Control: public, max-age=60`"}
		for _, sg := range l.Subs {
			d["sdl_"+sg.Name] = sg.SDL
		}
		return d
	}
	g, err := newNrRig(l)
	if err != nil {
		res.Broken("nested-requires (cache phase) gateway construction: "+err.Error(), layoutDetail())
		return
	}
	defer g.close()
	g.t.mu.Lock()
	g.t.cacheable = true
	g.t.mu.Unlock()
	sel := l.fullSelection(0, true)
	opFull, opHead := "{ "+l.RootList+" "+sel+" }", "{ "+l.RootHead+" "+sel+" }"
	qd, gerrs := gqlparser.LoadQuery(superGql, opHead)
	if gerrs != nil {
		res.Broken("nested-requires (cache phase) operation self-check: "+gerrs.Error(), map[string]any{"operation": opHead})
		return
	}
	rs := &nrResolver{l: l, sub: -1, dead: func(string) bool { return false }}
	ex := &ref.Executor{Schema: superGql, Resolver: rs, Vars: map[string]any{}}
	want := ref.Canon(anyOf(ex.ExecuteOperation(qd.Operations[0], &ref.Obj{Type: "Query", ID: "root"})))
	fw.SetContext(map[string]any{"layout": l.Describe, "request_1": opFull, "request_2": opHead, "phase": "post-fault with response cache"})
	clean := func(r *nrRun) bool {
		return r != nil && r.panicMsg == "" && r.Err == nil && len(r.Errors) == 0 && r.HasData && ref.Canon(r.Data) == want
	}
	// preconditions: request 2 alone, and the fault-free pair, give the reference response
	alone := g.execWith(opHead, nil)
	if !clean(alone) {
		res.Count("nested_cache_cases_not_judged_request_2_alone_differs", 1)
		return
	}
	cache0 := newNrCache()
	first0 := g.execWith(opFull, nil, cache0.attach())
	second0 := g.execWith(opHead, nil, cache0.attach())
	if first0 == nil || first0.panicMsg != "" || first0.Err != nil || len(first0.Errors) > 0 || !clean(second0) {
		res.Count("nested_cache_cases_not_judged_fault_free_pair_differs", 1)
		return
	}
	if len(second0.Requests) < len(alone.Requests) {
		res.Count("nested_cache_fault_free_followups_served_from_cache", 1)
	}
	// faults: every entity request of request 1 with >= 2 representations x the kinds; plus its first entity null + error
	type plan struct {
		faults nrFaults
		kind   string
		desc   string
	}
	var plans []plan
	seen := map[reqID]bool{}
	reqs := append([]*nrRequest(nil), first0.Requests...)
	sort.Slice(reqs, func(i, j int) bool {
		if reqs[i].Subgraph != reqs[j].Subgraph {
			return reqs[i].Subgraph < reqs[j].Subgraph
		}
		return reqs[i].Query < reqs[j].Query
	})
	for _, rq := range reqs {
		id := reqID{rq.Subgraph, rq.Query}
		if len(rq.Reps) < 2 || seen[id] {
			continue
		}
		seen[id] = true
		for _, k := range []string{"fewer-entities-first", "fewer-entities", "more-entities", "ok-empty", "errors-no-data", "status-500-empty"} {
			plans = append(plans, plan{faults: nrFaults{whole: map[reqID]string{id: k}}, kind: k, desc: rq.Subgraph + ": " + truncate(rq.Query, 160)})
		}
		if len(rq.EntIDs) > 0 {
			plans = append(plans, plan{faults: nrFaults{ents: map[string]bool{nrEntFault(rq.Subgraph, rq.EntTypes[0], rq.EntIDs[0]): true}}, kind: "partial-entity-null", desc: rq.Subgraph + ": entity " + rq.EntTypes[0] + " " + rq.EntIDs[0]})
		}
	}
	for _, pl := range plans {
		pl := pl
		cache := newNrCache()
		first := g.execWith(opFull, &pl.faults, cache.attach())
		if first == nil || first.panicMsg != "" || first.Err != nil {
			res.Count("nested_cache_runs_not_judged_request_1_did_not_answer", 1) // judged by the main phase
			continue
		}
		hit := false
		for _, rq := range first.Requests {
			if rq.Faulted != "" || rq.Triggered > 0 {
				hit = true
			}
		}
		if !hit {
			res.Count("nested_cache_runs_fault_not_hit", 1)
			continue
		}
		_, storedByFirst := cache.counts()
		second := g.execWith(opHead, nil, cache.attach())
		res.Count("nested_cache_post_fault_runs", 1)
		res.Count("nested_cache_post_fault_runs_"+pl.kind, 1)
		hits, _ := cache.counts()
		if second != nil && len(second.Requests) < len(alone.Requests) {
			res.Count("nested_cache_post_fault_followups_served_from_cache", 1)
		}
		match := map[string]string{"family": "nested-requires", "response_cache": "on", "fault_kinds": pl.kind, "faults": "1", "validate_required_external_fields": fmt.Sprint(l.Validate)}
		detail := func(extra map[string]any) map[string]any {
			d := layoutDetail()
			d["request_1"], d["request_1_fault"], d["request_2"] = opFull, map[string]string{pl.desc: pl.kind}, opHead
			d["request_1_response"] = truncate(first.Raw, 1500)
			d["entities_stored_by_request_1"], d["cache_keys_answered_in_total"] = storedByFirst, hits
			dump := func(rr *nrRun) []map[string]any {
				var out []map[string]any
				for _, rq := range rr.Requests {
					out = append(out, map[string]any{"subgraph": rq.Subgraph, "query": truncate(rq.Query, 200), "variables": truncate(ref.Canon(anyOf(rq.Variables)), 500), "faulted": rq.Faulted, "response": truncate(rq.Response, 500)})
				}
				return out
			}
			d["request_1_subgraph_requests"] = dump(first)
			if second != nil {
				d["request_2_subgraph_requests"] = dump(second)
				d["request_2_response"] = truncate(second.Raw, 2500)
			}
			d["request_2_expected_data"] = truncate(want, 2500)
			for k, v := range extra {
				d[k] = v
			}
			return d
		}
		switch {
		case second == nil:
			res.Violate("no-return", "the fault-free request after a faulted one did not return (watchdog)", match, detail(nil))
		case second.panicMsg != "":
			res.Violate("panic", "the engine panicked in the fault-free request after a faulted one: "+second.panicMsg, withFact(match, "panic", second.panicSig), detail(map[string]any{"stack": second.panicStack}))
		case second.Err != nil:
			res.Violate("execute-error", "Execute returns an error for the fault-free request after a faulted one: "+second.Err.Error(), match, detail(nil))
		case !clean(second):
			what := "its data differs from the fault-free reference"
			if len(second.Errors) > 0 {
				what = "it reports errors"
			}
			res.Violate("post-fault-request-differs", "a fault-free request sent after a faulted request on the same gateway (same response cache) is affected by the earlier failure: "+what, match, detail(nil))
		default:
			res.Keys = append(res.Keys, fw.HashKey(l.SuperSDL, opFull, pl.desc, pl.kind, "post-fault"))
		}
	}
}
