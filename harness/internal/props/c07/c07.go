// Package c07: subgraph failures are isolated to the data that depended on them.
package c07

import (
	"context"
	"encoding/json"
	"fmt"
	"runtime/debug"
	"sort"
	"strings"
	"sync"
	"time"

	"github.com/vektah/gqlparser/v2"
	gast "github.com/vektah/gqlparser/v2/ast"

	"verifharness/internal/fed"
	"verifharness/internal/fw"
	"verifharness/internal/gen"
	"verifharness/internal/ref"
)

type c07 struct{ fw.Base }

func init() { fw.Register(c07{}) }

func (c07) ID() string             { return "C07" }
func (c07) Level() string          { return "fault_enumeration" }
func (c07) Race() bool             { return true }
func (c07) CrashIsViolation() bool { return true }
func (c07) CaseTimeout(string) int { return 240 }
func (c07) NumCases(tier string) int {
	return firstKindCases(tier) + nestedCases(tier) + multiFetchCases(tier)
}

// multiFetchCases: cases of the first kind run on a gateway with EnableMultiFetch (even) or EnableMultiFetch +
// EnableScheduleFetches (odd), appended after the nested cases.
func multiFetchCases(tier string) int {
	if tier == fw.Thorough {
		return 1200
	}
	return 60
}

// firstKindCases: the cases of the first kind (shared federation layouts, whole-request faults). The cases of
// the second kind (nested.go) are appended after them, so the indexes of the first kind never move.
func firstKindCases(tier string) int {
	if tier == fw.Thorough {
		return 6000
	}
	return 240
}
func (c07) Rule() string {
	return "case = one (federation layout, valid operation, variables) as in C01 whose fault-free run sends >=2 subgraph requests. Fault space enumerated per case: EVERY single request of the fault-free run x the 9 fault kinds (transport error; 500 empty; 503 non-JSON; 200 empty; 200 non-JSON; 200 errors without data; 200 data:null + errors; one entity fewer; one entity more), and every PAIR of requests (one seeded kind per pair) when the run has <=4 requests. A fault addresses a request by (subgraph, operation text), so it is independent of arrival order. Oracle: the response returns (watchdog), is one valid JSON document, reports >=1 error when a faulted request was sent; every request sent under faults equals a fault-free request in (subgraph, operation) with representations a subset; data under faults is a null-refinement of the fault-free data (no fabricated or changed value, same keys and list lengths); every position that became null has, at or below it, a field position that no successful request of the faulted run delivered (so independent data is never lost); every position that stays non-null was delivered by a successful request of the faulted run. Provenance is OBSERVED (each semantic subgraph records the (type, object id, field, arguments) keys it resolves) and positional: the universe of this property draws entity ids from a pool of 2^40, so no entity occurs at two response positions. All total-loss kinds on the same request give identical data. Non-trivial = >=1 fault run in which a request that would otherwise follow the faulted one was not sent or some data survived; distinct by hash of (layout, operation, fault plan). SECOND CASE KIND (appended after the first: quick 240.., thorough 6000..; nested.go): PRNG-parameterised layouts of 2-4 subgraphs in which an entity A has a field computed from a NESTED @requires (\"b { x }\" or \"b { c { y } }\"; b / c entities resolved by their own entity fetches or value objects, single or lists, nested entities shared between parents or not; the required leaf owned by another subgraph than the computed field), lists of 1-4 A and a single A, engine option ValidateRequiredExternalFields on (3/5) or off, own semantic subgraphs over a tiny data model (every value a tagged string that is a pure function of (type, object id, field)). Fault space enumerated per case: every request x the 9 whole-request kinds, plus PARTIAL failures addressed by position (independent of arrival order): every delivered non-key field position answers null + an error with its exact path, every entity of every _entities answer is null + an error with path [_entities, i]; plus 4 seeded pairs of partial faults and 2 partial+whole pairs. Oracle: request rule as above (no fabricated request, representations a subset of the fault-free ones for that subgraph and operation), independent requests still sent byte-identical, >=1 error when any fault hit, and data EXACTLY equal to the reference response (spec executor over the supergraph) in which a field position is an error iff no successful request of the faulted run delivered it, and the computed field is an error iff one of the positions its @requires input is read from was not delivered (null propagation per schema nullability). POST-FAULT PHASE of every fourth case of the second kind (cache.go): a gateway of its own over the same layout plus a second list root returning a prefix of the list, every subgraph answer storable (Cache-Control: public, max-age=60); per fault (every entity request with >=2 representations x {first entity left out, last entity left out, one entity more, 200 empty, errors without data, 500 empty} and first entity null + error) a fresh in-memory response cache is attached through resolve.Context.SetResponseCache, request 1 = the list operation under the fault, request 2 = the prefix operation WITHOUT faults on the same gateway and cache; oracle: response 2 equals the reference response (data, no errors) whatever the fault of request 1 was (violation post-fault-request-differs, facts response_cache=on, fault_kinds); not judged when the fault-free pair already differs (the cache's own transparency is C16). THIRD CASE KIND (appended after the second: quick 360.., thorough 7500..): the first kind on a gateway with EnableMultiFetch (even) or EnableMultiFetch+EnableScheduleFetches (odd); the entity-count kinds are not applied to merged (aliased) entity requests, whose answers the transport cannot resize; every violation carries the facts gateway_options, multi_fetch=true and faulted_request_is_merged_multi_fetch."
}
func (c07) Assumptions() []string {
	return []string{"a faulted request delivers nothing (all nine kinds are total-loss kinds in this tier)", "the universe is static, so the fault-free run is the reference for what would have been sent", "second case kind: every field on the @requires path is nullable (a failing non-null field makes a subgraph null the enclosing entity, which is the separate per-entity fault); hop fields carry no alias (an aliased copy is fetched by a request of its own, the same position would be delivered twice); partial failures always carry an error with the exact path (a null without error is a legitimate value, an error without path cannot be attributed); within the dependents of a partially failed request, dropping MORE entities than the failed one is not judged (the statement allows at most a subset)"}
}
func (c07) RequiredCounters(string) []string {
	return []string{"fault_runs", "faulted_requests_sent", "responses_compared", "dependent_requests_skipped", "positions_nulled_by_taint", "request_rule_checked", "nested_partial_fault_runs", "nested_dependent_request_sent_with_subset_of_entities", "nested_validating_runs_with_required_input_failure_the_option_tracks", "nested_cache_post_fault_runs", "nested_cache_post_fault_followups_served_from_cache", "multifetch_cases_with_merged_entity_request"}
}

func varsJSON(vals map[string]*gen.Val) []byte {
	m := map[string]any{}
	for k, v := range vals {
		x, _ := v.JSON(nil)
		m[k] = x
	}
	b, _ := json.Marshal(m)
	return b
}

type reqID struct{ sub, query string }

func repKey(rep map[string]any) string { return ref.Canon(rep) }

func (p c07) Run(c *fw.Ctx, idx int) fw.Result {
	if k := idx - firstKindCases(c.Tier) - nestedCases(c.Tier); k >= 0 {
		if k%2 == 1 {
			return p.runFirstKind(c, idx, fed.GatewayOptions{MultiFetch: true, ScheduleFetch: true}, "multifetch+schedule")
		}
		return p.runFirstKind(c, idx, fed.GatewayOptions{MultiFetch: true}, "multifetch")
	}
	if idx >= firstKindCases(c.Tier) {
		return p.runNested(c, idx)
	}
	return p.runFirstKind(c, idx, fed.GatewayOptions{}, "")
}

// runFirstKind: gwOptions "" = the default gateway (all cases below firstKindCases); otherwise the name of the
// option set, which becomes the fact gateway_options of every violation.
func (p c07) runFirstKind(c *fw.Ctx, idx int, gwOpts fed.GatewayOptions, gwOptions string) fw.Result {
	res := fw.Result{}
	r := c.Rng(idx, "c07")
	prof := fed.RandomProfile(r)
	prof.Requires2 = idx%2 == 1
	l := fed.GenLayout(r, prof)
	superGql, err := gqlparser.LoadSchema(&gast.Source{Name: "super", Input: l.SuperSDL})
	if err != nil {
		res.Broken("supergraph self-check: "+err.Error(), nil)
		return res
	}
	ents := map[string]bool{}
	for e := range l.Entities {
		ents[e] = true
	}
	u := &ref.Universe{Seed: r.Uint64(), Schema: superGql, NullRate: 1, Entities: ents, PoolSize: 1 << 40, MaxList: 2, AliasIDs: true}
	gw, err := fed.NewGateway(l, superGql, u, gwOpts)
	if err != nil {
		res.Broken("gateway construction: "+err.Error(), map[string]any{"supergraph": l.SuperSDL})
		return res
	}
	defer gw.Close()
	layoutDetail := func() map[string]any {
		d := map[string]any{"supergraph": l.SuperSDL, "layout": l.Describe}
		for _, sg := range l.Subgraphs {
			d["sdl_"+sg.Name] = sg.SDL
		}
		return d
	}
	// find an operation with >= 2 requests (up to 8 attempts)
	var text string
	var vars []byte
	var gop *gast.OperationDefinition
	var vmm map[string]any
	var run0 *fed.Result
	var doc *gen.Doc
	for attempt := 0; attempt < 8; attempt++ {
		op := gen.DefaultOpProfile(r)
		op.MaxDepth = 2 + r.IntN(2)
		op.NoSingletonVars = true
		op.Directives = false
		d, vals := gen.GenOperation(r, l.Super, op)
		if gen.UnionFragmentInNonUnionParent(l.Super, d) {
			continue // known planner defect class C01-F1: judged by C01
		}
		t := d.String()
		v := varsJSON(vals)
		qd, gerrs := gqlparser.LoadQuery(superGql, t)
		if gerrs != nil {
			res.Broken("operation self-check: "+gerrs.Error(), map[string]any{"operation": t})
			return res
		}
		vm, _ := ref.DecodeJSON(v)
		m, _ := vm.(map[string]any)
		r0 := execWatch(gw, t, v, nil)
		if r0 == nil || r0.Err != nil || len(r0.Requests) < 2 {
			continue
		}
		text, vars, gop, vmm, run0, doc = t, v, qd.Operations[0], m, r0.Result, d
		break
	}
	_ = doc
	if run0 == nil {
		res.Inconclusive = "no-multi-request-operation: no generated operation sent >= 2 subgraph requests"
		return res
	}
	detail := func(extra map[string]any) map[string]any {
		d := layoutDetail()
		d["operation"], d["variables"] = text, string(vars)
		for k, v := range extra {
			d[k] = v
		}
		return d
	}
	fw.SetContext(detail(nil))
	if gwOptions != "" {
		res.Count("multifetch_cases", 1)
		merged := 0
		for _, rq := range run0.Requests {
			if isMergedEntityRequest(rq) {
				merged++
			}
		}
		if merged > 0 {
			res.Count("multifetch_cases_with_merged_entity_request", 1)
			res.Count("multifetch_merged_entity_requests", int64(merged))
		}
	}
	// fault-free request set
	type r0info struct {
		id    reqID
		reps  map[string]bool
		in    map[string]bool // scalar values carried by the representations / variables of the request
		out   map[string]bool // scalar values in the (fault-free) response of the request
		deps  map[int]bool    // fault-free requests this one (transitively) takes input from
	}
	var R0 []r0info
	byID := map[reqID][]int{}
	for _, rq := range run0.Requests {
		ri := r0info{id: reqID{rq.Subgraph, rq.Query}, reps: map[string]bool{}}
		for _, rep := range rq.Reps {
			ri.reps[repKey(rep)] = true
		}
		ri.in, ri.out = map[string]bool{}, map[string]bool{}
		for _, rep := range rq.Reps {
			scalars(rep, ri.in)
		}
		if v, err := ref.DecodeJSON([]byte(rq.Response)); err == nil {
			scalars(v, ri.out)
		}
		byID[ri.id] = append(byID[ri.id], len(R0))
		R0 = append(R0, ri)
	}
	// observed dependencies of the fault-free run: B takes input from A when a scalar its representations
	// carry occurs in A's response (values of the universe are tagged strings; coincidences of small
	// numbers only ADD dependencies, which makes the independence rule below more lenient, never stricter)
	for b := range R0 {
		R0[b].deps = map[int]bool{}
		for a := range R0 {
			if a == b || run0.Requests[a].Arrival >= run0.Requests[b].Arrival {
				continue
			}
			for v := range R0[b].in {
				if R0[a].out[v] {
					R0[b].deps[a] = true
					break
				}
			}
			// @requires inputs (also booleans and nulls, which carry no recognisable value): a field
			// the representation carries next to its key was resolved by A for that entity
			for _, rep := range run0.Requests[b].Reps {
				tn, _ := rep["__typename"].(string)
				id := fmt.Sprint(rep["id"])
				for f := range rep {
					if f != "__typename" && f != "id" && run0.Requests[a].Resolved[fed.ProvKey(tn, id, f, nil)] {
						R0[b].deps[a] = true
					}
				}
			}
		}
	}
	for changed := true; changed; {
		changed = false
		for b := range R0 {
			for a := range R0[b].deps {
				for x := range R0[a].deps {
					if !R0[b].deps[x] {
						R0[b].deps[x] = true
						changed = true
					}
				}
			}
		}
	}
	var ids []reqID
	for id := range byID {
		ids = append(ids, id)
	}
	sort.Slice(ids, func(i, j int) bool {
		if ids[i].sub != ids[j].sub {
			return ids[i].sub < ids[j].sub
		}
		return ids[i].query < ids[j].query
	})
	root := &ref.Obj{Type: "Query", ID: "root"}
	if gop.Operation == gast.Mutation {
		root.Type = "Mutation"
	}
	// fault plans
	type plan map[reqID]string
	var plans []plan
	// the entity-count kinds only make sense for entity requests
	kindsFor := func(id reqID) []string {
		if strings.Contains(id.query, "_entities") {
			if gwOptions != "" {
				// a merged multi fetch answers under aliases (f0, f1, ...): the transport's entity-count kinds
				// only resize a top-level _entities array and would leave such an answer as it is
				for _, i := range byID[id] {
					if isMergedEntityRequest(run0.Requests[i]) {
						return fed.FaultKinds[:7]
					}
				}
			}
			return fed.FaultKinds
		}
		return fed.FaultKinds[:7]
	}
	for _, id := range ids {
		for _, k := range kindsFor(id) {
			plans = append(plans, plan{id: k})
		}
	}
	if len(ids) <= 4 {
		for i := 0; i < len(ids); i++ {
			for j := i + 1; j < len(ids); j++ {
				ki, kj := kindsFor(ids[i]), kindsFor(ids[j])
				plans = append(plans, plan{ids[i]: ki[r.IntN(len(ki))], ids[j]: kj[r.IntN(len(kj))]})
			}
		}
	}
	// fault-free reference with provenance
	prov0 := map[string]ref.Prov{}
	co := ref.Coercer{Schema: superGql}
	cv, _ := co.CoerceVariableValues(gop, vmm)
	ex0 := &ref.Executor{Schema: superGql, Resolver: fed.NewReferenceResolver(l, u), Vars: cv, Prov: prov0}
	want0 := ex0.ExecuteOperation(gop, root)
	if ref.Canon(anyOf(want0)) != ref.Canon(run0.Data) {
		res.Inconclusive = "fault-free-run-differs-from-reference: judged by C01"
		return res
	}
	sameReq := map[reqID]struct{ kind, canon string }{}
	var keys []string
	for _, pl := range plans {
		pl := pl
		planDesc := map[string]string{}
		for id, k := range pl {
			planDesc[id.sub+": "+truncate(id.query, 160)] = k
		}
		kinds := make([]string, 0, len(pl))
		for _, k := range pl {
			kinds = append(kinds, k)
		}
		sort.Strings(kinds)
		singleRep := false
		countOnSingle := false
		for id, k := range pl {
			for _, i := range byID[id] {
				if len(R0[i].reps) == 1 {
					singleRep = true
					if k == "fewer-entities" || k == "more-entities" {
						countOnSingle = true
					}
				}
			}
		}
		match := map[string]string{"fault_kinds": strings.Join(kinds, "+"), "faults": fmt.Sprint(len(pl)), "operation_kind": string(gop.Operation), "faulted_request_has_single_representation": fmt.Sprint(singleRep), "entity_count_fault_on_single_entity_request": fmt.Sprint(countOnSingle)}
		if gwOptions != "" {
			// facts of the multi-fetch cases: the option set, and whether a faulted request is a MERGED entity
			// request (several entity fetches under aliases f1, f2, ... in one operation)
			match["gateway_options"], match["multi_fetch"] = gwOptions, "true"
			merged := false
			for id := range pl {
				for _, i := range byID[id] {
					if isMergedEntityRequest(run0.Requests[i]) {
						merged = true
					}
				}
			}
			match["faulted_request_is_merged_multi_fetch"] = fmt.Sprint(merged)
		}
		got := execWatch(gw, text, vars, func(arrival int, sub, query string) *fed.Fault {
			if k, ok := pl[reqID{sub, query}]; ok {
				return &fed.Fault{Kind: k}
			}
			return nil
		})
		res.Count("fault_runs", 1)
		fdetail := func(extra map[string]any) map[string]any {
			d := detail(map[string]any{"fault_plan": planDesc})
			if got != nil {
				var reqDump []map[string]any
				for _, rq := range got.Requests {
					reqDump = append(reqDump, map[string]any{"subgraph": rq.Subgraph, "query": rq.Query, "faulted": rq.Faulted, "response": truncate(rq.Response, 300)})
				}
				d["requests_under_fault"] = reqDump
				d["gateway_response"] = truncate(got.Raw, 2500)
			}
			for k, v := range extra {
				d[k] = v
			}
			return d
		}
		if got == nil {
			res.Violate("no-return", "the gateway did not return under a subgraph fault (watchdog)", match, fdetail(nil))
			continue
		}
		if got.panicMsg != "" {
			res.Violate("panic", "the engine panicked under a subgraph fault: "+got.panicMsg, withFact(match, "panic", got.panicSig), fdetail(map[string]any{"stack": got.panicStack}))
			continue
		}
		if got.Err != nil {
			res.Violate("execute-error", "Execute returns an error instead of a response under a subgraph fault: "+got.Err.Error(), match, fdetail(nil))
			continue
		}
		// request rule + which requests succeeded
		avail := map[string]bool{}
		faultedSent := 0
		for _, rq := range got.Requests {
			res.Count("request_rule_checked", 1)
			id := reqID{rq.Subgraph, rq.Query}
			idxs, known := byID[id]
			if !known {
				res.Violate("fabricated-request", "a request sent under faults has no counterpart in the fault-free run (subgraph "+rq.Subgraph+")", match, fdetail(map[string]any{"request": rq.Query, "request_variables": rq.Variables}))
				continue
			}
			all := map[string]bool{}
			for _, i := range idxs {
				for k := range R0[i].reps {
					all[k] = true
				}
			}
			for _, rep := range rq.Reps {
				if !all[repKey(rep)] {
					res.Violate("fabricated-representation", "a request sent under faults carries an entity representation the fault-free run never sent to that subgraph", match, fdetail(map[string]any{"request": rq.Query, "representation": rep}))
					break
				}
			}
			for _, pr := range rq.Problems {
				res.Violate("subgraph-request", "bad subgraph request under faults: "+pr, match, fdetail(map[string]any{"request": rq.Query}))
				break
			}
			if rq.Faulted != "" {
				faultedSent++
				continue
			}
			for k := range rq.Resolved {
				avail[k] = true
			}
		}
		// independence rule: a fault-free request that neither is faulted nor takes input (transitively)
		// from a faulted one must still be sent
		{
			// (byte-identical requests may legitimately be shared by the subgraph single flight, so the
			// rule is per distinct request body, not per occurrence)
			sent := map[string]bool{}
			for _, rq := range got.Requests {
				sent[rq.Subgraph+"\x00"+rq.RawBody] = true
			}
			for i, ri := range R0 {
				if _, faulted := pl[ri.id]; faulted {
					continue
				}
				dependent := false
				for a := range R0[i].deps {
					if _, f := pl[R0[a].id]; f {
						dependent = true
					}
				}
				if dependent {
					continue
				}
				res.Count("independent_requests_checked", 1)
				if !sent[run0.Requests[i].Subgraph+"\x00"+run0.Requests[i].RawBody] {
					m := match
					if gwOptions != "" {
						m = withFact(match, "unsent_request_is_merged_multi_fetch", fmt.Sprint(isMergedEntityRequest(run0.Requests[i])))
					}
					res.Violate("independent-request-not-sent", "a request that does not depend on any failed request was not sent under faults (subgraph "+ri.id.sub+")", m, fdetail(map[string]any{"request": ri.id.query, "request_body": truncate(run0.Requests[i].RawBody, 600)}))
					break
				}
			}
		}
		res.Count("faulted_requests_sent", int64(faultedSent))
		if len(got.Requests) < len(run0.Requests) {
			res.Count("dependent_requests_skipped", int64(len(run0.Requests)-len(got.Requests)))
		}
		if faultedSent > 0 && len(got.Errors) == 0 {
			res.Violate("no-error-reported", "a subgraph request failed but the response reports no error", match, fdetail(nil))
		}
		res.Count("responses_compared", 1)
		var gotData any = got.Data
		if !got.HasData {
			gotData = nil
		}
		jd := &judge{prov: prov0, avail: avail}
		jd.walk(nil, ref.NormalizeJSON(anyOf(want0)), ref.NormalizeJSON(gotData))
		res.Count("positions_nulled_by_taint", int64(jd.nulled))
		res.Count("positions_nulled_not_judged_key_at_several_positions", int64(jd.ambiguous))
		res.Count("positions_kept", int64(jd.kept))
		nulled := jd.nulled
		for _, pr := range jd.problems {
			res.Violate("isolation", pr.msg, withFact(match, "problem", pr.class), fdetail(map[string]any{"position": pr.path, "fault_free_data": truncate(ref.Canon(anyOf(want0)), 2500), "data_under_fault": truncate(ref.Canon(gotData), 2500)}))
			break
		}
		// metamorphic: every total-loss kind on the same request(s) yields the same data
		if len(pl) == 1 {
			for id := range pl {
				canon := ref.Canon(gotData)
				if prev, ok := sameReq[id]; ok && prev.canon != canon {
					res.Violate("kind-dependent", "two total-loss fault kinds on the same request yield different data ("+prev.kind+" vs "+kinds[0]+")", withFact(match, "other_kind", prev.kind), fdetail(map[string]any{"data_other_kind": truncate(prev.canon, 2000), "data_this_kind": truncate(canon, 2000)}))
				} else if !ok {
					sameReq[id] = struct{ kind, canon string }{kinds[0], canon}
				}
				res.Count("kind_equivalence_checked", 1)
			}
		}
		if len(got.Requests) < len(run0.Requests) || (nulled > 0 && jd.kept > 0) {
			keys = append(keys, fw.HashKey(l.SuperSDL, text, planDesc))
			if res.Sample == nil {
				res.Sample = map[string]any{"layout": l.Describe, "operation": text, "fault_plan": planDesc, "requests_fault_free": len(run0.Requests), "requests_under_fault": len(got.Requests), "response": truncate(got.Raw, 600)}
			}
		}
	}
	res.Keys = keys
	res.Key = fw.HashKey("c07", idx)
	res.Nontrivial = len(keys) > 0
	return res
}

// isMergedEntityRequest: an entity request whose (fault-free) answer has no top-level _entities array, i.e. a
// multi fetch answering under aliases.
func isMergedEntityRequest(rq *fed.Request) bool {
	return strings.Contains(rq.Query, "_entities") && !strings.Contains(rq.Response, `"_entities":[`)
}

type watched struct {
	*fed.Result
	panicMsg, panicSig, panicStack string
}

// execWatch runs one execution with a generous wall-clock watchdog (nil = did not return).
func execWatch(gw *fed.Gateway, text string, vars []byte, faultFor func(arrival int, sub, query string) *fed.Fault) *watched {
	gw.Transport.FaultFor = faultFor
	done := make(chan *watched, 1)
	ctx, cancel := context.WithCancel(context.Background())
	defer cancel()
	var once sync.Once
	go func() {
		w := &watched{}
		defer func() {
			if r := recover(); r != nil {
				st := string(debug.Stack())
				w.Result = &fed.Result{}
				w.panicMsg, w.panicSig, w.panicStack = fmt.Sprint(r), fw.PanicSignature(fmt.Sprint(r), st), truncate(st, 4000)
			}
			once.Do(func() { done <- w })
		}()
		w.Result = gw.Execute(ctx, text, "", vars)
	}()
	select {
	case w := <-done:
		return w
	case <-time.After(60 * time.Second):
		return nil
	}
}

func anyOf(m map[string]any) any {
	if m == nil {
		return nil
	}
	return m
}

func withFact(m map[string]string, k, v string) map[string]string {
	out := map[string]string{k: v}
	for a, b := range m {
		out[a] = b
	}
	return out
}

func truncate(s string, n int) string {
	if len(s) > n {
		return s[:n] + "…"
	}
	return s
}

func firstDiff(a, b string) string {
	i := 0
	for i < len(a) && i < len(b) && a[i] == b[i] {
		i++
	}
	lo := i - 150
	if lo < 0 {
		lo = 0
	}
	cut := func(s string) string {
		hi := i + 200
		if hi > len(s) {
			hi = len(s)
		}
		if lo > len(s) {
			return ""
		}
		return s[lo:hi]
	}
	return "expected: …" + cut(a) + "\nobserved: …" + cut(b)
}

type problem struct{ class, msg, path string }

// judge walks the fault-free data and the data under faults together.
type judge struct {
	prov      map[string]ref.Prov
	avail     map[string]bool // keys resolved by a successful request of the faulted run
	multi     map[string]int  // key → number of response positions carrying it (fault-free)
	ambiguous int
	nulled    int
	kept      int
	problems  []problem
}

func (j *judge) add(class, msg string, path []any) {
	if len(j.problems) < 5 {
		j.problems = append(j.problems, problem{class, msg, ref.PathKey(path)})
	}
}

func (j *judge) keyOf(path []any) (string, bool) {
	p, ok := j.prov[ref.PathKey(path)]
	if !ok {
		return "", false
	}
	return fed.ProvKey(p.ParentType, p.ObjID, p.Field, p.Args), true
}

// subtreeHasDead: some field position at or below path was delivered by no successful request of
// the faulted run. Entity ids are unique per response position in this property's universe (huge id
// pool), so a key identifies a position and this is a positional statement.
func (j *judge) subtreeHasDead(path []any) bool {
	if j.multi == nil {
		j.multi = map[string]int{}
		for _, p := range j.prov {
			j.multi[fed.ProvKey(p.ParentType, p.ObjID, p.Field, p.Args)]++
		}
	}
	prefix := ref.PathKey(path)
	amb := false
	for pk, p := range j.prov {
		if pk == prefix || strings.HasPrefix(pk, prefix+"/") {
			k := fed.ProvKey(p.ParentType, p.ObjID, p.Field, p.Args)
			if !j.avail[k] {
				return true
			}
			if j.multi[k] > 1 {
				amb = true
			}
		}
	}
	if amb {
		// the same (object, field, arguments) occurs at several response positions (repeated lookup ids,
		// aliases of the field name itself): the key does not identify the position, not judged
		j.ambiguous++
		return true
	}
	return false
}

func (j *judge) walk(path []any, d0, df any) {
	if df == nil {
		if d0 == nil {
			return
		}
		j.nulled++
		if !j.subtreeHasDead(path) {
			j.add("independent-data-lost", "a position that does not depend on any failed or skipped request is null under faults", path)
		}
		return
	}
	if d0 == nil {
		j.add("fabricated", "a position that is null fault-free carries a value under faults", path)
		return
	}
	// non-null under faults: the field position itself needs a live provider
	if k, ok := j.keyOf(path); ok {
		switch {
		case j.avail[k]:
			j.kept++
		default:
			j.add("undelivered-data-present", "a non-null value under faults whose field position was resolved by no successful request", path)
			return
		}
	}
	switch a := d0.(type) {
	case map[string]any:
		b, ok := df.(map[string]any)
		if !ok {
			j.add("shape", "object expected", path)
			return
		}
		if len(a) != len(b) {
			j.add("shape", "response keys differ from the fault-free response", path)
			return
		}
		for k, v := range a {
			bv, has := b[k]
			if !has {
				j.add("shape", "response key "+k+" missing under faults", path)
				return
			}
			j.walk(append(append([]any{}, path...), k), v, bv)
		}
	case []any:
		b, ok := df.([]any)
		if !ok || len(a) != len(b) {
			j.add("shape", "list length differs from the fault-free response", path)
			return
		}
		for i := range a {
			j.walk(append(append([]any{}, path...), i), a[i], b[i])
		}
	default:
		if ref.Canon(d0) != ref.Canon(df) {
			j.add("fabricated", "a leaf value under faults differs from the fault-free value", path)
		}
	}
}

// scalars collects the scalar values (as canonical strings) of a JSON value, except typenames and booleans/null.
func scalars(v any, into map[string]bool) {
	switch x := v.(type) {
	case map[string]any:
		for k, e := range x {
			if k == "__typename" {
				continue
			}
			scalars(e, into)
		}
	case []any:
		for _, e := range x {
			scalars(e, into)
		}
	case nil, bool:
	default:
		into[fmt.Sprint(x)] = true
	}
}

