// Package c09: planning is deterministic; plan caching and plan optimisations are transparent.
package c09

import (
	"bytes"
	"context"
	"encoding/json"
	"fmt"
	"math/rand/v2"
	"runtime/debug"
	"sort"
	"strings"

	"github.com/vektah/gqlparser/v2"
	gast "github.com/vektah/gqlparser/v2/ast"

	"github.com/wundergraph/graphql-go-tools/execution/engine"
	"github.com/wundergraph/graphql-go-tools/execution/graphql"
	"github.com/wundergraph/graphql-go-tools/v2/pkg/astprinter"
	"github.com/wundergraph/graphql-go-tools/v2/pkg/engine/postprocess"
	"github.com/wundergraph/graphql-go-tools/v2/pkg/engine/resolve"

	"verifharness/internal/fed"
	"verifharness/internal/fw"
	"verifharness/internal/gen"
	"verifharness/internal/ref"
)

type c09 struct{ fw.Base }

func init() {
	fw.Register(c09{})
	childInit()
}

func (c09) ID() string             { return "C09" }
func (c09) Race() bool             { return true }
func (c09) CaseTimeout(string) int { return 300 }

// the cases [0, baseCases) are the three kinds over internal/fed layouts (by index mod 5); the cases
// appended after them are determinism cases over the multi-key layouts of multikey.go
func baseCases(tier string) int {
	if tier == fw.Thorough {
		return 2400
	}
	return 160
}

func mkCases(tier string) int {
	if tier == fw.Thorough {
		return 480
	}
	return 32
}

// ... and after those, determinism cases over the merge-alias schemas of alias.go
func alCases(tier string) int {
	if tier == fw.Thorough {
		return 240
	}
	return 16
}

func (c09) NumCases(tier string) int { return baseCases(tier) + mkCases(tier) + alCases(tier) }

func (c09) Rule() string {
	return "Inputs as in C01: generated federation layout (2-3 subgraphs, entities with keys, @requires, @provides, @shareable, interfaces, unions, mutations) x valid-by-construction operations x coercible variables, executed by real ExecutionEngines whose subgraphs are in-process semantic servers over one hash-defined universe and whose transport records every subgraph request. Half of the operations are amplified (object-valued root fields repeated under fresh aliases: what minification, multi-fetch merging act on) and, where the schema allows, get a pair of twin fragments (... on A { f {..} } ... on B { f {..} } under an abstract field: what fetch de-duplication acts on). Case kinds by index mod 5. " +
		"DETERMINISM (0,1): " + fmt.Sprint(detOps) + " operations on " + fmt.Sprint(detEngines) + " engines built freshly from the same configuration (default options for kind 0, the case's option set for kind 1; run-time single flight off so that the transport sees exactly what the plan yields), each executing the operations in a different order (so every operation is planned by an engine without history and by one with previous plans); compared per operation: normalised operation text (premise), the multiset of subgraph requests (subgraph, exact operation text, variables as JSON value; separately the exact request bodies) and the exact response bytes. A difference of the requests on the wire is attributed to planning only if each engine reproduces its own request multiset in " + fmt.Sprint(selfRepeats) + " further executions of its (then cached) plan; otherwise it is run-time variation of ONE plan (counted and listed, not a planning matter). Then the normalised operation is re-parsed and planned directly with plan.Planner (+ postprocess, query plans included) by two fresh planners over one configuration object, a fresh planner over a second configuration object built from the same layout, one re-used planner that plans all operations of the case forwards and then backwards (every operation twice, with different histories) and a diagnostic twin of it whose Visitor maps the harness empties before each plan - under the default option set and the case's option set; a canonical reflection dump of the whole plan (response tree, fetch tree incl. fetch inputs, variables, post-processing, dependencies; every field, exported or not; data source instances and traces opaque) and the printed FetchTreeNode.QueryPlan must be identical. Every fourth determinism case also recomputes everything in a NEW PROCESS (same binary, fresh hash seeds) and compares. Each operation is also planned once under every single option to count how often the option changes the plan at all (live_* counters). " +
		"TRANSPARENCY sequential (2,3) / concurrent (4): one shared engine built with option set O (the 16 subsets of {fetch de-duplication off, multi-fetch merging on, DAG scheduling on, subgraph-operation minification on} enumerated by case ordinal) serves a history of 15-30 requests: " + fmt.Sprint(seqOps) + " base operations each repeated 2-3 times, plus per base operation: same text with other variable values, all variables renamed, a literal turned into a variable, a fragment-structure variant (same plan-cache key by design), an invalid operation and an invalid variables object (must be refused alike), shuffled. Every response (exact bytes; or the error text when Execute fails) must equal the response of a FRESH default-options engine that serves only that single request; a variable-renamed request must get the bytes of its original. Plan-cache hits are detected per request (cached plan count unchanged by a successful request) in the sequential kind and bounded from below (successful requests - cached plans) in the concurrent kind, where " + fmt.Sprint(concWorkers) + " goroutines issue permutations of the history simultaneously under the race detector. " +
		"MULTI-KEY DETERMINISM (the cases appended after the first 160/2400): PRNG-parameterised layouts of this package (multikey.go) in which one entity has three keys and every subgraph knows only some of them - root subgraph k1, target subgraph k3, 2-3 bridge subgraphs (k1+k3; chains k1+k2 / k2+k3; mixed key sets), controls with a direct jump or a single best route; names, key names and types, field owners and the REGISTRATION ORDER of the data sources are drawn - served by semantic subgraphs that identify an entity by any key they know (fixed bijection between the keys); 4 operations per layout that need the target's fields; the same determinism oracle (fresh engines, fresh / re-used / twin planners, new process every third case). In the sequential/concurrent kinds every operation with a field selected on the interface and again under one concrete type is also answered by a fresh engine with ONLY fetch de-duplication off and compared with the default engine (universe seed chosen among 8 so that a parent outside that type is in the data). " +
		"MERGE-ALIAS HISTORIES (the last 16/240 cases): PRNG-drawn small schemas of this package (alias.go) - a union or interface of 2-3 members whose common fields conflict in nullability or abstract-vs-member type (also one level down), which makes the planner give member fields generated __internal_merge_ aliases - and histories of " + fmt.Sprint(aliasOps) + " small operations alternating alias-needing and plain selections; one re-used plan.Planner (and its twin) plans the history forwards and backwards and every plan must equal a fresh planner's (same oracle as above; counters al_* say how many histories and re-used plans came after a merge-alias plan). " +
		"Non-trivial = determinism: an operation with >=2 subgraph requests incl. >=1 _entities request compared on all engines and planners; transparency: >=1 cache-served response compared and >=1 operation with >=2 subgraph requests. Distinct by hash of (layout, operation, variables) resp. (layout, option set, history)."
}

func (c09) Assumptions() []string {
	return []string{
		"'process run' independence is observed two ways: (a) in-process, since every Go map carries its own random hash seed and every range starts at a random offset, freshly built engines/planners in one process see independent map orders; (b) for every fourth determinism case by re-running the case in a new process of the same binary",
		"'the response a client receives' is read as the exact bytes written to the response writer (data, errors, key order); a difference that disappears after JSON canonicalisation is reported under its own kind (response-bytes-differ)",
		"'the same subgraph requests' is read as: same multiset of (subgraph, exact operation text, variables as a JSON value); the order between requests is not compared at the transport (independent requests run in parallel) but through the plan dump (fetch tree, dependencies); byte-level differences of request bodies with equal JSON value have their own kind",
		"clean universes only (nullable positions may be null, non-null never), no subgraph faults: error rendering order under failures is C07's subject",
		"operations with a union-typed fragment inside a non-union parent are not generated (open finding C01-F1); operations that Execute refuses on every engine alike (e.g. C01-F2 planned-operation merge conflict) are counted and only checked for refusing alike",
		"fetch de-duplication rarely has anything to remove in the generated plans (live_dedup_* counters: about 1% of the operations even with the twin-fragment steering), so its transparency is exercised much less than that of the other three options",
		"the diagnostic twin of the re-used planner empties unexported maps of plan.Visitor by reflection; it never decides a verdict about the untouched re-used planner, it only classifies (match fact vanishes_when_visitor_state_cleared) and keeps the remaining cross-plan state of a planner under observation while finding C09-F1 is open",
		"not generated: @defer, subscriptions, several operations per document, introspection",
		"a plan.Planner instance may be re-used for several operations (as the router's planner pool does); the engine itself builds a new planner per uncached plan",
	}
}

func (c09) RequiredCounters(string) []string {
	return []string{
		"det_operations_compared", "det_engine_executions", "det_request_sets_compared", "det_responses_compared",
		"det_plans_dumped", "det_plan_dumps_compared", "det_reused_planner_plans", "det_reused_cleared_planner_plans",
		"det_cross_process_operations_compared", "det_cross_process_plans_compared", "det_multi_request_operations",
		"seq_requests", "seq_cache_hits_compared", "seq_cache_hits_values", "seq_cache_hits_rename", "seq_responses_compared",
		"seq_rename_pairs_compared", "seq_values_variants_compared", "seq_invalid_requests_compared",
		"seq_directive_value_pairs", "seq_directive_value_pairs_with_different_normalised_operations", "seq_directive_value_pairs_with_different_responses",
		"seq_directive_flip_false_to_true", "seq_directive_flip_true_to_false", "seq_directive_values_responses_compared",
		"seq_cache_hits_directive-values", "seq_cache_hits_values-null", "seq_cache_hits_values-omitted",
		"seq_wire_request_sets_compared", "seq_wire_request_sets_compared_cache_served",
		"conc_requests", "conc_cache_hits_lower_bound", "conc_responses_compared",
		"opt_dedup_off_responses", "opt_multifetch_on_responses", "opt_schedule_on_responses", "opt_minify_on_responses", "opt_default_responses",
		"effect_multifetch_merged_request", "effect_minified_request",
		"live_multifetch_changes_plan", "live_schedule_changes_plan", "live_minify_changes_plan",
		"reference_engines",
		"al_cases", "al_operations_with_merge_aliases", "al_histories_with_merge_aliases", "al_reused_planner_plans_after_a_merge_alias_plan",
		"mk_cases", "mk_layouts_with_tied_indirect_routes", "mk_control_layouts", "mk_operations_routed_through_a_bridge",
		"mk_operations_with_tied_indirect_routes", "mk_control_operations_direct_jump", "mk_clean_responses",
	}
}

const (
	detOps      = 4
	detEngines  = 3
	seqOps      = 3
	concWorkers = 4
)

const (
	kindDet = iota
	kindSeq
	kindConc
)

func caseKind(idx int) int {
	switch idx % 5 {
	case 0, 1:
		return kindDet
	case 2, 3:
		return kindSeq
	}
	return kindConc
}

// optMask: bit0 = fetch de-duplication OFF, bit1 = multi-fetch ON, bit2 = DAG scheduling ON, bit3 = minification ON.
func optMask(idx int) int {
	switch caseKind(idx) {
	case kindSeq:
		ord := (idx/5)*2 + (idx%5 - 2)
		return ord % 16
	case kindConc:
		return ((idx/5)*7 + 1) % 16
	default:
		ord := (idx/5)*2 + idx%5
		return (ord*5 + 3) % 16
	}
}

func maskString(m int) string {
	var s []string
	if m&1 != 0 {
		s = append(s, "dedup-off")
	}
	if m&2 != 0 {
		s = append(s, "multifetch")
	}
	if m&4 != 0 {
		s = append(s, "schedule")
	}
	if m&8 != 0 {
		s = append(s, "minify")
	}
	if len(s) == 0 {
		return "default"
	}
	return strings.Join(s, "+")
}

func postprocessOptions(m int) []postprocess.ProcessorOption {
	var o []postprocess.ProcessorOption
	if m&1 != 0 {
		o = append(o, postprocess.DisableDeduplicateSingleFetches())
	}
	if m&2 != 0 {
		o = append(o, postprocess.EnableMultiFetch())
	}
	if m&4 != 0 {
		o = append(o, postprocess.EnableScheduleFetches())
	}
	return o
}

// ---------------------------------------------------------------------------------------------
// inputs (a pure function of (seed, idx): the child process of the cross-process check regenerates them)

type request struct {
	Doc  *gen.Doc
	Vals map[string]*gen.Val
	Text string
	Vars []byte
	Tag  string // base | values | directive-values | values-null | values-omitted | rename | lit2var | wrap | named2inline | dup | invalid-*
	Base int
	// directive-values: the first flipped @skip/@include variable and its value in the base request
	FlipVar  string
	FlipFrom bool
	// the operation carries  tw: abstractField { __typename F {..} ... on T { F {..} } }  (T, F)
	TwinScopedTo, TwinField string
}

func (q *request) key() string { return fw.HashKey(q.Text, q.Vars) }

type input struct {
	// family-independent description of the configuration (what the determinism oracle needs)
	family   string // "fed" = layouts of internal/fed; "mk" = multi-key layouts of this package (multikey.go)
	superSDL string
	describe string
	feat     string
	subs     []subDesc
	ident    []any                        // what identifies the configuration across processes
	mk       func(mask int) (*rig, error) // builds a fresh engine over the configuration with the option set
	ops      []*request
	// fed family only
	prof     fed.Profile
	l        *fed.Layout
	superGql *gast.Schema
	u        *ref.Universe
	skipped  int
	twins    int
	// a universe under which a scoped/unscoped twin has a parent outside the fragment's type was found
	favourable bool
	// mk family only
	mkInfo *mkLayout
	// al family only
	alInfo *alLayout
}

type subDesc struct{ Name, SDL string }

// rig is one real ExecutionEngine over a configuration, with access to the log of the subgraph
// requests its transport has seen.
type rig struct {
	Engine *engine.ExecutionEngine
	reset  func()
	log    func() ([]reqRec, int, []string)
	close  func()
}

func (g *rig) Close() { g.close() }

func varsJSON(vals map[string]*gen.Val) []byte {
	m := map[string]any{}
	for k, v := range vals {
		x, _ := v.JSON(nil)
		m[k] = x
	}
	b, _ := json.Marshal(m)
	return b
}

func genInput(r *rand.Rand, nOps int, directiveVar bool) (*input, error) {
	in := &input{}
	in.prof = fed.RandomProfile(r)
	// the same entity field under the interface and under its concrete types: the shape fetch
	// de-duplication (with type-name scopes) lives on
	in.prof.IfaceRel = in.prof.Interface
	in.l = fed.GenLayout(r, in.prof)
	sg, err := gqlparser.LoadSchema(&gast.Source{Name: "super", Input: in.l.SuperSDL})
	if err != nil {
		return nil, fmt.Errorf("supergraph self-check: %v", err)
	}
	in.superGql = sg
	ents := map[string]bool{}
	for e := range in.l.Entities {
		ents[e] = true
	}
	in.u = &ref.Universe{Seed: r.Uint64(), Schema: sg, NullRate: 2, Entities: ents, PoolSize: 4, MaxList: 2}
	in.family, in.superSDL, in.describe, in.feat = "fed", in.l.SuperSDL, in.l.Describe, featureString(in.prof)
	// (Layout.Describe is a human-readable text built by ranging over maps: not part of the identity)
	in.ident = []any{in.l.SuperSDL, in.u.Seed}
	for _, sub := range in.l.Subgraphs {
		meta, _ := json.Marshal(sub.Meta)
		in.ident = append(in.ident, sub.Name, sub.SDL, meta)
		in.subs = append(in.subs, subDesc{sub.Name, sub.SDL})
	}
	fc, _ := json.Marshal(in.l.FieldConfigs)
	in.ident = append(in.ident, fc)
	in.mk = func(mask int) (*rig, error) { return fedRig(in, mask) }
	for k := 0; k < nOps; k++ {
		var q *request
		for attempt := 0; attempt < 12 && q == nil; attempt++ {
			op := gen.DefaultOpProfile(r)
			op.MaxDepth = 2 + r.IntN(3)
			op.NoSingletonVars = true
			op.Echo = attempt%2 == 1 || in.prof.IfaceRel
			if in.l.Super.Mutation != "" && r.IntN(8) == 0 {
				op.Kind = "mutation"
			}
			doc, vals := gen.GenOperation(r, in.l.Super, op)
			twinScopedTo, twinField := "", ""
			if r.IntN(2) == 0 {
				amplify(r, doc)
			}
			if op.Kind != "mutation" && r.IntN(2) == 0 {
				if x, scopedTo, field := twinFragments(r, in.l.Super); x != nil {
					doc.Ops[0].Sel = append(doc.Ops[0].Sel, x)
					in.twins++
					twinScopedTo, twinField = scopedTo, field
				}
			}
			if directiveVar && r.IntN(4) != 0 {
				addDirectiveVariable(r, doc, vals)
			}
			if gen.UnionFragmentInNonUnionParent(in.l.Super, doc) {
				in.skipped++
				continue // open finding C01-F1, judged by C01
			}
			q = &request{Doc: doc, Vals: vals, Text: doc.String(), Vars: varsJSON(vals), Tag: "base", Base: k, TwinScopedTo: twinScopedTo, TwinField: twinField}
			if _, gerrs := gqlparser.LoadQuery(sg, q.Text); gerrs != nil {
				return nil, fmt.Errorf("operation self-check: %v\n%s", gerrs, q.Text)
			}
		}
		if q != nil {
			in.ops = append(in.ops, q)
		}
	}
	if directiveVar {
		in.favourableUniverse()
	}
	return in, nil
}

// favourableUniverse (transparency cases only): an operation that selects a field on the interface
// and again inside a fragment on ONE concrete type distinguishes a correctly merged fetch scope from
// a narrowed one only if the data has a parent of ANOTHER type with that field non-null. The universe
// is hash-defined, so the harness tries a few universe seeds and keeps the first under which a fresh
// default engine answers with such a parent (which seed is kept depends only on the inputs).
func (in *input) favourableUniverse() {
	var q *request
	for _, x := range in.ops {
		if x.TwinScopedTo != "" {
			q = x
			break
		}
	}
	if q == nil {
		return
	}
	base := in.u.Seed
	for t := uint64(0); t < 8; t++ {
		in.u.Seed = base + t
		g, err := fedRig(in, 0)
		if err != nil {
			break
		}
		o := execute(g, q, true, false)
		g.Close()
		if o.Err != "" || o.Panic != "" {
			break
		}
		v, err := ref.DecodeJSON([]byte(o.Raw))
		if err != nil {
			break
		}
		m, _ := v.(map[string]any)
		d, _ := m["data"].(map[string]any)
		var items []any
		switch x := d["tw"].(type) {
		case []any:
			items = x
		case map[string]any:
			items = []any{x}
		}
		for _, it := range items {
			if o, ok := it.(map[string]any); ok && o["__typename"] != q.TwinScopedTo && o[q.TwinField] != nil {
				in.favourable = true
				in.ident[1] = in.u.Seed
				return
			}
		}
	}
	in.u.Seed = base
}

// addDirectiveVariable puts @include(if: $tb) or @skip(if: $tb), with a fresh variable $tb: Boolean!,
// on one field of the operation (object-valued fields preferred: the plan loses or gains fetches).
// The engine evaluates such directives while normalising, so the same operation text has different
// normalised operations - and plans - for different values of $tb.
func addDirectiveVariable(r *rand.Rand, doc *gen.Doc, vals map[string]*gen.Val) {
	op := doc.Ops[0]
	var composite, leaves []*gen.FieldSel
	var walk func(sels []*gen.Sel, depth int)
	walk = func(sels []*gen.Sel, depth int) {
		for _, x := range sels {
			switch {
			case x.Field != nil:
				if len(x.Field.Dirs) == 0 && x.Field.Name != "__typename" {
					if len(x.Field.Sel) > 0 {
						composite = append(composite, x.Field)
					} else {
						leaves = append(leaves, x.Field)
					}
				}
				if depth < 3 {
					walk(x.Field.Sel, depth+1)
				}
			case x.Inline != nil:
				walk(x.Inline.Sel, depth)
			}
		}
	}
	walk(op.Sel, 0)
	var f *gen.FieldSel
	switch {
	case len(composite) > 0 && (len(leaves) == 0 || r.IntN(4) != 0):
		f = composite[r.IntN(len(composite))]
	case len(leaves) > 0:
		f = leaves[r.IntN(len(leaves))]
	default:
		return
	}
	name := "tb"
	for _, v := range op.Vars {
		if v.Name == name {
			return
		}
	}
	dir := "include"
	if r.IntN(2) == 0 {
		dir = "skip"
	}
	f.Dirs = append(f.Dirs, &gen.Dir{Name: dir, Args: []*gen.ArgVal{{Name: "if", Val: gen.VarV(name)}}})
	op.Vars = append(op.Vars, &gen.VarDef{Name: name, Type: gen.Named("Boolean", true)})
	if op.Name == "" {
		op.Name = "Q"
	}
	vals[name] = gen.BoolV(r.IntN(2) == 0)
}

// directiveVariables lists the variables used as the condition of an @skip / @include anywhere in the document.
func directiveVariables(doc *gen.Doc) []string {
	seen := map[string]bool{}
	var out []string
	dirs := func(ds []*gen.Dir) {
		for _, d := range ds {
			if d.Name != "skip" && d.Name != "include" {
				continue
			}
			for _, a := range d.Args {
				if a.Name == "if" && a.Val != nil && a.Val.Kind == gen.VVar && !seen[a.Val.Str] {
					seen[a.Val.Str] = true
					out = append(out, a.Val.Str)
				}
			}
		}
	}
	var walk func(sels []*gen.Sel)
	walk = func(sels []*gen.Sel) {
		for _, x := range sels {
			switch {
			case x.Field != nil:
				dirs(x.Field.Dirs)
				walk(x.Field.Sel)
			case x.Inline != nil:
				dirs(x.Inline.Dirs)
				walk(x.Inline.Sel)
			case x.Spread != nil:
				dirs(x.Spread.Dirs)
			}
		}
	}
	walk(doc.Ops[0].Sel)
	for _, f := range doc.Frags {
		walk(f.Sel)
	}
	return out
}

// amplify repeats object-valued root fields of the operation under fresh aliases (same arguments,
// same selection set). Repeated selection sets are what subgraph-operation minification factors
// out, and repeated entity jumps to one subgraph are what multi-fetch merging and fetch
// de-duplication act on; random operations alone rarely contain them.
func amplify(r *rand.Rand, doc *gen.Doc) {
	op := doc.Ops[0]
	var cands []*gen.Sel
	for _, x := range op.Sel {
		if x.Field != nil && len(x.Field.Sel) > 0 && len(x.Field.Dirs) == 0 {
			cands = append(cands, x)
		}
	}
	if len(cands) == 0 {
		return
	}
	n := 0
	for _, x := range cands {
		if r.IntN(3) == 0 {
			continue
		}
		for k := 1 + r.IntN(2); k > 0; k-- {
			cp := gen.CloneSels([]*gen.Sel{x})[0]
			n++
			cp.Field.Alias = fmt.Sprintf("m%d", n)
			op.Sel = append(op.Sel, cp)
		}
	}
}

// twinFragments builds a root selection  abstractField { __typename ... on A { f { leaves } } ... on B { f { leaves } } }
// where A and B are two possible types of the abstract field that both have a field f of the same
// composite type: the two branches need the same follow-up fetch at the same response path, which
// is what the fetch de-duplication stage removes. nil when the schema has no such shape.
func twinFragments(r *rand.Rand, s *gen.Schema) (sel *gen.Sel, scopedTo, field string) {
	q := s.Type(s.Query)
	if q == nil {
		return nil, "", ""
	}
	type cand struct {
		root *gen.Field
		a, b string
		f    *gen.Field
	}
	var cands []cand
	for _, rf := range q.Fields {
		k := s.KindOf(rf.Type.NamedType())
		if k != gen.Interface && k != gen.Union {
			continue
		}
		required := false
		for _, a := range rf.Args {
			if a.Type.NonNull && a.Default == nil {
				required = true
			}
		}
		if required {
			continue
		}
		pts := s.PossibleTypes(rf.Type.NamedType())
		// the field selected directly on the interface AND again inside a fragment on one concrete type:
		// an unscoped and a type-scoped duplicate of the same follow-up fetch
		if itd := s.Type(rf.Type.NamedType()); k == gen.Interface && itd != nil {
			for _, fi := range itd.Fields {
				if len(fi.Args) > 0 || s.KindOf(fi.Type.NamedType()) != gen.Object {
					continue
				}
				for _, pt := range pts {
					if td := s.Type(pt); td != nil {
						if fb := td.Field(fi.Name); fb != nil && fb.Type.String() == fi.Type.String() && len(fb.Args) == 0 {
							cands = append(cands, cand{rf, "", pt, fi})
							cands = append(cands, cand{rf, "", pt, fi}) // (weighted: the rarer shape)
						}
					}
				}
			}
		}
		for i := 0; i < len(pts); i++ {
			for j := i + 1; j < len(pts); j++ {
				ta, tb := s.Type(pts[i]), s.Type(pts[j])
				if ta == nil || tb == nil {
					continue
				}
				for _, fa := range ta.Fields {
					fb := tb.Field(fa.Name)
					if fb == nil || fa.Type.String() != fb.Type.String() || len(fa.Args) > 0 || len(fb.Args) > 0 {
						continue
					}
					if s.KindOf(fa.Type.NamedType()) != gen.Object {
						continue
					}
					cands = append(cands, cand{rf, pts[i], pts[j], fa})
				}
			}
		}
	}
	if len(cands) == 0 {
		return nil, "", ""
	}
	c := cands[r.IntN(len(cands))]
	target := s.Type(c.f.Type.NamedType())
	var leaves []*gen.Sel
	for _, lf := range target.Fields {
		if s.IsLeaf(lf.Type.NamedType()) && len(lf.Args) == 0 {
			leaves = append(leaves, &gen.Sel{Field: &gen.FieldSel{Name: lf.Name, Def: lf, Parent: target.Name}})
		}
	}
	if len(leaves) == 0 {
		return nil, "", ""
	}
	branch := func(on string) *gen.Sel {
		td := s.Type(on)
		return &gen.Sel{Inline: &gen.InlineFrag{On: on, Parent: c.root.Type.NamedType(), Sel: []*gen.Sel{
			{Field: &gen.FieldSel{Name: c.f.Name, Def: td.Field(c.f.Name), Parent: on, Sel: gen.CloneSels(leaves)}},
		}}}
	}
	first := branch
	if c.a == "" {
		first = func(string) *gen.Sel {
			return &gen.Sel{Field: &gen.FieldSel{Name: c.f.Name, Def: c.f, Parent: c.root.Type.NamedType(), Sel: gen.CloneSels(leaves)}}
		}
	}
	if c.a == "" {
		scopedTo, field = c.b, c.f.Name
	}
	return &gen.Sel{Field: &gen.FieldSel{Alias: "tw", Name: c.root.Name, Def: c.root, Parent: s.Query, Sel: []*gen.Sel{
		{Field: &gen.FieldSel{Name: "__typename", Parent: c.root.Type.NamedType()}},
		first(c.a), branch(c.b),
	}}}, scopedTo, field
}

func (in *input) layoutDetail() map[string]any {
	d := map[string]any{"supergraph": in.superSDL, "layout": in.describe}
	for _, sg := range in.subs {
		d["sdl_"+sg.Name] = sg.SDL
	}
	return d
}

func (in *input) layoutHash() string { return fw.HashKey(in.ident...) }

// variants of a base request for the transparency histories.
func (in *input) variants(r *rand.Rand, base *request) []*request {
	var out []*request
	add := func(tag string, d *gen.Doc, vals map[string]*gen.Val) {
		q := &request{Doc: d, Vals: vals, Text: d.String(), Vars: varsJSON(vals), Tag: tag, Base: base.Base}
		if _, gerrs := gqlparser.LoadQuery(in.superGql, q.Text); gerrs != nil {
			return // the rewrite has no valid form here (counted by absence)
		}
		if gen.UnionFragmentInNonUnionParent(in.l.Super, d) {
			return
		}
		out = append(out, q)
	}
	// other variable values, same text
	if len(base.Doc.Ops[0].Vars) > 0 {
		nv := map[string]*gen.Val{}
		for _, v := range base.Doc.Ops[0].Vars {
			if (!v.Type.NonNull || v.Default != nil) && r.IntN(5) == 0 {
				continue
			}
			val := gen.GenValue(r, in.l.Super, v.Type, 0, gen.ValueOpts{Const: true, JSONMode: true, NoSingleton: true})
			if v.Type.NonNull && val.Kind == gen.VNull {
				val = gen.GenValue(r, in.l.Super, v.Type.Required(), 0, gen.ValueOpts{Const: true, NoSingleton: true})
			}
			nv[v.Name] = val
		}
		add("values", base.Doc, nv)
	}
	// the SAME text with other values of the @skip/@include variables: all flipped; one flipped
	varDef := func(name string) *gen.VarDef {
		for _, v := range base.Doc.Ops[0].Vars {
			if v.Name == name {
				return v
			}
		}
		return nil
	}
	current := func(name string) (bool, bool) {
		if v, ok := base.Vals[name]; ok {
			return v.Bool, v.Kind == gen.VBool
		}
		if vd := varDef(name); vd != nil && vd.Default != nil && vd.Default.Kind == gen.VBool {
			return vd.Default.Bool, true
		}
		return false, false
	}
	var dvs []string
	for _, name := range directiveVariables(base.Doc) {
		if _, ok := current(name); ok {
			dvs = append(dvs, name)
		}
	}
	flip := func(names []string) {
		nv := map[string]*gen.Val{}
		for k, v := range base.Vals {
			nv[k] = v
		}
		for _, name := range names {
			cur, _ := current(name)
			nv[name] = gen.BoolV(!cur)
		}
		before := len(out)
		add("directive-values", base.Doc, nv)
		if len(out) > before {
			out[len(out)-1].FlipVar = names[0]
			out[len(out)-1].FlipFrom, _ = current(names[0])
		}
	}
	if len(dvs) > 1 && r.IntN(2) == 0 {
		flip([]string{dvs[r.IntN(len(dvs))]})
	} else if len(dvs) > 0 {
		flip(dvs)
	}
	// null instead of a value / omitted instead of present, for one variable that allows it
	var nullable []*gen.VarDef
	for _, v := range base.Doc.Ops[0].Vars {
		if val, ok := base.Vals[v.Name]; ok && val.Kind != gen.VNull && (!v.Type.NonNull || v.Default != nil) {
			nullable = append(nullable, v)
		}
	}
	if len(nullable) > 0 {
		v := nullable[r.IntN(len(nullable))]
		nv := map[string]*gen.Val{}
		for k, x := range base.Vals {
			if k != v.Name {
				nv[k] = x
			}
		}
		add("values-omitted", base.Doc, nv)
		if !v.Type.NonNull {
			nv2 := map[string]*gen.Val{}
			for k, x := range base.Vals {
				nv2[k] = x
			}
			nv2[v.Name] = gen.Null()
			add("values-null", base.Doc, nv2)
		}
	}
	if d, vals, ok := gen.Variant(r, in.l.Super, base.Doc, base.Vals, "rename"); ok {
		add("rename", d, vals)
	}
	if d, vals, ok := gen.Variant(r, in.l.Super, base.Doc, base.Vals, "lit2var"); ok {
		add("lit2var", d, vals)
	}
	kinds := []string{"wrap", "named2inline", "dup"}
	k := kinds[r.IntN(len(kinds))]
	if d, vals, ok := gen.Variant(r, in.l.Super, base.Doc, base.Vals, k); ok {
		add(k, d, vals)
	}
	// requests the engine must refuse (a shared engine sees those too): one invalid operation, one
	// invalid variables object. They are only required to be answered like a fresh engine answers them.
	var vm map[string]any
	if v, err := ref.DecodeJSON(base.Vars); err == nil {
		vm, _ = v.(map[string]any)
	}
	if vm == nil {
		vm = map[string]any{}
	}
	ops := []string{"unknown-field", "unknown-argument", "undefined-variable", "unknown-fragment", "selection-on-leaf", "missing-required-argument", "no-selection-on-composite", "unknown-directive"}
	if d, _, ok := gen.Mutate(r, in.l.Super, base.Doc, "", vm, ops[r.IntN(len(ops))]); ok {
		out = append(out, &request{Doc: d, Vals: base.Vals, Text: d.String(), Vars: base.Vars, Tag: "invalid-operation", Base: base.Base})
	}
	vks := []string{"missing-required-variable", "kind-swap", "null-in-non-null", "bad-enum-value", "object-for-scalar"}
	if mv, _, ok := gen.MutateVariables(r, in.l.Super, base.Doc.Ops[0].Vars, vm, vks[r.IntN(len(vks))]); ok {
		if b, err := json.Marshal(mv); err == nil {
			out = append(out, &request{Doc: base.Doc, Vals: base.Vals, Text: base.Text, Vars: b, Tag: "invalid-variables", Base: base.Base})
		}
	}
	return out
}

// ---------------------------------------------------------------------------------------------
// engines and observations

func newGateway(in *input, mask int) (*rig, error) { return in.mk(mask) }

// applyOptions: the parts of an option set that are set on the engine configuration.
func applyOptions(conf *engine.Configuration, mask int) {
	if mask&2 != 0 {
		conf.EnableMultiFetch()
	}
	if mask&4 != 0 {
		conf.EnableScheduleFetches()
	}
	if mask&8 != 0 {
		conf.VerifPlannerConfiguration().MinifySubgraphOperations = true
	}
}

func fedRig(in *input, mask int) (*rig, error) {
	gw, err := fed.NewGateway(in.l, in.superGql, in.u, fed.GatewayOptions{
		Configure: func(conf *engine.Configuration) { applyOptions(conf, mask) },
	})
	if err != nil {
		return nil, err
	}
	if mask&1 != 0 {
		// replaces the option list the engine derived from its configuration: repeat those
		gw.Engine.VerifSetPostProcessorOptions(postprocessOptions(mask)...)
	}
	return &rig{Engine: gw.Engine, reset: gw.Transport.Reset, log: func() ([]reqRec, int, []string) { return canonReqs(gw.Transport.Log()) }, close: gw.Close}, nil
}

type reqRec struct {
	Sub   string `json:"sub"`
	Query string `json:"query"`
	Vars  string `json:"vars"` // canonical JSON value
	Body  string `json:"body"` // exact bytes
}

type obs struct {
	Raw      string   `json:"raw"`
	Err      string   `json:"err"`
	Panic    string   `json:"panic"`
	PanicSig string   `json:"panic_sig"`
	Stack    string   `json:"-"`
	Norm     string   `json:"norm"`
	Reached  bool     `json:"reached"`
	Reqs     []reqRec `json:"reqs"`
	NEnt     int      `json:"n_ent"`
	Problems []string `json:"problems"`
}

func (o *obs) outcome() string {
	switch {
	case o.Panic != "":
		return "panic: " + o.PanicSig
	case o.Err != "":
		return "error: " + o.Err
	}
	return o.Raw
}

func canonReqs(log []*fed.Request) ([]reqRec, int, []string) {
	var out []reqRec
	nEnt := 0
	var problems []string
	for _, rq := range log {
		out = append(out, reqRec{Sub: rq.Subgraph, Query: rq.Query, Vars: ref.Canon(anyOfMap(rq.Variables)), Body: rq.RawBody})
		if strings.Contains(rq.Query, "_entities") {
			nEnt++
		}
		problems = append(problems, rq.Problems...)
	}
	sortReqs(out)
	return out, nEnt, problems
}

func sortReqs(out []reqRec) {
	sort.Slice(out, func(i, j int) bool {
		a, b := out[i], out[j]
		if a.Sub != b.Sub {
			return a.Sub < b.Sub
		}
		if a.Query != b.Query {
			return a.Query < b.Query
		}
		if a.Vars != b.Vars {
			return a.Vars < b.Vars
		}
		return a.Body < b.Body
	})
}

func anyOfMap(m map[string]any) any {
	if m == nil {
		return nil
	}
	return m
}

// execute runs one request on the gateway's engine. exclusive = nobody else uses this gateway now:
// the transport log is reset before and read after.
func execute(gw *rig, q *request, exclusive, noRuntimeDedup bool) (o *obs) {
	o = &obs{}
	if exclusive {
		gw.reset()
	}
	w := graphql.NewEngineResultWriter()
	req := &graphql.Request{Query: q.Text, Variables: q.Vars}
	capture := engine.VerifWithResolveContext(func(rc *resolve.Context) {
		if noRuntimeDedup {
			// identical in-flight subgraph requests are shared at run time (single flight, C11's subject),
			// which makes the number of requests that reach the transport depend on timing; with it
			// switched off the transport sees exactly the requests the plan yields
			rc.ExecutionOptions.DisableSubgraphRequestDeduplication = true
			rc.ExecutionOptions.DisableInboundRequestDeduplication = true
		}
		// called after normalisation / validation / variable remapping and before planning:
		// the document is exactly what the plan cache key is computed from
		o.Reached = true
		var buf bytes.Buffer
		if err := astprinter.Print(req.Document(), &buf); err == nil {
			o.Norm = buf.String()
		}
	})
	func() {
		defer func() {
			if r := recover(); r != nil {
				st := string(debug.Stack())
				o.Panic, o.PanicSig, o.Stack = fmt.Sprint(r), fw.PanicSignature(fmt.Sprint(r), st), truncate(st, 5000)
			}
		}()
		if err := gw.Engine.Execute(context.Background(), req, &w, capture); err != nil {
			o.Err = err.Error()
		}
	}()
	o.Raw = w.String()
	if exclusive {
		o.Reqs, o.NEnt, o.Problems = gw.log()
	}
	return o
}

func reqKeys(rs []reqRec, withBody bool) []string {
	out := make([]string, len(rs))
	for i, r := range rs {
		out[i] = r.Sub + "\x00" + r.Query + "\x00" + r.Vars
		if withBody {
			out[i] += "\x00" + r.Body
		}
	}
	sort.Strings(out)
	return out
}

func sameStrings(a, b []string) bool {
	if len(a) != len(b) {
		return false
	}
	for i := range a {
		if a[i] != b[i] {
			return false
		}
	}
	return true
}

// classifyReqDiff says what differs between two request multisets.
func classifyReqDiff(a, b []reqRec) string {
	if len(a) != len(b) {
		return "count"
	}
	proj := func(rs []reqRec, f func(reqRec) string) []string {
		out := make([]string, len(rs))
		for i, r := range rs {
			out[i] = f(r)
		}
		sort.Strings(out)
		return out
	}
	if !sameStrings(proj(a, func(r reqRec) string { return r.Sub }), proj(b, func(r reqRec) string { return r.Sub })) {
		return "subgraph"
	}
	if !sameStrings(proj(a, func(r reqRec) string { return r.Sub + "\x00" + r.Query }), proj(b, func(r reqRec) string { return r.Sub + "\x00" + r.Query })) {
		return "operation-text"
	}
	return "variables"
}

func reqDump(rs []reqRec) []map[string]string {
	var out []map[string]string
	for _, r := range rs {
		out = append(out, map[string]string{"subgraph": r.Sub, "query": r.Query, "variables": truncate(r.Vars, 1500)})
	}
	return out
}

func canonJSONText(s string) (string, bool) {
	v, err := ref.DecodeJSON([]byte(s))
	if err != nil {
		return "", false
	}
	return ref.Canon(v), true
}

// compareOutcome compares what two engines handed to the client. kind "" = equal.
func compareOutcome(want, got *obs) (kind, msg string) {
	wo, g := want.outcome(), got.outcome()
	if wo == g {
		return "", ""
	}
	switch {
	case got.Panic != "" || want.Panic != "":
		return "panic", "one engine panicked"
	case (want.Err != "") != (got.Err != ""):
		return "error-differs", "Execute fails on one engine and answers on the other"
	case want.Err != "":
		return "error-differs", "Execute fails with different errors"
	}
	cw, ok1 := canonJSONText(want.Raw)
	cg, ok2 := canonJSONText(got.Raw)
	if ok1 && ok2 && cw == cg {
		return "response-bytes-differ", "responses are the same JSON value but different bytes (key order / spelling)"
	}
	return "response-differs", "responses differ"
}

func truncate(s string, n int) string {
	if len(s) > n {
		return s[:n] + "…"
	}
	return s
}

func firstDiff(a, b string) string {
	i := 0
	for i < len(a) && i < len(b) && a[i] == b[i] {
		i++
	}
	lo := i - 200
	if lo < 0 {
		lo = 0
	}
	cut := func(s string) string {
		hi := i + 300
		if hi > len(s) {
			hi = len(s)
		}
		if lo > len(s) {
			return ""
		}
		return s[lo:hi]
	}
	return fmt.Sprintf("at byte %d\nA: …%s\nB: …%s", i, cut(a), cut(b))
}

func withFacts(m map[string]string, kv ...string) map[string]string {
	out := map[string]string{}
	for k, v := range m {
		out[k] = v
	}
	for i := 0; i+1 < len(kv); i += 2 {
		out[kv[i]] = kv[i+1]
	}
	return out
}

func featureString(p fed.Profile) string {
	var fs []string
	add := func(b bool, s string) {
		if b {
			fs = append(fs, s)
		}
	}
	add(p.Interface, "interface")
	add(p.Union, "union")
	add(p.Requires, "requires")
	add(p.Provides, "provides")
	add(p.Shareable, "shareable")
	add(p.Mutation, "mutation")
	return fmt.Sprintf("s%d:", p.Subgraphs) + strings.Join(fs, "+")
}

func classifyErr(msg string) string {
	switch {
	case strings.Contains(msg, "conflicting types") || strings.Contains(msg, "conflict"):
		return "planned-operation-merge-conflict"
	case strings.Contains(msg, "plan"):
		return "planning"
	}
	return "other"
}

// ---------------------------------------------------------------------------------------------

func (p c09) Run(c *fw.Ctx, idx int) fw.Result {
	if ord := idx - baseCases(c.Tier) - mkCases(c.Tier); ord >= 0 {
		// merge-alias histories: option set by ordinal, default-option engines, every fourth case in a new process too
		return runDetFamily(c, idx, "al", (ord*3)%16, 0, ord%4 == 0)
	}
	if ord := idx - baseCases(c.Tier); ord >= 0 {
		// multi-key determinism: option set by ordinal (0 = default), engines carry it in every
		// second case, every third case is also recomputed in a new process
		mask := (ord * 5) % 16
		engineMask := 0
		if ord%2 == 1 {
			engineMask = mask
		}
		return runDetFamily(c, idx, "mk", mask, engineMask, ord%3 == 0)
	}
	switch caseKind(idx) {
	case kindDet:
		return runDet(c, idx)
	case kindSeq:
		return runTransparency(c, idx, false)
	}
	return runTransparency(c, idx, true)
}
