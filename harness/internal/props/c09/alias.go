package c09

// Merge-alias schemas: the third configuration family of the determinism half.
//
// When the same response name is selected under two concrete members of an abstract type and the two
// fields differ in nullability, or one is an abstract type and the other one of its members, the
// planner gives the member fields generated aliases (__internal_merge_<Type>_<name>) in the subgraph
// operation and restores the client's response name in the response tree. That bookkeeping is keyed by
// field refs of the operation being planned, i.e. it is per-operation planner state. Random
// operations over internal/fed layouts never need such aliases, so this family draws small schemas
// that do: a union or interface of 2-3 members whose common fields conflict that way (also one level
// down), and HISTORIES of 8 small operations (planned forwards and backwards by one re-used
// plan.Planner, see runDetFamily) in which alias-needing operations and plain operations alternate;
// small operations make the field refs of consecutive operations overlap.

import (
	"bytes"
	"context"
	"encoding/json"
	"fmt"
	"math/rand/v2"
	"net/http"
	"strings"

	"github.com/jensneuse/abstractlogger"
	"github.com/vektah/gqlparser/v2"
	gast "github.com/vektah/gqlparser/v2/ast"

	"github.com/wundergraph/graphql-go-tools/execution/engine"
	"github.com/wundergraph/graphql-go-tools/execution/graphql"
	"github.com/wundergraph/graphql-go-tools/v2/pkg/engine/datasource/graphql_datasource"
	"github.com/wundergraph/graphql-go-tools/v2/pkg/engine/plan"
	"github.com/wundergraph/graphql-go-tools/v2/pkg/engine/resolve"

	"verifharness/internal/ref"
)

const aliasOps = 8

type alMember struct {
	Name       string
	AuthorType string // the abstract Author, or one of its members
	RankType   string // "Int!" | "Int"
	HasNote    bool
}

type alLayout struct {
	Abstract    string // name of the abstract type of the feed
	IsInterface bool
	Members     []alMember
	Author      string   // abstract author type (union)
	Authors     []string // its members
	KarmaType   map[string]string
	ListRoot    string
	SingleRoot  string
	Sub         string
	SDL         string
	seed        uint64
}

var (
	alAbstractNames = []string{"FeedItem", "Entry", "Node", "Thing"}
	alMemberNames   = []string{"Post", "Message", "Comment", "Story", "Memo", "Reply"}
	alAuthorNames   = []string{"Author", "Actor", "Origin"}
	alAuthorMembers = []string{"User", "Bot", "Team", "Guest"}
	alRootList      = []string{"feed", "stream", "timeline"}
	alRootSingle    = []string{"top", "pinned", "newest"}
)

func genAlLayout(r *rand.Rand) *alLayout {
	l := &alLayout{KarmaType: map[string]string{}, seed: r.Uint64()}
	l.Abstract = alAbstractNames[r.IntN(len(alAbstractNames))]
	l.IsInterface = r.IntN(3) == 0
	l.Author = alAuthorNames[r.IntN(len(alAuthorNames))]
	l.Authors = pickDistinct(r, alAuthorMembers, 2+r.IntN(2))
	for i, a := range l.Authors {
		// at least two members with different nullability of karma
		l.KarmaType[a] = []string{"Int!", "Int"}[i%2]
	}
	names := pickDistinct(r, alMemberNames, 2+r.IntN(2))
	for i, n := range names {
		m := alMember{Name: n, HasNote: r.IntN(2) == 0}
		switch {
		case i == 0:
			m.AuthorType, m.RankType = l.Author, "Int!"
		case i == 1:
			m.AuthorType, m.RankType = l.Authors[r.IntN(len(l.Authors))], "Int"
		default:
			m.AuthorType = append([]string{l.Author}, l.Authors...)[r.IntN(1+len(l.Authors))]
			m.RankType = []string{"Int!", "Int"}[r.IntN(2)]
		}
		l.Members = append(l.Members, m)
	}
	r.Shuffle(len(l.Members), func(i, j int) { l.Members[i], l.Members[j] = l.Members[j], l.Members[i] })
	l.ListRoot = alRootList[r.IntN(len(alRootList))]
	l.SingleRoot = alRootSingle[r.IntN(len(alRootSingle))]
	l.Sub = []string{"feedsvc", "content", "timeline1"}[r.IntN(3)]
	var sb strings.Builder
	sb.WriteString("type Query {\n  " + l.ListRoot + ": [" + l.Abstract + "!]!\n  " + l.SingleRoot + ": " + l.Abstract + "\n}\n")
	var ms []string
	for _, m := range l.Members {
		ms = append(ms, m.Name)
	}
	impl := ""
	if l.IsInterface {
		sb.WriteString("interface " + l.Abstract + " {\n  id: ID!\n  title: String\n}\n")
		impl = " implements " + l.Abstract
	} else {
		sb.WriteString("union " + l.Abstract + " = " + strings.Join(ms, " | ") + "\n")
	}
	for _, m := range l.Members {
		sb.WriteString("type " + m.Name + impl + " {\n  id: ID!\n  title: String\n  rank: " + m.RankType + "\n  author: " + m.AuthorType + "\n")
		if m.HasNote {
			sb.WriteString("  note: String\n")
		}
		sb.WriteString("}\n")
	}
	sb.WriteString("union " + l.Author + " = " + strings.Join(l.Authors, " | ") + "\n")
	for _, a := range l.Authors {
		sb.WriteString("type " + a + " {\n  id: ID!\n  name: String\n  karma: " + l.KarmaType[a] + "\n}\n")
	}
	l.SDL = sb.String()
	return l
}

func (l *alLayout) describe() string {
	var ms []string
	for _, m := range l.Members {
		ms = append(ms, fmt.Sprintf("%s(author: %s, rank: %s)", m.Name, m.AuthorType, m.RankType))
	}
	kind := "union"
	if l.IsInterface {
		kind = "interface"
	}
	return fmt.Sprintf("merge-alias schema: %s %s = %s; union %s = %s", kind, l.Abstract, strings.Join(ms, " | "), l.Author, strings.Join(l.Authors, " | "))
}

func (l *alLayout) metadata() *plan.DataSourceMetadata {
	meta := &plan.DataSourceMetadata{RootNodes: []plan.TypeField{{TypeName: "Query", FieldNames: []string{l.ListRoot, l.SingleRoot}}}}
	if l.IsInterface {
		meta.ChildNodes = append(meta.ChildNodes, plan.TypeField{TypeName: l.Abstract, FieldNames: []string{"id", "title"}})
	}
	for _, m := range l.Members {
		fs := []string{"id", "title", "rank", "author"}
		if m.HasNote {
			fs = append(fs, "note")
		}
		meta.ChildNodes = append(meta.ChildNodes, plan.TypeField{TypeName: m.Name, FieldNames: fs})
	}
	for _, a := range l.Authors {
		meta.ChildNodes = append(meta.ChildNodes, plan.TypeField{TypeName: a, FieldNames: []string{"id", "name", "karma"}})
	}
	return meta
}

// alServer answers from a hash-defined universe over the subgraph schema.
type alServer struct {
	name   string
	schema *gast.Schema
	u      *ref.Universe
}

func (s *alServer) handle(body []byte) ([]byte, reqRec, []string) {
	rec := reqRec{Sub: s.name, Body: string(body)}
	var in struct {
		Query     string         `json:"query"`
		Variables map[string]any `json:"variables"`
	}
	dec := json.NewDecoder(bytes.NewReader(body))
	dec.UseNumber()
	if err := dec.Decode(&in); err != nil {
		return []byte(`{"errors":[{"message":"bad request"}]}`), rec, []string{"request body is not valid JSON"}
	}
	rec.Query, rec.Vars = in.Query, ref.Canon(anyOfMap(in.Variables))
	doc, gerrs := gqlparser.LoadQuery(s.schema, in.Query)
	if gerrs != nil {
		return []byte(`{"errors":[{"message":"invalid operation"}]}`), rec, []string{"operation is not valid for the subgraph schema: " + gerrs.Error()}
	}
	op := doc.Operations[0]
	co := ref.Coercer{Schema: s.schema}
	vars, cerr := co.CoerceVariableValues(op, in.Variables)
	if cerr != nil {
		return []byte(`{"errors":[{"message":"invalid variables"}]}`), rec, []string{"variables are not coercible: " + cerr.Error()}
	}
	ex := &ref.Executor{Schema: s.schema, Resolver: s.u, Vars: vars}
	data := ex.ExecuteOperation(op, &ref.Obj{Type: "Query", ID: "root"})
	out := map[string]any{"data": anyOfMap(data)}
	if len(ex.Errors) > 0 {
		var es []map[string]any
		for _, e := range ex.Errors {
			es = append(es, map[string]any{"message": e.Message, "path": e.Path})
		}
		out["errors"] = es
	}
	b, err := json.Marshal(out)
	if err != nil {
		return []byte(`{"errors":[{"message":"internal"}]}`), rec, []string{"response not serialisable"}
	}
	return b, rec, nil
}

func alRig(l *alLayout, mask int) (*rig, error) {
	gs, err := gqlparser.LoadSchema(&gast.Source{Name: l.Sub, Input: l.SDL})
	if err != nil {
		return nil, fmt.Errorf("merge-alias schema rejected by gqlparser: %v\n%s", err, l.SDL)
	}
	t := &mkTransport{servers: map[string]subgraphHandler{}}
	t.servers[l.Sub] = &alServer{name: l.Sub, schema: gs, u: &ref.Universe{Seed: l.seed, Schema: gs, NullRate: 2, Entities: map[string]bool{}, PoolSize: 4, MaxList: 3}}
	ctx, cancel := context.WithCancel(context.Background())
	client := &http.Client{Transport: t}
	factory, err := graphql_datasource.NewFactory(ctx, client, graphql_datasource.NewGraphQLSubscriptionClient(ctx, graphql_datasource.WithUpgradeClient(client), graphql_datasource.WithStreamingClient(client)))
	if err != nil {
		cancel()
		return nil, err
	}
	sc, err := graphql_datasource.NewSchemaConfiguration(l.SDL, nil)
	if err != nil {
		cancel()
		return nil, err
	}
	cfg, err := graphql_datasource.NewConfiguration(graphql_datasource.ConfigurationInput{
		Fetch:               &graphql_datasource.FetchConfiguration{URL: "http://" + l.Sub + "/", Method: "POST"},
		SchemaConfiguration: sc,
	})
	if err != nil {
		cancel()
		return nil, err
	}
	d, err := plan.NewDataSourceConfigurationWithName[graphql_datasource.Configuration](l.Sub, l.Sub, factory, l.metadata(), cfg)
	if err != nil {
		cancel()
		return nil, err
	}
	schema, err := graphql.NewSchemaFromString(l.SDL)
	if err != nil {
		cancel()
		return nil, fmt.Errorf("merge-alias schema rejected by the repository: %v\n%s", err, l.SDL)
	}
	conf := engine.NewConfiguration(schema)
	conf.SetDataSources([]plan.DataSource{d})
	applyOptions(&conf, mask)
	eng, err := engine.NewExecutionEngine(ctx, abstractlogger.NoopLogger, conf, resolve.ResolverOptions{MaxConcurrency: 64})
	if err != nil {
		cancel()
		return nil, err
	}
	if mask&1 != 0 {
		eng.VerifSetPostProcessorOptions(postprocessOptions(mask)...)
	}
	return &rig{Engine: eng, reset: t.reset, log: t.snapshot, close: cancel}, nil
}

// genAliasInput: a merge-alias schema and a history of nOps small operations.
func genAliasInput(r *rand.Rand, nOps int) (*input, error) {
	l := genAlLayout(r)
	in := &input{family: "al", superSDL: l.SDL, describe: l.describe(), feat: "al", alInfo: l}
	in.ident = []any{l.SDL, l.seed, l.Sub}
	in.subs = []subDesc{{l.Sub, l.SDL}}
	in.mk = func(mask int) (*rig, error) { return alRig(l, mask) }
	authorSel := func(authorType string, conflict bool) string {
		// fields of the author; under the union they need fragments on its members
		pick := func() []string {
			fs := []string{"name"}
			if r.IntN(2) == 0 {
				fs = append(fs, "id")
			}
			if conflict || r.IntN(3) == 0 {
				fs = append(fs, "karma")
			}
			r.Shuffle(len(fs), func(i, j int) { fs[i], fs[j] = fs[j], fs[i] })
			return fs
		}
		if authorType != l.Author {
			return "{ " + strings.Join(pick(), " ") + " }"
		}
		var parts []string
		if r.IntN(3) == 0 {
			parts = append(parts, "__typename")
		}
		n := 0
		for _, a := range l.Authors {
			if n > 0 && r.IntN(4) == 0 {
				continue
			}
			parts = append(parts, "... on "+a+" { "+strings.Join(pick(), " ")+" }")
			n++
		}
		return "{ " + strings.Join(parts, " ") + " }"
	}
	for k := 0; k < nOps; k++ {
		// even positions lean towards selections that need merge aliases, odd ones towards plain selections
		wantAlias := k%2 == 0
		root := l.ListRoot
		if r.IntN(3) == 0 {
			root = l.SingleRoot
		}
		var parts []string
		if r.IntN(3) == 0 {
			parts = append(parts, "__typename")
		}
		nMembers := 0
		for _, m := range l.Members {
			if nMembers >= 1 && !wantAlias && r.IntN(2) == 0 {
				continue
			}
			var fs []string
			if wantAlias {
				switch r.IntN(3) {
				case 0:
					fs = append(fs, "author "+authorSel(m.AuthorType, false))
				case 1:
					fs = append(fs, "author "+authorSel(m.AuthorType, true))
				default:
					fs = append(fs, "rank")
					if r.IntN(2) == 0 {
						fs = append(fs, "author "+authorSel(m.AuthorType, false))
					}
				}
				if r.IntN(3) == 0 {
					fs = append(fs, "id")
				}
			} else {
				// plain: different members select different things (no shared conflicting response names)
				switch nMembers {
				case 0:
					fs = append(fs, "id")
					if r.IntN(2) == 0 {
						fs = append(fs, "title")
					}
				default:
					fs = append(fs, "id", "author "+authorSel(m.AuthorType, false))
					if m.HasNote && r.IntN(2) == 0 {
						fs = append(fs, "note")
					}
				}
				r.Shuffle(len(fs), func(i, j int) { fs[i], fs[j] = fs[j], fs[i] })
			}
			parts = append(parts, "... on "+m.Name+" { "+strings.Join(fs, " ")+" }")
			nMembers++
		}
		text := "{ " + root + " { " + strings.Join(parts, " ") + " } }"
		if r.IntN(3) == 0 {
			text = fmt.Sprintf("query H%d ", k) + text
		}
		tag := "al-plain"
		if wantAlias {
			tag = "al-alias-leaning"
		}
		in.ops = append(in.ops, &request{Text: text, Vars: []byte(`{}`), Tag: tag, Base: k})
	}
	return in, nil
}
