package c09

import (
	"fmt"
	"sort"
	"strings"
	"sync"

	"verifharness/internal/fw"
)

// runTransparency: one shared engine with option set O serves a history; every response must equal
// the response of a fresh default-options engine serving only that request.
func runTransparency(c *fw.Ctx, idx int, concurrent bool) fw.Result {
	kindName := "seq"
	if concurrent {
		kindName = "conc"
	}
	res := fw.Result{Key: fw.HashKey("c09-"+kindName, idx)}
	mask := optMask(idx)
	ms := maskString(mask)
	r := c.Rng(idx, "c09")
	in, err := genInput(r, seqOps, true)
	if err != nil {
		res.Broken(err.Error(), nil)
		return res
	}
	res.Count("operations_skipped_known_finding_C01F1", int64(in.skipped))
	res.Count("operations_with_twin_fragments", int64(in.twins))
	if in.favourable {
		res.Count("cases_with_scoped_twin_and_parent_outside_the_scope_in_the_data", 1)
	}
	if len(in.ops) == 0 {
		res.Inconclusive = "no-operation: every generated operation fell into an excluded class"
		return res
	}
	feat := in.feat
	res.Observe("layout_features", feat)
	res.Observe(kindName+"_option_sets", ms)
	// ---- the pool of requests and the history
	rv := c.Rng(idx, "variants")
	pool := append([]*request(nil), in.ops...)
	for _, b := range in.ops {
		vs := in.variants(rv, b)
		for _, v := range vs {
			res.Count("variants_"+v.Tag, 1)
		}
		pool = append(pool, vs...)
	}
	var hist []int
	for i, q := range pool {
		reps := 1
		if q.Tag == "base" {
			reps = 2 + rv.IntN(2)
		} else if rv.IntN(2) == 0 {
			reps = 2
		}
		for k := 0; k < reps; k++ {
			hist = append(hist, i)
		}
	}
	rv.Shuffle(len(hist), func(i, j int) { hist[i], hist[j] = hist[j], hist[i] })
	// every pair (request, same text with flipped @skip/@include variable) also runs back to back in
	// both orders: original, flipped, original
	baseIndex := func(q *request) int {
		for k, b := range pool {
			if b.Tag == "base" && b.Base == q.Base {
				return k
			}
		}
		return -1
	}
	for i, q := range pool {
		if q.Tag == "directive-values" {
			if bi := baseIndex(q); bi >= 0 {
				hist = append(hist, bi, i, bi)
			}
		}
	}
	// ---- references: a fresh default engine per distinct request, serving only that request
	refs := map[string]*obs{}
	for _, q := range pool {
		k := q.key()
		if _, ok := refs[k]; ok {
			continue
		}
		g0, err := newGateway(in, 0)
		if err != nil {
			res.Broken("gateway construction (generator self-check): "+err.Error(), in.layoutDetail())
			return res
		}
		fw.SetContext(map[string]any{"operation": q.Text, "variables": string(q.Vars), "supergraph": in.superSDL, "engine": "fresh default"})
		refs[k] = execute(g0, q, true, false)
		g0.Close()
		res.Count("reference_engines", 1)
	}
	// a fresh engine WITH the shared engine's option set, serving only that request: what the wire
	// must look like for that request under O (sequential kind only)
	refsO := map[string][]string{} // request key → request set (distinct records)
	reqSet := func(rs []reqRec) []string {
		ks := reqKeys(rs, false)
		out := ks[:0:0]
		for i, k := range ks {
			if i == 0 || ks[i-1] != k {
				out = append(out, k) // identical in-flight requests may be shared at run time: compare sets
			}
		}
		return out
	}
	freshO := func(q *request, n int) [][]string {
		g, err := newGateway(in, mask)
		if err != nil {
			return nil
		}
		defer g.Close()
		var out [][]string
		for i := 0; i < n; i++ {
			o := execute(g, q, true, false)
			if o.Err != "" || o.Panic != "" {
				return out
			}
			out = append(out, reqSet(o.Reqs))
		}
		return out
	}
	if !concurrent {
		for _, q := range pool {
			k := q.key()
			if _, ok := refsO[k]; ok || refs[k].Err != "" || refs[k].Panic != "" {
				continue
			}
			switch q.Tag {
			case "base", "values", "values-null", "values-omitted", "directive-values":
			default:
				continue // the wire is compared for the same-text-other-values family (and the originals)
			}
			if mask == 0 {
				refsO[k] = reqSet(refs[k].Reqs)
				continue
			}
			if sets := freshO(q, 1); len(sets) == 1 {
				refsO[k] = sets[0]
				res.Count("reference_engines_with_option_set", 1)
			}
		}
	}
	// ---- the de-duplication toggle alone, on the operations built for it: an operation that selects
	// a field on the interface and again under one concrete type is answered by a fresh engine with
	// fetch de-duplication off exactly as by the fresh default engine
	for _, q := range in.ops {
		if q.TwinScopedTo == "" {
			continue
		}
		want := refs[q.key()]
		if want == nil || want.Err != "" || want.Panic != "" {
			continue
		}
		g1, err := newGateway(in, 1)
		if err != nil {
			break
		}
		o := execute(g1, q, true, false)
		g1.Close()
		res.Count("dedup_toggle_pairs_compared", 1)
		if len(o.Reqs) > len(want.Reqs) {
			res.Count("dedup_toggle_pairs_with_more_requests_when_off", 1)
		}
		if kind, msg := compareOutcome(want, o); kind != "" {
			d := in.layoutDetail()
			d["operation"], d["variables"] = q.Text, string(q.Vars)
			d["fresh_default_engine"], d["fresh_engine_dedup_off"] = truncate(want.outcome(), 3000), truncate(o.outcome(), 3000)
			d["first_difference"] = firstDiff(want.outcome(), o.outcome())
			d["requests_default"], d["requests_dedup_off"] = reqDump(want.Reqs), reqDump(o.Reqs)
			res.Violate("transparency."+kind, "a fresh engine with fetch de-duplication off and a fresh default engine answer the same request differently: "+msg,
				map[string]string{"mode": "toggle", "dedup_off": "true", "multifetch_on": "false", "schedule_on": "false", "minify_on": "false", "request_kind": "base", "cache_hit": "false"}, d)
		}
	}
	// ---- the shared engine
	gs, err := newGateway(in, mask)
	if err != nil {
		res.Broken("gateway construction (generator self-check): "+err.Error(), in.layoutDetail())
		return res
	}
	defer gs.Close()
	histDesc := func() []string {
		var out []string
		for _, i := range hist {
			out = append(out, fmt.Sprintf("#%d %s of op %d", i, pool[i].Tag, pool[i].Base))
		}
		return out
	}
	baseMatch := map[string]string{"mode": kindName}
	for _, bit := range []struct {
		b    int
		name string
	}{{1, "dedup_off"}, {2, "multifetch_on"}, {4, "schedule_on"}, {8, "minify_on"}} {
		baseMatch[bit.name] = fmt.Sprint(mask&bit.b != 0)
	}
	type served struct {
		at     int // position in the history (sequential) or worker*1000+position
		req    int
		o      *obs
		hit    bool
		worker int
	}
	var all []served
	if !concurrent {
		for at, i := range hist {
			q := pool[i]
			fw.SetContext(map[string]any{"operation": q.Text, "variables": string(q.Vars), "supergraph": in.superSDL, "engine": "shared " + ms, "history_position": at})
			before := gs.Engine.VerifCachedPlans()
			o := execute(gs, q, true, false)
			after := gs.Engine.VerifCachedPlans()
			hit := o.Err == "" && o.Panic == "" && o.Reached && after == before
			all = append(all, served{at: at, req: i, o: o, hit: hit})
			res.Count("seq_requests", 1)
			if after > before {
				res.Count("seq_plans_cached", 1)
			}
		}
	} else {
		fw.SetContext(map[string]any{"supergraph": in.superSDL, "engine": "shared " + ms, "mode": "concurrent", "pool": poolTexts(pool)})
		var mu sync.Mutex
		var wg sync.WaitGroup
		start := make(chan struct{})
		for w := 0; w < concWorkers; w++ {
			order := append([]int(nil), hist...)
			rw := c.Rng(idx, fmt.Sprintf("worker-%d", w))
			rw.Shuffle(len(order), func(i, j int) { order[i], order[j] = order[j], order[i] })
			wg.Add(1)
			go func(w int, order []int) {
				defer wg.Done()
				<-start
				for at, i := range order {
					o := execute(gs, pool[i], false, false)
					mu.Lock()
					all = append(all, served{at: at, req: i, o: o, worker: w})
					mu.Unlock()
				}
			}(w, order)
		}
		close(start)
		wg.Wait()
		okReqs := 0
		for _, s := range all {
			if s.o.Err == "" && s.o.Panic == "" && s.o.Reached {
				okReqs++
			}
		}
		res.Count("conc_requests", int64(len(all)))
		cached := gs.Engine.VerifCachedPlans()
		res.Count("conc_plans_cached", int64(cached))
		if okReqs > cached {
			res.Count("conc_cache_hits_lower_bound", int64(okReqs-cached))
		}
	}
	fw.SetContext(nil)
	// ---- compare
	countOpt := func(n int64) {
		if mask&1 != 0 {
			res.Count("opt_dedup_off_responses", n)
		}
		if mask&2 != 0 {
			res.Count("opt_multifetch_on_responses", n)
		}
		if mask&4 != 0 {
			res.Count("opt_schedule_on_responses", n)
		}
		if mask&8 != 0 {
			res.Count("opt_minify_on_responses", n)
		}
		if mask == 0 {
			res.Count("opt_default_responses", n)
		}
	}
	hitsCompared := 0
	multiReq := false
	firstByReq := map[int]*obs{}
	seenEffect := map[int]bool{}
	for _, s := range all {
		q := pool[s.req]
		want := refs[q.key()]
		if firstByReq[s.req] == nil {
			firstByReq[s.req] = s.o
		}
		detail := func(extra map[string]any) map[string]any {
			d := in.layoutDetail()
			d["operation"], d["variables"] = q.Text, string(q.Vars)
			d["request_kind"] = q.Tag
			d["features"] = feat
			d["option_set_of_shared_engine"] = ms
			d["history"] = histDesc()
			if concurrent {
				d["position"] = fmt.Sprintf("worker %d, request %d of its permutation (%d workers concurrently)", s.worker, s.at, concWorkers)
			} else {
				d["position"] = fmt.Sprintf("request %d of the history; served from the plan cache: %v", s.at, s.hit)
			}
			d["base_operation"] = in.ops[q.Base].Text
			for a, b := range extra {
				d[a] = b
			}
			return d
		}
		if want.Err != "" && s.o.Err != "" {
			res.Count(kindName+"_requests_refused_by_both", 1)
			res.Observe("refusal_classes", classifyErr(want.Err))
		}
		invalid := strings.HasPrefix(q.Tag, "invalid-")
		if invalid {
			res.Count(kindName+"_invalid_requests_compared", 1)
			if want.Err != "" {
				res.Count(kindName+"_invalid_requests_refused", 1)
			}
		}
		kind, msg := compareOutcome(want, s.o)
		if kind != "" {
			m := withFacts(baseMatch, "request_kind", q.Tag, "cache_hit", fmt.Sprint(s.hit))
			if kind == "panic" {
				sig := s.o.PanicSig
				if sig == "" {
					sig = want.PanicSig
				}
				m = withFacts(m, "panic", sig)
			}
			if kind == "error-differs" {
				m = withFacts(m, "error_class", classifyErr(want.Err+s.o.Err))
			}
			if mask&1 != 0 {
				norm := s.o.Norm
				if norm == "" {
					norm = want.Norm
				}
				m = withFacts(m, "duplicate_fetches_at_one_path_under_dedup_off", duplicateFetchesUnderDedupOff(gs.Engine.VerifPlannerConfiguration(), in.superSDL, norm))
			}
			res.Violate("transparency."+kind, "a request served by the shared engine ("+ms+") and by a fresh default engine: "+msg, m,
				detail(map[string]any{"fresh_engine": truncate(want.outcome(), 3000), "shared_engine": truncate(s.o.outcome(), 3000), "first_difference": firstDiff(want.outcome(), s.o.outcome()),
					"requests_shared": reqDump(s.o.Reqs), "requests_fresh": reqDump(want.Reqs), "stack": s.o.Stack + want.Stack}))
			continue
		}
		if want.Err != "" || want.Panic != "" {
			continue
		}
		res.Count(kindName+"_responses_compared", 1)
		countOpt(1)
		if s.hit {
			hitsCompared++
			res.Count("seq_cache_hits_compared", 1)
			res.Count("seq_cache_hits_"+q.Tag, 1)
		}
		switch q.Tag {
		case "values", "values-null", "values-omitted", "directive-values":
			res.Count(kindName+"_values_variants_compared", 1)
		}
		if q.Tag == "directive-values" {
			res.Count(kindName+"_directive_values_responses_compared", 1)
		}
		// the wire: a request served by the shared engine sends what a fresh engine with the same options sends
		if wantSet, have := refsO[q.key()]; !concurrent && have {
			res.Count("seq_wire_request_sets_compared", 1)
			if s.hit {
				res.Count("seq_wire_request_sets_compared_cache_served", 1)
			}
			if got := reqSet(s.o.Reqs); !sameStrings(wantSet, got) {
				m := withFacts(baseMatch, "request_kind", q.Tag, "cache_hit", fmt.Sprint(s.hit))
				confined := mask&8 != 0 && sameStrings(blankMinifiedKeys(wantSet), blankMinifiedKeys(got))
				if mask&8 != 0 {
					m["confined_to_minified_operation_texts"] = fmt.Sprint(confined)
				}
				// one plan may send varying requests (run-time matter, see the determinism kind): only a
				// request set that no fresh engine with these options reproduces is a finding
				reproduced := false
				if !confined {
					for _, alt := range freshO(q, selfRepeats) {
						if sameStrings(blankMinifiedKeys(alt), blankMinifiedKeys(got)) {
							reproduced = true
							break
						}
					}
				}
				if !confined && !reproduced {
					// and the other way round: does the shared engine's own (cached) plan send the
					// expected set, or varying sets, when the request is simply repeated now?
					for i := 0; i < selfRepeats && !reproduced; i++ {
						o2 := execute(gs, q, true, false)
						if o2.Err != "" || o2.Panic != "" {
							break
						}
						again := reqSet(o2.Reqs)
						if sameStrings(blankMinifiedKeys(again), blankMinifiedKeys(wantSet)) || !sameStrings(blankMinifiedKeys(again), blankMinifiedKeys(got)) {
							reproduced = true
						}
					}
				}
				if reproduced {
					res.Count("seq_runtime_request_variation_of_one_plan", 1)
				} else {
					res.Violate("transparency.subgraph-requests-differ", "a request served by the shared engine ("+ms+") sends subgraph requests that a fresh engine with the same options never sends for it (same response)", m,
						detail(map[string]any{"requests_shared": reqDump(s.o.Reqs), "requests_fresh_same_options": wantSet}))
				}
			}
		}
		if len(want.Reqs) >= 2 {
			multiReq = true
		}
		// what the options did to the subgraph requests (evidence that the toggles are live)
		if !concurrent && !seenEffect[s.req] {
			seenEffect[s.req] = true
			// (request COUNTS seen at the transport also move with run-time single flight; these are
			// evidence counters only, the plan-level effect of every option is counted in the determinism cases)
			if !sameStrings(reqKeys(want.Reqs, false), reqKeys(s.o.Reqs, false)) {
				res.Count("effect_requests_differ_from_default", 1)
			}
			if len(s.o.Reqs) < len(want.Reqs) {
				res.Count("effect_fewer_requests_than_default", 1)
			}
			if len(s.o.Reqs) > len(want.Reqs) {
				res.Count("effect_more_requests_than_default", 1)
				if mask&1 != 0 {
					res.Count("effect_dedup_off_extra_request", 1)
				}
			}
			merged, minified := false, false
			for _, rq := range s.o.Reqs {
				if strings.Count(rq.Query, "_entities(") >= 2 {
					merged = true
				}
				if strings.Contains(rq.Query, "fragment ") {
					minified = true
				}
			}
			if merged {
				res.Count("effect_multifetch_merged_request", 1)
			}
			if minified {
				res.Count("effect_minified_request", 1)
			}
		}
	}
	// ---- same text, other @skip/@include variable values: which orders did the shared engine see?
	if !concurrent {
		first := map[int]int{}
		last := map[int]int{}
		for at, i := range hist {
			if _, ok := first[i]; !ok {
				first[i] = at
			}
			last[i] = at
		}
		for i, q := range pool {
			if q.Tag != "directive-values" {
				continue
			}
			bi := baseIndex(q)
			if bi < 0 || refs[q.key()].Err != "" || refs[pool[bi].key()].Err != "" {
				continue
			}
			res.Count("seq_directive_value_pairs", 1)
			if refs[q.key()].Raw != refs[pool[bi].key()].Raw {
				res.Count("seq_directive_value_pairs_with_different_responses", 1)
			}
			if refs[q.key()].Norm != refs[pool[bi].key()].Norm {
				res.Count("seq_directive_value_pairs_with_different_normalised_operations", 1)
			}
			dir := func(fromBase bool) string {
				from := q.FlipFrom
				if !fromBase {
					from = !from
				}
				if from {
					return "seq_directive_flip_true_to_false"
				}
				return "seq_directive_flip_false_to_true"
			}
			if first[bi] < last[i] { // the original was served before the flipped one
				res.Count(dir(true), 1)
			}
			if first[i] < last[bi] { // and the other way round
				res.Count(dir(false), 1)
			}
		}
	}
	// ---- renaming variables never changes the response (shared engine and fresh engines)
	for i, q := range pool {
		if q.Tag != "rename" {
			continue
		}
		bi := -1
		for k, b := range pool {
			if b.Tag == "base" && b.Base == q.Base {
				bi = k
			}
		}
		if bi < 0 {
			continue
		}
		pairs := []struct {
			where string
			a, b  *obs
		}{{"fresh default engines", refs[pool[bi].key()], refs[q.key()]}, {"shared engine (" + ms + ")", firstByReq[bi], firstByReq[i]}}
		for _, p := range pairs {
			if p.a == nil || p.b == nil || p.a.Err != "" || p.b.Err != "" || p.a.Panic != "" || p.b.Panic != "" {
				continue
			}
			res.Count(kindName+"_rename_pairs_compared", 1)
			if p.a.Raw != p.b.Raw {
				d := in.layoutDetail()
				d["operation"], d["variables"] = pool[bi].Text, string(pool[bi].Vars)
				d["renamed_operation"], d["renamed_variables"] = q.Text, string(q.Vars)
				d["where"] = p.where
				d["response"], d["response_renamed"] = truncate(p.a.Raw, 3000), truncate(p.b.Raw, 3000)
				d["first_difference"] = firstDiff(p.a.Raw, p.b.Raw)
				res.Violate("transparency.rename-changes-response", "renaming the variables of a request changes the response ("+p.where+")", renameFacts(baseMatch, strings.Fields(p.where)[0], mask, gs, in, p.b), d)
			}
		}
	}
	if concurrent {
		// every successful request beyond the number of cached plans was necessarily cache-served
		hitsCompared = int(res.Counters["conc_cache_hits_lower_bound"])
	}
	res.Nontrivial = hitsCompared > 0 && multiReq
	if res.Nontrivial {
		var h []any
		h = append(h, in.layoutHash(), mask, kindName)
		for _, i := range hist {
			h = append(h, pool[i].Text, pool[i].Vars)
		}
		res.Keys = []string{fw.HashKey(h...)}
		res.Sample = map[string]any{"kind": "transparency " + kindName, "layout": in.describe, "option_set": ms, "history": histDesc(), "cache_served_responses_compared": hitsCompared, "first_operation": in.ops[0].Text}
	}
	return res
}

func poolTexts(pool []*request) []map[string]string {
	var out []map[string]string
	for _, q := range pool {
		out = append(out, map[string]string{"kind": q.Tag, "operation": q.Text, "variables": string(q.Vars)})
	}
	return out
}

// blankMinifiedKeys replaces the operation text of minified requests (those defining fragments) in
// request keys (subgraph NUL query NUL variables) by a placeholder.
func blankMinifiedKeys(keys []string) []string {
	out := make([]string, len(keys))
	for i, k := range keys {
		parts := strings.SplitN(k, "\x00", 3)
		if len(parts) == 3 && strings.Contains(parts[1], "fragment ") {
			parts[1] = "<minified>"
		}
		out[i] = strings.Join(parts, "\x00")
	}
	sort.Strings(out)
	return out
}

func renameFacts(base map[string]string, where string, mask int, gs *rig, in *input, o *obs) map[string]string {
	m := withFacts(base, "where", where)
	if where == "shared" && mask&1 != 0 && o != nil {
		m["duplicate_fetches_at_one_path_under_dedup_off"] = duplicateFetchesUnderDedupOff(gs.Engine.VerifPlannerConfiguration(), in.superSDL, o.Norm)
	}
	return m
}
