package c09

import (
	"bufio"
	"bytes"
	"encoding/json"
	"fmt"
	"os"
	"os/exec"
	"reflect"
	"runtime/debug"
	"sort"
	"strconv"
	"strings"
	"time"
	"unsafe"

	"github.com/wundergraph/graphql-go-tools/execution/graphql"
	"github.com/wundergraph/graphql-go-tools/v2/pkg/ast"
	"github.com/wundergraph/graphql-go-tools/v2/pkg/astparser"
	"github.com/wundergraph/graphql-go-tools/v2/pkg/engine/plan"
	"github.com/wundergraph/graphql-go-tools/v2/pkg/engine/postprocess"
	"github.com/wundergraph/graphql-go-tools/v2/pkg/engine/resolve"
	"github.com/wundergraph/graphql-go-tools/v2/pkg/operationreport"

	"verifharness/internal/fw"
)

// planDump is the canonical print of one post-processed plan.
type planDump struct {
	Err       string `json:"err"`
	Panic     string `json:"panic"`
	QueryPlan string `json:"query_plan"` // FetchTreeNode.QueryPlan().PrettyPrint()
	Fetches   string `json:"fetches"`    // reflection dump of the fetch tree (inputs, variables, post-processing, dependencies, info)
	Shape     string `json:"shape"`      // reflection dump of the response tree
	Rest      string `json:"rest"`       // reflection dump of everything else of the plan
	NFetches  int    `json:"n_fetches"`
}

func (d *planDump) equal(o *planDump) bool {
	return d.Err == o.Err && d.Panic == o.Panic && d.QueryPlan == o.QueryPlan && d.Fetches == o.Fetches && d.Shape == o.Shape && d.Rest == o.Rest
}

// equalModuloMinifiedTexts: equal once every dump line that holds a minified operation text (one
// that defines fragments; a string value is always on one dump line) is blanked.
func (d *planDump) equalModuloMinifiedTexts(o *planDump) bool {
	return d.Err == o.Err && d.Panic == o.Panic && d.Shape == o.Shape && d.Rest == o.Rest &&
		blankMinified(d.Fetches) == blankMinified(o.Fetches) && blankMinified(d.QueryPlan) == blankMinified(o.QueryPlan)
}

func blankMinified(s string) string {
	if !strings.Contains(s, "fragment ") {
		return s
	}
	lines := strings.Split(s, "\n")
	for i, l := range lines {
		if strings.Contains(l, "fragment ") {
			lines[i] = "<minified operation text>"
		}
	}
	return strings.Join(lines, "\n")
}

// requestSetsSeen executes the request n more times on the gateway (its plan is cached by now) and
// returns the number of distinct request multisets (exact bodies) seen.
func requestSetsSeen(gw *rig, q *request, n int) int {
	seen := map[string]bool{}
	for i := 0; i < n; i++ {
		o := execute(gw, q, true, true)
		if o.Err != "" || o.Panic != "" {
			continue
		}
		seen[strings.Join(reqKeys(o.Reqs, true), "\n")] = true
	}
	return len(seen)
}

const selfRepeats = 16

// firstSection names the first part that differs and returns the two texts.
func (d *planDump) firstSection(o *planDump) (string, string, string) {
	switch {
	case d.Panic != o.Panic:
		return "panic", d.Panic, o.Panic
	case d.Err != o.Err:
		return "planning-error", d.Err, o.Err
	case d.Fetches != o.Fetches:
		return "fetch-tree", d.Fetches, o.Fetches
	case d.Shape != o.Shape:
		return "response-shape", d.Shape, o.Shape
	case d.QueryPlan != o.QueryPlan:
		return "query-plan-print", d.QueryPlan, o.QueryPlan
	}
	return "other", d.Rest, o.Rest
}

func countSingles(n *resolve.FetchTreeNode) int {
	if n == nil {
		return 0
	}
	if n.Kind == resolve.FetchTreeNodeKindSingle {
		return 1
	}
	c := 0
	for _, ch := range n.ChildNodes {
		c += countSingles(ch)
	}
	return c
}

func plannerConfig(base *plan.Configuration, mask int) plan.Configuration {
	cfg := *base
	cfg.EnableMultiFetch = mask&2 != 0
	cfg.MinifySubgraphOperations = mask&8 != 0
	return cfg
}

// planOnce parses the normalised operation text afresh (planning adds fields to the document, so a
// document is never planned twice) and plans + post-processes it with the given planner.
func planOnce(pl *plan.Planner, def *ast.Document, norm string, mask int) (out *planDump) {
	out = &planDump{}
	defer func() {
		if r := recover(); r != nil {
			out.Panic = fw.PanicSignature(fmt.Sprint(r), string(debug.Stack()))
		}
	}()
	doc, rep := astparser.ParseGraphqlDocumentString(norm)
	if rep.HasErrors() {
		out.Err = "normalised operation does not parse: " + rep.Error()
		return out
	}
	var report operationreport.Report
	p := pl.Plan(&doc, def, "", &report, plan.IncludeQueryPlanInResponse())
	if report.HasErrors() {
		out.Err = report.Error()
		return out
	}
	postprocess.NewProcessor(postprocessOptions(mask)...).Process(p)
	sp, ok := p.(*plan.SynchronousResponsePlan)
	if !ok || sp.Response == nil {
		out.Rest = dumpValue(p)
		return out
	}
	out.NFetches = countSingles(sp.Response.Fetches)
	if qp := sp.Response.Fetches.QueryPlan(); qp != nil {
		out.QueryPlan = qp.PrettyPrint()
	}
	out.Fetches = dumpValue(sp.Response.Fetches)
	out.Shape = dumpValue(sp.Response.Data)
	// the plan is thrown away after dumping, so the two big parts can be cut out for the rest
	sp.Response.Fetches, sp.Response.Data = nil, nil
	out.Rest = dumpValue(p)
	return out
}

func newPlanner(cfg plan.Configuration) (*plan.Planner, error) { return plan.NewPlanner(cfg) }

// childOut is what the cross-process child prints.
type childOut struct {
	LayoutHash string    `json:"layout_hash"`
	Ops        []childOp `json:"ops"`
	Error      string    `json:"error"`
}

type childOp struct {
	Text string `json:"text"`
	Vars string `json:"vars"`
	Obs  *obs   `json:"obs"`
	// RequestSetsSeen: distinct request multisets in repeated executions of the (then cached) plan
	RequestSetsSeen int                  `json:"request_sets_seen"`
	Plans           map[string]*planDump `json:"plans"` // by mask string
}

const childEnv = "VERIF_C09_CHILD"
const childMarker = "C09CHILD "

// childInit: when the environment asks for it, this process is the "other process run" of a
// determinism case: regenerate the case, execute every operation on one fresh engine, plan every
// normalised operation with a fresh planner, print the observations, exit.
func childInit() {
	spec := os.Getenv(childEnv)
	if spec == "" {
		return
	}
	out := childCompute(spec)
	b, _ := json.Marshal(out)
	w := bufio.NewWriter(os.Stdout)
	w.WriteString(childMarker)
	w.Write(b)
	w.WriteString("\n")
	w.Flush()
	os.Exit(0)
}

func childCompute(spec string) (out *childOut) {
	out = &childOut{}
	defer func() {
		if r := recover(); r != nil {
			out.Error = "child panic: " + fmt.Sprint(r) + "\n" + truncate(string(debug.Stack()), 3000)
		}
	}()
	parts := strings.Split(spec, "/")
	if len(parts) != 5 {
		out.Error = "bad spec"
		return out
	}
	seed, _ := strconv.ParseInt(parts[0], 10, 64)
	idx, _ := strconv.Atoi(parts[1])
	mask, _ := strconv.Atoi(parts[2])
	engineMask, _ := strconv.Atoi(parts[3])
	c := &fw.Ctx{Seed: seed, Prop: "C09"}
	in, err := detInput(c, idx, parts[4])
	if err != nil {
		out.Error = err.Error()
		return out
	}
	out.LayoutHash = in.layoutHash()
	gw, err := newGateway(in, engineMask)
	if err != nil {
		out.Error = err.Error()
		return out
	}
	defer gw.Close()
	schema, err := graphql.NewSchemaFromString(in.superSDL)
	if err != nil {
		out.Error = err.Error()
		return out
	}
	for _, q := range in.ops {
		co := childOp{Text: q.Text, Vars: string(q.Vars), Plans: map[string]*planDump{}}
		co.Obs = execute(gw, q, true, true)
		if co.Obs.Err == "" && co.Obs.Panic == "" {
			co.RequestSetsSeen = requestSetsSeen(gw, q, 6)
		}
		if co.Obs.Norm != "" && co.Obs.Err == "" && co.Obs.Panic == "" {
			for _, m := range maskList(mask) {
				pl, err := newPlanner(plannerConfig(gw.Engine.VerifPlannerConfiguration(), m))
				if err != nil {
					out.Error = err.Error()
					return out
				}
				co.Plans[maskString(m)] = planOnce(pl, schema.Document(), co.Obs.Norm, m)
			}
		}
		out.Ops = append(out.Ops, co)
	}
	return out
}

// maskList: the option sets a determinism case plans under: default and the case's set.
func maskList(mask int) []int {
	if mask == 0 {
		return []int{0}
	}
	return []int{0, mask}
}

// detInput: the inputs of a determinism case, a pure function of (seed, index, family).
func detInput(c *fw.Ctx, idx int, family string) (*input, error) {
	if family == "mk" {
		return genMultiKeyInput(c.Rng(idx, "c09-mk"), detOps)
	}
	if family == "al" {
		return genAliasInput(c.Rng(idx, "c09-al"), aliasOps)
	}
	return genInput(c.Rng(idx, "c09"), detOps, false)
}

func runChild(c *fw.Ctx, idx, mask, engineMask int, family string) (*childOut, error) {
	self, err := os.Executable()
	if err != nil {
		return nil, err
	}
	cmd := exec.Command(self)
	cmd.Env = append(os.Environ(), fmt.Sprintf("%s=%d/%d/%d/%d/%s", childEnv, c.Seed, idx, mask, engineMask, family))
	var stdout, stderr bytes.Buffer
	cmd.Stdout, cmd.Stderr = &stdout, &stderr
	if err := cmd.Start(); err != nil {
		return nil, err
	}
	done := make(chan error, 1)
	go func() { done <- cmd.Wait() }()
	select {
	case err := <-done:
		if err != nil {
			return nil, fmt.Errorf("child exit: %v; stderr: %s", err, truncate(stderr.String(), 2000))
		}
	case <-time.After(150 * time.Second):
		cmd.Process.Kill()
		return nil, fmt.Errorf("child did not finish in 150 s")
	}
	for _, line := range strings.Split(stdout.String(), "\n") {
		if strings.HasPrefix(line, childMarker) {
			var out childOut
			if err := json.Unmarshal([]byte(line[len(childMarker):]), &out); err != nil {
				return nil, fmt.Errorf("child output unreadable: %v", err)
			}
			return &out, nil
		}
	}
	return nil, fmt.Errorf("child printed no result (stdout %d bytes; stderr: %s)", stdout.Len(), truncate(stderr.String(), 1500))
}

// ---------------------------------------------------------------------------------------------

func runDet(c *fw.Ctx, idx int) fw.Result {
	engineMask := 0
	if idx%5 == 1 {
		// the engines of every second determinism case carry the case's option set instead of the default one
		engineMask = optMask(idx)
	}
	return runDetFamily(c, idx, "fed", optMask(idx), engineMask, (idx/5)%2 == 0 && idx%5 == 0)
}

// runDetFamily: the determinism oracle over one configuration of the given family.
func runDetFamily(c *fw.Ctx, idx int, family string, mask, engineMask int, crossProcess bool) fw.Result {
	res := fw.Result{Key: fw.HashKey("c09-det", family, idx)}
	in, err := detInput(c, idx, family)
	if err != nil {
		res.Broken(err.Error(), nil)
		return res
	}
	res.Count("operations_skipped_known_finding_C01F1", int64(in.skipped))
	res.Count("operations_with_twin_fragments", int64(in.twins))
	if len(in.ops) == 0 {
		res.Inconclusive = "no-operation: every generated operation fell into an excluded class"
		return res
	}
	feat := in.feat
	res.Observe("layout_features", feat)
	res.Observe("det_option_sets", maskString(mask))
	if in.family == "mk" {
		res.Count("mk_cases", 1)
		res.Observe("mk_shapes", fmt.Sprintf("%s ties=%d subgraphs=%d", in.mkInfo.Shape, in.mkInfo.Ties, len(in.mkInfo.Subs)))
		if in.mkInfo.Ties >= 2 && !in.mkInfo.Direct {
			res.Count("mk_layouts_with_tied_indirect_routes", 1)
		} else {
			res.Count("mk_control_layouts", 1)
		}
	}
	// ---- engine level: fresh engines, different orders
	var gws []*rig
	defer func() {
		for _, g := range gws {
			g.Close()
		}
	}()
	res.Observe("det_engine_option_sets", maskString(engineMask))
	for k := 0; k < detEngines; k++ {
		gw, err := newGateway(in, engineMask)
		if err != nil {
			res.Broken("gateway construction (generator self-check): "+err.Error(), in.layoutDetail())
			return res
		}
		gws = append(gws, gw)
	}
	n := len(in.ops)
	orders := make([][]int, detEngines)
	for j := 0; j < n; j++ {
		orders[0] = append(orders[0], j)
		orders[1] = append(orders[1], n-1-j)
	}
	ro := c.Rng(idx, "order")
	for k := 2; k < detEngines; k++ {
		orders[k] = ro.Perm(n)
	}
	execs := make([][]*obs, detEngines) // [engine][op]
	pos := make([][]int, detEngines)    // position at which engine k executed op j
	for k := range execs {
		execs[k] = make([]*obs, n)
		pos[k] = make([]int, n)
		for at, j := range orders[k] {
			fw.SetContext(map[string]any{"operation": in.ops[j].Text, "variables": string(in.ops[j].Vars), "supergraph": in.superSDL, "engine": k})
			execs[k][j] = execute(gws[k], in.ops[j], true, true)
			pos[k][j] = at
			res.Count("det_engine_executions", 1)
		}
	}
	fw.SetContext(nil)
	usable := make([]bool, n)
	hasMergeAlias := make([]bool, n) // al family: the subgraph operation carries planner-generated merge aliases
	usableWire := make([]bool, n)    // false: one cached plan was seen to send varying requests
	for j := range usableWire {
		usableWire[j] = true
	}
	var keys []string
	for j, q := range in.ops {
		base := execs[0][j]
		match := map[string]string{"layer": "engine", "minify_on": fmt.Sprint(engineMask&8 != 0)}
		detail := func(k int, extra map[string]any) map[string]any {
			d := in.layoutDetail()
			d["operation"], d["variables"] = q.Text, string(q.Vars)
			d["option_set_of_the_engines"] = maskString(engineMask)
			d["normalised_operation"] = base.Norm
			d["engine_A"] = fmt.Sprintf("engine 0, executed this operation at position %d of its history", pos[0][j])
			d["engine_B"] = fmt.Sprintf("engine %d, executed this operation at position %d of its history", k, pos[k][j])
			for a, b := range extra {
				d[a] = b
			}
			return d
		}
		res.Count("det_operations_compared", 1)
		ok := true
		for k := 1; k < detEngines; k++ {
			o := execs[k][j]
			if base.Reached && o.Reached && base.Norm != o.Norm {
				// the premise "the same normalised operation" does not hold: not this property's subject
				res.Count("premise_normalised_operation_differs", 1)
				res.Inconclusive = "premise-normalised-operation-differs: two engines normalised the same request differently"
				ok = false
				continue
			}
			hist := "fresh-vs-warm"
			if pos[0][j] == 0 && pos[k][j] == 0 {
				hist = "fresh-vs-fresh"
			} else if pos[0][j] > 0 && pos[k][j] > 0 {
				hist = "warm-vs-warm"
			}
			m := withFacts(match, "histories", hist)
			if kind, msg := compareOutcome(base, o); kind != "" {
				ok = false
				if kind == "panic" {
					sig := base.PanicSig
					if sig == "" {
						sig = o.PanicSig
					}
					m = withFacts(m, "panic", sig)
				}
				if kind == "error-differs" {
					m = withFacts(m, "error_class", classifyErr(base.Err+o.Err))
				}
				res.Violate("det."+kind, "the same request on two engines built from the same configuration: "+msg, m,
					detail(k, map[string]any{"outcome_A": truncate(base.outcome(), 3000), "outcome_B": truncate(o.outcome(), 3000), "first_difference": firstDiff(base.outcome(), o.outcome()), "stack": base.Stack + o.Stack}))
			} else {
				res.Count("det_responses_compared", 1)
			}
			if base.Err != "" || o.Err != "" || base.Panic != "" || o.Panic != "" {
				continue
			}
			res.Count("det_request_sets_compared", 1)
			if !sameStrings(reqKeys(base.Reqs, true), reqKeys(o.Reqs, true)) {
				// Is it the plans that differ, or does ONE plan send different requests from run to run
				// (parallel fetches that see each other's merged results: execution, not planning)?
				// Each engine has the plan cached now, so repeating the request re-executes the same plan.
				if v0, vk := requestSetsSeen(gws[0], q, selfRepeats), requestSetsSeen(gws[k], q, selfRepeats); v0 > 1 || vk > 1 {
					res.Count("det_runtime_request_variation_of_one_cached_plan", 1)
					res.Observe("runtime_request_variation_(one_cached_plan,_not_planning;_C08's_subject)", fmt.Sprintf("seed=%d case=%d op=%d options=%s: %d and %d distinct request multisets in %d executions of one cached plan", c.Seed, idx, j, maskString(engineMask), v0, vk, selfRepeats))
					ok = false // the wire is no witness for this operation; the planner-level comparison still runs
					usableWire[j] = false
					continue
				}
			}
			if !sameStrings(reqKeys(base.Reqs, false), reqKeys(o.Reqs, false)) {
				ok = false
				res.Violate("det.subgraph-requests-differ", "the same request on two engines built from the same configuration sends different subgraph requests",
					withFacts(minifiedOnlyFact(m, engineMask, base.Reqs, o.Reqs), "what", classifyReqDiff(base.Reqs, o.Reqs)), detail(k, map[string]any{"requests_A": reqDump(base.Reqs), "requests_B": reqDump(o.Reqs)}))
			} else if !sameStrings(reqKeys(base.Reqs, true), reqKeys(o.Reqs, true)) {
				ok = false
				res.Violate("det.subgraph-request-bytes-differ", "the same request on two engines sends subgraph requests that are equal as (operation text, variables value) but differ in their bytes",
					m, detail(k, map[string]any{"first_difference": firstDiff(strings.Join(reqKeys(base.Reqs, true), "\n"), strings.Join(reqKeys(o.Reqs, true), "\n"))}))
			}
		}
		if base.Err != "" {
			res.Count("det_operations_refused_by_engine", 1)
			res.Observe("refusal_classes", classifyErr(base.Err))
			continue
		}
		if base.Panic != "" {
			continue
		}
		for _, pr := range base.Problems {
			res.Observe("subgraph_request_problems_seen_(judged_by_C01)", truncate(pr, 80))
			break
		}
		usable[j] = (ok || !usableWire[j]) && base.Norm != ""
		if len(base.Reqs) >= 2 {
			res.Count("det_multi_request_operations", 1)
		}
		if in.family == "mk" {
			mkEvidence(&res, in, q, base)
		}
		if in.family == "al" {
			res.Count("al_operations", 1)
			for _, rq := range base.Reqs {
				if strings.Contains(rq.Query, "__internal_merge_") {
					hasMergeAlias[j] = true
				}
			}
			if hasMergeAlias[j] {
				res.Count("al_operations_with_merge_aliases", 1)
				if ok {
					keys = append(keys, fw.HashKey(in.layoutHash(), q.Text, q.Vars))
				}
			}
			if strings.Contains(base.Raw, `"errors"`) {
				res.Count("al_responses_with_errors", 1)
			}
		}
		if ok && len(base.Reqs) >= 2 && base.NEnt >= 1 {
			keys = append(keys, fw.HashKey(in.layoutHash(), q.Text, q.Vars))
			if res.Sample == nil {
				res.Sample = map[string]any{"kind": "determinism", "layout": in.describe, "operation": q.Text, "variables": string(q.Vars), "subgraph_requests": reqDump(base.Reqs), "response": truncate(base.Raw, 500), "engines": detEngines}
			}
		}
	}
	// ---- planner level
	schema, err := graphql.NewSchemaFromString(in.superSDL)
	if err != nil {
		res.Broken("supergraph rejected: "+err.Error(), nil)
		return res
	}
	def := schema.Document()
	refDumps := map[string][]*planDump{} // mask string → per op
	for _, m := range maskList(mask) {
		ms := maskString(m)
		cfgA := plannerConfig(gws[0].Engine.VerifPlannerConfiguration(), m)
		cfgB := plannerConfig(gws[1].Engine.VerifPlannerConfiguration(), m)
		reused, err := newPlanner(cfgA)
		if err != nil {
			res.Broken("planner: "+err.Error(), nil)
			return res
		}
		dumps := make([]*planDump, n)
		refDumps[ms] = dumps
		minifyFacts := func(match map[string]string, a, b *planDump) {
			match["minify_on"] = fmt.Sprint(m&8 != 0)
			if m&8 != 0 {
				match["confined_to_minified_operation_texts"] = fmt.Sprint(a.equalModuloMinifiedTexts(b))
			}
		}
		compare := func(j int, plannerClass, vanishes, label string, d *planDump) {
			q := in.ops[j]
			res.Count("det_plan_dumps_compared", 1)
			if dumps[j].equal(d) {
				return
			}
			section, a, b := dumps[j].firstSection(d)
			match := map[string]string{"layer": "planner", "section": section, "other_planner": plannerClass}
			minifyFacts(match, dumps[j], d)
			if vanishes != "" {
				match["vanishes_when_visitor_state_cleared"] = vanishes
			}
			switch section {
			case "panic":
				match["panic"] = dumps[j].Panic + d.Panic
			case "planning-error":
				match["error_class"] = classifyPlanErr(dumps[j].Err + d.Err)
			case "fetch-tree":
				match["fetch_tree_difference"] = classifyFetchDiff(a, b)
			}
			dd := in.layoutDetail()
			dd["features"], dd["option_set"] = feat, ms
			dd["operation"], dd["variables"], dd["normalised_operation"] = q.Text, string(q.Vars), execs[0][j].Norm
			dd["planner_A"], dd["planner_B"] = "fresh planner over the configuration of engine 0", label
			dd["first_difference"] = firstDiff(a, b)
			dd["query_plan_A"], dd["query_plan_B"] = truncate(dumps[j].QueryPlan, 6000), truncate(d.QueryPlan, 6000)
			kind := "det.plan-differs"
			if section == "panic" || section == "planning-error" {
				kind = "det.plan-" + section + "-differs"
			}
			res.Violate(kind, "planning the same normalised operation against the same configuration gives different plans ("+section+")", match, dd)
		}
		for j := range in.ops {
			if !usable[j] {
				continue
			}
			fw.SetContext(map[string]any{"normalised_operation": execs[0][j].Norm, "supergraph": in.superSDL, "option_set": ms})
			plA, err := newPlanner(cfgA)
			if err != nil {
				res.Broken("planner: "+err.Error(), nil)
				return res
			}
			dumps[j] = planOnce(plA, def, execs[0][j].Norm, m)
			res.Count("det_plans_dumped", 1)
			res.Count("det_plan_fetches", int64(dumps[j].NFetches))
			if d0 := refDumps["default"]; m != 0 && d0 != nil && d0[j] != nil && d0[j].Err == "" && dumps[j].Err == "" {
				// what the option set does to the plan (evidence that the toggles are live)
				if d0[j].Fetches != dumps[j].Fetches {
					res.Count("effect_plan_fetch_tree_differs_from_default", 1)
				}
				if m&1 != 0 && m&2 == 0 && dumps[j].NFetches > d0[j].NFetches {
					res.Count("effect_dedup_off_more_fetches", 1)
				}
				if m&2 != 0 && strings.Contains(dumps[j].Fetches, "MultiEntityFetch") {
					res.Count("effect_multifetch_merged_plan", 1)
				}
				if m&4 != 0 && m&3 == 0 && d0[j].QueryPlan != dumps[j].QueryPlan {
					res.Count("effect_schedule_changed_tree", 1)
				}
				if m&8 != 0 && strings.Contains(dumps[j].Fetches, "fragment ") {
					res.Count("effect_minified_plan", 1)
				}
			}
			if dumps[j].Err != "" {
				res.Count("det_planner_level_planning_errors", 1)
			}
			if dumps[j].Panic != "" {
				res.Violate("det.plan-panic", "the planner panics on an operation the engine planned", map[string]string{"layer": "planner", "panic": dumps[j].Panic, "option_set": ms}, map[string]any{"normalised_operation": execs[0][j].Norm, "supergraph": in.superSDL})
			}
			plA2, _ := newPlanner(cfgA)
			compare(j, "fresh", "", "second fresh planner over the same configuration object", planOnce(plA2, def, execs[0][j].Norm, m))
			plB, err := newPlanner(cfgB)
			if err != nil {
				res.Broken("planner: "+err.Error(), nil)
				return res
			}
			compare(j, "fresh-other-configuration-object", "", "fresh planner over a second configuration object built from the same layout", planOnce(plB, def, execs[0][j].Norm, m))
			res.Count("det_plans_dumped", 2)
		}
		// one planner instance, forwards then backwards; and a second such instance whose visitor's
		// per-operation maps the harness empties before every plan (diagnostic twin, see clearVisitorState)
		var seq []int
		for _, dir := range [][]int{orders[0], orders[1]} {
			for _, j := range dir {
				if usable[j] {
					seq = append(seq, j)
				}
			}
		}
		if in.family == "al" && m == 0 {
			res.Count("al_cases", 1)
			after := false
			for _, j := range seq {
				if after {
					res.Count("al_reused_planner_plans_after_a_merge_alias_plan", 1)
				}
				after = after || hasMergeAlias[j]
			}
			if after {
				res.Count("al_histories_with_merge_aliases", 1)
			}
		}
		twin, _ := newPlanner(cfgA)
		twinDumps := make([]*planDump, len(seq))
		for round, j := range seq {
			if twin == nil || !clearVisitorState(twin) {
				twin = nil
				break
			}
			fw.SetContext(map[string]any{"normalised_operation": execs[0][j].Norm, "supergraph": in.superSDL, "option_set": ms, "planner": "re-used, visitor state cleared by the harness"})
			twinDumps[round] = planOnce(twin, def, execs[0][j].Norm, m)
			res.Count("det_plans_dumped", 1)
			res.Count("det_reused_cleared_planner_plans", 1)
			compare(j, "reused-visitor-state-cleared", "", fmt.Sprintf("re-used planner instance whose Visitor maps (fieldPlanners, plannerFields, ...) the harness emptied before the plan; plan number %d of its life", round+1), twinDumps[round])
			if twinDumps[round].Panic != "" || twinDumps[round].Err != "" {
				twin = nil
			}
		}
		for round, j := range seq {
			if reused == nil {
				break
			}
			fw.SetContext(map[string]any{"normalised_operation": execs[0][j].Norm, "supergraph": in.superSDL, "option_set": ms, "planner": "re-used"})
			d := planOnce(reused, def, execs[0][j].Norm, m)
			res.Count("det_plans_dumped", 1)
			res.Count("det_reused_planner_plans", 1)
			vanishes := "unknown"
			if twinDumps[round] != nil {
				// (modulo the texts of minified operations, which vary on their own: finding C09-F2)
				vanishes = fmt.Sprint(twinDumps[round].equalModuloMinifiedTexts(dumps[j]))
			}
			compare(j, "reused", vanishes, fmt.Sprintf("re-used planner instance, plan number %d of its life", round+1), d)
			if (d.Panic != "" || d.Err != "") && dumps[j].Panic == "" && dumps[j].Err == "" {
				// a planner that panicked or failed mid-walk is in an undefined state: what it does
				// afterwards is a consequence, not a further observation
				res.Count("det_reused_planner_abandoned_after_failure", 1)
				reused = nil
			}
		}
	}
	fw.SetContext(nil)
	// ---- how often is each option live (changes the plan of an operation at all)? evidence only
	for j := range in.ops {
		d0 := refDumps["default"]
		if !usable[j] || d0 == nil || d0[j] == nil || d0[j].Err != "" || d0[j].Panic != "" {
			continue
		}
		res.Count("live_operations_probed", 1)
		for _, b := range []struct {
			m    int
			name string
		}{{1, "dedup_off"}, {2, "multifetch"}, {4, "schedule"}, {8, "minify"}} {
			pl, err := newPlanner(plannerConfig(gws[0].Engine.VerifPlannerConfiguration(), b.m))
			if err != nil {
				continue
			}
			d := planOnce(pl, def, execs[0][j].Norm, b.m)
			if d.Err != "" || d.Panic != "" {
				res.Count("live_probe_failed_"+b.name, 1)
				continue
			}
			if d.Fetches != d0[j].Fetches {
				res.Count("live_"+b.name+"_changes_plan", 1)
			}
			if b.m == 1 && d.NFetches > d0[j].NFetches {
				res.Count("live_dedup_removes_fetches", 1)
			}
		}
	}
	// ---- another process
	if crossProcess {
		child, err := runChild(c, idx, mask, engineMask, family)
		switch {
		case err != nil:
			res.Count("det_cross_process_failed", 1)
			if res.Inconclusive == "" {
				res.Inconclusive = "cross-process-child-failed: " + err.Error()
			}
		case child.Error != "":
			res.Count("det_cross_process_failed", 1)
			if res.Inconclusive == "" {
				res.Inconclusive = "cross-process-child-failed: " + child.Error
			}
		case child.LayoutHash != in.layoutHash() || len(child.Ops) != n:
			// the generator itself is not a function of the seed: not the repository's fault
			res.Broken("the case generator is not deterministic across processes (layout hash differs)", map[string]any{"parent": in.layoutHash(), "child": child.LayoutHash})
		default:
			res.Count("det_cross_process_runs", 1)
			for j, q := range in.ops {
				co := child.Ops[j]
				if co.Text != q.Text || co.Vars != string(q.Vars) {
					res.Broken("the case generator is not deterministic across processes (operation differs)", map[string]any{"parent": q.Text, "child": co.Text})
					break
				}
				base := execs[0][j]
				if base.Reached && co.Obs.Reached && base.Norm != co.Obs.Norm {
					res.Count("premise_normalised_operation_differs", 1)
					res.Inconclusive = "premise-normalised-operation-differs: two processes normalised the same request differently"
					continue
				}
				res.Count("det_cross_process_operations_compared", 1)
				match := map[string]string{"layer": "process", "minify_on": fmt.Sprint(engineMask&8 != 0)}
				detail := func(extra map[string]any) map[string]any {
					d := in.layoutDetail()
					d["operation"], d["variables"], d["normalised_operation"] = q.Text, string(q.Vars), base.Norm
					d["A"], d["B"] = "this process", "a new process of the same binary"
					for a, b := range extra {
						d[a] = b
					}
					return d
				}
				if kind, msg := compareOutcome(base, co.Obs); kind != "" {
					res.Violate("det."+kind, "the same request in two process runs: "+msg, match, detail(map[string]any{"outcome_A": truncate(base.outcome(), 3000), "outcome_B": truncate(co.Obs.outcome(), 3000), "first_difference": firstDiff(base.outcome(), co.Obs.outcome())}))
				}
				if base.Err == "" && co.Obs.Err == "" && base.Panic == "" && co.Obs.Panic == "" && !sameStrings(reqKeys(base.Reqs, true), reqKeys(co.Obs.Reqs, true)) &&
					(!usableWire[j] || co.RequestSetsSeen > 1 || requestSetsSeen(gws[0], q, selfRepeats) > 1) {
					res.Count("det_runtime_request_variation_of_one_cached_plan", 1)
				} else if base.Err == "" && co.Obs.Err == "" && base.Panic == "" && co.Obs.Panic == "" {
					if !sameStrings(reqKeys(base.Reqs, false), reqKeys(co.Obs.Reqs, false)) {
						res.Violate("det.subgraph-requests-differ", "the same request in two process runs sends different subgraph requests", withFacts(minifiedOnlyFact(match, engineMask, base.Reqs, co.Obs.Reqs), "what", classifyReqDiff(base.Reqs, co.Obs.Reqs)), detail(map[string]any{"requests_A": reqDump(base.Reqs), "requests_B": reqDump(co.Obs.Reqs)}))
					} else if !sameStrings(reqKeys(base.Reqs, true), reqKeys(co.Obs.Reqs, true)) {
						res.Violate("det.subgraph-request-bytes-differ", "the same request in two process runs sends subgraph requests that differ in their bytes", match, detail(nil))
					}
				}
				if !usable[j] {
					continue
				}
				for _, cm := range maskList(mask) {
					ms := maskString(cm)
					d := co.Plans[ms]
					mine := refDumps[ms]
					if d == nil || mine == nil || mine[j] == nil {
						continue
					}
					res.Count("det_plan_dumps_compared", 1)
					res.Count("det_cross_process_plans_compared", 1)
					if !mine[j].equal(d) {
						section, a, b := mine[j].firstSection(d)
						kind := "det.plan-differs"
						if section == "panic" || section == "planning-error" {
							kind = "det.plan-" + section + "-differs"
						}
						pm := withFacts(match, "section", section, "other_planner", "fresh-new-process", "minify_on", fmt.Sprint(cm&8 != 0))
						if cm&8 != 0 {
							pm["confined_to_minified_operation_texts"] = fmt.Sprint(mine[j].equalModuloMinifiedTexts(d))
						}
						if section == "fetch-tree" {
							pm["fetch_tree_difference"] = classifyFetchDiff(a, b)
						}
						res.Violate(kind, "planning the same normalised operation against the same configuration in two process runs gives different plans ("+section+")",
							pm, detail(map[string]any{"option_set": ms, "first_difference": firstDiff(a, b), "query_plan_A": truncate(mine[j].QueryPlan, 6000), "query_plan_B": truncate(d.QueryPlan, 6000)}))
					}
				}
			}
		}
	}
	res.Keys = keys
	res.Nontrivial = len(keys) > 0
	return res
}

func classifyPlanErr(msg string) string {
	switch {
	case strings.Contains(msg, "conflict"):
		return "planned-operation-merge-conflict"
	case strings.Contains(msg, "Cannot query field") || strings.Contains(msg, "field:"):
		return "unknown-field-in-planned-operation"
	case strings.Contains(msg, "empty"):
		return "empty-selection-set"
	}
	return "other"
}

// classifyFetchDiff: does the difference of two fetch-tree dumps vanish when the explanatory
// Info.CoordinateDependencies lists (they feed only the printed query plan) are cut out?
func classifyFetchDiff(a, b string) string {
	if stripBlocks(a, "CoordinateDependencies:") == stripBlocks(b, "CoordinateDependencies:") {
		return "only-coordinate-dependencies"
	}
	return "fetches"
}

// stripBlocks removes every "<field>: [ ... ]" block (by indentation) from a dump.
func stripBlocks(s, field string) string {
	lines := strings.Split(s, "\n")
	var out []string
	skipIndent := -1
	for _, l := range lines {
		ind := len(l) - len(strings.TrimLeft(l, " "))
		if skipIndent >= 0 {
			if ind > skipIndent || (ind == skipIndent && strings.TrimSpace(l) == "]") {
				continue
			}
			skipIndent = -1
		}
		if strings.HasPrefix(strings.TrimSpace(l), field) {
			skipIndent = ind
			continue
		}
		out = append(out, l)
	}
	return strings.Join(out, "\n")
}

// clearVisitorState empties the per-operation maps of the planner's Visitor (unexported; reached by
// reflection). It is used ONLY for the diagnostic twin of the re-used planner: the verdict about
// planner re-use comes from the untouched instance; the twin tells whether a difference is due to
// these maps surviving from one Plan call to the next (open finding C09-F1) or to something else,
// and keeps the rest of the planner's cross-plan state under observation while that finding is open.
// false = the fields are not there any more (the repository changed): the twin is not run.
func clearVisitorState(pl *plan.Planner) (ok bool) {
	defer func() {
		if r := recover(); r != nil {
			ok = false
		}
	}()
	pv := reflect.ValueOf(pl).Elem().FieldByName("planningVisitor")
	if !pv.IsValid() || pv.Kind() != reflect.Pointer || pv.IsNil() {
		return false
	}
	vis := pv.Elem()
	for _, name := range []string{"fieldConfigs", "exportedVariables", "indirectInterfaceFields", "pathCache", "plannerFields", "fieldPlanners", "fieldEnclosingTypeNames"} {
		f := vis.FieldByName(name)
		if !f.IsValid() || f.Kind() != reflect.Map {
			return false
		}
		reflect.NewAt(f.Type(), unsafe.Pointer(f.UnsafeAddr())).Elem().Clear()
	}
	return true
}

// minifiedOnlyFact: with minification on, do two request multisets differ only in the text of
// minified operations (those that define fragments)? Same fact as at the planner level.
func minifiedOnlyFact(m map[string]string, engineMask int, a, b []reqRec) map[string]string {
	if engineMask&8 == 0 {
		return m
	}
	strip := func(rs []reqRec) []string {
		var out []string
		for _, r := range rs {
			q := r.Query
			if strings.Contains(q, "fragment ") {
				q = "<minified>"
			}
			out = append(out, r.Sub+"\x00"+q+"\x00"+r.Vars)
		}
		sort.Strings(out)
		return out
	}
	return withFacts(m, "confined_to_minified_operation_texts", fmt.Sprint(sameStrings(strip(a), strip(b))))
}

// duplicateFetchesUnderDedupOff: planned with fetch de-duplication off (nothing else), does the
// operation have two fetches with the same subgraph, the same operation text and the same response
// path? (Those are what de-duplication would merge; left apart they write the same positions.)
func duplicateFetchesUnderDedupOff(cfg *plan.Configuration, superSDL, norm string) string {
	schema, err := graphql.NewSchemaFromString(superSDL)
	if err != nil || norm == "" {
		return "unknown"
	}
	pl, err := newPlanner(plannerConfig(cfg, 1))
	if err != nil {
		return "unknown"
	}
	result := "unknown"
	func() {
		defer func() { _ = recover() }()
		doc, rep := astparser.ParseGraphqlDocumentString(norm)
		if rep.HasErrors() {
			return
		}
		var report operationreport.Report
		p := pl.Plan(&doc, schema.Document(), "", &report, plan.IncludeQueryPlanInResponse())
		if report.HasErrors() {
			return
		}
		postprocess.NewProcessor(postprocessOptions(1)...).Process(p)
		sp, ok := p.(*plan.SynchronousResponsePlan)
		if !ok || sp.Response == nil {
			return
		}
		seen := map[string]bool{}
		result = "false"
		var walk func(n *resolve.FetchTreeQueryPlanNode)
		walk = func(n *resolve.FetchTreeQueryPlanNode) {
			if n == nil {
				return
			}
			if n.Fetch != nil {
				k := n.Fetch.SubgraphName + "\x00" + n.Fetch.Path + "\x00" + n.Fetch.Query
				if seen[k] {
					result = "true"
				}
				seen[k] = true
			}
			for _, ch := range n.Children {
				walk(ch)
			}
		}
		walk(sp.Response.Fetches.QueryPlan())
	}()
	return result
}
