package c09

// Multi-key layouts: the second configuration family of the determinism half.
//
// internal/fed gives every entity the single key `id`, resolvable in every subgraph that defines the
// entity, so a planner never has to reach a field through an INDIRECT key jump. Here one entity has
// several keys and every subgraph knows only some of them: the subgraph of the root field knows k1,
// the subgraph that owns the wanted fields can only be entered with k3, and bridge subgraphs translate
// (k1 -> k3 directly, or k1 -> k2 and k2 -> k3 in a chain). Several equally short routes exist in most
// layouts; which one a planner takes must not depend on the planner instance, previous plans or the
// process run. Control layouts have a direct jump or a single best route.
//
// Everything is PRNG-parameterised: names, key names and types, number of bridges, which keys a bridge
// knows, which fields bridges own, the order in which the data sources are registered.

import (
	"bytes"
	"context"
	"encoding/json"
	"fmt"
	"io"
	"math/rand/v2"
	"net/http"
	"sort"
	"strings"
	"sync"

	"github.com/jensneuse/abstractlogger"
	"github.com/vektah/gqlparser/v2"
	gast "github.com/vektah/gqlparser/v2/ast"

	"github.com/wundergraph/graphql-go-tools/execution/engine"
	"github.com/wundergraph/graphql-go-tools/execution/graphql"
	"github.com/wundergraph/graphql-go-tools/v2/pkg/engine/datasource/graphql_datasource"
	"github.com/wundergraph/graphql-go-tools/v2/pkg/engine/plan"
	"github.com/wundergraph/graphql-go-tools/v2/pkg/engine/resolve"

	"verifharness/internal/ref"
)

type mkSub struct {
	Name  string
	Role  string   // root | bridge | target
	Keys  []string // key fields of the entity this subgraph knows (each is a @key of its own)
	Owned []string // non-key fields of the entity resolved here
	SDL   string
	meta  *plan.DataSourceMetadata
}

type mkLayout struct {
	Entity    string
	KeyNames  []string          // k1, k2, k3 (k2 only used by chain shapes)
	KeyTypes  map[string]string // "ID!" | "String!"
	Subs      []*mkSub          // in data source REGISTRATION order
	Roots     []mkRoot
	Shape     string
	Ties      int  // number of equally short best routes from the root subgraph to the target subgraph
	Direct    bool // the target can be entered directly from the root subgraph
	IDs       []string
	SuperSDL  string
	owner     map[string]string // non-key field -> subgraph name
	subByName map[string]*mkSub
}

type mkRoot struct {
	Name string
	List bool
}

const mkPrelude = `
scalar _Any
scalar _FieldSet
directive @key(fields: _FieldSet!, resolvable: Boolean = true) repeatable on OBJECT | INTERFACE
directive @external on FIELD_DEFINITION | OBJECT
directive @requires(fields: _FieldSet!) on FIELD_DEFINITION
directive @provides(fields: _FieldSet!) on FIELD_DEFINITION
directive @shareable on FIELD_DEFINITION | OBJECT
`

var (
	mkEntityNames = []string{"Product", "Parcel", "Article", "Device", "Ticket", "Vessel"}
	mkKeyNames    = []string{"id", "upc", "sku", "ean", "code", "serial", "slug"}
	mkFieldNames  = []string{"inStock", "weight", "title", "price", "rating", "origin", "colour", "batch", "grade", "zone"}
	mkSubNames    = []string{"catalog", "stock", "linkone", "linktwo", "linkthree", "ledger", "depot", "index", "mirror", "relay"}
	mkRootNames   = []string{"product", "featured", "latest", "pick", "lookup"}
	mkListNames   = []string{"products", "all", "recent", "top"}
)

func pickDistinct(r *rand.Rand, pool []string, n int) []string {
	p := r.Perm(len(pool))
	out := make([]string, n)
	for i := range out {
		out[i] = pool[p[i]]
	}
	return out
}

// genMkLayout builds one multi-key configuration.
func genMkLayout(r *rand.Rand) *mkLayout {
	l := &mkLayout{KeyTypes: map[string]string{}, owner: map[string]string{}, subByName: map[string]*mkSub{}}
	l.Entity = mkEntityNames[r.IntN(len(mkEntityNames))]
	l.KeyNames = pickDistinct(r, mkKeyNames, 3)
	for _, k := range l.KeyNames {
		l.KeyTypes[k] = []string{"ID!", "String!"}[r.IntN(2)]
	}
	k1, k2, k3 := l.KeyNames[0], l.KeyNames[1], l.KeyNames[2]
	names := pickDistinct(r, mkSubNames, 6)
	fields := pickDistinct(r, mkFieldNames, 6)
	nf := 0
	own := func(n int) []string {
		out := fields[nf : nf+n]
		nf += n
		return out
	}
	root := &mkSub{Name: names[0], Role: "root", Keys: []string{k1}, Owned: own(r.IntN(2))}
	target := &mkSub{Name: names[1], Role: "target", Keys: []string{k3}, Owned: own(1 + r.IntN(2))}
	var bridges []*mkSub
	bridge := func(keys ...string) {
		b := &mkSub{Name: names[2+len(bridges)], Role: "bridge", Keys: keys}
		if r.IntN(3) == 0 && nf < len(fields) {
			b.Owned = own(1)
		}
		bridges = append(bridges, b)
	}
	switch x := r.IntN(20); {
	case x < 7: // 2-3 bridges that all translate k1 -> k3
		l.Shape = "bridge"
		nb := 2 + r.IntN(2)
		for i := 0; i < nb; i++ {
			bridge(k1, k3)
		}
		l.Ties = nb
	case x < 12: // chain k1 -> k2 -> k3 with two candidates at one of the two steps
		l.Shape = "chain"
		nx, ny := 1, 2
		if r.IntN(2) == 0 {
			nx, ny = 2, 1
		}
		for i := 0; i < nx; i++ {
			bridge(k1, k2)
		}
		for i := 0; i < ny; i++ {
			bridge(k2, k3)
		}
		l.Ties = nx * ny
	case x < 15: // bridges with different key sets, both one hop away from both ends
		l.Shape = "mixed-bridge"
		bridge(k1, k3)
		bridge(k1, k2, k3)
		if r.IntN(2) == 0 {
			bridge(k3, k1)
		}
		l.Ties = len(bridges)
	case x < 18: // control: the target also knows k1, the direct jump is the unique best route
		l.Shape = "direct-control"
		target.Keys = []string{k3, k1}
		if r.IntN(2) == 0 {
			target.Keys = []string{k1, k3}
		}
		bridge(k1, k3)
		bridge(k1, k3)
		l.Direct, l.Ties = true, 1
	default: // control: one bridge, one dead end
		l.Shape = "single-route-control"
		bridge(k1, k3)
		bridge(k1, k2)
		l.Ties = 1
	}
	all := append([]*mkSub{root, target}, bridges...)
	// registration order of the data sources
	r.Shuffle(len(all), func(i, j int) { all[i], all[j] = all[j], all[i] })
	l.Subs = all
	// root fields
	l.Roots = append(l.Roots, mkRoot{Name: mkRootNames[r.IntN(len(mkRootNames))]})
	if r.IntN(2) == 0 {
		l.Roots = append(l.Roots, mkRoot{Name: mkListNames[r.IntN(len(mkListNames))], List: true})
	}
	for i := 0; i < 3; i++ {
		l.IDs = append(l.IDs, fmt.Sprintf("e%d", 1+r.IntN(90)))
	}
	// SDLs and metadata
	var usedKeys []string
	seenKey := map[string]bool{}
	for _, sg := range l.Subs {
		l.subByName[sg.Name] = sg
		for _, f := range sg.Owned {
			l.owner[f] = sg.Name
		}
		for _, k := range sg.Keys {
			if !seenKey[k] {
				seenKey[k] = true
			}
		}
	}
	for _, k := range l.KeyNames {
		if seenKey[k] {
			usedKeys = append(usedKeys, k)
		}
	}
	var super strings.Builder
	super.WriteString("type Query {\n")
	for _, rf := range l.Roots {
		super.WriteString("  " + rf.Name + ": " + l.rootType(rf) + "\n")
	}
	super.WriteString("}\ntype " + l.Entity + " {\n")
	for _, k := range usedKeys {
		super.WriteString("  " + k + ": " + l.KeyTypes[k] + "\n")
	}
	var owned []string
	for f := range l.owner {
		owned = append(owned, f)
	}
	sort.Strings(owned)
	for _, f := range owned {
		super.WriteString("  " + f + ": String\n")
	}
	super.WriteString("}\n")
	l.SuperSDL = super.String()
	for _, sg := range l.Subs {
		var sb strings.Builder
		meta := &plan.DataSourceMetadata{}
		if sg.Role == "root" {
			sb.WriteString("type Query {\n")
			tf := plan.TypeField{TypeName: "Query"}
			for _, rf := range l.Roots {
				sb.WriteString("  " + rf.Name + ": " + l.rootType(rf) + "\n")
				tf.FieldNames = append(tf.FieldNames, rf.Name)
			}
			sb.WriteString("}\n")
			meta.RootNodes = append(meta.RootNodes, tf)
		}
		sb.WriteString("type " + l.Entity)
		tf := plan.TypeField{TypeName: l.Entity}
		for _, k := range sg.Keys {
			sb.WriteString(fmt.Sprintf(" @key(fields: %q)", k))
			meta.Keys = append(meta.Keys, plan.FederationFieldConfiguration{TypeName: l.Entity, SelectionSet: k})
		}
		sb.WriteString(" {\n")
		for _, k := range sg.Keys {
			sb.WriteString("  " + k + ": " + l.KeyTypes[k] + "\n")
			tf.FieldNames = append(tf.FieldNames, k)
		}
		for _, f := range sg.Owned {
			sb.WriteString("  " + f + ": String\n")
			tf.FieldNames = append(tf.FieldNames, f)
		}
		sb.WriteString("}\n")
		meta.RootNodes = append(meta.RootNodes, tf)
		sg.SDL, sg.meta = sb.String(), meta
	}
	return l
}

func (l *mkLayout) rootType(rf mkRoot) string {
	if rf.List {
		return "[" + l.Entity + "!]!"
	}
	return l.Entity
}

func (l *mkLayout) describe() string {
	var parts []string
	for _, sg := range l.Subs {
		parts = append(parts, fmt.Sprintf("%s(%s keys=%s owns=%s)", sg.Name, sg.Role, strings.Join(sg.Keys, ","), strings.Join(sg.Owned, ",")))
	}
	return fmt.Sprintf("multi-key %s: entity %s, %d equally short best route(s), direct=%v; data sources in registration order: %s", l.Shape, l.Entity, l.Ties, l.Direct, strings.Join(parts, " "))
}

// keyValue: the fixed bijection between the keys of one entity: k1 is the id itself, every other key is the id behind a prefix.
func (l *mkLayout) keyValue(key, id string) string {
	if key == l.KeyNames[0] {
		return id
	}
	return key + "-" + id
}

func (l *mkLayout) idOfKey(key, v string) (string, bool) {
	if key == l.KeyNames[0] {
		return v, true
	}
	if strings.HasPrefix(v, key+"-") {
		return strings.TrimPrefix(v, key+"-"), true
	}
	return "", false
}

// ---- the semantic subgraphs

type mkResolver struct {
	l        *mkLayout
	sub      *mkSub
	mu       sync.Mutex
	problems []string
}

func (r *mkResolver) problem(format string, a ...any) {
	r.mu.Lock()
	if len(r.problems) < 10 {
		r.problems = append(r.problems, fmt.Sprintf(format, a...))
	}
	r.mu.Unlock()
}

func (r *mkResolver) Resolve(obj *ref.Obj, _ *gast.Definition, fd *gast.FieldDefinition, _ map[string]any, _ []any) (any, error) {
	if obj.Type == "Query" {
		for _, rf := range r.l.Roots {
			if rf.Name != fd.Name {
				continue
			}
			if rf.List {
				var out []any
				for _, id := range r.l.IDs {
					out = append(out, &ref.Obj{Type: r.l.Entity, ID: id})
				}
				return out, nil
			}
			return &ref.Obj{Type: r.l.Entity, ID: r.l.IDs[0]}, nil
		}
		return nil, nil
	}
	for _, k := range r.sub.Keys {
		if k == fd.Name {
			return r.l.keyValue(k, obj.ID), nil
		}
	}
	if r.l.owner[fd.Name] != r.sub.Name {
		r.problem("field %s.%s is not resolved by subgraph %s", obj.Type, fd.Name, r.sub.Name)
	}
	return "val:" + fd.Name + ":" + obj.ID, nil
}

type mkServer struct {
	l      *mkLayout
	sub    *mkSub
	schema *gast.Schema
}

func newMkServer(l *mkLayout, sg *mkSub) (*mkServer, error) {
	sdl := sg.SDL + mkPrelude + "union _Entity = " + l.Entity + "\n"
	if sg.Role == "root" {
		sdl += "extend type Query { _entities(representations: [_Any!]!): [_Entity]! }\n"
	} else {
		sdl += "type Query { _entities(representations: [_Any!]!): [_Entity]! }\n"
	}
	s, err := gqlparser.LoadSchema(&gast.Source{Name: sg.Name, Input: sdl})
	if err != nil {
		return nil, fmt.Errorf("multi-key subgraph %s SDL rejected by gqlparser: %v\n%s", sg.Name, err, sdl)
	}
	return &mkServer{l: l, sub: sg, schema: s}, nil
}

// handle answers one subgraph request. An entity is identified by ANY key of this subgraph that the
// representation carries.
func (s *mkServer) handle(body []byte) ([]byte, reqRec, []string) {
	rec := reqRec{Sub: s.sub.Name, Body: string(body)}
	var in struct {
		Query     string         `json:"query"`
		Variables map[string]any `json:"variables"`
	}
	dec := json.NewDecoder(bytes.NewReader(body))
	dec.UseNumber()
	if err := dec.Decode(&in); err != nil {
		return []byte(`{"errors":[{"message":"bad request"}]}`), rec, []string{"request body is not valid JSON"}
	}
	rec.Query, rec.Vars = in.Query, ref.Canon(anyOfMap(in.Variables))
	doc, gerrs := gqlparser.LoadQuery(s.schema, in.Query)
	if gerrs != nil {
		return []byte(`{"errors":[{"message":"invalid operation"}]}`), rec, []string{"operation is not valid for the subgraph schema: " + gerrs.Error()}
	}
	op := doc.Operations[0]
	co := ref.Coercer{Schema: s.schema}
	vars, cerr := co.CoerceVariableValues(op, in.Variables)
	if cerr != nil {
		return []byte(`{"errors":[{"message":"invalid variables"}]}`), rec, []string{"variables are not coercible: " + cerr.Error()}
	}
	rs := &mkResolver{l: s.l, sub: s.sub}
	ex := &ref.Executor{Schema: s.schema, Resolver: rs, Vars: vars}
	data := map[string]any{}
	var plain gast.SelectionSet
	for _, sel := range op.SelectionSet {
		f, ok := sel.(*gast.Field)
		if !ok || f.Name != "_entities" {
			plain = append(plain, sel)
			continue
		}
		var reps []any
		if a := f.Arguments.ForName("representations"); a != nil {
			if v, err := a.Value.Value(in.Variables); err == nil {
				reps, _ = v.([]any)
			}
		}
		out := make([]any, 0, len(reps))
		for i, rp := range reps {
			rep, _ := rp.(map[string]any)
			id, found := "", false
			for _, k := range s.sub.Keys {
				var kv string
				switch x := rep[k].(type) {
				case string:
					kv = x
				case json.Number:
					kv = string(x)
				default:
					continue
				}
				if v, ok := s.l.idOfKey(k, kv); ok {
					id, found = v, true
					break
				}
			}
			if tn, _ := rep["__typename"].(string); tn != s.l.Entity || !found {
				rs.problem("representation %d carries no key of %s that subgraph %s knows (%s): %s", i, s.l.Entity, s.sub.Name, strings.Join(s.sub.Keys, ","), ref.Canon(anyOfMap(rep)))
				out = append(out, nil)
				continue
			}
			res, ok := ex.ExecuteSelection(&ref.Obj{Type: s.l.Entity, ID: id, Rep: rep}, f.SelectionSet, []any{f.Alias, i})
			if !ok {
				out = append(out, nil)
				continue
			}
			out = append(out, res)
		}
		key := f.Alias
		if key == "" {
			key = f.Name
		}
		data[key] = out
	}
	var dataOut any = data
	if len(plain) > 0 {
		res, ok := ex.ExecuteSelection(&ref.Obj{Type: "Query", ID: "root"}, plain, nil)
		if !ok {
			dataOut = nil
		} else {
			for k, v := range res {
				data[k] = v
			}
		}
	}
	out := map[string]any{"data": dataOut}
	if len(ex.Errors) > 0 {
		var es []map[string]any
		for _, e := range ex.Errors {
			es = append(es, map[string]any{"message": e.Message, "path": e.Path})
		}
		out["errors"] = es
	}
	b, err := json.Marshal(out)
	if err != nil {
		return []byte(`{"errors":[{"message":"internal"}]}`), rec, []string{"response not serialisable"}
	}
	return b, rec, rs.problems
}

// mkTransport: recording round tripper over the semantic subgraphs.
type subgraphHandler interface {
	handle(body []byte) ([]byte, reqRec, []string)
}

type mkTransport struct {
	servers map[string]subgraphHandler
	mu      sync.Mutex
	log     []reqRec
	probs   []string
}

func (t *mkTransport) RoundTrip(req *http.Request) (*http.Response, error) {
	body, _ := io.ReadAll(req.Body)
	req.Body.Close()
	srv := t.servers[req.URL.Host]
	if srv == nil {
		return nil, fmt.Errorf("no such subgraph %q", req.URL.Host)
	}
	resp, rec, problems := srv.handle(body)
	t.mu.Lock()
	t.log = append(t.log, rec)
	t.probs = append(t.probs, problems...)
	t.mu.Unlock()
	return &http.Response{StatusCode: 200, Status: "200", Body: io.NopCloser(bytes.NewReader(resp)), Header: http.Header{"Content-Type": []string{"application/json"}}, ContentLength: int64(len(resp)), Request: req}, nil
}

func (t *mkTransport) reset() {
	t.mu.Lock()
	t.log, t.probs = nil, nil
	t.mu.Unlock()
}

func (t *mkTransport) snapshot() ([]reqRec, int, []string) {
	t.mu.Lock()
	out := append([]reqRec(nil), t.log...)
	probs := append([]string(nil), t.probs...)
	t.mu.Unlock()
	nEnt := 0
	for _, r := range out {
		if strings.Contains(r.Query, "_entities") {
			nEnt++
		}
	}
	sortReqs(out)
	return out, nEnt, probs
}

// mkRig builds a real ExecutionEngine over the layout (same construction as fed.NewGateway).
func mkRig(l *mkLayout, mask int) (*rig, error) {
	t := &mkTransport{servers: map[string]subgraphHandler{}}
	for _, sg := range l.Subs {
		srv, err := newMkServer(l, sg)
		if err != nil {
			return nil, err
		}
		t.servers[sg.Name] = srv
	}
	ctx, cancel := context.WithCancel(context.Background())
	client := &http.Client{Transport: t}
	factory, err := graphql_datasource.NewFactory(ctx, client, graphql_datasource.NewGraphQLSubscriptionClient(ctx, graphql_datasource.WithUpgradeClient(client), graphql_datasource.WithStreamingClient(client)))
	if err != nil {
		cancel()
		return nil, err
	}
	var dss []plan.DataSource
	for _, sg := range l.Subs {
		sc, err := graphql_datasource.NewSchemaConfiguration(sg.SDL, &graphql_datasource.FederationConfiguration{Enabled: true, ServiceSDL: sg.SDL})
		if err != nil {
			cancel()
			return nil, fmt.Errorf("schema configuration of %s: %v\n%s", sg.Name, err, sg.SDL)
		}
		cfg, err := graphql_datasource.NewConfiguration(graphql_datasource.ConfigurationInput{
			Fetch:               &graphql_datasource.FetchConfiguration{URL: "http://" + sg.Name + "/", Method: "POST"},
			SchemaConfiguration: sc,
		})
		if err != nil {
			cancel()
			return nil, err
		}
		meta := *sg.meta
		d, err := plan.NewDataSourceConfigurationWithName[graphql_datasource.Configuration](sg.Name, sg.Name, factory, &meta, cfg)
		if err != nil {
			cancel()
			return nil, fmt.Errorf("datasource %s: %v", sg.Name, err)
		}
		dss = append(dss, d)
	}
	schema, err := graphql.NewSchemaFromString(l.SuperSDL)
	if err != nil {
		cancel()
		return nil, fmt.Errorf("supergraph rejected by the repository: %v\n%s", err, l.SuperSDL)
	}
	conf := engine.NewConfiguration(schema)
	conf.SetDataSources(dss)
	applyOptions(&conf, mask)
	eng, err := engine.NewExecutionEngine(ctx, abstractlogger.NoopLogger, conf, resolve.ResolverOptions{MaxConcurrency: 64})
	if err != nil {
		cancel()
		return nil, fmt.Errorf("engine: %v", err)
	}
	if mask&1 != 0 {
		eng.VerifSetPostProcessorOptions(postprocessOptions(mask)...)
	}
	return &rig{Engine: eng, reset: t.reset, log: t.snapshot, close: cancel}, nil
}

// ---- operations

// genMultiKeyInput: a multi-key layout and nOps valid-by-construction operations on it. Every
// operation selects at least one field of the target subgraph; "pure" operations select nothing a
// bridge owns, so every request to a bridge is a routing hop.
func genMultiKeyInput(r *rand.Rand, nOps int) (*input, error) {
	l := genMkLayout(r)
	in := &input{family: "mk", superSDL: l.SuperSDL, describe: l.describe(), feat: "mk:" + l.Shape, mkInfo: l}
	in.ident = []any{l.SuperSDL, strings.Join(l.IDs, ",")}
	for _, sg := range l.Subs {
		meta, _ := json.Marshal(sg.meta)
		in.ident = append(in.ident, sg.Name, sg.SDL, meta)
		in.subs = append(in.subs, subDesc{sg.Name, sg.SDL})
	}
	in.mk = func(mask int) (*rig, error) { return mkRig(l, mask) }
	superGql, err := gqlparser.LoadSchema(&gast.Source{Name: "super", Input: l.SuperSDL})
	if err != nil {
		return nil, fmt.Errorf("multi-key supergraph self-check: %v\n%s", err, l.SuperSDL)
	}
	var target, bridgeOwned, rootOwned, keys []string
	for _, sg := range l.Subs {
		switch sg.Role {
		case "target":
			target = append(target, sg.Owned...)
		case "bridge":
			bridgeOwned = append(bridgeOwned, sg.Owned...)
		case "root":
			rootOwned = append(rootOwned, sg.Owned...)
		}
	}
	for _, k := range l.KeyNames {
		if strings.Contains(l.SuperSDL, "  "+k+": ") {
			keys = append(keys, k)
		}
	}
	sort.Strings(bridgeOwned)
	for k := 0; k < nOps; k++ {
		pure := k == 0 || r.IntN(3) != 0
		aliasN := 0
		selection := func() string {
			fs := []string{target[r.IntN(len(target))]}
			if len(target) > 1 && r.IntN(2) == 0 {
				fs = append(fs, target[(r.IntN(len(target)))])
			}
			if r.IntN(3) == 0 {
				fs = append(fs, keys[r.IntN(len(keys))])
			}
			if r.IntN(4) == 0 {
				fs = append(fs, "__typename")
			}
			if len(rootOwned) > 0 && r.IntN(3) == 0 {
				fs = append(fs, rootOwned[0])
			}
			if !pure && len(bridgeOwned) > 0 {
				fs = append(fs, bridgeOwned[r.IntN(len(bridgeOwned))])
			}
			r.Shuffle(len(fs), func(i, j int) { fs[i], fs[j] = fs[j], fs[i] })
			seen := map[string]bool{}
			var out []string
			for _, f := range fs {
				if seen[f] {
					continue
				}
				seen[f] = true
				if f != "__typename" && r.IntN(5) == 0 {
					aliasN++
					f = fmt.Sprintf("a%d: %s", aliasN, f)
				}
				out = append(out, f)
			}
			return "{ " + strings.Join(out, " ") + " }"
		}
		var roots []string
		nr := 1 + r.IntN(2)
		for i := 0; i < nr; i++ {
			rf := l.Roots[r.IntN(len(l.Roots))]
			name := rf.Name
			if i > 0 {
				name = fmt.Sprintf("r%d: %s", i, rf.Name)
			}
			roots = append(roots, name+" "+selection())
		}
		text := "{ " + strings.Join(roots, " ") + " }"
		if r.IntN(3) == 0 {
			text = "query Q " + text
		}
		if _, gerrs := gqlparser.LoadQuery(superGql, text); gerrs != nil {
			return nil, fmt.Errorf("multi-key operation self-check: %v\n%s", gerrs, text)
		}
		tag := "mk-pure"
		if !pure && len(bridgeOwned) > 0 {
			tag = "mk-bridge-field"
		}
		in.ops = append(in.ops, &request{Text: text, Vars: []byte(`{}`), Tag: tag, Base: k})
	}
	return in, nil
}

// mkEvidence counts what a multi-key operation exercised (engine 0's requests).
func mkEvidence(res interface{ Count(string, int64) }, in *input, q *request, o *obs) {
	l := in.mkInfo
	bridgeHops, targetReqs := 0, 0
	for _, rq := range o.Reqs {
		sg := l.subByName[rq.Sub]
		if sg == nil || !strings.Contains(rq.Query, "_entities") {
			continue
		}
		switch sg.Role {
		case "bridge":
			bridgeHops++
		case "target":
			targetReqs++
		}
	}
	res.Count("mk_operations", 1)
	if targetReqs > 0 {
		res.Count("mk_operations_reaching_the_target_subgraph", 1)
	}
	if q.Tag == "mk-pure" && bridgeHops > 0 {
		res.Count("mk_operations_routed_through_a_bridge", 1)
		if l.Ties >= 2 && !l.Direct {
			res.Count("mk_operations_with_tied_indirect_routes", 1)
		}
	}
	if l.Direct && q.Tag == "mk-pure" && bridgeHops == 0 && targetReqs > 0 {
		res.Count("mk_control_operations_direct_jump", 1)
	}
	if strings.Contains(o.Raw, `"errors"`) {
		res.Count("mk_responses_with_errors", 1)
	} else if o.Err == "" {
		res.Count("mk_clean_responses", 1)
	}
}
