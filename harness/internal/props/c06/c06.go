// Package c06: variable validation accepts exactly the coercible variable values.
package c06

import (
	"encoding/json"
	"fmt"
	"regexp"
	"strings"

	"github.com/wundergraph/graphql-go-tools/execution/graphql"
	"github.com/wundergraph/graphql-go-tools/v2/pkg/astnormalization"
	"github.com/wundergraph/graphql-go-tools/v2/pkg/operationreport"
	"github.com/wundergraph/graphql-go-tools/v2/pkg/variablesvalidation"

	"verifharness/internal/fw"
	"verifharness/internal/gen"
	"verifharness/internal/ref"
	"verifharness/internal/rig"
)

type c06 struct{ fw.Base }

func init() { fw.Register(c06{}) }

func (c06) ID() string { return "C06" }
func (c06) NumCases(tier string) int {
	if tier == fw.Thorough {
		return 60000
	}
	return 4000
}
func (c06) Rule() string {
	return "case = generated schema × valid-by-construction operation whose arguments are mostly variables (every wrapper pattern up to depth 2 over scalars, enums, input objects incl. nested / recursive / @oneOf / defaults / required fields, custom scalars; variable defaults; absent / null values; single-item list coercion) × JSON values built FROM the variable types (coercible by construction) + up to 4 copies with exactly one coercion-targeted mutation (" + fmt.Sprint(len(gen.VarMutationKinds)) + " kinds rotated over case indexes). Ground truth: construction, cross-checked by the harness's reference coercer (spec input coercion); judged only when both agree. Observed: ExecutionEngine.Execute admission (real engine; refusal before the request options are reached) and, for refused assignments, the standalone VariablesValidator with DisableExposingVariablesContent. Non-trivial = >=1 mutated assignment judged; distinct by hash of (schema, operation, assignments)."
}
func (c06) Assumptions() []string {
	return []string{"reference coercer implements the spec's input coercion for JSON transport", "strictly numeric offences (1.5 or 2^31 for Int) are labelled classes of their own", "a refusal of the unmutated assignment whose message is not about variables is counted and left to C04"}
}
func (c06) RequiredCounters(string) []string {
	return []string{"valid_judged", "valid_admitted", "mutants_judged", "mutants_refused", "rejection_names_variable", "no_echo_checked"}
}

func varsJSON(vals map[string]*gen.Val) map[string]any {
	m := map[string]any{}
	for k, v := range vals {
		x, _ := v.JSON(nil)
		m[k] = x
	}
	return m
}

var reVarMsg = regexp.MustCompile(`[Vv]ariable`)

// standaloneRejection replays the admission steps up to the remap and runs the standalone
// validator with content exposure disabled; returns its error text ("" if it accepts).
func standaloneRejection(schema *graphql.Schema, query, opName string, vars []byte) (string, bool) {
	req := &graphql.Request{Query: query, OperationName: opName, Variables: vars}
	res, err := req.Normalize(schema,
		astnormalization.WithRemoveFragmentDefinitions(),
		astnormalization.WithRemoveUnusedVariables(),
		astnormalization.WithInlineFragmentSpreads())
	if err != nil || !res.Successful {
		return "", false
	}
	if vres, err := req.ValidateForSchema(schema); err != nil || !vres.Valid {
		return "", false
	}
	res, err = req.Normalize(schema, astnormalization.WithExtractVariables(), astnormalization.WithRemoveUnusedVariables())
	if err != nil || !res.Successful {
		return "", false
	}
	var rep operationreport.Report
	remap := astnormalization.NewVariablesMapper().NormalizeOperation(req.Document(), schema.Document(), &rep)
	if rep.HasErrors() {
		return "", false
	}
	v := variablesvalidation.NewVariablesValidator(variablesvalidation.VariablesValidatorOptions{DisableExposingVariablesContent: true})
	if err := v.ValidateWithRemap(req.Document(), schema.Document(), req.Variables, remap); err != nil {
		return err.Error(), true
	}
	return "", true
}

func (p c06) Run(c *fw.Ctx, idx int) fw.Result {
	res := fw.Result{}
	r := c.Rng(idx, "c06")
	sp := gen.DefaultProfile(r)
	sp.Inputs = 2 + r.IntN(3)
	sp.OneOf = true
	sp.Keywords = idx%9 == 0
	schema := gen.GenSchema(r, sp)
	sdl := schema.SDL()
	ss, err := rig.LoadSchemas(sdl)
	if err != nil {
		res.Broken("schema self-check: "+err.Error(), map[string]any{"sdl": sdl})
		return res
	}
	op := gen.OpProfile{MaxDepth: 1 + r.IntN(2), MaxFields: 2 + r.IntN(3), Variables: true, Aliases: true, Typename: true, VarBias: 7, Fragments: idx%4 == 0, MultiOps: idx%10 == 0}
	doc, vals := gen.GenOperation(r, schema, op)
	opName := "Main"
	if !op.MultiOps {
		doc.Ops[0].Name = "Q"
		opName = "Q"
	}
	var mainOp *gen.Op
	for _, o := range doc.Ops {
		if o.Name == opName {
			mainOp = o
		}
	}
	text := doc.String()
	vm := varsJSON(vals)
	vb, _ := json.Marshal(vm)
	detail := func(extra map[string]any) map[string]any {
		m := map[string]any{"sdl": sdl, "operation": text, "operationName": opName, "variables": string(vb)}
		for k, v := range extra {
			m[k] = v
		}
		return m
	}
	qd, gerrs := ss.LoadQuery(text)
	if gerrs != nil {
		res.Broken("operation self-check: "+gerrs.Error(), detail(nil))
		return res
	}
	gop := rig.PickOperation(qd, opName)
	coercer := ref.Coercer{Schema: ss.Gql}
	decoded, _ := ref.DecodeJSON(vb)
	dm, _ := decoded.(map[string]any)
	if _, cerr := coercer.CoerceVariableValues(gop, dm); cerr != nil {
		res.Broken("variables self-check (coercible by construction, refused by the reference coercer): "+cerr.Error(), detail(nil))
		return res
	}
	eng, err := rig.NewAdmissionEngine(ss.Repo)
	if err != nil {
		res.Broken("engine construction: "+err.Error(), detail(nil))
		return res
	}
	defer eng.Close()
	fw.SetContext(detail(nil))

	// ---- the coercible assignment must be admitted
	res.Count("valid_judged", 1)
	res.Count("variables_in_case", int64(len(mainOp.Vars)))
	a := eng.Admit(text, opName, vb)
	if a.Stage != "" {
		if reVarMsg.MatchString(a.Err) {
			res.Violate("rejects-coercible", "a coercible variable assignment is refused: "+a.Err, map[string]string{"message_class": classify(a.Err), "multi_operation": fmt.Sprint(op.MultiOps)}, detail(nil))
		} else {
			// refused for a reason that has nothing to do with variables (C04 decides those): the mutated
			// assignments would be refused for the same reason, so nothing can be learned from them
			res.Count("valid_refused_for_other_reason", 1)
			res.Inconclusive = "operation-refused-for-other-reason: " + a.Err
			return res
		}
	} else {
		res.Count("valid_admitted", 1)
	}

	// ---- mutated assignments must be refused, naming variable and path, without echoing content when disabled
	var mutKeys []string
	nk := len(gen.VarMutationKinds)
	for k := 0; k < 4; k++ {
		kind := gen.VarMutationKinds[(idx*4+k)%nk]
		mv, m, ok := gen.MutateVariables(r, schema, mainOp.Vars, dm, kind)
		if !ok {
			res.Count("mutation_not_applicable", 1)
			continue
		}
		mb, _ := json.Marshal(mv)
		mdetail := func(extra map[string]any) map[string]any {
			d := detail(map[string]any{"mutated_variables": string(mb), "mutation": m.Kind, "variable": m.Var, "path": m.Path})
			for k, v := range extra {
				d[k] = v
			}
			return d
		}
		fw.SetContext(mdetail(nil))
		md, _ := ref.DecodeJSON(mb)
		mdm, _ := md.(map[string]any)
		if _, cerr := coercer.CoerceVariableValues(gop, mdm); cerr == nil {
			res.Count("oracle_disagreement", 1)
			res.Count("oracle_disagreement_"+kind, 1)
			continue
		}
		res.Count("mutants_judged", 1)
		res.Count("judged_"+kind, 1)
		res.Observe("mutation_kinds_judged", kind)
		mutKeys = append(mutKeys, string(mb))
		match := map[string]string{"mutation": m.Kind, "nested": fmt.Sprint(len(m.Path) > 0), "variable_inlined_into_literal": fmt.Sprint(usedInsideLiteral(doc, m.Var))}
		ma := eng.Admit(text, opName, mb)
		if ma.Stage == "" {
			res.Violate("accepts-uncoercible", "a variable assignment that is not coercible ("+m.Kind+" at $"+m.Var+rig.MustJSON(m.Path)+") is admitted", match, mdetail(nil))
			continue
		}
		res.Count("mutants_refused", 1)
		// rejection quality: names the variable (client-declared name) and the path elements
		if !strings.Contains(ma.Err, "$"+m.Var) && !strings.Contains(ma.Err, `"`+m.Var+`"`) {
			res.Violate("rejection-lacks-variable", "the rejection does not name the offending variable $"+m.Var+": "+ma.Err, match, mdetail(map[string]any{"error": ma.Err}))
		} else {
			res.Count("rejection_names_variable", 1)
			missing := ""
			for _, pe := range m.Path {
				// field names are required; list indexes are counted but not judged (their rendering is a
				// formatting choice of the validator)
				s, isField := pe.(string)
				if !isField {
					if strings.Contains(ma.Err, fmt.Sprintf("[%v]", pe)) {
						res.Count("rejection_names_index", 1)
					} else {
						res.Count("rejection_omits_index", 1)
					}
					continue
				}
				if !strings.Contains(ma.Err, s) {
					missing = s
					break
				}
			}
			if missing != "" {
				res.Violate("rejection-lacks-path", "the rejection does not name path element "+missing+" of $"+m.Var+rig.MustJSON(m.Path)+": "+ma.Err, match, mdetail(map[string]any{"error": ma.Err}))
			} else if len(m.Path) > 0 {
				res.Count("rejection_names_path", 1)
			}
		}
		// no echo of variable content when exposure is disabled
		if m.Sentinel != "" {
			msg, ran := standaloneRejection(ss.Repo, text, opName, mb)
			if ran {
				res.Count("no_echo_checked", 1)
				if msg == "" {
					res.Violate("accepts-uncoercible", "the standalone validator (content exposure disabled) accepts an assignment the engine refuses", map[string]string{"mutation": m.Kind, "nested": fmt.Sprint(len(m.Path) > 0), "standalone": "true"}, mdetail(nil))
				} else if strings.Contains(msg, m.Sentinel) {
					res.Violate("echoes-content", "variable content appears in the rejection although DisableExposingVariablesContent is set: "+msg, match, mdetail(map[string]any{"error": msg}))
				}
			}
		}
	}
	res.Key = fw.HashKey(sdl, text, string(vb), mutKeys)
	res.Nontrivial = len(mutKeys) > 0
	res.Sample = map[string]any{"operation": text, "variables": string(vb), "mutated": mutKeys}
	return res
}

func classify(msg string) string {
	switch {
	case strings.Contains(msg, "to be an object"):
		return "expected-object"
	case strings.Contains(msg, "want:") || strings.Contains(msg, "Got input type"):
		return "type-mismatch"
	case strings.Contains(msg, "required type") || strings.Contains(msg, "was not provided"):
		return "required-not-provided"
	case strings.Contains(msg, "cannot represent"):
		return "cannot-represent"
	case strings.Contains(msg, "OneOf") || strings.Contains(msg, "oneOf"):
		return "oneof"
	case strings.Contains(msg, "not defined by type") || strings.Contains(msg, "unknown"):
		return "unknown-field"
	}
	return "other"
}

func usedInsideLiteral(doc *gen.Doc, name string) bool { return gen.VarUsedInsideLiteral(doc, name) }
